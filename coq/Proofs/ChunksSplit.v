(* C15: sender-side splitting (snapshot.go splitBySnapshotFile / getChunks). *)
From Coq Require Import List NArith Bool Lia.
From Coq Require Import ZifyN ZifyNat ZifyBool.
From DB Require Import Base.Bytes Model.Chunks.
Import ListNotations.
Open Scope N_scope.
Definition nsum (l : list N) : N := fold_right N.add 0 l.

Lemma nseq_succ : forall n, nseq (n + 1) = nseq n ++ [n].
Proof.
  intro n. unfold nseq. replace (N.to_nat (n + 1)) with (S (N.to_nat n)) by lia.
  rewrite seq_S, map_app. simpl. rewrite N2Nat.id. reflexivity.
Qed.
Lemma In_nseq : forall n i, In i (nseq n) -> i < n.
Proof.
  intros n i H. unfold nseq in H. apply in_map_iff in H. destruct H as [x [Hx Hi]].
  apply in_seq in Hi. subst i.
  remember (N.to_nat n) as k eqn:Hk.
  assert (E : n = N.of_nat k) by (subst k; symmetry; apply N2Nat.id).
  rewrite E. unfold N.lt. rewrite <- Nat2N.inj_compare. apply Nat.compare_lt_iff. lia.
Qed.
Lemma nlen_nseq : forall n, nlen (nseq n) = n.
Proof. intro n. unfold nlen, nseq. rewrite map_length, seq_length. apply N2Nat.id. Qed.
Lemma nsum_app : forall a b, nsum (a ++ b) = nsum a + nsum b.
Proof. unfold nsum. induction a as [|x a IH]; intro b; simpl; auto. rewrite IH. apply N.add_assoc. Qed.
Lemma nsum_const : forall (f : N -> N) c l, (forall i, In i l -> f i = c) -> nsum (map f l) = nlen l * c.
Proof.
  induction l as [|x l IH]; intro H; [reflexivity|].
  change (nsum (map f (x :: l))) with (f x + nsum (map f l)).
  rewrite H by (left; reflexivity). rewrite IH by (intros; apply H; right; assumption).
  change (nlen (x :: l)) with (N.of_nat (S (length l))).
  rewrite Nat2N.inj_succ, N.mul_succ_l. unfold nlen. apply N.add_comm.
Qed.

Ltac Zify.zify_post_hook ::= Z.div_mod_to_equations.

Section Split.
  Variable cs : N.
  Hypothesis cs_pos : 0 < cs.

  (* one file: the chunk sizes add up to the file size, every chunk has between 1 and
     cs bytes, file chunk ids are 0..cc-1, chunk ids continue from [start], and every
     chunk carries the file's size, chunk count, path and file info flag *)
  Lemma split_file_covers :
    forall msg path fsize start sf, 0 < fsize ->
      let l := split_file cs msg path fsize start sf in
      let cc := chunk_count cs fsize in
      nsum (map c_size l) = fsize /\
      map c_fcid l = nseq cc /\
      map c_id l = map (N.add start) (nseq cc) /\
      nlen l = cc /\
      Forall (fun m => 1 <= c_size m <= cs /\ c_fccount m = cc /\ c_fsize m = fsize /\
                       c_path m = path /\ c_size m = (if c_fcid m =? cc - 1 then fsize - (cc - 1) * cs else cs) /\
                       c_hasfi m = (match sf with Some _ => true | None => false end)) l.
  Proof.
    intros msg path fsize start sf Hf l cc.
    set (q := (fsize - 1) / cs).
    assert (Hcc : cc = q + 1) by reflexivity.
    assert (Hq : q * cs <= fsize - 1 /\ fsize - 1 < (q + 1) * cs) by (unfold q; nia).
    unfold l, split_file. fold cc. rewrite !map_map. simpl.
    repeat split.
    - rewrite Hcc, nseq_succ, map_app, nsum_app. simpl.
      rewrite (nsum_const _ cs).
      + rewrite nlen_nseq. replace (q + 1 - 1) with q by lia. rewrite N.eqb_refl. unfold nsum. simpl. lia.
      + intros i Hi. apply In_nseq in Hi. replace (q + 1 - 1) with q by lia.
        destruct (i =? q) eqn:E; auto. apply N.eqb_eq in E. lia.
    - rewrite map_id. reflexivity.
    - unfold nlen. rewrite map_length. fold (nlen (nseq cc)). apply nlen_nseq.
    - apply Forall_forall. intros m Hm. apply in_map_iff in Hm. destruct Hm as [i [Hm Hi]]. subst m. simpl.
      apply In_nseq in Hi. rewrite Hcc in *. replace (q + 1 - 1) with q by lia.
      destruct (i =? q) eqn:E; [apply N.eqb_eq in E|apply N.eqb_neq in E];
        repeat split; try lia; destruct sf; reflexivity.
  Qed.

  (* getChunks stamps every chunk with the total number of chunks *)
  Lemma get_chunks_count : forall msg l, get_chunks cs msg = Some l ->
      Forall (fun m => c_count m = nlen l) l /\
      (0 < m_fsize msg /\ Forall (fun f => 0 < sf_size f) (m_files msg)).
  Proof.
    intros msg l H. unfold get_chunks in H.
    destruct (_ || _) eqn:E; [discriminate|]. injection H as H. subst l.
    apply orb_false_iff in E as [E1 E2]. split.
    - unfold nlen. rewrite map_length. apply Forall_forall. intros m Hm.
      apply in_map_iff in Hm. destruct Hm as [x [Hx _]]. subst m. reflexivity.
    - split; [apply N.eqb_neq in E1; lia|].
      apply Forall_forall. intros f Hf.
      assert (X : existsb (fun f0 => sf_size f0 =? 0) (m_files msg) = false) by exact E2.
      destruct (sf_size f =? 0) eqn:E; [|apply N.eqb_neq in E; lia].
      exfalso. assert (existsb (fun f0 => sf_size f0 =? 0) (m_files msg) = true)
        by (apply existsb_exists; exists f; auto). congruence.
  Qed.
End Split.

(* ---------- split_covers_exactly (file mode) ---------- *)
(* the byte range (offset, size) a chunk covers in its file: loadChunkData reads
   ChunkSize bytes at FileChunkId * chunk size *)
Definition range (cs : N) (m : cmeta) : N * N := (c_fcid m * cs, c_size m).

(* [rs] are consecutive non-empty ranges starting at [off] and ending at [total] *)
Fixpoint covers (off : N) (rs : list (N * N)) (total : N) : Prop :=
  match rs with
  | [] => off = total
  | (o, s) :: r => o = off /\ 0 < s /\ covers (off + s) r total
  end.

Fixpoint mids_from (i : N) (l : list cmeta) : Prop :=
  match l with
  | [] => True
  | m :: r => c_id m = i /\ mids_from (i + 1) r
  end.

Lemma mids_from_app : forall l1 l2 i, mids_from i l1 -> mids_from (i + nlen l1) l2 -> mids_from i (l1 ++ l2).
Proof.
  induction l1 as [|m l1 IH]; intros l2 i H1 H2; simpl.
  - unfold nlen in H2. simpl in H2. rewrite N.add_0_r in H2. exact H2.
  - destruct H1 as [A B]. split; auto. apply IH; auto.
    replace (i + 1 + nlen l1) with (i + nlen (m :: l1)); auto.
    unfold nlen. simpl length. rewrite Nat2N.inj_succ. lia.
Qed.

Lemma mids_from_map : forall (f : cmeta -> cmeta), (forall m, c_id (f m) = c_id m) ->
                                                   forall l i, mids_from i l -> mids_from i (map f l).
Proof. intros f Hf. induction l as [|m l IH]; intros i H; simpl; auto. destruct H. rewrite Hf. auto. Qed.

Section SplitFull.
  Variable cs : N.
  Hypothesis cs_pos : 0 < cs.

  Definition file_chunk (msg : ssmsg) (path : bytes) (fsize start : N) (sf : option sfile) (i : N) : cmeta :=
    let cc := chunk_count cs fsize in
    mkCMeta (m_shard msg) (m_to msg) (m_from msg) (start + i)
            (if i =? cc - 1 then fsize - (cc - 1) * cs else cs) 0
            (m_index msg) (m_term msg) path fsize 0 i cc
            (match sf with Some _ => true | None => false end)
            (match sf with Some f => f | None => sfile0 end)
            transport_bin_version (m_odi msg) (m_witness msg).

  Lemma split_file_eq : forall msg path fsize start sf,
      split_file cs msg path fsize start sf =
      map (fun k => file_chunk msg path fsize start sf (N.of_nat k)) (seq 0 (N.to_nat (chunk_count cs fsize))).
  Proof. intros. unfold split_file, nseq. rewrite map_map. reflexivity. Qed.

  (* the ranges of one file's chunks partition [0, fsize) in order *)
  Lemma seq_covers : forall msg path fsize start sf, 0 < fsize ->
      forall len s, (s + len = N.to_nat (chunk_count cs fsize))%nat ->
      covers (N.min (N.of_nat s * cs) fsize)
             (map (fun k => range cs (file_chunk msg path fsize start sf (N.of_nat k))) (seq s len)) fsize /\
      mids_from (start + N.of_nat s) (map (fun k => file_chunk msg path fsize start sf (N.of_nat k)) (seq s len)).
  Proof.
    intros msg path fsize start sf Hf.
    set (q := (fsize - 1) / cs).
    assert (Hcc : chunk_count cs fsize = q + 1) by reflexivity.
    assert (Hq : q * cs <= fsize - 1 /\ fsize - 1 < (q + 1) * cs) by (unfold q; nia).
    induction len as [|len IH]; intros s Hs; simpl.
    - split; auto. rewrite Hcc in Hs. apply N.min_r. nia.
    - assert (Hsq : N.of_nat s <= q) by (rewrite Hcc in Hs; lia).
      destruct (IH (S s)) as [C M]; [lia|].
      unfold range at 1. simpl c_fcid. simpl c_size.
      split.
      + split; [symmetry; apply N.min_l; nia|].
        destruct (N.of_nat s =? chunk_count cs fsize - 1) eqn:E.
        * apply N.eqb_eq in E. split; [nia|].
          replace (N.min (N.of_nat s * cs) fsize + (fsize - (chunk_count cs fsize - 1) * cs))
            with (N.min (N.of_nat (S s) * cs) fsize); [exact C|].
          rewrite (N.min_r (N.of_nat (S s) * cs) fsize) by nia. rewrite (N.min_l (N.of_nat s * cs) fsize) by nia. nia.
        * apply N.eqb_neq in E. split; [lia|].
          replace (N.min (N.of_nat s * cs) fsize + cs) with (N.min (N.of_nat (S s) * cs) fsize); [exact C|].
          rewrite (N.min_l (N.of_nat (S s) * cs) fsize) by nia. rewrite (N.min_l (N.of_nat s * cs) fsize) by nia. nia.
      + split; [reflexivity|]. replace (start + N.of_nat s + 1) with (start + N.of_nat (S s)) by lia. exact M.
  Qed.

  Lemma split_file_partition : forall msg path fsize start sf, 0 < fsize ->
      covers 0 (map (range cs) (split_file cs msg path fsize start sf)) fsize /\
      mids_from start (split_file cs msg path fsize start sf).
  Proof.
    intros msg path fsize start sf Hf. rewrite split_file_eq, map_map.
    destruct (seq_covers msg path fsize start sf Hf (N.to_nat (chunk_count cs fsize)) 0%nat eq_refl) as [C M].
    simpl in C. rewrite N.min_l in C by lia. rewrite N.add_0_r in M. split; assumption.
  Qed.

  (* the chunks of a message, file by file *)
  Fixpoint split_segs (msg : ssmsg) (files : list sfile) (start : N) : list (list cmeta) :=
    match files with
    | [] => []
    | f :: r =>
      let l := split_file cs msg (sf_path f) (sf_size f) start (Some f) in
      l :: split_segs msg r (start + nlen l)
    end.

  Lemma split_files_concat : forall msg files start,
      split_files cs msg files start = concat (split_segs msg files start).
  Proof. induction files as [|f r IH]; intro start; simpl; auto. rewrite IH. reflexivity. Qed.

  (* one file's segment: ranges partition [0, size), metadata consistent *)
  Definition seg_ok (path : bytes) (fsize : N) (sf : option sfile) (seg : list cmeta) : Prop :=
    covers 0 (map (range cs) seg) fsize /\
    map c_fcid seg = nseq (nlen seg) /\
    nlen seg = chunk_count cs fsize /\
    Forall (fun m => c_path m = path /\ c_fsize m = fsize /\ c_fccount m = nlen seg /\ 1 <= c_size m <= cs /\
                     c_hasfi m = (match sf with Some _ => true | None => false end) /\
                     c_fi m = (match sf with Some f => f | None => sfile0 end)) seg.

  Lemma split_file_seg_ok : forall msg path fsize start sf, 0 < fsize ->
      seg_ok path fsize sf (split_file cs msg path fsize start sf).
  Proof.
    intros msg path fsize start sf Hf.
    destruct (split_file_covers cs cs_pos msg path fsize start sf Hf) as [_ [A [_ [B C]]]].
    destruct (split_file_partition msg path fsize start sf Hf) as [P _].
    unfold seg_ok. rewrite B. repeat split; auto.
    apply Forall_forall. intros m Hin. rewrite Forall_forall in C. destruct (C m Hin) as [H1 [H2 [H3 [H4 [H5 H6]]]]].
    unfold split_file in Hin. apply in_map_iff in Hin. destruct Hin as [i [Hi _]]. subst m. simpl in *.
    repeat split; auto; lia.
  Qed.

  Lemma split_segs_ok : forall msg files start,
      Forall (fun f => 0 < sf_size f) files ->
      Forall2 (fun seg f => seg_ok (sf_path f) (sf_size f) (Some f) seg) (split_segs msg files start) files /\
      mids_from start (concat (split_segs msg files start)).
  Proof.
    induction files as [|f r IH]; intros start Hp; simpl.
    - split; constructor.
    - inversion Hp; subst. destruct (IH (start + nlen (split_file cs msg (sf_path f) (sf_size f) start (Some f))) H2) as [A B].
      split.
      + constructor; auto. apply split_file_seg_ok. assumption.
      + apply mids_from_app; auto. apply split_file_partition. assumption.
  Qed.

  (* split_covers_exactly: getChunks panics exactly when a file is empty; otherwise the
     chunk list is the concatenation of one segment per file (main file first, then the
     external files in order); within each segment the (offset, size) ranges partition
     [0, file size) in order, FileChunkId = 0..k-1, FileChunkCount = k = ceil(size/cs), every
     chunk has 1..cs bytes and carries the file's path, size and file info; over the whole
     list ChunkId = 0..n-1 and ChunkCount = n *)
  Lemma split_covers_exactly_proved :
    forall msg,
      (get_chunks cs msg = None <-> m_fsize msg = 0 \/ exists f, In f (m_files msg) /\ sf_size f = 0) /\
      (forall l, get_chunks cs msg = Some l ->
         exists seg0 segs,
           l = seg0 ++ concat segs /\
           seg_ok (m_path msg) (m_fsize msg) None (map (set_count 0) seg0) /\
           Forall2 (fun seg f => seg_ok (sf_path f) (sf_size f) (Some f) (map (set_count 0) seg)) segs (m_files msg) /\
           mids_from 0 l /\ Forall (fun m => c_count m = nlen l) l).
  Proof.
    intro msg. split.
    - unfold get_chunks. destruct (_ || _) eqn:E; split; intro H; try discriminate; auto.
      + apply orb_true_iff in E. destruct E as [E|E]; [left; apply N.eqb_eq; exact E|right].
        apply existsb_exists in E. destruct E as [f [A B]]. exists f. split; auto. apply N.eqb_eq. exact B.
      + exfalso. apply orb_false_iff in E as [E1 E2]. destruct H as [H|[f [A B]]].
        * apply N.eqb_neq in E1. contradiction.
        * assert (X : existsb (fun f0 => sf_size f0 =? 0) (m_files msg) = true)
            by (apply existsb_exists; exists f; split; auto; apply N.eqb_eq; exact B).
          congruence.
    - intros l H.
      destruct (get_chunks_count cs cs_pos msg l H) as [Hc [Hm Hfs]].
      unfold get_chunks in H. destruct (_ || _); [discriminate|]. injection H as H.
      set (main := split_file cs msg (m_path msg) (m_fsize msg) 0 None) in *.
      rewrite split_files_concat in H.
      set (segs := split_segs msg (m_files msg) (nlen main)) in *.
      set (n := nlen (main ++ concat segs)) in *.
      exists (map (set_count n) main), (map (map (set_count n)) segs).
      destruct (split_segs_ok msg (m_files msg) (nlen main) Hfs) as [S M]. fold segs in S, M.
      assert (SC : forall k seg, map (set_count 0) (map (set_count k) seg) = map (set_count 0) seg)
        by (intros; rewrite map_map; reflexivity).
      assert (SO : forall path fsize sf seg, seg_ok path fsize sf seg -> seg_ok path fsize sf (map (set_count 0) seg)).
      { intros path fsize sf seg [A [B [C E]]].
        assert (NL : nlen (map (set_count 0) seg) = nlen seg) by (unfold nlen; rewrite map_length; reflexivity).
        unfold seg_ok. rewrite NL, !map_map. split; [exact A|]. split; [exact B|]. split; [exact C|].
        apply Forall_forall. intros m Hin. apply in_map_iff in Hin. destruct Hin as [x [Hx Hin]]. subst m.
        rewrite Forall_forall in E. apply (E x Hin). }
      split. { rewrite <- H. rewrite map_app, concat_map. reflexivity. }
      split. { rewrite SC. exact (SO _ _ _ _ (split_file_seg_ok msg (m_path msg) (m_fsize msg) 0 None Hm)). }
      split. { assert (G : forall k ss fs,
                          Forall2 (fun seg f => seg_ok (sf_path f) (sf_size f) (Some f) seg) ss fs ->
                          Forall2 (fun seg f => seg_ok (sf_path f) (sf_size f) (Some f) (map (set_count 0) seg))
                                  (map (map (set_count k)) ss) fs).
               { intros k ss fs F. induction F as [|seg f ss' fs' Hh Ht IH]; simpl; constructor;
                   [rewrite SC; apply SO; exact Hh|exact IH]. }
               apply G. exact S. }
      split. { rewrite <- H. apply mids_from_map; [reflexivity|].
               apply mids_from_app; [apply split_file_partition; exact Hm|]. rewrite N.add_0_l. exact M. }
      exact Hc.
  Qed.
End SplitFull.

(* ---------- split_covers_exactly (stream mode) ---------- *)
Section StreamSplit.
  Variable bs : N.
  Hypothesis bs_pos : 0 < bs.

  Lemma block_count_pos : forall n, 0 < n -> block_count bs n = chunk_count bs n.
  Proof.
    intros n Hn. unfold block_count, chunk_count.
    replace (n + bs - 1) with ((n - 1) + 1 * bs) by lia.
    rewrite N.div_add by lia. reflexivity.
  Qed.

  (* the blocks of a payload of n bytes partition [0, n) in order: n = 0 gives no block,
     n = k*bs gives k full blocks, otherwise the last block has n mod bs bytes *)
  Lemma block_ranges_partition : forall n, covers 0 (block_ranges bs n) n.
  Proof.
    intro n. destruct (N.eq_dec n 0) as [E|E].
    - subst n. unfold block_ranges, block_count. replace ((0 + bs - 1) / bs) with 0.
      + simpl. reflexivity.
      + symmetry. apply N.div_small. lia.
    - assert (Hn : 0 < n) by lia.
      pose (msg := mkSSMsg 0 0 0 0 0 0 [] 0 [] false).
      destruct (split_file_partition bs bs_pos msg [] n 0 None Hn) as [C _].
      replace (block_ranges bs n) with (map (range bs) (split_file bs msg [] n 0 None)); [exact C|].
      unfold block_ranges, split_file. rewrite block_count_pos by exact Hn. rewrite map_map.
      apply map_ext_in. intros i Hi. apply In_nseq in Hi. unfold range. simpl.
      destruct (i =? chunk_count bs n - 1) eqn:Ei; auto.
      apply N.eqb_eq in Ei. rewrite Ei. reflexivity.
  Qed.

  Lemma block_ranges_sizes : forall n,
      nlen (block_ranges bs n) = block_count bs n /\
      Forall (fun r => 1 <= snd r <= bs) (block_ranges bs n) /\
      (n mod bs = 0 -> Forall (fun r => snd r = bs) (block_ranges bs n)).
  Proof.
    intro n. unfold block_ranges. split; [|split].
    - unfold nlen. rewrite map_length. fold (nlen (nseq (block_count bs n))). apply nlen_nseq.
    - apply Forall_forall. intros r Hr. apply in_map_iff in Hr. destruct Hr as [i [Hr Hi]]. subst r. simpl.
      apply In_nseq in Hi. unfold block_count in *.
      destruct (i =? (n + bs - 1) / bs - 1) eqn:E; [|lia].
      apply N.eqb_eq in E.
      pose proof (N.div_mod (n + bs - 1) bs ltac:(lia)) as H1.
      pose proof (N.mod_lt (n + bs - 1) bs ltac:(lia)) as H2.
      remember ((n + bs - 1) / bs) as q. remember ((n + bs - 1) mod bs) as r.
      assert (Hq : i + 1 = q) by lia. subst i.
      assert (Hb : (q - 1) * bs + bs = bs * q) by nia.
      lia.
    - intro Hm. apply Forall_forall. intros r Hr. apply in_map_iff in Hr. destruct Hr as [i [Hr Hi]]. subst r. simpl.
      apply In_nseq in Hi. unfold block_count in *.
      destruct (i =? (n + bs - 1) / bs - 1) eqn:E; auto.
      apply N.eqb_eq in E.
      pose proof (N.div_mod n bs ltac:(lia)) as H0. rewrite Hm in H0.
      pose proof (N.div_mod (n + bs - 1) bs ltac:(lia)) as H1.
      pose proof (N.mod_lt (n + bs - 1) bs ltac:(lia)) as H2.
      remember ((n + bs - 1) / bs) as q. remember ((n + bs - 1) mod bs) as r. remember (n / bs) as k.
      assert (Hq : i + 1 = q) by lia. subst i.
      assert (Hb : (q - 1) * bs + bs = bs * q) by nia.
      assert (Hk : q = k) by nia.
      nia.
  Qed.
End StreamSplit.

(* ---------- what a sender's chunk sequence looks like to the receiver ---------- *)
From DB Require Import Proofs.Chunks.

Lemma aset_aset : forall (A : Type) (k : bytes) (a b : A) l,
    aset bytes_eqb k a (aset bytes_eqb k b l) = aset bytes_eqb k a l.
Proof.
  induction l as [|[k1 a1] l IH]; simpl.
  - rewrite bytes_eqb_refl. reflexivity.
  - destruct (bytes_eqb k k1) eqn:E; simpl.
    + rewrite bytes_eqb_refl. reflexivity.
    + rewrite E. rewrite IH. reflexivity.
Qed.

Section StreamShape.
  Variable D : Type.
  Variable dempty : D.
  Variable dapp : D -> D -> D.
  Variable dlen : D -> N.
  Variable msg : ssmsg.
  Variable did : N.
  Notation chunk := (chunk D).
  Notation sfrom := (stream_chunks_from D dempty dlen msg did).
  Let m0 := stream_meta msg did 0 0 0.

  Lemma stream_same : forall datas i, same_stream D did m0 (sfrom i datas).
  Proof.
    induction datas as [|d r IH]; intro i; simpl; constructor; try apply IH; try constructor;
      simpl; repeat split; reflexivity.
  Qed.

  Lemma stream_ids : forall datas i, ids_from D i (sfrom i datas).
  Proof. induction datas as [|d r IH]; intro i; simpl; split; auto. Qed.

  Lemma stream_last_only : forall datas i, last_only D (sfrom i datas).
  Proof.
    induction datas as [|d r IH]; intro i.
    - reflexivity.
    - change (sfrom i (d :: r)) with ((stream_meta msg did i 0 (dlen d), d) :: sfrom (i + 1) r).
      specialize (IH (i + 1)).
      destruct (sfrom (i + 1) r) eqn:E; [destruct IH|].
      split; [|exact IH]. unfold is_last. simpl.
      replace (0 =? last_chunk_count) with false by reflexivity.
      destruct (0 =? i + 1) eqn:E1; auto. apply N.eqb_eq in E1. lia.
  Qed.

  Lemma stream_data : forall datas i,
      map snd (sfrom i datas) = datas ++ [dempty] /\
      Forall (fun c : chunk => c_fcid (fst c) = c_id (fst c) /\ c_hasfi (fst c) = false /\
                               c_path (fst c) = m_path msg /\ c_size (fst c) = dlen (snd c) \/ snd c = dempty)
             (sfrom i datas).
  Proof.
    induction datas as [|d r IH]; intro i; simpl.
    - split; [reflexivity|]. constructor; [right; reflexivity|constructor].
    - destruct (IH (i + 1)) as [A B]. split; [rewrite A; reflexivity|].
      constructor; [left; simpl; auto|exact B].
  Qed.

  (* what the stream's chunks write: one file, the concatenation of the chunk data *)
  Lemma stream_replay_from : forall datas i files old,
      i <> 0 -> bad_name (path_base (m_path msg)) = false ->
      alookup bytes_eqb (path_base (m_path msg)) files = Some old ->
      replay D dapp files (sfrom i datas) =
      Some (fset (path_base (m_path msg)) (fold_left dapp (datas ++ [dempty]) old) files).
  Proof.
    induction datas as [|d r IH]; intros i files old Hi Hb Hl.
    - simpl. rewrite Hb. apply N.eqb_neq in Hi. rewrite Hi. rewrite Hl. reflexivity.
    - change (sfrom i (d :: r)) with ((stream_meta msg did i 0 (dlen d), d) :: sfrom (i + 1) r).
      simpl replay. rewrite Hb. apply N.eqb_neq in Hi. rewrite Hi. rewrite Hl.
      rewrite (IH (i + 1) _ (dapp old d)).
      + unfold fset. rewrite aset_aset. reflexivity.
      + lia.
      + exact Hb.
      + unfold fset. apply alookup_aset_same. exact bytes_eqb_eq.
  Qed.

  Lemma stream_replay : forall d0 r,
      bad_name (path_base (m_path msg)) = false ->
      replay D dapp [] (stream_chunks D dempty dlen msg did (d0 :: r)) =
      Some [(path_base (m_path msg), fold_left dapp (r ++ [dempty]) d0)].
  Proof.
    intros d0 r Hb. unfold stream_chunks.
    change (sfrom 0 (d0 :: r)) with ((stream_meta msg did 0 0 (dlen d0), d0) :: sfrom (0 + 1) r).
    simpl replay. rewrite Hb.
    rewrite (stream_replay_from r (0 + 1) _ d0).
    - unfold fset. simpl. rewrite bytes_eqb_refl. reflexivity.
    - lia.
    - exact Hb.
    - unfold fset. simpl. rewrite bytes_eqb_refl. reflexivity.
  Qed.
End StreamShape.

(* ---------- the bytes: the file mode sender's chunks replay to the source files ---------- *)
Lemma aset_same_id : forall (A : Type) (k : bytes) (a : A) l,
    alookup bytes_eqb k l = Some a -> aset bytes_eqb k a l = l.
Proof.
  induction l as [|[k1 a1] l IH]; simpl; intro H; [discriminate|].
  destruct (bytes_eqb k k1) eqn:E.
  - injection H as H; subst. apply bytes_eqb_eq in E. subst. reflexivity.
  - rewrite IH; auto.
Qed.

Section FileBytes.
  Variable D : Type.
  Variable dapp : D -> D -> D.
  Variable dlen : D -> N.
  Variable dsub : D -> N -> N -> D.
  (* the laws of byte strings the statement needs (proved for [bytes] below) *)
  Hypothesis dsub_app : forall f a n m, a + n + m <= dlen f -> dapp (dsub f a n) (dsub f (a + n) m) = dsub f a (n + m).
  Variable cs : N.
  Hypothesis cs_pos : 0 < cs.
  Notation chunk := (chunk D).

  (* replay only looks at the path, the file chunk id and the data *)
  Definition proj (c : chunk) : bytes * N * D := (c_path (fst c), c_fcid (fst c), snd c).
  Fixpoint replay_p (files : dir D) (l : list (bytes * N * D)) : option (dir D) :=
    match l with
    | [] => Some files
    | (p, i, d) :: r =>
      let fn := path_base p in
      if bad_name fn then None
      else if i =? 0 then replay_p (fset fn d files) r
      else match alookup bytes_eqb fn files with
           | None => None
           | Some old => replay_p (fset fn (dapp old d) files) r
           end
    end.
  Lemma replay_proj : forall (l : list chunk) files, replay D dapp files l = replay_p files (map proj l).
  Proof.
    induction l as [|[m d] l IH]; intro files; simpl; auto.
    destruct (bad_name (path_base (c_path m))); auto.
    destruct (c_fcid m =? 0); auto.
    destruct (alookup bytes_eqb (path_base (c_path m)) files); auto.
  Qed.
  Lemma replay_p_app : forall l1 l2 files,
      replay_p files (l1 ++ l2) = match replay_p files l1 with Some f1 => replay_p f1 l2 | None => None end.
  Proof.
    induction l1 as [|[[p i] d] l1 IH]; intros l2 files; simpl; auto.
    destruct (bad_name (path_base p)); auto. destruct (i =? 0); auto.
    destruct (alookup bytes_eqb (path_base p) files); auto.
  Qed.

  (* the ideal chunks of one file *)
  Definition ideal (path : bytes) (f : D) (fsize : N) (k : nat) : bytes * N * D :=
    let i := N.of_nat k in
    (path, i, dsub f (i * cs) (if i =? chunk_count cs fsize - 1 then fsize - (chunk_count cs fsize - 1) * cs else cs)).

  Lemma seq_replay : forall path f fsize, 0 < fsize -> fsize <= dlen f ->
      bad_name (path_base path) = false ->
      forall len s files, (s + len = N.to_nat (chunk_count cs fsize))%nat -> (0 < s)%nat ->
        alookup bytes_eqb (path_base path) files = Some (dsub f 0 (N.min (N.of_nat s * cs) fsize)) ->
        replay_p files (map (ideal path f fsize) (seq s len)) = Some (fset (path_base path) (dsub f 0 fsize) files).
  Proof.
    intros path f fsize Hf Hle Hb.
    set (q := (fsize - 1) / cs).
    assert (Hcc : chunk_count cs fsize = q + 1) by reflexivity.
    assert (Hq : q * cs <= fsize - 1 /\ fsize - 1 < (q + 1) * cs) by (unfold q; nia).
    induction len as [|len IH]; intros s files Hs Hs0 Hl.
    - simpl. rewrite N.min_r in Hl by (rewrite Hcc in Hs; nia).
      unfold fset. rewrite aset_same_id; auto.
    - assert (Hsq : N.of_nat s <= q) by (rewrite Hcc in Hs; lia).
      simpl seq. simpl map. unfold ideal at 1. simpl replay_p. rewrite Hb.
      assert (Hn0 : N.of_nat s =? 0 = false) by (apply N.eqb_neq; lia).
      rewrite Hn0, Hl.
      rewrite N.min_l by nia.
      set (sz := if N.of_nat s =? chunk_count cs fsize - 1 then fsize - (chunk_count cs fsize - 1) * cs else cs).
      assert (Hsz : N.of_nat s * cs + sz = N.min (N.of_nat (S s) * cs) fsize).
      { unfold sz. destruct (N.of_nat s =? chunk_count cs fsize - 1) eqn:E.
        - apply N.eqb_eq in E. rewrite N.min_r by nia. nia.
        - apply N.eqb_neq in E. rewrite N.min_l by nia. nia. }
      replace (dapp (dsub f 0 (N.of_nat s * cs)) (dsub f (N.of_nat s * cs) sz))
        with (dsub f 0 (N.min (N.of_nat (S s) * cs) fsize)).
      + rewrite (IH (S s)).
        * unfold fset. rewrite aset_aset. reflexivity.
        * lia.
        * lia.
        * unfold fset. apply alookup_aset_same. exact bytes_eqb_eq.
      + rewrite <- Hsz. symmetry.
        replace (N.of_nat s * cs) with (0 + N.of_nat s * cs) at 2 by lia.
        apply dsub_app. pose proof (N.le_min_r (N.of_nat (S s) * cs) fsize). lia.
  Qed.

  Lemma file_replay : forall path f fsize files, 0 < fsize -> fsize <= dlen f ->
      bad_name (path_base path) = false ->
      replay_p files (map (ideal path f fsize) (seq 0 (N.to_nat (chunk_count cs fsize)))) =
      Some (fset (path_base path) (dsub f 0 fsize) files).
  Proof.
    intros path f fsize files Hf Hle Hb.
    set (q := (fsize - 1) / cs).
    assert (Hcc : chunk_count cs fsize = q + 1) by reflexivity.
    assert (Hq : q * cs <= fsize - 1 /\ fsize - 1 < (q + 1) * cs) by (unfold q; nia).
    assert (Hd0 : ideal path f fsize 0 = (path, 0, dsub f 0 (N.min (N.of_nat 1 * cs) fsize))).
    { unfold ideal. change (N.of_nat 0) with 0. rewrite N.mul_0_l. f_equal. f_equal.
      change (N.of_nat 1) with 1. rewrite N.mul_1_l.
      destruct (0 =? chunk_count cs fsize - 1) eqn:E0.
      - apply N.eqb_eq in E0. assert (Hq0 : q = 0) by lia. rewrite Hq0 in Hq.
        rewrite N.min_r by lia. rewrite <- E0. lia.
      - apply N.eqb_neq in E0. assert (Hq1 : 1 <= q) by lia. rewrite N.min_l by nia. reflexivity. }
    destruct (N.to_nat (chunk_count cs fsize)) as [|len] eqn:E; [lia|].
    change (seq 0 (S len)) with (0%nat :: seq 1 len). rewrite map_cons, Hd0.
    simpl replay_p. rewrite Hb.
    rewrite (seq_replay path f fsize Hf Hle Hb len 1%nat).
    - unfold fset. rewrite aset_aset. reflexivity.
    - lia.
    - lia.
    - unfold fset. apply alookup_aset_same. exact bytes_eqb_eq.
  Qed.

  Lemma load_all_app : forall src did l1 l2 chunks,
      load_all D dlen dsub cs src did (l1 ++ l2) = Some chunks ->
      exists c1 c2, chunks = c1 ++ c2 /\ load_all D dlen dsub cs src did l1 = Some c1 /\
                    load_all D dlen dsub cs src did l2 = Some c2.
  Proof.
    induction l1 as [|m l1 IH]; intros l2 chunks H; simpl in *.
    - exists [], chunks. auto.
    - destruct (load_chunk D dlen dsub cs src m) as [d|]; [|discriminate].
      destruct (load_all D dlen dsub cs src did (l1 ++ l2)) as [r|] eqn:E; [|discriminate].
      injection H as H; subst chunks. destruct (IH l2 r E) as [c1 [c2 [A [B C]]]].
      exists ((set_did did m, d) :: c1), c2. rewrite B. subst r. auto.
  Qed.

  (* loading the chunks of one file gives the ideal chunks of that file *)
  Lemma load_file : forall src did path f fsize (g : nat -> cmeta) (l : list nat) chunks,
      (forall k, c_path (g k) = path /\ c_fcid (g k) = N.of_nat k /\
                 c_size (g k) = (if N.of_nat k =? chunk_count cs fsize - 1
                                 then fsize - (chunk_count cs fsize - 1) * cs else cs)) ->
      alookup bytes_eqb path src = Some f ->
      load_all D dlen dsub cs src did (map g l) = Some chunks ->
      map proj chunks = map (ideal path f fsize) l.
  Proof.
    intros src did path f fsize g. induction l as [|k l IH]; intros chunks Hg Hl H; simpl in H.
    - injection H as H; subst. reflexivity.
    - destruct (Hg k) as [G1 [G2 G3]].
      unfold load_chunk in H. rewrite G1, Hl, G2, G3 in H.
      destruct (_ <=? dlen f); [|discriminate].
      destruct (load_all D dlen dsub cs src did (map g l)) as [r|] eqn:E; [|discriminate].
      injection H as H; subst chunks. simpl. rewrite (IH r Hg Hl eq_refl). f_equal.
      unfold proj, ideal. simpl. rewrite G1, G2. reflexivity.
  Qed.

  Lemma load_split_file : forall src did msg path f fsize start sf n chunks,
      alookup bytes_eqb path src = Some f ->
      load_all D dlen dsub cs src did (map (set_count n) (split_file cs msg path fsize start sf)) = Some chunks ->
      map proj chunks = map (ideal path f fsize) (seq 0 (N.to_nat (chunk_count cs fsize))).
  Proof.
    intros src did msg path f fsize start sf n chunks Hl H.
    rewrite split_file_eq, map_map in H.
    eapply load_file; [|exact Hl|exact H].
    intro k. simpl. auto.
  Qed.

  (* the files of a message as the receiver will hold them *)
  Fixpoint written (files : list (sfile * D)) (acc : dir D) : dir D :=
    match files with
    | [] => acc
    | (sf, f) :: r => written r (fset (path_base (sf_path sf)) (dsub f 0 (sf_size sf)) acc)
    end.

  Lemma load_ext_files : forall src did msg n (files : list sfile) (fs : list D) start chunks acc,
      Forall2 (fun sf f => alookup bytes_eqb (sf_path sf) src = Some f /\ 0 < sf_size sf /\ sf_size sf <= dlen f /\
                           bad_name (path_base (sf_path sf)) = false) files fs ->
      load_all D dlen dsub cs src did (map (set_count n) (split_files cs msg files start)) = Some chunks ->
      replay_p acc (map proj chunks) = Some (written (combine files fs) acc).
  Proof.
    intros src did msg n files fs. revert fs.
    induction files as [|sf files IH]; intros fs start chunks acc F H.
    - inversion F; subst. simpl in H. injection H as H; subst. reflexivity.
    - inversion F as [|? f ? fs' [Hl [Hp [Hle Hb]]] F']; subst. simpl split_files in H. rewrite map_app in H.
      destruct (load_all_app _ _ _ _ _ H) as [c1 [c2 [E [L1 L2]]]]. subst chunks.
      rewrite map_app, replay_p_app.
      rewrite (load_split_file _ _ _ _ _ _ _ _ _ _ Hl L1).
      rewrite (file_replay (sf_path sf) f (sf_size sf) acc Hp Hle Hb).
      simpl combine. simpl written. eapply IH; eauto.
  Qed.

  (* sender_chunks_replay_to_source: whatever the file mode sender emits for a message
     whose files exist with (at least) the announced sizes replays, at the receiver, to
     exactly the announced prefix of each source file under its base name - the whole
     file when the announced size is the file's length *)
  Lemma sender_replay_proved : forall src did msg chunks fm (fs : list D),
      send_snapshot D dlen dsub cs did src msg = Some chunks ->
      alookup bytes_eqb (m_path msg) src = Some fm -> m_fsize msg <= dlen fm ->
      bad_name (path_base (m_path msg)) = false ->
      Forall2 (fun sf f => alookup bytes_eqb (sf_path sf) src = Some f /\ 0 < sf_size sf /\ sf_size sf <= dlen f /\
                           bad_name (path_base (sf_path sf)) = false) (m_files msg) fs ->
      replay D dapp [] chunks =
      Some (written (combine (m_files msg) fs) [(path_base (m_path msg), dsub fm 0 (m_fsize msg))]).
  Proof.
    intros src did msg chunks fm fs H Hl Hle Hb F.
    unfold send_snapshot in H. destruct (get_chunks cs msg) as [metas|] eqn:G; [|discriminate].
    destruct (get_chunks_count cs cs_pos msg metas G) as [_ [Hm _]].
    unfold get_chunks in G. destruct (_ || _); [discriminate|]. injection G as G. subst metas.
    rewrite map_app in H. destruct (load_all_app _ _ _ _ _ H) as [c1 [c2 [E [L1 L2]]]]. subst chunks.
    rewrite replay_proj, map_app, replay_p_app.
    rewrite (load_split_file _ _ _ _ _ _ _ _ _ _ Hl L1).
    rewrite (file_replay (m_path msg) fm (m_fsize msg) [] Hm Hle Hb).
    eapply load_ext_files; eauto.
  Qed.
End FileBytes.

(* ---------- byte lists satisfy the slicing law ---------- *)
Definition bytes_sub (l : bytes) (off n : N) : bytes := firstn (N.to_nat n) (skipn (N.to_nat off) l).

Lemma firstn_skipn_app : forall (A : Type) (n m : nat) (x : list A),
    firstn n x ++ firstn m (skipn n x) = firstn (n + m) x.
Proof.
  induction n as [|n IH]; intros m x; simpl; auto.
  destruct x as [|a x]; simpl.
  - rewrite firstn_nil. reflexivity.
  - rewrite IH. reflexivity.
Qed.

Lemma skipn_add : forall (A : Type) (a n : nat) (x : list A), skipn (a + n) x = skipn n (skipn a x).
Proof.
  induction a as [|a IH]; intros n x; simpl; auto.
  destruct x as [|y x]; simpl; auto. destruct n; reflexivity.
Qed.

Lemma bytes_sub_app : forall (f : bytes) a n m, a + n + m <= nlen f ->
    bytes_sub f a n ++ bytes_sub f (a + n) m = bytes_sub f a (n + m).
Proof.
  intros f a n m _. unfold bytes_sub. rewrite !N2Nat.inj_add.
  rewrite skipn_add. apply firstn_skipn_app.
Qed.
Lemma bytes_sub_all : forall f : bytes, bytes_sub f 0 (nlen f) = f.
Proof. intro f. unfold bytes_sub, nlen. rewrite Nat2N.id. simpl. apply firstn_all. Qed.

Lemma split_covers_exactly_full :
  (forall cs, 0 < cs -> forall msg,
      (get_chunks cs msg = None <-> m_fsize msg = 0 \/ exists f, In f (m_files msg) /\ sf_size f = 0) /\
      (forall l, get_chunks cs msg = Some l ->
         exists seg0 segs,
           l = seg0 ++ concat segs /\
           seg_ok cs (m_path msg) (m_fsize msg) None (map (set_count 0) seg0) /\
           Forall2 (fun seg f => seg_ok cs (sf_path f) (sf_size f) (Some f) (map (set_count 0) seg)) segs (m_files msg) /\
           mids_from 0 l /\ Forall (fun m => c_count m = nlen l) l)) /\
  (forall bs, 0 < bs -> forall n,
      covers 0 (block_ranges bs n) n /\
      nlen (block_ranges bs n) = block_count bs n /\
      Forall (fun r => 1 <= snd r <= bs) (block_ranges bs n) /\
      (n mod bs = 0 -> Forall (fun r => snd r = bs) (block_ranges bs n))) /\
  (forall D dempty dapp dlen msg did (datas : list D),
      ids_from D 0 (stream_chunks D dempty dlen msg did datas) /\
      same_stream D did (stream_meta msg did 0 0 0) (stream_chunks D dempty dlen msg did datas) /\
      last_only D (stream_chunks D dempty dlen msg did datas) /\
      map snd (stream_chunks D dempty dlen msg did datas) = datas ++ [dempty] /\
      (forall d0 r, datas = d0 :: r -> bad_name (path_base (m_path msg)) = false ->
         replay D dapp [] (stream_chunks D dempty dlen msg did datas) =
         Some [(path_base (m_path msg), fold_left dapp (r ++ [dempty]) d0)])).
Proof.
  split; [|split].
  - intros cs Hcs msg. apply split_covers_exactly_proved. exact Hcs.
  - intros bs Hbs n. split; [apply block_ranges_partition; exact Hbs|]. apply block_ranges_sizes. exact Hbs.
  - intros D dempty dapp dlen msg did datas. unfold stream_chunks.
    split; [apply stream_ids; assumption|]. split; [apply stream_same; assumption|]. split; [apply stream_last_only; assumption|].
    split; [apply (stream_data D dempty dlen msg did datas 0)|].
    intros d0 r E Hb. subst datas. apply (stream_replay D dempty dapp dlen msg did d0 r Hb).
Qed.

(* ---------- the witness snapshot chunk ---------- *)
(* a witness chunk is, by itself, a complete in-order stream of one sender: the receiver
   theorems (in_order_delivery_reassembles, finalize_iff_complete_valid_sequence) apply
   to it; what it writes is one file named witness_snapshot_filename holding the data *)
Lemma witness_chunk_complete :
  forall D (dapp : D -> D -> D) dlen msg did (data : D),
    let c := witness_chunk D dlen msg did data in
    ids_from D 0 [c] /\ same_stream D did (fst c) [c] /\ last_only D [c] /\
    c_hasfi (fst c) = false /\ c_witness (fst c) = true /\
    replay D dapp [] [c] = Some [(witness_snapshot_filename, data)].
Proof.
  intros. unfold c, witness_chunk. simpl. repeat split; auto.
  constructor; [|constructor]. simpl. repeat split; reflexivity.
Qed.
