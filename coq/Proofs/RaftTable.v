(* Facts about the GENERATED handler table (Gen/GenRaft.v, from initializeHandlerMap). *)
From DB Require Import Model.RaftCore.
Open Scope N_scope.

(* every handler the dispatcher can return for a state is one of that state's cells *)
Lemma handler_lookup_in cells s t :
  handler_lookup cells s t = H_none \/ In (s, t, handler_lookup cells s t) cells.
Proof.
  induction cells as [|[[s' t'] h] r IH]; cbn [handler_lookup]; [left; reflexivity|].
  destruct ((s =? s') && (t =? t')) eqn:E.
  - apply andb_prop in E. destruct E as [E1 E2].
    apply N.eqb_eq in E1, E2. subst. right. left. reflexivity.
  - destruct IH as [IH|IH]; [left; exact IH|right; right; exact IH].
Qed.

Lemma handler_of_cases s t :
  handler_of s t = H_none \/ In (s, t, handler_of s t) handler_cells.
Proof.
  unfold handler_of. destruct (handler_lookup_in (rev handler_cells) s t) as [H|H]; [left; exact H|].
  right. apply in_rev. exact H.
Qed.

Definition handlers_of_state (s : N) : list handler :=
  map (fun c => snd c) (filter (fun c => fst (fst c) =? s) handler_cells).

Lemma handler_of_state s t :
  handler_of s t = H_none \/ In (handler_of s t) (handlers_of_state s).
Proof.
  destruct (handler_of_cases s t) as [H|H]; [left; exact H|right].
  unfold handlers_of_state. apply in_map_iff. exists (s, t, handler_of s t). split; [reflexivity|].
  apply filter_In. split; [exact H|]. simpl. apply N.eqb_refl.
Qed.

(* the message types for which a state has no handler *)
Definition no_handler (s : N) (ts : list N) : bool :=
  forallb (fun t => match handler_of s t with H_none => true | _ => false end) ts.

Lemma roles_table_nonvoting :
  no_handler st_nonVoting [mt_Election; mt_RequestVoteResp; mt_RequestPreVoteResp;
                           mt_ReplicateResp; mt_HeartbeatResp; mt_LeaderHeartbeat; mt_CheckQuorum;
                           mt_TimeoutNow; mt_LeaderTransfer; mt_SnapshotStatus; mt_Unreachable] = true.
Proof. vm_compute. reflexivity. Qed.

Lemma roles_table_witness :
  no_handler st_witness [mt_Election; mt_RequestVoteResp; mt_RequestPreVoteResp;
                         mt_ReplicateResp; mt_HeartbeatResp; mt_LeaderHeartbeat; mt_CheckQuorum;
                         mt_TimeoutNow; mt_LeaderTransfer; mt_SnapshotStatus; mt_Unreachable;
                         mt_Propose; mt_ReadIndex; mt_ReadIndexResp; mt_LogQuery] = true.
Proof. vm_compute. reflexivity. Qed.

(* vote responses are only ever counted by (pre)candidates; replication/heartbeat responses,
   check-quorum and leader heartbeats only by leaders *)
Lemma vote_resp_only_candidate :
  forallb (fun s => match handler_of s mt_RequestVoteResp with H_none => true | _ => s =? st_candidate end)
          [st_follower; st_candidate; st_preVoteCandidate; st_leader; st_nonVoting; st_witness] = true.
Proof. vm_compute. reflexivity. Qed.

Lemma leader_only_messages :
  forallb (fun s => forallb (fun t => match handler_of s t with H_none => true | _ => s =? st_leader end)
                            [mt_ReplicateResp; mt_HeartbeatResp; mt_CheckQuorum; mt_LeaderHeartbeat;
                             mt_SnapshotStatus; mt_Unreachable; mt_RateLimit])
          [st_follower; st_candidate; st_preVoteCandidate; st_leader; st_nonVoting; st_witness] = true.
Proof. vm_compute. reflexivity. Qed.

(* the cells of checkHandlerMap (the code's own list of forbidden cells) are all empty *)
Lemma check_handler_map_cells :
  forallb (fun c => match handler_of (fst c) (snd c) with H_none => true | _ => false end)
    [(st_leader, mt_Heartbeat); (st_leader, mt_Replicate); (st_leader, mt_InstallSnapshot);
     (st_leader, mt_ReadIndexResp); (st_leader, mt_RequestPreVoteResp);
     (st_follower, mt_ReplicateResp); (st_follower, mt_HeartbeatResp); (st_follower, mt_SnapshotStatus);
     (st_follower, mt_Unreachable); (st_follower, mt_RequestPreVoteResp);
     (st_candidate, mt_ReplicateResp); (st_candidate, mt_HeartbeatResp); (st_candidate, mt_SnapshotStatus);
     (st_candidate, mt_Unreachable); (st_candidate, mt_RequestPreVoteResp);
     (st_preVoteCandidate, mt_ReplicateResp); (st_preVoteCandidate, mt_HeartbeatResp);
     (st_preVoteCandidate, mt_SnapshotStatus); (st_preVoteCandidate, mt_Unreachable);
     (st_nonVoting, mt_Election); (st_nonVoting, mt_RequestVoteResp); (st_nonVoting, mt_ReplicateResp);
     (st_nonVoting, mt_HeartbeatResp); (st_nonVoting, mt_RequestPreVoteResp);
     (st_witness, mt_Election); (st_witness, mt_Propose); (st_witness, mt_ReadIndex);
     (st_witness, mt_ReadIndexResp); (st_witness, mt_RequestVoteResp); (st_witness, mt_ReplicateResp);
     (st_witness, mt_HeartbeatResp); (st_witness, mt_RequestPreVoteResp); (st_witness, mt_LogQuery)] = true.
Proof. vm_compute. reflexivity. Qed.

Scheme Equality for handler.

(* which message type each vote-related handler is registered for *)
Lemma request_vote_handler_cells :
  forallb (fun c => if handler_beq (snd c) H_handleNodeRequestVote then snd (fst c) =? mt_RequestVote else true)
          handler_cells = true.
Proof. vm_compute. reflexivity. Qed.

Lemma request_vote_handler_type s t : handler_of s t = H_handleNodeRequestVote -> t = mt_RequestVote.
Proof.
  intros H. destruct (handler_of_cases s t) as [E|E]; [rewrite H in E; discriminate|].
  rewrite H in E. pose proof request_vote_handler_cells as F.
  rewrite forallb_forall in F. specialize (F _ E). simpl in F. apply N.eqb_eq in F. exact F.
Qed.
