(* Lemmas about the replica = live raft + durable image (Model/RaftNode.v):
   what node_update persists and what node_restart reloads. *)
From DB Require Import Model.RaftCore Model.RaftNode Proofs.RaftStep.
From Coq Require Import ZifyN ZifyNat ZifyBool Lia.
Open Scope N_scope.

Definition dstate_or_zero (nd : node) : N * N * N :=
  match nd_dstate nd with Some st => st | None => (0, 0, 0) end.

(* Peer.prevState always equals what is durable: the engine persists exactly the
   states GetUpdate reports *)
Definition prev_is_durable (nd : node) : Prop := r_prev_state (nd_raft nd) = dstate_or_zero nd.

Lemma state_eqb_spec (a b : N * N * N) :
  (let '(t, v, c) := a in let '(pt, pv, pc) := b in (t =? pt) && (v =? pv) && (c =? pc)) = true <-> a = b.
Proof.
  destruct a as [[t v] c], b as [[pt pv] pc]. split.
  - intros H. apply andb_prop in H. destruct H as [H Hc]. apply andb_prop in H. destruct H as [Ht Hv].
    apply N.eqb_eq in Ht, Hv, Hc. subst. reflexivity.
  - intros H. inversion H. subst. rewrite !N.eqb_refl. reflexivity.
Qed.

Lemma get_update_state r more :
  u_state (get_update r more) = if (let '(t, v, c) := raft_state r in let '(pt, pv, pc) := r_prev_state r in
                                    (t =? pt) && (v =? pv) && (c =? pc))
                                then None else Some (raft_state r).
Proof.
  unfold get_update. destruct (raft_state r) as [[t v] c] eqn:E. destruct (r_prev_state r) as [[pt pv] pc] eqn:E2.
  simpl. destruct ((t =? pt) && (v =? pv) && (c =? pc)); reflexivity.
Qed.

(* after the persistence step of an update the durable hard state IS the hard state
   the replica had when the update (and the messages in it) was taken *)
Theorem update_persists_hard_state_proved nd more la :
  prev_is_durable nd ->
  dstate_or_zero (fst (node_update nd more la)) = raft_state (nd_raft nd).
Proof.
  intros Hinv. unfold node_update. cbv zeta. unfold dstate_or_zero. cbn [fst nd_dstate].
  rewrite get_update_state.
  match goal with |- context [if ?c then None else _] => destruct c eqn:Ec end.
  - apply state_eqb_spec in Ec.
    destruct (u_snapshot _); cbn [nd_dstate set]; unfold prev_is_durable, dstate_or_zero in Hinv;
      rewrite <- Hinv; symmetry; exact Ec.
  - destruct (u_snapshot _); reflexivity.
Qed.

Lemma commit_update_prev r u la :
  r_prev_state (commit_update r u la) = match u_state u with Some st => st | None => r_prev_state r end.
Proof.
  unfold commit_update. cbv zeta.
  match goal with |- context [if ?b then panic ?x else _] => destruct b end.
  all: destruct (u_ready u); destruct (u_state u); reflexivity.
Qed.

Lemma node_update_raft nd more la :
  nd_raft (fst (node_update nd more la)) =
  (if u_invalid (get_update (nd_raft nd) more) then panic (nd_raft nd)
   else commit_update (nd_raft nd) (get_update (nd_raft nd) more) la).
Proof.
  unfold node_update. cbv zeta. cbn [fst].
  destruct (u_snapshot _); destruct (u_state _); reflexivity.
Qed.
Lemma node_update_snd nd more la : snd (node_update nd more la) = get_update (nd_raft nd) more.
Proof. reflexivity. Qed.

Theorem update_keeps_prev_durable_proved nd more la :
  prev_is_durable nd -> u_invalid (snd (node_update nd more la)) = false ->
  prev_is_durable (fst (node_update nd more la)).
Proof.
  intros Hinv Hval. unfold prev_is_durable.
  rewrite (update_persists_hard_state_proved nd more la Hinv).
  rewrite node_update_raft. rewrite node_update_snd in Hval. rewrite Hval.
  rewrite commit_update_prev, get_update_state.
  match goal with |- context [if ?c then None else _] => destruct c eqn:Ec end; [|reflexivity].
  apply state_eqb_spec in Ec. symmetry. exact Ec.
Qed.

(* restart: term and vote come back exactly as persisted *)
Lemma new_raft_term_vote id kind et ht cq pv l a n w t v c o :
  negb ((c <? l_committed l) || (log_last l <? c)) = true ->
  let r := new_raft id kind et ht cq pv l a n w (Some (t, v, c)) o in
  r_term r = t /\ r_vote r = v.
Proof.
  intros Hrange. unfold new_raft. cbv zeta.
  apply negb_true_iff in Hrange. rewrite Hrange.
  match goal with |- context [match kind with _ => _ end] => idtac end.
  set (r1 := _ <| r_term := t |> <| r_vote := v |> <| r_log := _ |>).
  assert (E1 : r_term r1 = t /\ r_vote r1 = v) by (split; reflexivity). clearbody r1.
  assert (H : forall X : raft, tv_eq r1 X -> r_term (X <| r_prev_state := raft_state X |>) = t /\
                                              r_vote (X <| r_prev_state := raft_state X |>) = v).
  { intros X [Ht Hv]. destruct E1 as [E1 E2]. split; cbn [r_term r_vote set]; [rewrite <- E1|rewrite <- E2];
      [exact Ht|exact Hv]. }
  destruct kind; apply H.
  all: try apply become_follower_same_tv.
  - unfold become_nonvoting. cbn [is_nonvoting r_role set role_eqb negb].
    eapply tv_eq_trans; [|apply set_leader_id_tv]. eapply tv_eq_trans; [|apply reset_same_tv; reflexivity].
    split; reflexivity.
  - unfold become_witness. cbn [is_witness r_role set role_eqb negb].
    eapply tv_eq_trans; [|apply set_leader_id_tv]. eapply tv_eq_trans; [|apply reset_same_tv; reflexivity].
    split; reflexivity.
Qed.

Theorem restart_reloads_term_and_vote_proved nd o t v c :
  nd_dstate nd = Some (t, v, c) ->
  ss_index (nd_dsnap nd) <= c ->
  c <= ss_index (nd_dsnap nd) + nlen (skipn (N.to_nat (ss_index (nd_dsnap nd) - nd_dmarker nd)) (nd_dents nd)) ->
  r_term (nd_raft (node_restart nd o)) = t /\ r_vote (nd_raft (node_restart nd o)) = v.
Proof.
  intros Hst Hlo Hhi. unfold node_restart. cbv zeta. rewrite Hst.
  cbn [nd_raft set].
  match goal with |- r_term (?X <| r_applied := _ |>) = _ /\ _ =>
    change (r_term X = t /\ r_vote X = v) end.
  apply new_raft_term_vote.
  apply negb_true_iff. apply orb_false_iff. split.
  - apply N.ltb_ge. cbn [l_committed]. exact Hlo.
  - apply N.ltb_ge. unfold log_last. cbn [l_marker l_ents]. exact Hhi.
Qed.
