(* L2, part 2: logs.  Inductive invariant [inv2] (given inv1) and log matching. *)
From DB Require Import Model.RaftNet Proofs.RaftNetLists Proofs.RaftNetElection.

Lemma In_firstn {A} (x : A) k l : In x (firstn k l) -> In x l.
Proof.
  intros H. rewrite <- (firstn_skipn k l). apply in_or_app. now left.
Qed.

Lemma firstn_app_seg {A} (P S : list A) k :
  P ++ firstn k S = firstn (length P + length (firstn k S)) (P ++ S).
Proof.
  rewrite firstn_app.
  replace (length P + length (firstn k S) - length P) with (length (firstn k S)) by lia.
  rewrite (firstn_all2 P) by lia. f_equal.
  rewrite firstn_length.
  destruct (Nat.le_gt_cases k (length S)).
  - now replace (Nat.min k (length S)) with k by lia.
  - replace (Nat.min k (length S)) with (length S) by lia.
    rewrite firstn_all. now rewrite firstn_all2 by lia.
Qed.

Lemma firstn_segment {A} (L : list A) prev k :
  prev <= length L ->
  firstn prev L ++ firstn k (skipn prev L)
  = firstn (prev + length (firstn k (skipn prev L))) L.
Proof.
  intros Hp.
  pose proof (firstn_app_seg (firstn prev L) (skipn prev L) k) as H.
  rewrite firstn_skipn in H. rewrite (firstn_length prev L) in H.
  replace (Nat.min prev (length L)) with prev in H by lia. exact H.
Qed.

Definition sorted (l : list entry) : Prop :=
  forall j1 j2, 1 <= j1 <= j2 -> j2 <= length l -> term_at l j1 <= term_at l j2.

Lemma sorted_snoc a e :
  sorted a -> (forall x, In x a -> eterm x <= eterm e) -> sorted (a ++ [e]).
Proof.
  intros Hs Hle j1 j2 Hj Hl. rewrite app_length in Hl. simpl in Hl.
  destruct (Nat.eq_dec j2 (length a + 1)) as [->|].
  - replace (length a + 1) with (S (length a)) by lia. rewrite term_at_app_r.
    destruct (Nat.eq_dec j1 (S (length a))) as [->|].
    + now rewrite term_at_app_r.
    + rewrite term_at_app_l by lia.
      destruct (term_at_In a j1) as (x & Hx & ->); [lia|]. now apply Hle.
  - rewrite !term_at_app_l by lia. apply Hs; lia.
Qed.

Lemma sorted_firstn l m : sorted l -> sorted (firstn m l).
Proof.
  intros Hs j1 j2 Hj Hl. rewrite firstn_length in Hl.
  rewrite !term_at_firstn by lia. apply Hs; lia.
Qed.

Section Log.
  Variable V : list id.
  Hypothesis V_nodup : NoDup V.

  (* every entry of term U sits on a prefix of the log of U's leader *)
  Definition log_ok (g : nat -> list entry) (l : list entry) : Prop :=
    forall j, 1 <= j <= length l -> agree j l (g (term_at l j)).

  Definition I_lead_none n := forall t, lead n t = None -> llog n t = [] /\ llog0 n t = [].
  Definition I_llog0 n := forall t, exists ext, llog n t = llog0 n t ++ ext.
  Definition I_llog_terms n := forall t e, In e (llog n t) -> 1 <= eterm e <= t.
  Definition I_llog_sorted n := forall t, sorted (llog n t).
  Definition I_llog_ok n := forall t, log_ok (llog n) (llog n t).
  Definition I_leader_log n := forall i,
    role (nodes n i) = Leader -> llog n (term (nodes n i)) = log (nodes n i).
  Definition I_log_ok n := forall i, log_ok (llog n) (log (nodes n i)).
  Definition I_log_terms n := forall i e,
    In e (log (nodes n i)) -> 1 <= eterm e <= term (nodes n i).
  Definition I_ae n := forall t ldr prev pt ents lc,
    In (AE t ldr prev pt ents lc) (msgs n) ->
    lead n t <> None /\
    prev + length ents <= length (llog n t) /\
    firstn prev (llog n t) ++ ents = firstn (prev + length ents) (llog n t) /\
    pt = term_at (llog n t) prev.
  Definition I_vote_log_ok n := forall t w c vl,
    In (Vote t w c vl) (msgs n) -> log_ok (llog n) vl.

  Record inv2 (n : net) : Prop := {
    i_lead_none : I_lead_none n;
    i_llog0 : I_llog0 n;
    i_llog_terms : I_llog_terms n;
    i_llog_sorted : I_llog_sorted n;
    i_llog_ok : I_llog_ok n;
    i_leader_log : I_leader_log n;
    i_log_ok : I_log_ok n;
    i_log_terms : I_log_terms n;
    i_ae : I_ae n;
    i_vote_log_ok : I_vote_log_ok n
  }.

  (* ---- ghost extension ---- *)

  Definition gext (n n' : net) : Prop :=
    incl (msgs n) (msgs n') /\
    (forall t c, lead n t = Some c -> lead n' t = Some c) /\
    (forall t, exists e, llog n' t = llog n t ++ e) /\
    (forall t, lead n t <> None -> llog0 n' t = llog0 n t).

  Lemma gext_refl_ghost n n' :
    incl (msgs n) (msgs n') -> lead n' = lead n -> llog n' = llog n -> llog0 n' = llog0 n ->
    gext n n'.
  Proof.
    intros Hi Hl Hg H0. repeat split; auto.
    - intros t c. now rewrite Hl.
    - intros t. exists []. now rewrite Hg, app_nil_r.
    - intros t _. now rewrite H0.
  Qed.

  Lemma step_gext n l n' : inv1 n -> inv2 n -> fresh n l -> step V n l n' -> gext n n'.
  Proof.
    intros H1 H2 Hf Hstep.
    pose proof (step_msgs_incl V n l n' Hstep) as Hincl.
    inversion Hstep; subst; repeat match goal with x := _ |- _ => subst x end;
      try (apply gext_refl_ghost; [exact Hincl | reflexivity ..]).
    - (* BecomeLeader *)
      pose proof (Hf i eq_refl) as Hnone.
      destruct (i_lead_none n H2 _ Hnone) as (Hl & Hl0).
      repeat split; cbn [msgs lead llog llog0]; auto.
      + intros t c Hc. simp_updg; congruence.
      + intros t. simp_updg.
        * rewrite Hl. now eexists.
        * exists []. now rewrite app_nil_r.
      + intros t Ht. simp_updg; congruence.
    - (* Propose *)
      repeat split; cbn [msgs lead llog llog0]; auto.
      intros t. simp_updg.
      + rewrite (i_leader_log n H2 i H). now eexists.
      + exists []. now rewrite app_nil_r.
  Qed.

  Lemma log_ok_gext n n' l : gext n n' -> log_ok (llog n) l -> log_ok (llog n') l.
  Proof.
    intros (_ & _ & He & _) Hok j Hj.
    destruct (He (term_at l j)) as (e & ->).
    apply agree_ext_r; [now apply Hok|].
    eapply agree_len; [apply Hok; exact Hj | lia].
  Qed.

  Lemma log_ok_firstn n l m : log_ok (llog n) l -> log_ok (llog n) (firstn m l).
  Proof.
    intros Hok j Hj. rewrite firstn_length in Hj.
    rewrite term_at_firstn by lia.
    eapply agree_trans; [apply agree_firstn; lia|]. apply Hok. lia.
  Qed.

  Lemma log_ok_lmatch n a b : log_ok (llog n) a -> log_ok (llog n) b -> lmatch a b.
  Proof.
    intros Ha Hb j H1 H2 H3 Ht.
    eapply agree_trans; [apply Ha; lia|]. rewrite Ht. apply agree_sym. apply Hb. lia.
  Qed.

  Lemma log_ok_snoc g a e :
    log_ok g a -> g (eterm e) = a ++ [e] -> log_ok g (a ++ [e]).
  Proof.
    intros Ha Hl j Hj. rewrite app_length in Hj. simpl in Hj.
    destruct (Nat.eq_dec j (length a + 1)) as [->|].
    - replace (length a + 1) with (S (length a)) by lia.
      rewrite term_at_app_r. rewrite Hl. apply agree_refl.
    - rewrite term_at_app_l by lia. apply agree_ext_l; [apply Ha; lia | lia].
  Qed.

  Lemma log_ok_sorted n l : I_llog_sorted n -> log_ok (llog n) l -> sorted l.
  Proof.
    intros Hs Hok j1 j2 Hj Hl.
    pose proof (Hok j2 ltac:(lia)) as Hag.
    rewrite (agree_term_at j2 j1 _ _ Hag) by lia.
    rewrite (agree_term_at j2 j2 _ _ Hag) at 2 by lia.
    apply Hs; [lia|]. eapply agree_len; eauto.
  Qed.

  (* two well-formed logs that have the same term at an index agree up to it *)
  Lemma log_ok_matching n a b k :
    log_ok (llog n) a -> log_ok (llog n) b -> 1 <= k -> k <= length a -> k <= length b ->
    term_at a k = term_at b k -> agree k a b.
  Proof. intros Ha Hb. apply (log_ok_lmatch n a b Ha Hb). Qed.

  (* ---- what a node sees when it matches an AE at prev ---- *)

  Lemma ae_view n t ldr prev pt ents lc l :
    inv2 n -> In (AE t ldr prev pt ents lc) (msgs n) ->
    log_ok (llog n) l -> term_at l prev = pt ->
    prev <= length l /\
    firstn prev l ++ ents = firstn (prev + length ents) (llog n t) /\
    (forall e, In e ents -> 1 <= eterm e <= t).
  Proof.
    intros H2 Hin Hok Hpt.
    destruct (i_ae n H2 _ _ _ _ _ _ Hin) as (Hlead & Hlen & Hseg & Hpt').
    assert (Hents : forall e, In e ents -> 1 <= eterm e <= t).
    { intros e He. apply (i_llog_terms n H2 t).
      apply (In_firstn e (prev + length ents)). rewrite <- Hseg. apply in_or_app. now right. }
    destruct (Nat.eq_dec prev 0) as [->|Hp0].
    - split; [lia|]. split; [|exact Hents]. simpl. simpl in Hseg. exact Hseg.
    - assert (Hr : 1 <= prev <= length (llog n t)) by lia.
      destruct (term_at_In _ _ Hr) as (e & He & Hte).
      pose proof (i_llog_terms n H2 t e He) as Hge.
      assert (Hrl : 1 <= prev <= length l) by (apply term_at_in_range; lia).
      assert (Hag : agree prev l (llog n t)).
      { eapply agree_trans; [apply Hok; exact Hrl|].
        rewrite Hpt, Hpt'. apply agree_sym. apply (i_llog_ok n H2 t). exact Hr. }
      split; [lia|]. split; [|exact Hents].
      unfold agree in Hag. rewrite Hag. exact Hseg.
  Qed.

  (* result of handling an AE whose prev matches *)
  Lemma handle_ae_log n t ldr prev pt ents lc l cmt l' :
    inv2 n -> In (AE t ldr prev pt ents lc) (msgs n) ->
    log_ok (llog n) l -> term_at l prev = pt ->
    try_append l cmt prev ents = Some l' ->
    (l' = l \/ l' = firstn (prev + length ents) (llog n t)) /\
    agree (prev + length ents) l' (llog n t).
  Proof.
    intros H2 Hin Hok Hpt Hta.
    destruct (ae_view n t ldr prev pt ents lc l H2 Hin Hok Hpt) as (Hprev & Hview & Hents).
    assert (Hpos : forall e, In e ents -> 1 <= eterm e) by (intros e He; apply Hents; exact He).
    assert (LM : lmatch l (firstn prev l ++ ents)).
    { rewrite Hview. eapply log_ok_lmatch; [exact Hok|].
      apply log_ok_firstn. apply (i_llog_ok n H2). }
    destruct (try_append_spec l cmt prev ents l' Hprev Hpos LM Hta)
      as [[-> Hag]|(ci & Hci & Hc & -> & Hag & Hne)].
    - split; [now left|]. rewrite Hview in Hag.
      eapply agree_trans; [exact Hag|]. apply agree_firstn. lia.
    - rewrite Hview. split; [now right|]. apply agree_firstn. lia.
  Qed.

  (* ---- preservation ---- *)

  Lemma I_lead_none_step n l n' : inv1 n -> inv2 n -> fresh n l -> step V n l n' -> I_lead_none n'.
  Proof.
    intros H1 H2 Hf Hstep t.
    pose proof (i_lead_none n H2 t) as Hold.
    inv_step Hstep; auto.
    - simp_updg; intros Hl; [discriminate | auto].
    - intros Hl. simp_updg; auto.
      rewrite (i_leader n H1 i) in Hl by assumption. discriminate.
  Qed.

  Lemma I_llog0_step n l n' : inv1 n -> inv2 n -> fresh n l -> step V n l n' -> I_llog0 n'.
  Proof.
    intros H1 H2 Hf Hstep t.
    pose proof (i_llog0 n H2 t) as Hold.
    inv_step Hstep; auto.
    - simp_updg; auto. exists []. now rewrite app_nil_r.
    - simp_updg; auto. destruct Hold as (ext & Hext).
      rewrite <- (i_leader_log n H2 i) by assumption. rewrite Hext.
      eexists. now rewrite <- app_assoc.
  Qed.

  Lemma I_llog_terms_step n l n' : inv1 n -> inv2 n -> fresh n l -> step V n l n' -> I_llog_terms n'.
  Proof.
    intros H1 H2 Hf Hstep t e.
    pose proof (i_llog_terms n H2 t e) as Hold.
    inv_step Hstep; auto.
    - simp_updg; auto. intros He. apply in_app_or in He. destruct He as [He|[<-|[]]].
      + now apply (i_log_terms n H2 i).
      + simpl. pose proof (i_role_term n H1 i). split; [|lia].
        match goal with H : _ -> 1 <= _ |- _ => apply H; congruence end.
    - simp_updg; auto. intros He. apply in_app_or in He. destruct He as [He|[<-|[]]].
      + now apply (i_log_terms n H2 i).
      + simpl. pose proof (i_role_term n H1 i). split; [|lia].
        match goal with H : _ -> 1 <= _ |- _ => apply H; congruence end.
  Qed.

  Lemma I_llog_sorted_step n l n' : inv1 n -> inv2 n -> fresh n l -> step V n l n' -> I_llog_sorted n'.
  Proof.
    intros H1 H2 Hf Hstep t.
    pose proof (i_llog_sorted n H2 t) as Hold.
    assert (Hsn : forall i e, eterm e = term (nodes n i) -> sorted (log (nodes n i) ++ [e])).
    { intros i e He. apply sorted_snoc.
      - eapply log_ok_sorted; [apply H2 | apply (i_log_ok n H2)].
      - intros x Hx. rewrite He. now apply (i_log_terms n H2 i). }
    inv_step Hstep; auto; simp_updg; auto.
  Qed.

  Lemma I_llog_ok_step n l n' : inv1 n -> inv2 n -> fresh n l -> step V n l n' -> I_llog_ok n'.
  Proof.
    intros H1 H2 Hf Hstep t.
    pose proof (step_gext n l n' H1 H2 Hf Hstep) as Hg.
    pose proof (log_ok_gext n n' _ Hg (i_llog_ok n H2 t)) as Hold.
    pose proof (fun i => log_ok_gext n n' _ Hg (i_log_ok n H2 i)) as Hlog.
    inv_step Hstep; auto.
    - simp_updg; auto. apply log_ok_snoc; [apply Hlog|]. simpl. now rewrite updg_eq.
    - simp_updg; auto. apply log_ok_snoc; [apply Hlog|]. simpl. now rewrite updg_eq.
  Qed.

  Lemma I_leader_log_step n l n' : inv1 n -> inv2 n -> fresh n l -> step V n l n' -> I_leader_log n'.
  Proof.
    intros H1 H2 Hf Hstep j.
    pose proof (i_leader_log n H2 j) as Hold.
    inv_step Hstep; simp_upd; intros Hr; auto; try discriminate.
    - now rewrite updg_eq.
    - simp_updg; auto. exfalso.
      pose proof (i_leader n H1 j Hr) as Hl. rewrite Eg in Hl.
      rewrite (Hf i eq_refl) in Hl. discriminate.
    - now rewrite updg_eq.
    - simp_updg; auto. exfalso.
      pose proof (i_leader n H1 j Hr) as Hl. rewrite Eg in Hl.
      rewrite (i_leader n H1 i) in Hl by assumption. congruence.
  Qed.

  Lemma I_log_ok_step n l n' : inv1 n -> inv2 n -> fresh n l -> step V n l n' -> I_log_ok n'.
  Proof.
    intros H1 H2 Hf Hstep j.
    pose proof (step_gext n l n' H1 H2 Hf Hstep) as Hg.
    pose proof (log_ok_gext n n' _ Hg (i_log_ok n H2 j)) as Hold.
    pose proof (fun t => log_ok_gext n n' _ Hg (i_llog_ok n H2 t)) as Hll.
    inv_step Hstep; simp_upd; auto.
    - apply log_ok_snoc; [exact Hold|]. simpl. now rewrite updg_eq.
    - apply log_ok_snoc; [exact Hold|]. simpl. now rewrite updg_eq.
    - match goal with Hin : In (AE _ _ _ _ _ _) _,
                      Hta : try_append (log (nodes n ?k)) _ _ _ = _ |- _ =>
        destruct (handle_ae_log n _ _ _ _ _ _ _ _ _ H2 Hin (i_log_ok n H2 k) eq_refl Hta)
          as ([->| ->] & _) end; auto.
      apply log_ok_firstn. apply Hll.
    - apply log_ok_firstn. exact Hold.
  Qed.

  Lemma I_log_terms_step n l n' : inv1 n -> inv2 n -> fresh n l -> step V n l n' -> I_log_terms n'.
  Proof.
    intros H1 H2 Hf Hstep j e.
    pose proof (i_log_terms n H2 j e) as Hold.
    pose proof (i_role_term n H1) as Hrt.
    inv_step Hstep; simp_upd; auto; intros He.
    - specialize (Hold He). lia.
    - specialize (Hold He). lia.
    - apply in_app_or in He. destruct He as [He|[<-|[]]]; auto. simpl.
      split; [|lia]. apply Hrt; congruence.
    - apply in_app_or in He. destruct He as [He|[<-|[]]]; auto. simpl.
      split; [|lia]. apply Hrt; congruence.
    - match goal with Hin : In (AE _ _ _ _ _ _) _,
                      Hta : try_append (log (nodes n ?k)) _ _ _ = _ |- _ =>
        destruct (handle_ae_log n _ _ _ _ _ _ _ _ _ H2 Hin (i_log_ok n H2 k) eq_refl Hta)
          as ([->| ->] & _) end; auto.
      apply In_firstn in He. now apply (i_llog_terms n H2).
    - apply In_firstn in He. auto.
  Qed.

  Lemma I_ae_stable n n' t prev pt (ents : list entry) :
    gext n n' ->
    (lead n t <> None /\
     prev + length ents <= length (llog n t) /\
     firstn prev (llog n t) ++ ents = firstn (prev + length ents) (llog n t) /\
     pt = term_at (llog n t) prev) ->
    (lead n' t <> None /\
     prev + length ents <= length (llog n' t) /\
     firstn prev (llog n' t) ++ ents = firstn (prev + length ents) (llog n' t) /\
     pt = term_at (llog n' t) prev).
  Proof.
    intros (_ & Hl & He & _) (Hlead & Hlen & Hseg & Hpt).
    destruct (He t) as (e & ->). split; [|split; [|split]].
    - destruct (lead n t) eqn:E; [|congruence]. rewrite (Hl _ _ E). discriminate.
    - rewrite app_length. lia.
    - rewrite !firstn_app.
      replace (prev - length (llog n t)) with 0 by lia.
      replace (prev + length ents - length (llog n t)) with 0 by lia.
      simpl. rewrite !app_nil_r. exact Hseg.
    - rewrite term_at_app_l by lia. exact Hpt.
  Qed.

  Lemma I_ae_step n l n' : inv1 n -> inv2 n -> fresh n l -> step V n l n' -> I_ae n'.
  Proof.
    intros H1 H2 Hf Hstep t ldr prev pt ents lc Hin.
    pose proof (step_gext n l n' H1 H2 Hf Hstep) as Hg.
    apply (I_ae_stable n n' _ _ _ _ Hg).
    pose proof (i_ae n H2 t ldr prev pt ents lc) as Hold.
    inv_step Hstep; msg_cases Hin; auto.
    (* SendAE *)
    match goal with Hl : role (nodes n ?k) = Leader |- _ =>
      rewrite (i_leader_log n H2 k Hl); pose proof (i_leader n H1 k Hl) as Hlead end.
    split; [|split; [|split]].
    - rewrite Hlead. discriminate.
    - rewrite firstn_length, skipn_length. lia.
    - now apply firstn_segment.
    - reflexivity.
  Qed.

  Lemma I_vote_log_ok_step n l n' : inv1 n -> inv2 n -> fresh n l -> step V n l n' -> I_vote_log_ok n'.
  Proof.
    intros H1 H2 Hf Hstep t w c vl Hin.
    pose proof (step_gext n l n' H1 H2 Hf Hstep) as Hg.
    apply (log_ok_gext n n' _ Hg).
    pose proof (i_vote_log_ok n H2 t w c vl) as Hold.
    inv_step Hstep; msg_cases Hin; auto; apply (i_log_ok n H2).
  Qed.

  Lemma inv2_step n l n' : inv1 n -> inv2 n -> fresh n l -> step V n l n' -> inv2 n'.
  Proof.
    intros H1 H2 Hf Hstep. constructor.
    - eapply I_lead_none_step; eauto.
    - eapply I_llog0_step; eauto.
    - eapply I_llog_terms_step; eauto.
    - eapply I_llog_sorted_step; eauto.
    - eapply I_llog_ok_step; eauto.
    - eapply I_leader_log_step; eauto.
    - eapply I_log_ok_step; eauto.
    - eapply I_log_terms_step; eauto.
    - eapply I_ae_step; eauto.
    - eapply I_vote_log_ok_step; eauto.
  Qed.

  Lemma inv2_init : inv2 (init).
  Proof.
    constructor; red; simpl; intros; try contradiction; try discriminate; auto.
    - now exists [].
    - intros j1 j2 Hj Hl. simpl in Hl. lia.
    - intros j Hj. simpl in Hj. lia.
    - intros j Hj. simpl in Hj. lia.
  Qed.

  Lemma inv12_steps n ls n' :
    inv1q V n -> inv2 n -> steps V n ls n' -> inv1q V n' /\ inv2 n'.
  Proof.
    intros H1 H2 Hs. induction Hs; [now split|]. apply IHHs.
    - eapply inv1q_step; eauto.
    - destruct H1 as (H1 & Hq). eapply inv2_step; eauto. eapply fresh_fixed; eauto.
  Qed.

  Lemma inv2_reachable n : reachable V n -> inv2 n.
  Proof.
    intros (ls & Hs). eapply inv12_steps; [apply inv1q_init | apply inv2_init | exact Hs].
  Qed.

  (* ---- log matching ---- *)

  (* the logs that exist in a state: node logs, the sender's view implied by an AE
     message, logs recorded in votes, and the leaders' logs *)
  Inductive known_log (n : net) : list entry -> Prop :=
  | KNode i : known_log n (log (nodes n i))
  | KAE t ldr prev pt ents lc :
      In (AE t ldr prev pt ents lc) (msgs n) ->
      known_log n (firstn prev (llog n t) ++ ents)
  | KVote t w c vl : In (Vote t w c vl) (msgs n) -> known_log n vl
  | KLeader t : known_log n (llog n t).

  Lemma known_log_ok n l : inv2 n -> known_log n l -> log_ok (llog n) l.
  Proof.
    intros H2 [i|t ldr prev pt ents lc Hin|t w c vl Hin|t].
    - apply (i_log_ok n H2).
    - destruct (i_ae n H2 _ _ _ _ _ _ Hin) as (_ & _ & -> & _).
      apply log_ok_firstn, (i_llog_ok n H2).
    - eapply (i_vote_log_ok n H2); eauto.
    - apply (i_llog_ok n H2).
  Qed.

  Theorem log_matching n a b k :
    reachable V n -> known_log n a -> known_log n b ->
    1 <= k -> k <= length a -> k <= length b ->
    term_at a k = term_at b k -> firstn k a = firstn k b.
  Proof.
    intros Hr Ha Hb. pose proof (inv2_reachable n Hr) as H2.
    apply (log_ok_matching n); now apply known_log_ok.
  Qed.

  (* the AE's prevTerm is the term of its implied log at prev, so a receiver that
     matches at prev has the sender's whole prefix *)
  Theorem ae_prev_match n t ldr prev pt ents lc i :
    reachable V n -> In (AE t ldr prev pt ents lc) (msgs n) ->
    term_at (log (nodes n i)) prev = pt ->
    firstn prev (log (nodes n i)) = firstn prev (llog n t) /\ prev <= length (log (nodes n i)).
  Proof.
    intros Hr Hin Hpt. pose proof (inv2_reachable n Hr) as H2.
    destruct (ae_view n _ _ _ _ _ _ _ H2 Hin (i_log_ok n H2 i) Hpt) as (Hp & Hv & _).
    split; [|exact Hp].
    destruct (i_ae n H2 _ _ _ _ _ _ Hin) as (_ & Hlen & Hseg & _).
    rewrite <- Hseg in Hv. apply app_inv_tail in Hv. exact Hv.
  Qed.

  Theorem log_terms_sorted n l : reachable V n -> known_log n l -> sorted l.
  Proof.
    intros Hr Hk. pose proof (inv2_reachable n Hr) as H2.
    eapply log_ok_sorted; [apply H2 | now apply known_log_ok].
  Qed.

End Log.
