(* Lemmas about the tan entry index model (Model/TanIndex.v). *)
From Coq Require Import List NArith Bool Lia.
From DB Require Import Base.Bytes Gen.GenC09 Model.TanIndex.
Import ListNotations.
Open Scope N_scope.

Definition wf_ie (e : ientry) : Prop := ie_start e <= ie_end e.

(* the slice read backwards: every entry is a non-empty range strictly above all earlier ones *)
Fixpoint rsorted (r : list ientry) : Prop :=
  match r with
  | [] => True
  | a :: t => wf_ie a /\ Forall (fun b => ie_end b < ie_start a) t /\ rsorted t
  end.
Definition sorted_idx (es : list ientry) : Prop := rsorted (rev es).

(* ie (an entry of the index) still addresses the record e was created for *)
Definition same_record (ie e : ientry) : Prop :=
  ie_file ie = ie_file e /\ ie_pos ie <= ie_pos e /\ ie_pos e + ie_len e <= ie_pos ie + ie_len ie /\
  ie_start ie <= ie_start e /\ ie_end ie = ie_end e.

Definition loc_eq (a b : ientry) : Prop :=
  ie_file a = ie_file b /\ ie_pos a = ie_pos b /\ ie_start a = ie_start b.

Lemma ie_merge_some : forall e n m, ie_merge e n = Some m ->
  ie_end e + 1 = ie_start n /\ ie_file e = ie_file n /\ ie_pos e + ie_len e = ie_pos n /\
  m = mkIE (ie_start e) (ie_end n) (ie_file e) (ie_pos e) (ie_len e + ie_len n).
Proof.
  intros e n m H. unfold ie_merge in H.
  destruct ((ie_end e + 1 =? ie_start n) && (ie_pos e + ie_len e =? ie_pos n) &&
            (ie_file e =? ie_file n) && (index_block e =? index_block n)) eqn:E; [|discriminate].
  rewrite !andb_true_iff, !N.eqb_eq in E. destruct E as (((A & B) & C) & D). inversion H. auto.
Qed.

(* the five outcomes of indexEntry.update *)
Lemma ie_update_cases : forall e n, wf_ie e -> wf_ie n ->
  (exists m, ie_update e n = (m, None, false) /\ ie_end e + 1 = ie_start n /\
             m = mkIE (ie_start e) (ie_end n) (ie_file e) (ie_pos e) (ie_len e + ie_len n) /\
             ie_file e = ie_file n /\ ie_pos e + ie_len e = ie_pos n) \/
  (ie_update e n = (n, None, false) /\ ie_start n = ie_start e) \/
  (ie_update e n = (n, None, true) /\ ie_start n < ie_start e) \/
  (ie_update e n = (mkIE (ie_start e) (ie_start n - 1) (ie_file e) (ie_pos e) (ie_len e), Some n, false) /\
     ie_start e < ie_start n <= ie_end e) \/
  (ie_update e n = (e, Some n, false) /\ ie_end e < ie_start n).
Proof.
  intros e n We Wn. unfold ie_update. destruct (ie_merge e n) as [m|] eqn:M.
  - left. apply ie_merge_some in M. destruct M as (A & B & C & ->). eexists. repeat split; auto.
  - right. destruct (ie_start n =? ie_start e) eqn:E1; [left; split; auto; now apply N.eqb_eq|].
    apply N.eqb_neq in E1. right.
    destruct (ie_start n <? ie_start e) eqn:E2; [left; split; auto; now apply N.ltb_lt|].
    apply N.ltb_ge in E2. right.
    destruct ((ie_start e <? ie_start n) && (ie_start n <=? ie_end e)) eqn:E3.
    + left. split; auto. apply andb_true_iff in E3. destruct E3 as [A B].
      apply N.ltb_lt in A. apply N.leb_le in B. lia.
    + right. split; auto. apply andb_false_iff in E3. destruct E3 as [A|A];
        [apply N.ltb_ge in A | apply N.leb_gt in A]; lia.
Qed.

(* ---------- the invariant ---------- *)

Lemma update_rev_sorted : forall r e, rsorted r -> wf_ie e ->
  rsorted (update_rev r e) /\
  (exists h t, update_rev r e = h :: t /\ ie_end h = ie_end e /\ same_record h e).
Proof.
  induction r as [|last rest IH]; intros e HS We.
  - cbn. split; [repeat split; auto|]. exists e, []. unfold same_record. repeat split; auto; lia.
  - destruct HS as (Wl & Hall & HSr). cbn [update_rev].
    destruct (ie_update_cases last e Wl We) as [(m & -> & A & -> & B & C)|[(-> & A)|[(-> & A)|[(-> & A)|(-> & A)]]]].
    + (* merged with the last entry *)
      split.
      * cbn [rsorted]. split; [unfold wf_ie in *; cbn; lia|]. split; auto.
      * eexists. eexists. split; [reflexivity|]. unfold same_record; cbn. unfold wf_ie in *. repeat split; auto; lia.
    + (* same start: overwrite *)
      split.
      * cbn [rsorted]. split; auto. split; auto. rewrite A. exact Hall.
      * exists e, rest. unfold same_record. repeat split; auto; lia.
    + (* starts before the last entry: cut it and go on *)
      destruct rest as [|r0 rest'].
      * split; [cbn; repeat split; auto|]. exists e, []. unfold same_record. repeat split; auto; lia.
      * apply IH; auto.
    + (* partial overwrite of the tail of the last entry *)
      split.
      * cbn [rsorted]. split; auto. split.
        -- constructor; [cbn; lia|]. eapply Forall_impl; [|exact Hall]. cbn. intros b Hb. lia.
        -- split; [unfold wf_ie; cbn; lia|]. split; auto.
      * exists e, (mkIE (ie_start last) (ie_start e - 1) (ie_file last) (ie_pos last) (ie_len last) :: rest).
        unfold same_record. repeat split; auto; lia.
    + (* strictly after the last entry *)
      split.
      * cbn [rsorted]. split; auto. split.
        -- constructor; [lia|]. eapply Forall_impl; [|exact Hall]. cbn. intros b Hb. unfold wf_ie in *. lia.
        -- split; auto.
      * exists e, (last :: rest). unfold same_record. repeat split; auto; lia.
Qed.

Theorem tan_index_sorted_disjoint_proved : forall es e, sorted_idx es -> wf_ie e ->
  sorted_idx (index_update es e).
Proof.
  intros es e HS We. unfold sorted_idx, index_update in *. rewrite rev_involutive.
  now apply update_rev_sorted.
Qed.

(* ---------- latest writer wins ---------- *)

Lemma rsorted_in_wf : forall r a, rsorted r -> In a r -> wf_ie a.
Proof.
  induction r as [|b r IH]; intros a HS HI; [contradiction|].
  destruct HS as (Wb & _ & HSr). destruct HI as [<-|HI]; auto.
Qed.

(* 1. the new range is indexed and addresses the new record *)
Lemma update_rev_new : forall r e, rsorted r -> wf_ie e ->
  exists ie, In ie (update_rev r e) /\ ie_start ie <= ie_start e /\ ie_end ie = ie_end e /\ same_record ie e.
Proof.
  intros r e HS We. destruct (update_rev_sorted r e HS We) as (_ & h & t & E & A & B).
  exists h. rewrite E. split; [now left|]. destruct B as (B1 & B2 & B3 & B4 & B5). repeat split; auto.
Qed.

(* 2. nothing above the end of the new range stays indexed *)
Lemma update_rev_above : forall r e, rsorted r -> wf_ie e ->
  forall ie, In ie (update_rev r e) -> ie_end ie <= ie_end e.
Proof.
  induction r as [|last rest IH]; intros e HS We ie HI.
  - cbn in HI. destruct HI as [<-|[]]. lia.
  - destruct HS as (Wl & Hall & HSr). cbn [update_rev] in HI. rewrite Forall_forall in Hall.
    destruct (ie_update_cases last e Wl We) as [(m & E & A & -> & B & C)|[(E & A)|[(E & A)|[(E & A)|(E & A)]]]];
      rewrite E in HI; unfold wf_ie in *.
    + destruct HI as [<-|HI]; [cbn; lia|]. specialize (Hall _ HI). lia.
    + destruct HI as [<-|HI]; [lia|]. specialize (Hall _ HI). lia.
    + destruct rest as [|r0 rest'].
      * destruct HI as [<-|[]]. lia.
      * eapply IH; eauto.
    + destruct HI as [<-|[<-|HI]]; [lia | cbn; lia |]. specialize (Hall _ HI). lia.
    + destruct HI as [<-|[<-|HI]]; [lia | lia |]. specialize (Hall _ HI). lia.
Qed.

(* 3. below the start of the new range the index addresses the same records as before *)
Lemma update_rev_below : forall r e x, rsorted r -> wf_ie e -> x < ie_start e ->
  (forall ie', In ie' (update_rev r e) -> ie_start ie' <= x <= ie_end ie' ->
     exists ie, In ie r /\ ie_start ie <= x <= ie_end ie /\ loc_eq ie' ie) /\
  (forall ie, In ie r -> ie_start ie <= x <= ie_end ie ->
     exists ie', In ie' (update_rev r e) /\ ie_start ie' <= x <= ie_end ie' /\ loc_eq ie' ie).
Proof.
  induction r as [|last rest IH]; intros e x HS We Hx.
  - split.
    + intros ie' HI Hc. cbn in HI. destruct HI as [<-|[]]. lia.
    + intros ie [].
  - destruct HS as (Wl & Hall & HSr). cbn [update_rev]. rewrite Forall_forall in Hall.
    assert (LR : forall a, loc_eq a a) by (intros; unfold loc_eq; auto).
    destruct (ie_update_cases last e Wl We) as [(m & E & A & -> & B & C)|[(E & A)|[(E & A)|[(E & A)|(E & A)]]]];
      rewrite E; unfold wf_ie in *.
    + split.
      * intros ie' [<-|HI] Hc.
        -- cbn in Hc. exists last. split; [now left|]. split; [lia|]. unfold loc_eq; cbn; auto.
        -- exists ie'. split; [now right | auto].
      * intros ie [<-|HI] Hc.
        -- eexists. split; [now left|]. cbn. split; [lia|]. unfold loc_eq; cbn; auto.
        -- exists ie. split; [now right | auto].
    + split.
      * intros ie' [<-|HI] Hc; [lia|]. exists ie'. split; [now right | auto].
      * intros ie [<-|HI] Hc; [lia|]. exists ie. split; [now right | auto].
    + assert (HL : forall ie, In ie (last :: rest) -> ie_start ie <= x <= ie_end ie -> In ie rest).
      { intros ie [<-|HI] Hc; [lia | auto]. }
      destruct rest as [|r0 rest'].
      * split.
        -- intros ie' [<-|[]] Hc. lia.
        -- intros ie HI Hc. destruct (HL ie HI Hc).
      * destruct (IH e x HSr We Hx) as [I1 I2]. split.
        -- intros ie' HI Hc. destruct (I1 ie' HI Hc) as (ie & H1 & H2 & H3). exists ie. split; [now right | auto].
        -- intros ie HI Hc. apply I2; auto.
    + split.
      * intros ie' [<-|[<-|HI]] Hc; [lia | |].
        -- cbn in Hc. exists last. split; [now left|]. split; [lia|]. unfold loc_eq; cbn; auto.
        -- exists ie'. split; [now right | auto].
      * intros ie [<-|HI] Hc.
        -- eexists. split; [right; now left|]. cbn. split; [lia|]. unfold loc_eq; cbn; auto.
        -- exists ie. split; [right; now right | auto].
    + split.
      * intros ie' [<-|[<-|HI]] Hc; [lia | |].
        -- exists last. split; [now left | auto].
        -- exists ie'. split; [now right | auto].
      * intros ie [<-|HI] Hc.
        -- exists last. split; [right; now left | auto].
        -- exists ie. split; [right; now right | auto].
Qed.

Theorem tan_index_latest_writer_wins_proved : forall es e, sorted_idx es -> wf_ie e ->
  (* the new range is indexed and addresses the new record *)
  (exists ie, In ie (index_update es e) /\ ie_start ie <= ie_start e /\ ie_end ie = ie_end e /\ same_record ie e) /\
  (* every position above it that was indexed before is gone *)
  (forall ie, In ie (index_update es e) -> ie_end ie <= ie_end e) /\
  (* below it nothing changed: the same positions are indexed and address the same records *)
  (forall x, x < ie_start e ->
     (forall ie', In ie' (index_update es e) -> ie_start ie' <= x <= ie_end ie' ->
        exists ie, In ie es /\ ie_start ie <= x <= ie_end ie /\ loc_eq ie' ie) /\
     (forall ie, In ie es -> ie_start ie <= x <= ie_end ie ->
        exists ie', In ie' (index_update es e) /\ ie_start ie' <= x <= ie_end ie' /\ loc_eq ie' ie)).
Proof.
  intros es e HS We. unfold sorted_idx, index_update in *. split; [|split].
  - destruct (update_rev_new _ e HS We) as (ie & HI & H). exists ie. split; auto. now apply in_rev in HI.
  - intros ie HI. apply in_rev in HI. eapply update_rev_above; eauto.
  - intros x Hx. destruct (update_rev_below _ e x HS We Hx) as [I1 I2]. split.
    + intros ie' HI Hc. apply in_rev in HI. destruct (I1 ie' HI Hc) as (ie & H1 & H2). exists ie.
      split; auto. now apply in_rev.
    + intros ie HI Hc. apply in_rev in HI. destruct (I2 ie HI Hc) as (ie' & H1 & H2). exists ie'.
      split; auto. now apply in_rev in H1.
Qed.

(* ---------- query ---------- *)

(* a chain: consecutive ranges, each starting right after the previous one *)
Fixpoint chain (prev : option ientry) (res : list ientry) : Prop :=
  match res with
  | [] => True
  | e :: t => (match prev with Some p => ie_end p + 1 = ie_start e | None => True end) /\ chain (Some e) t
  end.

Lemma collect_chain : forall es high prev,
  chain prev (collect high prev es) /\
  (forall e, In e (collect high prev es) -> In e es /\ ie_start e < high).
Proof.
  induction es as [|e es IH]; intros high prev; cbn [collect]; [split; [exact I | intros e []]|].
  destruct (high <=? ie_start e) eqn:E; [split; [exact I | intros x []]|]. apply N.leb_gt in E.
  destruct prev as [p|].
  - destruct (ie_end p + 1 =? ie_start e) eqn:E2; [|split; [exact I | intros x []]].
    apply N.eqb_eq in E2. destruct (IH high (Some e)) as [I1 I2]. split; [split; auto|].
    intros x [<-|HI]; [split; [now left | auto]|]. destruct (I2 x HI). split; [now right | auto].
  - destruct (IH high (Some e)) as [I1 I2]. split; [split; auto|].
    intros x [<-|HI]; [split; [now left | auto]|]. destruct (I2 x HI). split; [now right | auto].
Qed.

Lemma drop_until_spec : forall es low e t, drop_until low es = e :: t ->
  low <= ie_end e /\ (forall x, In x (e :: t) -> In x es).
Proof.
  induction es as [|a es IH]; intros low e t H; [discriminate|].
  cbn [drop_until] in H. destruct (low <=? ie_end a) eqn:E.
  - inversion H; subst. apply N.leb_le in E. split; auto.
  - destruct (IH _ _ _ H) as [I1 I2]. split; auto. intros x HI. right. auto.
Qed.

Theorem query_contiguous_proved : forall es low high res ok, index_query es low high = IQRes res ok ->
  low <= high /\
  chain None res /\
  (forall e, In e res -> In e es /\ ie_start e < high) /\
  (match res with e :: _ => ie_start e <= low <= ie_end e | [] => True end) /\
  (ok = false -> res = []).
Proof.
  intros es low high res ok H. unfold index_query in H.
  destruct (high <? low) eqn:E; [discriminate|]. apply N.ltb_ge in E. split; auto.
  destruct (drop_until low es) as [|e t] eqn:D.
  - inversion H; subst. repeat split; auto; try contradiction.
  - destruct (low <? ie_start e) eqn:E2.
    + inversion H; subst. repeat split; auto; try contradiction.
    + apply N.ltb_ge in E2. inversion H; subst. clear H.
      destruct (drop_until_spec _ _ _ _ D) as [D1 D2].
      destruct (collect_chain (e :: t) high None) as [C1 C2]. split; [auto|]. split.
      * intros x HI. destruct (C2 x HI). split; auto.
      * split; [|discriminate]. cbn [collect]. destruct (high <=? ie_start e); [exact I|]. lia.
Qed.
