(* C11 — the sequential apply path (Model/ApplyOrder.v part 1). *)
From Coq Require Import NArith List Bool Lia Sorted.
From Coq Require Import ZifyN ZifyNat ZifyBool.
From DB Require Import Model.SMThreads Model.ApplyOrder.
Import ListNotations.
Open Scope N_scope.

(* the recorded calls (most recent first) are strictly decreasing, bounded by the
   applied index, above the start index and, on disk, above the Open index *)
Record ainv (lo : N) (st : astate) : Prop := {
  ai_sorted : StronglySorted (fun a b => fst b < fst a) (a_calls st);
  ai_bound : forall x, In x (a_calls st) -> fst x <= a_index st /\ lo < fst x;
  ai_disk : a_disk st = true -> forall x, In x (a_calls st) -> a_init st < fst x;
  ai_lo : lo <= a_index st;
  ai_streams : a_guard st = true -> forall l od, In (Some (l, od)) (a_streams st) -> od <= l
}.

Lemma sticky_entry st e : a_err st <> 0 -> handle_entry st e = st.
Proof. intros H. unfold handle_entry. apply N.eqb_neq in H. rewrite H. reflexivity. Qed.

Lemma sticky_entries l : forall st, a_err st <> 0 -> fold_left handle_entry l st = st.
Proof. induction l; simpl; auto. intros st H. rewrite sticky_entry; auto. Qed.

Lemma sticky_task st t : a_err st <> 0 -> handle_task st t = st.
Proof. intros H. unfold handle_task. apply N.eqb_neq in H. rewrite H. reflexivity. Qed.

Lemma sticky_tasks q : forall st, a_err st <> 0 -> handle_tasks st q = st.
Proof. unfold handle_tasks. induction q; simpl; auto. intros st H. rewrite sticky_task; auto. Qed.

(* one entry handled without a panic *)
Lemma ainv_entry lo st e : ainv lo st -> a_err (handle_entry st e) = 0 -> ainv lo (handle_entry st e).
Proof.
  intros [Hs Hb Hd Hl Hst] He. unfold handle_entry in *.
  destruct (negb (a_err st =? 0)); [constructor; auto|].
  destruct (negb (a_index st + 1 =? e_index e)) eqn:E; [simpl in He; discriminate|].
  apply negb_false_iff in E. apply N.eqb_eq in E.
  match goal with |- ainv _ (mkA _ _ _ (if ?d then _ else _) _ _ _) => destruct d eqn:Ed end.
  - constructor; simpl; auto.
    + constructor; auto. apply Forall_forall. intros x Hx. destruct (Hb x Hx). simpl. lia.
    + intros x [<-|Hx]; simpl; [lia|]. destruct (Hb x Hx). lia.
    + intros Hdk x [<-|Hx]; simpl; [|apply Hd; auto].
      destruct (e_kind e); [|discriminate]. rewrite Hdk in Ed. simpl in Ed. apply negb_true_iff in Ed.
      apply N.leb_gt in Ed. exact Ed.
    + lia.
  - constructor; simpl; auto.
    + intros x Hx. destruct (Hb x Hx). lia.
    + lia.
Qed.

Lemma ainv_entries lo l : forall st, ainv lo st -> a_err (fold_left handle_entry l st) = 0 ->
  ainv lo (fold_left handle_entry l st).
Proof.
  induction l; simpl; auto. intros st H He.
  destruct (N.eq_dec (a_err (handle_entry st a)) 0) as [E|E].
  - apply IHl; auto. apply ainv_entry; auto.
  - rewrite sticky_entries in He; auto. contradiction.
Qed.

Lemma ainv_task lo st t : ainv lo st -> a_err (handle_task st t) = 0 -> ainv lo (handle_task st t).
Proof.
  intros H He. unfold handle_task in *. destruct (negb (a_err st =? 0)); auto.
  destruct t; auto.
  - destruct (entries_to_apply l (a_index st)).
    + apply ainv_entries; auto.
    + simpl in He. discriminate.
  - destruct (ss_index <=? a_index st) eqn:E; auto. apply N.leb_gt in E.
    destruct H as [Hs Hb Hd Hl Hst]. constructor; simpl; auto.
    + intros x Hx. destruct (Hb x Hx). lia.
    + lia.
  - destruct H as [Hs Hb Hd Hl Hst]. constructor; simpl; auto.
    intros Hg l od [X|X]; [|eapply Hst; eauto].
    rewrite Hg in X. simpl in X. rewrite orb_false_r in X.
    destruct (negb (a_disk st) || (a_init st <=? a_index st)) eqn:Er; [|discriminate].
    destruct (a_disk st) eqn:Edk; [|inversion X; subst; lia].
    simpl in Er. apply N.leb_le in Er.
    destruct (a_calls st) as [|c r] eqn:Ec; inversion X; subst; [lia|].
    destruct (Hb c) as [Y _]; [left; auto|]. simpl. lia.
Qed.

Lemma ainv_tasks lo q : forall st, ainv lo st -> a_err (handle_tasks st q) = 0 -> ainv lo (handle_tasks st q).
Proof.
  unfold handle_tasks. induction q; simpl; auto. intros st H He.
  destruct (N.eq_dec (a_err (handle_task st a)) 0) as [E|E].
  - apply IHq; auto. apply ainv_task; auto.
  - pose proof (sticky_tasks q (handle_task st a) E) as X. unfold handle_tasks in X. rewrite X in He. contradiction.
Qed.

Lemma ainv_start_g g applied init disk : ainv applied (a_start_g g applied init disk).
Proof. constructor; simpl; auto; try contradiction. constructor. lia. Qed.

Lemma ainv_start applied init disk : ainv applied (a_start applied init disk).
Proof. apply ainv_start_g. Qed.

Lemma sorted_rev_lt l :
  StronglySorted (fun a b : N * N => fst b < fst a) l -> StronglySorted (fun a b => fst a < fst b) (rev l).
Proof.
  induction 1; simpl; [constructor|].
  assert (G : forall l1, StronglySorted (fun a b : N * N => fst a < fst b) l1 ->
              Forall (fun y => fst y < fst a) l1 -> StronglySorted (fun a b => fst a < fst b) (l1 ++ [a])).
  { induction l1; simpl; intros Hs Hf; [repeat constructor|].
    inversion Hs; subst. inversion Hf; subst. constructor; auto.
    apply Forall_app. split; auto. }
  apply G; auto. apply Forall_forall. intros y Hy. apply in_rev in Hy.
  rewrite Forall_forall in H0. apply H0. auto.
Qed.

Theorem update_indexes_strictly_increasing_proved :
  forall applied init disk q,
  a_err (handle_tasks (a_start applied init disk) q) = 0 ->
  StronglySorted (fun a b => fst a < fst b) (calls_of (handle_tasks (a_start applied init disk) q)).
Proof.
  intros applied init disk q He. unfold calls_of. apply sorted_rev_lt.
  apply (ainv_tasks applied q _ (ainv_start applied init disk) He).
Qed.

Theorem ondisk_never_at_or_below_open_index_proved :
  forall applied init q x,
  a_err (handle_tasks (a_start applied init true) q) = 0 ->
  In x (calls_of (handle_tasks (a_start applied init true) q)) -> init < fst x /\ applied < fst x.
Proof.
  intros applied init q x He Hx. unfold calls_of in Hx. apply in_rev in Hx.
  pose proof (ainv_tasks applied q _ (ainv_start applied init true) He) as [Hs Hb Hd Hl _].
  assert (Hdk : a_disk (handle_tasks (a_start applied init true) q) = true).
  { clear. unfold handle_tasks. generalize (a_start applied init true) (eq_refl : a_disk (a_start applied init true) = true).
    induction q; simpl; auto. intros st Hst. apply IHq.
    unfold handle_task. destruct (negb (a_err st =? 0)); auto. destruct a; auto.
    - destruct (entries_to_apply l (a_index st)); auto.
      clear IHq. revert st Hst. induction l0; simpl; auto. intros st Hst. apply IHl0.
      unfold handle_entry. destruct (negb (a_err st =? 0)); auto.
      destruct (negb (a_index st + 1 =? e_index a)); auto.
    - destruct (ss_index <=? a_index st); auto. }
  assert (Hin : a_init (handle_tasks (a_start applied init true) q) = init).
  { clear. unfold handle_tasks. generalize (a_start applied init true) (eq_refl : a_init (a_start applied init true) = init).
    induction q; simpl; auto. intros st Hst. apply IHq.
    unfold handle_task. destruct (negb (a_err st =? 0)); auto. destruct a; auto.
    - destruct (entries_to_apply l (a_index st)); auto.
      clear IHq. revert st Hst. induction l0; simpl; auto. intros st Hst. apply IHl0.
      unfold handle_entry. destruct (negb (a_err st =? 0)); auto.
      destruct (negb (a_index st + 1 =? e_index a)); auto.
    - destruct (ss_index <=? a_index st); auto. }
  split; [rewrite <- Hin; apply Hd; auto | apply Hb; auto].
Qed.

(* ---- exactly once: a gap-free stream of batches ---- *)
Fixpoint consecutive (from : N) (l : list entry) : Prop :=
  match l with
  | [] => True
  | e :: r => e_index e = from + 1 /\ consecutive (from + 1) r
  end.

Definition delivered (disk : bool) (init : N) (e : entry) : bool :=
  match e_kind e with
  | KUpdate => negb (disk && (e_index e <=? init))
  | KSkip => false
  end.

Definition expected (disk : bool) (init : N) (l : list entry) : list (N * N) :=
  map (fun e => (e_index e, e_payload e)) (filter (delivered disk init) l).

Lemma last_index_cons e l : l <> [] -> last_index (e :: l) = last_index l.
Proof.
  intros H. unfold last_index. simpl. destruct (rev l) eqn:E.
  - exfalso. apply H. apply (f_equal (@rev entry)) in E. rewrite rev_involutive in E. auto.
  - reflexivity.
Qed.

Lemma consecutive_last from l : consecutive from l -> l <> [] -> from < last_index l.
Proof.
  revert from. induction l as [|e r IH]; intros from H Hne; [congruence|]. destruct H as [H1 H2].
  destruct r as [|e2 r2].
  - unfold last_index. simpl. lia.
  - rewrite last_index_cons; [|discriminate]. specialize (IH (from + 1) H2). assert (e2 :: r2 <> []) by discriminate. specialize (IH H). lia.
Qed.

Lemma entries_to_apply_consecutive l applied :
  consecutive applied l -> entries_to_apply l applied = Some l.
Proof.
  intros H. destruct l as [|e r]; auto. unfold entries_to_apply.
  pose proof (consecutive_last applied (e :: r) H) as Hl. assert (X : e :: r <> []) by discriminate. specialize (Hl X).
  destruct (last_index (e :: r) <=? applied) eqn:E1; [apply N.leb_le in E1; lia|].
  destruct H as [H1 H2]. destruct (applied + 1 <? e_index e) eqn:E2; [apply N.ltb_lt in E2; lia|].
  replace (applied + 1 - e_index e) with 0 by lia. reflexivity.
Qed.

Lemma fold_entries_consecutive l : forall st,
  a_err st = 0 -> consecutive (a_index st) l ->
  let st' := fold_left handle_entry l st in
  a_err st' = 0 /\ a_init st' = a_init st /\ a_disk st' = a_disk st
  /\ a_calls st' = rev (expected (a_disk st) (a_init st) l) ++ a_calls st
  /\ (l <> [] -> a_index st' = last_index l) /\ (l = [] -> a_index st' = a_index st).
Proof.
  induction l as [|e r IH]; intros st He Hc; simpl.
  - repeat split; auto. congruence.
  - destruct Hc as [H1 H2].
    assert (Hstep : handle_entry st e = mkA (e_index e) (a_init st) (a_disk st)
              (if delivered (a_disk st) (a_init st) e then (e_index e, e_payload e) :: a_calls st else a_calls st) 0
              (a_guard st) (a_streams st)).
    { unfold handle_entry, delivered. rewrite He. simpl. rewrite H1. rewrite N.eqb_refl. simpl. reflexivity. }
    rewrite Hstep.
    match goal with |- context [fold_left handle_entry r ?s] => set (st1 := s) end.
    assert (He1 : a_err st1 = 0) by reflexivity.
    assert (Hc1 : consecutive (a_index st1) r) by (simpl; rewrite H1; auto).
    destruct (IH st1 He1 Hc1) as (A1 & A2 & A3 & A4 & A5 & A6). simpl in *.
    repeat split; auto.
    + rewrite A4. unfold expected. simpl. destruct (delivered (a_disk st) (a_init st) e); simpl; auto.
      rewrite <- app_assoc. reflexivity.
    + intros _. destruct r as [|e2 r2].
      * rewrite A6; auto.
      * rewrite last_index_cons; [|discriminate]. apply A5. discriminate.
    + discriminate.
Qed.

(* batches that continue each other without a gap *)
Fixpoint chained (from : N) (bs : list (list entry)) : Prop :=
  match bs with
  | [] => True
  | b :: r => consecutive from b /\ chained (if b then from else last_index b) r
  end.

Lemma tasks_chained bs : forall st,
  a_err st = 0 -> chained (a_index st) bs ->
  let st' := handle_tasks st (map TEntries bs) in
  a_err st' = 0 /\ a_calls st' = rev (expected (a_disk st) (a_init st) (concat bs)) ++ a_calls st.
Proof.
  induction bs as [|b r IH]; intros st He Hc; simpl.
  - split; auto.
  - destruct Hc as [H1 H2]. unfold handle_tasks in *. simpl.
    destruct (fold_entries_consecutive b st He H1) as (A1 & A2 & A3 & A4 & A5 & A6).
    set (st1 := fold_left handle_entry b st) in *.
    assert (Hht : handle_task st (TEntries b) = st1).
    { unfold handle_task. rewrite He. simpl. rewrite entries_to_apply_consecutive; auto. }
    rewrite Hht.
    assert (Hc1 : chained (a_index st1) r).
    { destruct b; [rewrite A6; auto | rewrite A5; [auto|discriminate]]. }
    destruct (IH st1 A1 Hc1) as [B1 B2]. split; auto.
    rewrite B2, A4, A2, A3. unfold expected. rewrite filter_app, map_app, rev_app_distr, app_assoc. reflexivity.
Qed.

(* every committed update entry of a gap-free stream is handed to Update exactly
   once, in order — except the ones the on-disk state machine already contains *)
Theorem each_committed_entry_once_proved :
  forall applied init disk bs,
  chained applied bs ->
  let st := handle_tasks (a_start applied init disk) (map TEntries bs) in
  a_err st = 0 /\ calls_of st = expected disk init (concat bs).
Proof.
  intros applied init disk bs Hc.
  destruct (tasks_chained bs (a_start applied init disk) eq_refl Hc) as [H1 H2]. simpl in *.
  split; auto. unfold calls_of. rewrite H2. rewrite app_nil_r. apply rev_involutive.
Qed.

Lemma guard_entries l : forall st, a_guard (fold_left handle_entry l st) = a_guard st.
Proof.
  induction l; simpl; auto. intros st. rewrite IHl. unfold handle_entry.
  destruct (negb (a_err st =? 0)); auto. destruct (negb (a_index st + 1 =? e_index a)); auto.
Qed.

Lemma guard_const q : forall st, a_guard (handle_tasks st q) = a_guard st.
Proof.
  unfold handle_tasks. induction q; simpl; auto. intros st. rewrite IHq.
  unfold handle_task. destruct (negb (a_err st =? 0)); auto. destruct a; auto.
  - destruct (entries_to_apply l (a_index st)); auto. apply guard_entries.
  - destruct (ss_index <=? a_index st); auto.
Qed.

(* a streamed image never contains more than its label says: an on-disk replica that is still
   catching up with its own on-disk state (applied index below the index returned by Open) is
   refused (ReadyToStream) *)
Theorem stream_label_covers_image_proved :
  forall applied init disk q l od,
  a_err (handle_tasks (a_start applied init disk) q) = 0 ->
  In (Some (l, od)) (streams_of (handle_tasks (a_start applied init disk) q)) -> od <= l.
Proof.
  intros applied init disk q l od He Hin. unfold streams_of in Hin. apply in_rev in Hin.
  pose proof (ainv_tasks applied q _ (ainv_start applied init disk) He) as [_ _ _ _ Hst].
  eapply Hst; eauto.
  rewrite guard_const. reflexivity.
Qed.

(* without that guard: Open returned 6, the replica has replayed up to 4 and streams *)
Theorem ready_to_stream_guard_needed_proved :
  streams_of (handle_tasks (a_start_g false 2 6 true) [TEntries [mkEntry 3 KUpdate 7; mkEntry 4 KUpdate 8]; TStream])
    = [Some (4, 6)]
  /\ streams_of (handle_tasks (a_start 2 6 true) [TEntries [mkEntry 3 KUpdate 7; mkEntry 4 KUpdate 8]; TStream;
                                                   TEntries [mkEntry 5 KUpdate 9; mkEntry 6 KUpdate 1; mkEntry 7 KUpdate 2]; TStream])
    = [None; Some (7, 7)].
Proof. vm_compute. split; reflexivity. Qed.

