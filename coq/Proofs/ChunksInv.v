(* C15: the run-level ghost-history invariant of the receiver and
   finalize_iff_complete_valid_sequence. *)
From Coq Require Import List NArith Bool Lia.
From DB Require Import Base.Bytes Model.Chunks Proofs.Chunks Proofs.ChunksFrame.
Import ListNotations.
Open Scope N_scope.

(* ---------- subsequences ---------- *)
Inductive subseq {A : Type} : list A -> list A -> Prop :=
| sub_nil : subseq [] []
| sub_skip : forall l1 l2 x, subseq l1 l2 -> subseq l1 (x :: l2)
| sub_take : forall l1 l2 x, subseq l1 l2 -> subseq (x :: l1) (x :: l2).

Lemma subseq_nil_l : forall (A : Type) (l : list A), subseq [] l.
Proof. induction l; [apply sub_nil|apply sub_skip; auto]. Qed.
Lemma subseq_refl : forall (A : Type) (l : list A), subseq l l.
Proof. induction l; [apply sub_nil|apply sub_take; auto]. Qed.
Lemma subseq_app_r : forall (A : Type) (a h : list A) x, subseq a h -> subseq a (h ++ [x]).
Proof.
  induction 1; simpl.
  - apply sub_skip. apply sub_nil.
  - apply sub_skip. assumption.
  - apply sub_take. assumption.
Qed.
Lemma subseq_snoc : forall (A : Type) (a h : list A) x, subseq a h -> subseq (a ++ [x]) (h ++ [x]).
Proof.
  induction 1; simpl.
  - apply sub_take. apply sub_nil.
  - apply sub_skip. assumption.
  - apply sub_take. assumption.
Qed.
Lemma subseq_app_r' : forall (A : Type) (a h t : list A), subseq a h -> subseq a (h ++ t).
Proof.
  intros A a h t H. induction H; simpl.
  - apply subseq_nil_l.
  - apply sub_skip. assumption.
  - apply sub_take. assumption.
Qed.
Lemma subseq_single : forall (A : Type) (h : list A) x, subseq [x] (h ++ [x]).
Proof. induction h; intro x; simpl; [apply sub_take; apply sub_nil|apply sub_skip; auto]. Qed.

Section Snoc.
  Variable D : Type.
  Variable dapp : D -> D -> D.
  Variable V : Type.
  Variable vadd : V -> D -> N -> vres V.
  Variable my_did : N.
  Notation chunk := (chunk D).

  Lemma replay_snoc : forall (l : list chunk) files files1 c,
      replay D dapp files l = Some files1 ->
      replay D dapp files (l ++ [c]) = replay D dapp files1 [c].
  Proof.
    induction l as [|[m d] l IH]; intros files files1 c H.
    - simpl in H. injection H as H; subst. reflexivity.
    - simpl app. simpl replay in *.
      destruct (bad_name (path_base (c_path m))); [discriminate|].
      destruct (c_fcid m =? 0); [apply IH; assumption|].
      destruct (alookup bytes_eqb (path_base (c_path m)) files); [apply IH; assumption|discriminate].
  Qed.

  Lemma vfold_snoc : forall (l : list chunk) v v1 c,
      vfold D V vadd v l = Some v1 -> vfold D V vadd v (l ++ [c]) = vfold D V vadd v1 [c].
  Proof.
    induction l as [|[m d] l IH]; intros v v1 c H.
    - simpl in H. injection H as H; subst. reflexivity.
    - simpl app. simpl vfold in *. destruct (c_hasfi m); [apply IH; assumption|].
      destruct (vadd v d (c_id m)); try discriminate. apply IH; assumption.
  Qed.

  Lemma fileinfos_snoc : forall (l : list chunk) acc m d,
      fileinfos D acc (l ++ [(m, d)]) = add_fileinfo m (fileinfos D acc l).
  Proof. induction l as [|[m0 d0] l IH]; intros; simpl; auto. Qed.

  Lemma ids_from_snoc : forall (l : list chunk) i m d,
      ids_from D i l -> c_id m = i + nlen l -> ids_from D i (l ++ [(m, d)]).
  Proof.
    induction l as [|[m0 d0] l IH]; intros i m d H Hid; simpl.
    - unfold nlen in Hid. simpl in Hid. split; auto. rewrite Hid. lia.
    - destruct H as [H1 H2]. split; auto. apply IH; auto.
      rewrite Hid. unfold nlen. simpl length. lia.
  Qed.

  Lemma same_stream_snoc : forall m0 (l : list chunk) c,
      same_stream D my_did m0 l ->
      key_of (fst c) = key_of m0 -> c_from (fst c) = c_from m0 ->
      c_did (fst c) = my_did -> c_binver (fst c) = transport_bin_version ->
      same_stream D my_did m0 (l ++ [c]).
  Proof.
    intros. unfold same_stream in *. apply Forall_app. split; auto.
  Qed.

  Definition no_last (l : list chunk) : Prop := Forall (fun c : chunk => is_last (fst c) = false) l.

  Lemma last_only_snoc : forall (l : list chunk) m d,
      no_last l -> is_last m = true -> last_only D (l ++ [(m, d)]).
  Proof.
    induction l as [|[m0 d0] l IH]; intros m d Hn Hl; simpl; auto.
    inversion Hn; subst. simpl in H1.
    destruct (l ++ [(m, d)]) eqn:E.
    - destruct l; discriminate.
    - rewrite <- E. split; auto.
  Qed.

  Lemma nlen_snoc : forall (A : Type) (l : list A) x, nlen (l ++ [x]) = nlen l + 1.
  Proof. intros. unfold nlen. rewrite app_length. simpl. lia. Qed.
End Snoc.

Section Inv.
  Variable D : Type.
  Variable dapp : D -> D -> D.
  Variable V : Type.
  Variable vinit : V.
  Variable vadd : V -> D -> N -> vres V.
  Variable vfinal : V -> bool.
  Variables my_did gc_tick timeout max_slots : N.

  Notation state := (state D V).
  Notation chunk := (chunk D).
  (* the repaired receiver *)
  Notation addM := (add D dapp V vinit vadd vfinal true true my_did max_slots).
  Notation stepM := (step D dapp V vinit vadd vfinal true true my_did gc_tick timeout max_slots).
  Notation runM := (run D dapp V vinit vadd vfinal true true my_did gc_tick timeout max_slots).
  Notation replayM := (replay D dapp).
  Notation vfoldM := (vfold D V vadd).
  Notation trk st k := (alookup key_eqb k (s_tracked st)).
  Notation tmp st tk := (alookup tkey_eqb tk (s_temps st)).
  Notation fin st k := (alookup key_eqb k (s_finals st)).

  (* [acc] is the list of chunks recorded for the tracked stream [td] of snapshot [k]:
     it starts with the stream's first chunk, ids are 0,1,2,.., all chunks have the key,
     sender, deployment id and binary version of the first *)
  Record stream_prefix (k : key) (td : tracked V) (acc : list chunk) : Prop := mkSP {
    sp_first : exists d0 r, acc = (t_first td, d0) :: r;
    sp_key : key_of (t_first td) = k;
    sp_ids : ids_from D 0 acc;
    sp_same : same_stream D my_did (t_first td) acc;
    sp_next : t_next td = nlen acc;
    sp_files : t_files td = fileinfos D [] acc }.

  (* for a replica that is not removed: none of them was a last chunk, the validator
     state is the fold over them, the temp dir holds exactly what they wrote *)
  Definition live (st : state) (td : tracked V) (acc : list chunk) : Prop :=
    no_last D acc /\ vfoldM vinit acc = Some (t_v td) /\
    exists files, replayM [] acc = Some files /\ tmp st (tkey_of (t_first td)) = Some files.

  (* the complete valid sequence behind a final directory *)
  Definition complete (k : key) (acc : list chunk) (fd : fdir D) : Prop :=
    exists m0 d0 r v files,
      acc = (m0, d0) :: r /\ key_of m0 = k /\ ids_from D 0 acc /\ same_stream D my_did m0 acc /\
      last_only D acc /\ vfoldM vinit acc = Some v /\ vfinal v = true /\ replayM [] acc = Some files /\
      fd = mkFDir (adel bytes_eqb snapshot_flag_filename files) (to_message m0 (fileinfos D [] acc)).

  Definition invK (h : list chunk) (st : state) (k : key) : Prop :=
    (forall td, trk st k = Some td ->
        exists acc, subseq acc h /\ stream_prefix k td acc /\
                    (is_removed st (node_of (t_first td)) = false -> live st td acc)) /\
    (forall fd, fin st k = Some fd -> exists acc, subseq acc h /\ complete k acc fd) /\
    (forall tk files, tkey_key tk = k -> tmp st tk = Some files ->
        exists td, trk st k = Some td /\ tkey_of (t_first td) = tk).

  Definition inv (h : list chunk) (st : state) : Prop :=
    (forall k, invK h st k) /\ NoDup (map fst (s_tracked st)).

  Lemma invK_weaken : forall h t st k, invK h st k -> invK (h ++ t) st k.
  Proof.
    intros h t st k [I1 [I2 I3]]. split; [|split]; auto.
    - intros td L. destruct (I1 td L) as [acc [S R]]. exists acc. split; auto. apply subseq_app_r'. exact S.
    - intros fd L. destruct (I2 fd L) as [acc [S R]]. exists acc. split; auto. apply subseq_app_r'. exact S.
  Qed.

  (* invK only looks at snapshot k's part of the state and at the removed set *)
  Lemma invK_transfer : forall h (st st' : state) k,
      same_at D V k st st' -> s_removed st' = s_removed st -> invK h st k -> invK h st' k.
  Proof.
    intros h st st' k [S1 [S2 S3]] SR [I1 [I2 I3]]. split; [|split].
    - intros td L. rewrite S1 in L. destruct (I1 td L) as [acc [Sq [P Lv]]]. exists acc. split; auto. split; auto.
      intro R. unfold is_removed in *. rewrite SR in R. destruct (Lv R) as [A [B [files [C E]]]].
      split; auto. split; auto. exists files. split; auto. rewrite S2; auto.
      rewrite tkey_key_of. apply (sp_key _ _ _ P).
    - intros fd L. rewrite S3 in L. auto.
    - intros tk files Hk L. rewrite S2 in L by exact Hk. destruct (I3 tk files Hk L) as [td [A B]].
      exists td. rewrite S1. auto.
  Qed.

  Lemma inv_wf : forall h st, inv h st -> tracked_wf D V st.
  Proof.
    intros h st [I _] k td L. destruct (I k) as [I1 _]. destruct (I1 td L) as [acc [_ [P _]]].
    apply (sp_key _ _ _ P).
  Qed.

  (* ----- shape of the tracked table and the removed set after a chunk ----- *)
  Ltac inner_destruct_in H :=
    repeat match type of H with
           | context [match ?x with _ => _ end] =>
             lazymatch x with
             | context [match _ with _ => _ end] => fail
             | _ => destruct x eqn:?
             end
           end.

  Lemma add_shape :
    forall (P : list (key * tracked V) -> Prop),
      (forall k td l, P l -> P (aset key_eqb k td l)) ->
      (forall k l, P l -> P (adel key_eqb k l)) ->
      forall (st : state) c st' b, addM st c = Done st' b -> P (s_tracked st) ->
                                   P (s_tracked st') /\ s_removed st' = s_removed st /\ s_tick st' = s_tick st.
  Proof.
    intros P Hset Hdel st [m d] st' b H HP.
    unfold add, add_locked, record, save, finish in H. simpl in H.
    inner_destruct_in H; try discriminate; injection H as H1 H2; subst st' b; simpl;
      (split; [|split]); try reflexivity; repeat (first [assumption | apply Hset | apply Hdel]).
  Qed.

  Lemma NoDup_aset : forall (A : Type) k (a : A) l, NoDup (map fst l) -> NoDup (map fst (aset key_eqb k a l)).
  Proof.
    induction l as [|[k1 a1] l IH]; simpl; intro H.
    - constructor; [intros []|constructor].
    - destruct (key_eqb k k1) eqn:E; simpl.
      + apply key_eqb_eq in E. subst. exact H.
      + inversion H; subst. constructor; auto.
        intro X. apply in_map_iff in X. destruct X as [[k2 a2] [E2 X]]. simpl in E2. subst k2.
        apply In_aset in X. destruct X as [X|X].
        * inversion X; subst. rewrite key_eqb_refl in E. discriminate.
        * apply H2. apply in_map_iff. exists (k1, a2). auto.
  Qed.
  Lemma NoDup_adel : forall (A : Type) k (l : list (key * A)), NoDup (map fst l) -> NoDup (map fst (adel key_eqb k l)).
  Proof.
    induction l as [|[k1 a1] l IH]; simpl; intro H; auto.
    inversion H; subst. destruct (key_eqb k k1); simpl; auto.
    constructor; auto. intro X. apply in_map_iff in X. destruct X as [[k2 a2] [E2 X]]. simpl in E2. subst k2.
    apply In_adel in X. apply H2. apply in_map_iff. exists (k1, a2). auto.
  Qed.

  (* ----- the part of addLocked that follows record ----- *)
  Definition validated (td : tracked V) (m : cmeta) (d : D) : vres V :=
    if negb (c_hasfi m) && negb (c_id m =? 0) then vadd (t_v td) d (c_id m) else VOk (t_v td).

  Definition cont (st1 : state) (td : tracked V) (c : chunk) : outcome D V :=
    let '(m, d) := c in
    let k := key_of m in
    if is_removed st1 (node_of m) then Done (remove_temp (tkey_of m) st1) false
    else
      match validated td m d with
      | VPanic => Panic
      | VBad v' => Done (untrack k (remove_temp (tkey_of m) st1)) false
      | VOk v' =>
        let td' := set_v td v' in
        let st2 := track k td' st1 in
        match save D dapp V st2 c with
        | None => Panic
        | Some st3 => if is_last m then finish D V vfinal st3 m td' else Done st3 true
        end
      end.

  Lemma add_locked_cont : forall (st : state) (c : chunk),
      add_locked D dapp V vinit vadd vfinal true true max_slots st c =
      match record D V vinit vadd true max_slots st c with
      | RPanic => Panic
      | RIgnore s => Done s false
      | RTracked st1 td => cont st1 td c
      end.
  Proof. intros st [m d]. reflexivity. Qed.

  Lemma save_spec : forall (st2 st3 : state) m d,
      save D dapp V st2 (m, d) = Some st3 ->
      exists files0 files1,
        (if c_id m =? 0
         then files0 = match tmp st2 (tkey_of m) with Some f => f | None => [] end
         else tmp st2 (tkey_of m) = Some files0) /\
        replayM files0 [(m, d)] = Some files1 /\
        tmp st3 (tkey_of m) = Some files1 /\
        (forall tk, tk <> tkey_of m -> tmp st3 tk = tmp st2 tk) /\
        s_tracked st3 = s_tracked st2 /\ s_finals st3 = s_finals st2 /\
        s_removed st3 = s_removed st2 /\ s_out st3 = s_out st2.
  Proof.
    intros st2 st3 m d H. unfold save in H.
    set (tk := tkey_of m) in *.
    set (st1 := if c_id m =? 0
                then match tmp st2 tk with
                     | Some _ => st2
                     | None => set_temps st2 (aset tkey_eqb tk [] (s_temps st2))
                     end
                else st2) in *.
    assert (E1 : s_tracked st1 = s_tracked st2 /\ s_finals st1 = s_finals st2 /\
                 s_removed st1 = s_removed st2 /\ s_out st1 = s_out st2 /\
                 (forall tk', tk' <> tk -> tmp st1 tk' = tmp st2 tk') /\
                 tmp st1 tk = (if c_id m =? 0
                               then Some (match tmp st2 tk with Some f => f | None => [] end)
                               else tmp st2 tk)).
    { unfold st1. destruct (c_id m =? 0); [|repeat split; auto].
      destruct (tmp st2 tk) eqn:L; repeat split; auto; simpl.
      - intros tk' Hn. apply alookup_aset_other; [exact tkey_eqb_eq|exact Hn].
      - apply alookup_aset_same; exact tkey_eqb_eq. }
    destruct E1 as [A1 [A2 [A3 [A4 [A5 A6]]]]].
    destruct (tmp st1 tk) as [files|] eqn:L; [|discriminate].
    exists files.
    assert (F0 : if c_id m =? 0 then files = match tmp st2 tk with Some f => f | None => [] end
                 else tmp st2 tk = Some files).
    { destruct (c_id m =? 0); [congruence|congruence]. }
    simpl replay.
    destruct (bad_name (path_base (c_path m))); [discriminate|].
    assert (G : forall x, s_tracked (set_temps st1 x) = s_tracked st2 /\ s_finals (set_temps st1 x) = s_finals st2 /\
                          s_removed (set_temps st1 x) = s_removed st2 /\ s_out (set_temps st1 x) = s_out st2)
      by (intro; simpl; auto).
    assert (T : forall files1, tmp (set_temps st1 (aset tkey_eqb tk files1 (s_temps st1))) tk = Some files1 /\
                               (forall tk', tk' <> tk -> tmp (set_temps st1 (aset tkey_eqb tk files1 (s_temps st1))) tk' = tmp st2 tk')).
    { intro files1. simpl. split; [apply alookup_aset_same; exact tkey_eqb_eq|].
      intros tk' Hn. rewrite alookup_aset_other by (exact tkey_eqb_eq || exact Hn). auto. }
    destruct (c_fcid m =? 0).
    - injection H as H; subst st3. eexists. split; [exact F0|]. split; [reflexivity|].
      destruct (T (fset (path_base (c_path m)) d files)) as [T1 T2]. destruct (G (aset tkey_eqb tk (fset (path_base (c_path m)) d files) (s_temps st1))) as [G1 [G2 [G3 G4]]].
      repeat split; assumption.
    - destruct (alookup bytes_eqb (path_base (c_path m)) files) as [old|]; [|discriminate].
      injection H as H; subst st3. eexists. split; [exact F0|]. split; [reflexivity|].
      destruct (T (fset (path_base (c_path m)) (dapp old d) files)) as [T1 T2]. destruct (G (aset tkey_eqb tk (fset (path_base (c_path m)) (dapp old d) files) (s_temps st1))) as [G1 [G2 [G3 G4]]].
      repeat split; assumption.
  Qed.

  Lemma no_last_snoc : forall (l : list chunk) m d, no_last D l -> is_last m = false -> no_last D (l ++ [(m, d)]).
  Proof. intros. unfold no_last in *. apply Forall_app. split; auto. Qed.

  Lemma prefix_set_v : forall k td v acc, stream_prefix k td acc -> stream_prefix k (set_v td v) acc.
  Proof. intros k td v acc [A B C E F G]. constructor; simpl; auto. Qed.

  (* the invariant for snapshot k after the continuation of addLocked *)
  Lemma cont_inv :
    forall h' (st1 st' : state) td m d accp b,
      let k := key_of m in
      let acc1 := accp ++ [(m, d)] in
      trk st1 k = Some td ->
      stream_prefix k td acc1 -> subseq acc1 h' ->
      node_of (t_first td) = node_of m -> tkey_of (t_first td) = tkey_of m ->
      (forall tk, tkey_key tk = k -> tk <> tkey_of m -> tmp st1 tk = None) ->
      (forall fd, fin st1 k = Some fd -> exists acc, subseq acc h' /\ complete k acc fd) ->
      (is_removed st1 (node_of m) = false ->
       no_last D accp /\
       exists filesp, replayM [] accp = Some filesp /\
                      (if c_id m =? 0 then tmp st1 (tkey_of m) = None /\ filesp = []
                       else tmp st1 (tkey_of m) = Some filesp) /\
                      (forall v', validated td m d = VOk v' -> vfoldM vinit acc1 = Some v')) ->
      cont st1 td (m, d) = Done st' b ->
      invK h' st' k.
  Proof.
    intros h' st1 st' td m d accp b k0 acc0 Htr HP Hsub Hnode Htk HT Hfin Hlive H.
    subst k0 acc0. unfold cont in H.
    assert (NoTmp : forall (s : state), (forall tk, tk <> tkey_of m -> tmp s tk = tmp st1 tk) ->
                                        tmp s (tkey_of m) = None ->
                                        forall tk files, tkey_key tk = (key_of m) -> tmp s tk = Some files -> False).
    { intros s Hs Hn tk files Hk L. destruct (tkey_eqb tk (tkey_of m)) eqn:E.
      - apply tkey_eqb_eq in E. subst tk. congruence.
      - apply tkey_eqb_neq in E. rewrite Hs in L by exact E. rewrite HT in L; auto. discriminate. }
    assert (RmTmp : forall (s : state) tk, tk <> tkey_of m ->
                      tmp (remove_temp (tkey_of m) s) tk = tmp s tk)
      by (intros; simpl; apply alookup_adel_other; [exact tkey_eqb_eq|assumption]).
    assert (RmTmp0 : forall (s : state), tmp (remove_temp (tkey_of m) s) (tkey_of m) = None)
      by (intros; simpl; apply alookup_adel_same; exact tkey_eqb_eq).
    destruct (is_removed st1 (node_of m)) eqn:Rm.
    - (* the replica is removed: the temp dir goes, the stream stays tracked *)
      injection H as H1 H2; subst st' b. split; [|split].
      + intros td0 L. simpl in L. rewrite Htr in L. injection L as L; subst td0.
        exists (accp ++ [(m, d)]). split; auto. split; auto.
        intro R. unfold is_removed in *. simpl in R. rewrite Hnode in R. congruence.
      + intros fd L. simpl in L. auto.
      + intros tk files Hk L. exfalso.
        refine (NoTmp (remove_temp (tkey_of m) st1) _ _ tk files Hk L); [intros tk0 Hn; apply RmTmp; exact Hn|apply RmTmp0].
    - destruct (Hlive eq_refl) as [Hnl [filesp [Hrp [Hpre Hv]]]].
      destruct (validated td m d) as [v'|v'|] eqn:Val; try discriminate.
      + (* validated *)
        specialize (Hv v' eq_refl).
        destruct (save D dapp V (track (key_of m) (set_v td v') st1) (m, d)) as [st3|] eqn:Hs; [|discriminate].
        apply save_spec in Hs.
        destruct Hs as [files0 [files1 [F0 [R1 [T3 [T3o [S3 [Fi3 [Re3 O3]]]]]]]]].
        simpl in S3, Fi3, Re3, O3.
        assert (Tst2 : forall tk, tmp (track (key_of m) (set_v td v') st1) tk = tmp st1 tk) by reflexivity.
        assert (E0 : files0 = filesp).
        { destruct (c_id m =? 0).
          - destruct Hpre as [Hp1 Hp2]. rewrite Tst2, Hp1 in F0. congruence.
          - rewrite Tst2 in F0. congruence. }
        subst files0.
        assert (Rep : replayM [] (accp ++ [(m, d)]) = Some files1)
          by (exact (eq_trans (replay_snoc D dapp accp [] filesp (m, d) Hrp) R1)).
        assert (Tr3 : trk st3 (key_of m) = Some (set_v td v'))
          by (rewrite S3; apply alookup_aset_same; exact key_eqb_eq).
        assert (Tm3 : forall tk, tk <> tkey_of m -> tmp st3 tk = tmp st1 tk)
          by (intros tk Hn; rewrite T3o by exact Hn; apply Tst2).
        destruct (is_last m) eqn:Last.
        * (* the last chunk *)
          unfold finish in H. simpl t_v in H.
          destruct (vfinal v') eqn:Vf; simpl in H.
          -- rewrite T3 in H. 
             destruct (fin st3 (key_of m)) eqn:F3'.
             ++ injection H as H1 H2; subst st' b. split; [|split].
                ** intros td0 L. simpl in L. rewrite alookup_adel_same in L by exact key_eqb_eq. discriminate.
                ** intros fd L. simpl in L. rewrite Fi3 in L. auto.
                ** intros tk files Hk L. exfalso.
                   refine (NoTmp (remove_temp (tkey_of m) (untrack (key_of m) st3)) _ _ tk files Hk L); [|apply RmTmp0].
                   intros tk0 Hn. rewrite RmTmp by exact Hn. simpl. apply Tm3. exact Hn.
             ++ injection H as H1 H2; subst st' b. split; [|split].
                ** intros td0 L. simpl in L. rewrite alookup_adel_same in L by exact key_eqb_eq. discriminate.
                ** intros fd L. simpl in L. rewrite alookup_aset_same in L by exact key_eqb_eq.
                   injection L as L; subst fd. exists (accp ++ [(m, d)]). split; auto.
                   destruct HP as [[d0 [r Hf]] Hk Hi Hsm Hn Hfl].
                   exists (t_first td), d0, r, v', files1. 
                   repeat split; auto.
                   --- apply last_only_snoc; assumption.
                   --- simpl. rewrite Hfl. reflexivity.
                ** intros tk files Hk L. exfalso. simpl in L.
                   destruct (tkey_eqb tk (tkey_of m)) eqn:E.
                   --- apply tkey_eqb_eq in E. subst tk. rewrite alookup_adel_same in L by exact tkey_eqb_eq. discriminate.
                   --- apply tkey_eqb_neq in E. rewrite alookup_adel_other in L by (exact tkey_eqb_eq || exact E).
                       change (tmp st3 tk = Some files) in L. rewrite Tm3 in L by exact E. rewrite HT in L; auto. discriminate.
          -- injection H as H1 H2; subst st' b. split; [|split].
             ++ intros td0 L. simpl in L. rewrite alookup_adel_same in L by exact key_eqb_eq. discriminate.
             ++ intros fd L. simpl in L. rewrite Fi3 in L. auto.
             ++ intros tk files Hk L. exfalso.
                refine (NoTmp (remove_temp (tkey_of m) (untrack (key_of m) st3)) _ _ tk files Hk L); [|apply RmTmp0].
                intros tk0 Hn. rewrite RmTmp by exact Hn. simpl. apply Tm3. exact Hn.
        * (* not the last chunk: accepted, the stream goes on *)
          injection H as H1 H2; subst st' b. split; [|split].
          -- intros td0 L. rewrite Tr3 in L. injection L as L; subst td0.
             exists (accp ++ [(m, d)]). split; auto. split; [apply prefix_set_v; exact HP|].
             intro R. split; [apply no_last_snoc; assumption|].
             split; [exact Hv|]. exists files1. split; auto. simpl t_first. rewrite Htk. exact T3.
          -- intros fd L. rewrite Fi3 in L. auto.
          -- intros tk files Hk L. exists (set_v td v'). split; auto. simpl t_first. rewrite Htk.
             destruct (tkey_eqb tk (tkey_of m)) eqn:E.
             ++ apply tkey_eqb_eq in E. auto.
             ++ apply tkey_eqb_neq in E. rewrite Tm3 in L by exact E. rewrite HT in L; auto. discriminate.
      + (* the validator refuses the chunk: the stream is dropped *)
        injection H as H1 H2; subst st' b. split; [|split].
        * intros td0 L. simpl in L. rewrite alookup_adel_same in L by exact key_eqb_eq. discriminate.
        * intros fd L. simpl in L. auto.
        * intros tk files Hk L. exfalso.
          refine (NoTmp (untrack (key_of m) (remove_temp (tkey_of m) st1)) _ _ tk files Hk L);
            [intros tk0 Hn; apply (RmTmp st1); exact Hn|apply (RmTmp0 st1)].
  Qed.

  (* the invariant for the chunk's own snapshot after Add *)
  Lemma add_inv_key :
    forall h (st st' : state) m d b,
      inv h st -> addM st (m, d) = Done st' b -> invK (h ++ [(m, d)]) st' (key_of m).
  Proof.
    intros h st st' m d b [I ND] H.
    destruct (I (key_of m)) as [I1 [I2 I3]].
    assert (W : invK (h ++ [(m, d)]) st (key_of m)) by (apply invK_weaken; split; [|split]; assumption).
    unfold add in H. simpl fst in H.
    destruct (c_did m =? my_did) eqn:Edid; cbn [negb orb] in H; [|injection H as H1 H2; subst; exact W].
    destruct (c_binver m =? transport_bin_version) eqn:Ebv; cbn [negb orb] in H; [|injection H as H1 H2; subst; exact W].
    apply N.eqb_eq in Edid. apply N.eqb_eq in Ebv.
    rewrite add_locked_cont in H. unfold record in H.
    destruct (c_id m =? 0) eqn:Eid.
    - (* a first chunk *)
      apply N.eqb_eq in Eid.
      set (discard := fun s : state =>
                        match trk st (key_of m) with
                        | Some td => remove_temp (tkey_of (t_first td)) s
                        | None => s
                        end) in *.
      set (is_full := match trk st (key_of m) with Some _ => false | None => full max_slots st end) in *.
      assert (T0 : forall tk, tkey_key tk = key_of m -> tmp (discard st) tk = None).
      { intros tk Hk. unfold discard. destruct (tmp st tk) as [files|] eqn:L.
        - destruct (I3 tk files Hk L) as [td' [A B]]. rewrite A. subst tk. simpl.
          apply alookup_adel_same; exact tkey_eqb_eq.
        - destruct (trk st (key_of m)); auto. simpl. apply alookup_adel_none; exact L. }
      assert (Fd : s_finals (discard st) = s_finals st /\ s_removed (discard st) = s_removed st)
        by (unfold discard; destruct (trk st (key_of m)); split; reflexivity).
      destruct Fd as [Fd Rd].
      (* all accepting branches reach [start (discard st) v0] with the validator verdict v0 *)
      assert (Start : forall v0,
                 (if c_hasfi m then VOk vinit else vadd vinit d 0) = VOk v0 ->
                 cont (track (key_of m) (mkTracked m v0 (add_fileinfo m []) (s_tick (discard st)) 1) (discard st))
                      (mkTracked m v0 (add_fileinfo m []) (s_tick (discard st)) 1) (m, d) = Done st' b ->
                 invK (h ++ [(m, d)]) st' (key_of m)).
      { intros v0 Hv0 Hc.
        refine (cont_inv (h ++ [(m, d)]) _ st' _ m d [] b _ _ _ _ _ _ _ _ Hc).
        - simpl. apply alookup_aset_same; exact key_eqb_eq.
        - constructor; simpl; auto.
          + eauto.
          + constructor; [|constructor]. simpl. auto.
        - simpl. apply subseq_single.
        - reflexivity.
        - reflexivity.
        - intros tk Hk Hn. simpl. apply T0. exact Hk.
        - intros fd L. simpl in L. rewrite Fd in L. destruct W as [_ [W2 _]]. auto.
        - intro R. split; [constructor|]. exists []. split; [reflexivity|]. split.
          + rewrite Eid. simpl. split; [apply T0; reflexivity|reflexivity].
          + intros v' Hval. unfold validated in Hval. rewrite Eid in Hval. simpl in Hval.
            rewrite andb_false_r in Hval. injection Hval as Hval; subst v'.
            simpl. rewrite Eid. destruct (c_hasfi m).
            * injection Hv0 as Hv0; subst. reflexivity.
            * rewrite Hv0. reflexivity. }
      destruct (c_hasfi m) eqn:Hfi.
      + destruct is_full; [injection H as H1 H2; subst; exact W|].
        apply (Start vinit); auto.
      + destruct (vadd vinit d 0) as [v0|v0|] eqn:Va; try discriminate.
        * destruct is_full; [injection H as H1 H2; subst; exact W|].
          apply (Start v0); auto.
        * injection H as H1 H2; subst; exact W.
    - (* a later chunk *)
      apply N.eqb_neq in Eid.
      destruct (trk st (key_of m)) as [td0|] eqn:Ltr; [|injection H as H1 H2; subst; exact W].
      destruct (t_next td0 =? c_id m) eqn:Enext; simpl in H; [|injection H as H1 H2; subst; exact W].
      destruct (c_from (t_first td0) =? c_from m) eqn:Efrom; simpl in H; [|injection H as H1 H2; subst; exact W].
      apply N.eqb_eq in Enext. apply N.eqb_eq in Efrom.
      destruct (I1 td0 eq_refl) as [acc [Sq [P Lv]]].
      destruct P as [[d0 [r Hacc]] Pk Pids Psame Pnext Pfiles].
      assert (Hkk : key_of m = key_of (t_first td0)) by (symmetry; exact Pk).
      assert (Htk : tkey_of (t_first td0) = tkey_of m) by (symmetry; apply tkey_of_same; auto).
      assert (Hnd : node_of (t_first td0) = node_of m) by (symmetry; apply node_of_same; auto).
      refine (cont_inv (h ++ [(m, d)]) _ st' _ m d acc b _ _ _ _ _ _ _ _ H).
      + simpl. apply alookup_aset_same; exact key_eqb_eq.
      + constructor; cbn [t_first t_next t_files].
        * exists d0, (r ++ [(m, d)]). rewrite Hacc. reflexivity.
        * exact Pk.
        * apply ids_from_snoc; auto. rewrite N.add_0_l. rewrite <- Enext. exact Pnext.
        * apply same_stream_snoc; auto.
        * rewrite nlen_snoc. rewrite <- Enext. f_equal. exact Pnext.
        * rewrite fileinfos_snoc. rewrite <- Pfiles. reflexivity.
      + apply subseq_snoc. exact Sq.
      + exact Hnd.
      + exact Htk.
      + intros tk Hk Hn. simpl. destruct (tmp st tk) as [files|] eqn:L; auto.
        destruct (I3 tk files Hk L) as [td' [A B]]. injection A as A; subst td'.
        exfalso. apply Hn. rewrite <- B. exact Htk.
      + intros fd L. simpl in L. destruct W as [_ [W2 _]]. auto.
      + intro R. unfold is_removed in R. simpl in R. rewrite <- Hnd in R.
        destruct (Lv R) as [Nl [Vf [files [Rp Tp]]]].
        split; [exact Nl|]. exists files. split; [exact Rp|]. split.
        * apply N.eqb_neq in Eid. rewrite Eid. simpl. rewrite <- Htk. exact Tp.
        * intros v' Hval. unfold validated in Hval. simpl t_v in Hval.
          refine (eq_trans (vfold_snoc D V vadd acc vinit (t_v td0) (m, d) Vf) _). simpl.
          apply N.eqb_neq in Eid. rewrite Eid in Hval. rewrite andb_true_r in Hval.
          destruct (c_hasfi m); simpl in Hval.
          -- injection Hval as Hval; subst. reflexivity.
          -- rewrite Hval. reflexivity.
  Qed.

  Lemma add_inv : forall h (st st' : state) c b,
      inv h st -> addM st c = Done st' b -> inv (h ++ [c]) st'.
  Proof.
    intros h st st' [m d] b Hi H.
    pose proof (inv_wf _ _ Hi) as WF.
    destruct (add_shape (fun l => NoDup (map fst l)) (fun k td l => NoDup_aset _ k td l)
                        (fun k l => NoDup_adel _ k l) st (m, d) st' b H (proj2 Hi)) as [ND [SR _]].
    split; [|exact ND].
    intro k. destruct (key_eqb k (key_of m)) eqn:E.
    - apply key_eqb_eq in E. subst k. eapply add_inv_key; eauto.
    - apply key_eqb_neq in E.
      destruct (add_frame D dapp V vinit vadd vfinal true true my_did max_slots st (m, d) st' b k WF H) as [_ G].
      apply invK_weaken. eapply invK_transfer; [apply G; exact E|exact SR|apply (proj1 Hi)].
  Qed.

  (* ----- dropping a stream (gc, Close) ----- *)
  Definition drop_stream (k : key) (td : tracked V) (st : state) : state :=
    untrack k (remove_temp (tkey_of (t_first td)) st).

  Lemma drop_inv : forall h (st : state) k td,
      inv h st -> trk st k = Some td -> inv h (drop_stream k td st).
  Proof.
    intros h st k td [I ND] L. split; [|simpl; apply NoDup_adel; exact ND].
    assert (Kf : key_of (t_first td) = k).
    { destruct (I k) as [I1 _]. destruct (I1 td L) as [acc [_ [P _]]]. apply (sp_key _ _ _ P). }
    intro k'. destruct (key_eqb k' k) eqn:E.
    - apply key_eqb_eq in E. subst k'. destruct (I k) as [I1 [I2 I3]]. split; [|split].
      + intros td0 L0. simpl in L0. rewrite alookup_adel_same in L0 by exact key_eqb_eq. discriminate.
      + intros fd L0. simpl in L0. auto.
      + intros tk files Hk L0. exfalso. simpl in L0.
        destruct (tkey_eqb tk (tkey_of (t_first td))) eqn:E2.
        * apply tkey_eqb_eq in E2. subst tk. rewrite alookup_adel_same in L0 by exact tkey_eqb_eq. discriminate.
        * apply tkey_eqb_neq in E2. rewrite alookup_adel_other in L0 by (exact tkey_eqb_eq || exact E2).
          destruct (I3 tk files Hk L0) as [td' [A B]]. rewrite L in A. injection A as A; subst td'. congruence.
    - apply key_eqb_neq in E. eapply invK_transfer; [| |apply I].
      + unfold drop_stream. eapply same_at_trans; [apply same_at_remove_temp|apply same_at_untrack].
        * rewrite tkey_key_of. congruence.
        * congruence.
      + reflexivity.
  Qed.

  Lemma gc_list_inv : forall h l (st : state),
      inv h st -> NoDup (map fst l) -> (forall k td, In (k, td) l -> trk st k = Some td) ->
      inv h (gc_list D V timeout l st).
  Proof.
    induction l as [|[k td] l IH]; intros st Hi ND Hin; simpl; auto.
    inversion ND as [|? ? Hnot ND']; subst.
    assert (Rest : forall (s : state), (forall k1, k1 <> k -> trk s k1 = trk st k1) ->
                                      forall k1 td1, In (k1, td1) l -> trk s k1 = Some td1).
    { intros s Hs k1 td1 H1. rewrite Hs; [apply Hin; right; exact H1|].
      intro X. subst k1. apply Hnot. apply in_map_iff. exists (k, td1). auto. }
    destruct (timeout <=? s_tick st - t_tick td).
    - apply IH; auto.
      + apply (drop_inv h st k td Hi). apply Hin. left. reflexivity.
      + apply Rest. intros k1 Hn. simpl. apply alookup_adel_other; [exact key_eqb_eq|exact Hn].
    - apply IH; auto.
  Qed.

  Lemma close_list_inv : forall h l (st : state),
      inv h st -> NoDup (map fst l) -> (forall k td, In (k, td) l -> trk st k = Some td) ->
      inv h (close_list D V l st).
  Proof.
    induction l as [|[k td] l IH]; intros st Hi ND Hin; simpl; auto.
    inversion ND as [|? ? Hnot ND']; subst.
    apply IH; auto.
    - apply (drop_inv h st k td Hi). apply Hin. left. reflexivity.
    - intros k1 td1 H1. simpl. rewrite alookup_adel_other.
      + apply Hin. right. exact H1.
      + exact key_eqb_eq.
      + intro X. subst k1. apply Hnot. apply in_map_iff. exists (k, td1). auto.
  Qed.

  Lemma nodup_lookup : forall (A : Type) (l : list (key * A)) k a,
      NoDup (map fst l) -> In (k, a) l -> alookup key_eqb k l = Some a.
  Proof.
    induction l as [|[k1 a1] l IH]; intros k a ND Hin; [destruct Hin|].
    simpl. inversion ND as [|? ? Hnot ND']; subst. destruct Hin as [Hin|Hin].
    - injection Hin as E1 E2; subst. rewrite key_eqb_refl. reflexivity.
    - destruct (key_eqb k k1) eqn:E.
      + apply key_eqb_eq in E. subst k1. exfalso. apply Hnot. apply in_map_iff. exists (k, a). auto.
      + apply IH; auto.
  Qed.

  Lemma inv_tick_field : forall h (st : state) t,
      inv h st -> inv h (mkState t (s_tracked st) (s_temps st) (s_finals st) (s_removed st) (s_out st)).
  Proof.
    intros h st t [I ND]. split; [|exact ND]. intro k.
    eapply invK_transfer; [| |apply I]; [repeat split; auto|reflexivity].
  Qed.

  Lemma node_eqb_eq : forall a b, node_eqb a b = true <-> a = b.
  Proof.
    intros [a1 a2] [b1 b2]. unfold node_eqb. simpl. rewrite andb_true_iff, !N.eqb_eq.
    split; [intros [? ?]; congruence|intro H; inversion H; auto].
  Qed.

  Lemma removed_mono : forall (st : state) n n',
      is_removed (mark_removed st n) n' = false -> is_removed st n' = false.
  Proof.
    intros st n n' H. unfold is_removed, mark_removed in *. simpl in H.
    destruct (alookup node_eqb n' (s_removed st)) eqn:L; auto. exfalso.
    destruct (node_eqb n' n) eqn:E.
    - apply node_eqb_eq in E. subst n'.
      rewrite alookup_aset_same in H by exact node_eqb_eq. discriminate.
    - assert (n' <> n) by (intro X; subst; rewrite (proj2 (node_eqb_eq n n) eq_refl) in E; discriminate).
      rewrite alookup_aset_other in H by (exact node_eqb_eq || assumption). rewrite L in H. discriminate.
  Qed.

  Lemma step_inv : forall h (st st' : state) o b,
      inv h st -> stepM st o = Done st' b ->
      inv (h ++ match o with OAdd c => [c] | _ => [] end) st'.
  Proof.
    intros h st st' o b Hi H. destruct o as [c| |s r|]; simpl in H.
    - eapply add_inv; eauto.
    - injection H as H1 H2; subst st' b. rewrite app_nil_r. unfold tick.
      pose proof (inv_tick_field h st (s_tick st + 1) Hi) as Hi'.
      destruct (_ =? 0); [|exact Hi'].
      unfold gc. apply gc_list_inv; auto.
      + simpl. exact (proj2 Hi).
      + intros k td Hin. simpl. apply nodup_lookup; [exact (proj2 Hi)|exact Hin].
    - injection H as H1 H2; subst st' b. rewrite app_nil_r. destruct Hi as [I ND]. split; [|exact ND].
      intro k. destruct (I k) as [I1 [I2 I3]]. split; [|split]; auto.
      intros td L. destruct (I1 td L) as [acc [Sq [P Lv]]]. exists acc. split; auto. split; auto.
      intro R. apply removed_mono in R. destruct (Lv R) as [A [B [files [C E]]]].
      split; auto. split; auto. exists files. auto.
    - injection H as H1 H2; subst st' b. rewrite app_nil_r. unfold close.
      apply close_list_inv; auto.
      + exact (proj2 Hi).
      + intros k td Hin. apply nodup_lookup; [exact (proj2 Hi)|exact Hin].
  Qed.

  Definition chunks_of (ops : list (op D)) : list chunk :=
    flat_map (fun o => match o with OAdd c => [c] | _ => [] end) ops.

  Lemma run_inv : forall ops h (st st' : state),
      inv h st -> runM st ops = Some st' -> inv (h ++ chunks_of ops) st'.
  Proof.
    induction ops as [|o ops IH]; intros h st st' Hi H; simpl in H.
    - injection H as H; subst. simpl. rewrite app_nil_r. exact Hi.
    - destruct (stepM st o) as [s1 b|] eqn:Hs; [|discriminate].
      pose proof (step_inv _ _ _ _ _ Hi Hs) as Hi1.
      specialize (IH _ _ _ Hi1 H). simpl chunks_of. rewrite app_assoc. exact IH.
  Qed.

  Lemma init_inv : inv [] (@init D V).
  Proof.
    split; [|constructor]. intro k. split; [|split]; intros; discriminate.
  Qed.

  (* finalize => complete valid sequence: every final directory of every reachable state was
     produced by a complete in-order valid chunk sequence that is a subsequence of the
     delivered chunks, and holds exactly what those chunks wrote *)
  Lemma finalized_only_if_complete_proved :
    forall ops (st : state) k fd,
      runM init ops = Some st -> fin st k = Some fd ->
      exists acc, subseq acc (chunks_of ops) /\ complete k acc fd.
  Proof.
    intros ops st k fd Hr L.
    pose proof (run_inv ops [] init st init_inv Hr) as [I _]. simpl in I.
    destruct (I k) as [_ [I2 _]]. auto.
  Qed.

  (* ===== the converse: a complete valid sequence, delivered in order with arbitrary other
     traffic in between, is finalised ===== *)

  Lemma vfold_cons : forall v (c : chunk) r v',
      vfoldM v (c :: r) = Some v' -> exists v1, vfoldM v [c] = Some v1 /\ vfoldM v1 r = Some v'.
  Proof.
    intros v [m d] r v' H. simpl in *. destruct (c_hasfi m); [eauto|].
    destruct (vadd v d (c_id m)); try discriminate. eauto.
  Qed.
  Lemma replay_cons : forall files (c : chunk) r files',
      replayM files (c :: r) = Some files' -> exists f1, replayM files [c] = Some f1 /\ replayM f1 r = Some files'.
  Proof.
    intros files [m d] r files' H. simpl in *.
    destruct (bad_name (path_base (c_path m))); [discriminate|].
    destruct (c_fcid m =? 0); [eauto|].
    destruct (alookup bytes_eqb (path_base (c_path m)) files); [eauto|discriminate].
  Qed.

  (* one chunk of the stream arriving when it is the next expected one *)
  Lemma stream_step :
    forall (st : state) m0 v fi files n tk0 m d v1 files1,
      n <> 0 ->
      trk st (key_of m0) = Some (mkTracked m0 v fi tk0 n) ->
      tmp st (tkey_of m0) = Some files ->
      is_removed st (node_of m0) = false ->
      key_of m = key_of m0 -> c_from m = c_from m0 ->
      c_did m = my_did -> c_binver m = transport_bin_version -> c_id m = n ->
      vfoldM v [(m, d)] = Some v1 -> replayM files [(m, d)] = Some files1 ->
      addM st (m, d) =
      let td' := mkTracked m0 v1 (add_fileinfo m fi) (s_tick st) (n + 1) in
      let st2 := track (key_of m0) td' (track (key_of m0) (mkTracked m0 v (add_fileinfo m fi) (s_tick st) (n + 1)) st) in
      let st3 := set_temps st2 (aset tkey_eqb (tkey_of m0) files1 (s_temps st2)) in
      if is_last m then finish D V vfinal st3 m td' else Done st3 true.
  Proof.
    intros st m0 v fi files n tk0 m d v1 files1 Hn Ht Htmp Hrm Hk Hfrom Hdid Hbv Hidm Hv Hr.
    pose proof (tkey_of_same _ _ Hk Hfrom) as Htk.
    pose proof (node_of_same _ _ Hk) as Hnode.
    simpl in Hv, Hr.
    destruct (bad_name (path_base (c_path m))) eqn:Bad; [discriminate|].
    assert (Hv1 : (if negb (c_hasfi m) && true then vadd v d n else VOk v) = VOk v1).
    { destruct (c_hasfi m); simpl.
      - injection Hv as Hv; subst; reflexivity.
      - rewrite Hidm in Hv. destruct (vadd v d n); try discriminate. injection Hv as Hv; subst; reflexivity. }
    set (fn := path_base (c_path m)) in *.
    unfold add. simpl fst. rewrite Hdid, Hbv, !N.eqb_refl. simpl.
    unfold add_locked, record.
    apply N.eqb_neq in Hn. rewrite Hidm, Hn. rewrite Hk, Ht. simpl t_next. rewrite N.eqb_refl. simpl.
    rewrite Hfrom, N.eqb_refl. simpl.
    replace (is_removed (track (key_of m0) _ st) (node_of m)) with false
      by (rewrite Hnode; symmetry; exact Hrm).
    simpl t_v. rewrite Hv1.
    rewrite Htk, Htmp. fold fn. rewrite Bad.
    destruct (c_fcid m =? 0).
    - injection Hr as Hr; subst. unfold set_v. simpl. reflexivity.
    - destruct (alookup bytes_eqb fn files); [|discriminate]. injection Hr as Hr; subst.
      unfold set_v. simpl. reflexivity.
  Qed.

  Lemma first_step :
    forall (st : state) m0 d0 v0 files1,
      clean D V max_slots st m0 ->
      c_did m0 = my_did -> c_binver m0 = transport_bin_version -> c_id m0 = 0 ->
      vfoldM vinit [(m0, d0)] = Some v0 -> replayM [] [(m0, d0)] = Some files1 ->
      addM st (m0, d0) =
      let td := mkTracked m0 v0 (add_fileinfo m0 []) (s_tick st) 1 in
      let st2 := track (key_of m0) td (track (key_of m0) td st) in
      let st3 := set_temps st2 (aset tkey_eqb (tkey_of m0) files1 (aset tkey_eqb (tkey_of m0) [] (s_temps st2))) in
      if is_last m0 then finish D V vfinal st3 m0 td else Done st3 true.
  Proof.
    intros st m0 d0 v0 files1 [Ht [Hfull [Htmp [Hfin Hrm]]]] Hdid Hbv Hid0 Hv Hr.
    simpl in Hv, Hr.
    destruct (bad_name (path_base (c_path m0))) eqn:Bad; [discriminate|].
    set (fn := path_base (c_path m0)) in *.
    assert (Hv0 : (if c_hasfi m0 then VOk vinit else vadd vinit d0 0) = VOk v0).
    { destruct (c_hasfi m0); [injection Hv as Hv; subst; reflexivity|]. rewrite Hid0 in Hv.
      destruct (vadd vinit d0 0); try discriminate. injection Hv as Hv; subst; reflexivity. }
    assert (Hfc : c_fcid m0 =? 0 = true).
    { destruct (c_fcid m0 =? 0); auto. simpl in Hr. discriminate. }
    rewrite Hfc in Hr. injection Hr as Hr; subst files1.
    unfold add. simpl fst. rewrite Hdid, Hbv, !N.eqb_refl. simpl.
    unfold add_locked, record. rewrite Hid0. simpl. rewrite Ht, Hfull.
    assert (Hrec : forall (s : state) td, is_removed (track (key_of m0) td s) (node_of m0) = is_removed s (node_of m0))
      by reflexivity.
    destruct (c_hasfi m0) eqn:Hfi; simpl in Hv0;
      try (injection Hv0 as Hv0; subst v0); try rewrite Hv0; rewrite Hrec, Hrm; simpl;
        rewrite Htmp; simpl; rewrite alookup_aset_same by exact tkey_eqb_eq; fold fn; rewrite Bad, Hfc; reflexivity.
  Qed.

  Fixpoint count_ticks (ops : list (op D)) : N :=
    match ops with
    | [] => 0
    | OTick :: r => 1 + count_ticks r
    | _ :: r => count_ticks r
    end.

  Lemma gc_list_same_at : forall l (st : state) k,
      (forall k1 td1, In (k1, td1) l -> key_of (t_first td1) = k1) ->
      (forall td1, In (k, td1) l -> s_tick st - t_tick td1 < timeout) ->
      same_at D V k st (gc_list D V timeout l st) /\
      s_removed (gc_list D V timeout l st) = s_removed st.
  Proof.
    induction l as [|[k1 td1] l IH]; intros st k Hwf Hage; simpl.
    - split; [apply same_at_refl|reflexivity].
    - destruct (timeout <=? s_tick st - t_tick td1) eqn:E.
      + assert (Hn : k1 <> k).
        { intro X. subst k1. apply N.leb_le in E. specialize (Hage td1 (or_introl eq_refl)). lia. }
        assert (Hk1 : key_of (t_first td1) = k1) by (apply Hwf; left; reflexivity).
        destruct (IH (untrack k1 (remove_temp (tkey_of (t_first td1)) st)) k) as [S R].
        * intros; apply Hwf; right; assumption.
        * intros td2 H2. simpl. apply Hage. right. exact H2.
        * split; [|rewrite R; reflexivity].
          eapply same_at_trans; [|exact S].
          eapply same_at_trans; [apply same_at_remove_temp|apply same_at_untrack].
          -- rewrite tkey_key_of. congruence.
          -- exact Hn.
      + apply IH.
        * intros; apply Hwf; right; assumption.
        * intros td2 H2. apply Hage. right. exact H2.
  Qed.

  (* what may come between the chunks of the stream started by [m0] once [j] of them were
     delivered: chunks of other snapshots (whatever happens to them), foreign chunks, chunks
     of this snapshot that are not chunk 0 and not the next expected chunk of this sender
     (duplicates, gaps, out of order, other senders), ticks, removal of other replicas *)
  Definition noise (m0 : cmeta) (j : N) (o : op D) : Prop :=
    match o with
    | OAdd c => key_of (fst c) <> key_of m0 \/
                c_did (fst c) <> my_did \/ c_binver (fst c) <> transport_bin_version \/
                (c_id (fst c) <> 0 /\ (c_id (fst c) <> j \/ c_from (fst c) <> c_from m0))
    | OTick => True
    | ORemoved s r => (s, r) <> node_of m0
    | OClose => False
    end.

  Inductive delivers (m0 : cmeta) : N -> list chunk -> list (op D) -> Prop :=
  | dl_done : forall j, delivers m0 j [] []
  | dl_chunk : forall j c r ops, delivers m0 (j + 1) r ops -> delivers m0 j (c :: r) (OAdd c :: ops)
  | dl_noise : forall j c r o ops, noise m0 j o -> delivers m0 j (c :: r) ops -> delivers m0 j (c :: r) (o :: ops).

  Definition mid2 (st : state) (m0 : cmeta) (v : V) (fi : list sfile) (files : dir D) (n tk0 : N) : Prop :=
    trk st (key_of m0) = Some (mkTracked m0 v fi tk0 n) /\
    tmp st (tkey_of m0) = Some files /\
    fin st (key_of m0) = None /\
    is_removed st (node_of m0) = false.

  Lemma mid2_transfer : forall (st st' : state) m0 v fi files n tk0,
      same_at D V (key_of m0) st st' -> s_removed st' = s_removed st ->
      mid2 st m0 v fi files n tk0 -> mid2 st' m0 v fi files n tk0.
  Proof.
    intros st st' m0 v fi files n tk0 [S1 [S2 S3]] SR [A [B [C E]]].
    split; [rewrite S1; exact A|]. split; [rewrite S2; [exact B|apply tkey_key_of]|].
    split; [rewrite S3; exact C|]. unfold is_removed in *. rewrite SR. exact E.
  Qed.

  Lemma noise_step :
    forall h (st s1 : state) m0 v fi files j tk0 o b,
      inv h st -> mid2 st m0 v fi files j tk0 -> j <> 0 -> tk0 <= s_tick st ->
      noise m0 j o ->
      (o = OTick -> s_tick st + 1 < tk0 + timeout) ->
      stepM st o = Done s1 b ->
      mid2 s1 m0 v fi files j tk0 /\
      s_tick s1 = s_tick st + (match o with OTick => 1 | _ => 0 end).
  Proof.
    intros h st s1 m0 v fi files j tk0 o b Hi Hm Hj Htk Hn Hb H.
    pose proof (inv_wf _ _ Hi) as WF.
    destruct o as [[m d]| |s r|]; simpl in H, Hn.
    - (* another chunk *)
      destruct (key_eqb (key_of m) (key_of m0)) eqn:E.
      + (* same snapshot: it is ignored without effect *)
        apply key_eqb_eq in E.
        assert (Ig : ignorable D V vinit vadd my_did max_slots st (m, d)).
        { destruct Hn as [Hn|[Hn|[Hn|[Hid Hn]]]]; [contradiction|left; left; exact Hn|left; right; exact Hn|].
          right. left. simpl. split; [exact Hid|].
          intros [td [L [Nx Fr]]]. rewrite E in L. destruct Hm as [A _]. rewrite A in L.
          injection L as L; subst td. simpl in Nx, Fr. destruct Hn as [Hn|Hn]; congruence. }
        rewrite (ignorable_no_effect_proved D dapp V vinit vadd vfinal true true my_did max_slots eq_refl st (m, d) Ig) in H.
        injection H as H1 H2; subst. split; [exact Hm|lia].
      + apply key_eqb_neq in E.
        destruct (add_frame D dapp V vinit vadd vfinal true true my_did max_slots st (m, d) s1 b (key_of m0) WF H) as [_ G].
        destruct (add_shape (fun _ => True) (fun _ _ _ _ => I) (fun _ _ _ => I) st (m, d) s1 b H I) as [_ [SR ST]].
        split; [|rewrite ST; lia].
        eapply mid2_transfer; [apply G; simpl; congruence|exact SR|exact Hm].
    - (* a tick *)
      injection H as H1 H2; subst s1 b. specialize (Hb eq_refl). unfold tick.
      set (st1 := mkState (s_tick st + 1) (s_tracked st) (s_temps st) (s_finals st) (s_removed st) (s_out st)).
      assert (M1 : mid2 st1 m0 v fi files j tk0) by exact Hm.
      destruct (_ =? 0).
      + unfold gc. destruct (gc_list_same_at (s_tracked st1) st1 (key_of m0)) as [S R].
        * intros k1 td1 Hin. apply WF. simpl in Hin. apply nodup_lookup; [exact (proj2 Hi)|exact Hin].
        * intros td1 Hin. simpl in Hin.
          pose proof (nodup_lookup _ _ _ _ (proj2 Hi) Hin) as L.
          destruct Hm as [A _]. rewrite A in L. injection L as L; subst td1. unfold st1. cbn [s_tick t_tick]. lia.
        * split; [eapply mid2_transfer; eauto|].
          rewrite gc_list_tick. reflexivity.
      + split; [exact M1|reflexivity].
    - (* another replica is removed *)
      injection H as H1 H2; subst s1 b. split; [|simpl; lia].
      destruct Hm as [A [B [C E]]]. split; [exact A|]. split; [exact B|]. split; [exact C|].
      unfold is_removed, mark_removed in *. simpl.
      rewrite alookup_aset_other; [exact E|exact node_eqb_eq|]. intro X. apply Hn. symmetry. exact X.
    - destruct Hn.
  Qed.

  Definition finalized_as (st : state) (m0 : cmeta) (fi : list sfile) (files : dir D) : Prop :=
    fin st (key_of m0) = Some (mkFDir (adel bytes_eqb snapshot_flag_filename files) (to_message m0 fi)) /\
    In (to_message m0 fi) (s_out st) /\
    trk st (key_of m0) = None /\ tmp st (tkey_of m0) = None.

  Lemma deliver_rest :
    forall m0 ops j r, delivers m0 j r ops ->
    forall h (st st' : state) v fi files tk0 v' files',
      j <> 0 -> inv h st -> mid2 st m0 v fi files j tk0 -> tk0 <= s_tick st ->
      s_tick st + count_ticks ops < tk0 + timeout ->
      same_stream D my_did m0 r -> ids_from D j r -> last_only D r ->
      vfoldM v r = Some v' -> vfinal v' = true -> replayM files r = Some files' ->
      runM st ops = Some st' ->
      finalized_as st' m0 (fileinfos D fi r) files'.
  Proof.
    intros m0 ops j r Hd. induction Hd as [j|j [m d] r ops Hd IH|j c r o ops Hn Hd IH];
      intros h st st' v fi files tk0 v' files' Hj Hi Hm Htk Hbud Hs Hid Hl Hv Hf Hr Hrun.
    - destruct Hl.
    - (* the next chunk of the stream *)
      inversion Hs as [|? ? [Hk [Hfrom [Hdid Hbv]]] Hs']; subst. simpl in Hk, Hfrom, Hdid, Hbv.
      destruct Hid as [Hidm Hid'].
      destruct (vfold_cons _ _ _ _ Hv) as [v1 [Hv1 Hv1r]].
      destruct (replay_cons _ _ _ _ Hr) as [files1 [Hr1 Hr1r]].
      destruct Hm as [Ht [Htmp [Hfin Hrm]]].
      pose proof (stream_step st m0 v fi files j tk0 m d v1 files1 Hj Ht Htmp Hrm Hk Hfrom Hdid Hbv Hidm Hv1 Hr1) as Hadd.
      cbv zeta in Hadd.
      simpl in Hrun. rewrite Hadd in Hrun.
      destruct r as [|c2 r].
      + (* it is the last one *)
        inversion Hd; subst.
        simpl in Hl, Hv1r, Hr1r. injection Hv1r as E1. injection Hr1r as E2. subst v1 files1.
        rewrite Hl in Hrun. unfold finish in Hrun. simpl t_v in Hrun. rewrite Hf in Hrun. simpl in Hrun.
        rewrite Hk, (tkey_of_same _ _ Hk Hfrom) in Hrun.
        rewrite alookup_aset_same in Hrun by exact tkey_eqb_eq.
        rewrite Hfin in Hrun. injection Hrun as Hrun. subst st'.
        unfold finalized_as. simpl.
        rewrite alookup_adel_same by exact key_eqb_eq.
        rewrite alookup_adel_same by exact tkey_eqb_eq.
        rewrite alookup_aset_same by exact key_eqb_eq.
        repeat split; auto.
      + destruct Hl as [Hnl Hl]. rewrite Hnl in Hrun, Hadd.
        remember (set_temps
                    (track (key_of m0) (mkTracked m0 v1 (add_fileinfo m fi) (s_tick st) (j + 1))
                           (track (key_of m0) (mkTracked m0 v (add_fileinfo m fi) (s_tick st) (j + 1)) st))
                    (aset tkey_eqb (tkey_of m0) files1
                          (s_temps (track (key_of m0) (mkTracked m0 v1 (add_fileinfo m fi) (s_tick st) (j + 1))
                                          (track (key_of m0) (mkTracked m0 v (add_fileinfo m fi) (s_tick st) (j + 1)) st)))))
          as s1 eqn:Es1.
        assert (Hi1 : inv (h ++ [(m, d)]) s1) by (eapply add_inv; [exact Hi|exact Hadd]).
        assert (Hm1 : mid2 s1 m0 v1 (add_fileinfo m fi) files1 (j + 1) (s_tick st)).
        { subst s1. unfold mid2. simpl.
          rewrite alookup_aset_same by exact key_eqb_eq.
          rewrite alookup_aset_same by exact tkey_eqb_eq.
          repeat split; auto. }
        assert (Hj1 : j + 1 <> 0) by lia.
        assert (Ht1 : s_tick s1 = s_tick st) by (subst s1; reflexivity).
        eapply (IH (h ++ [(m, d)]) s1 st' v1 (add_fileinfo m fi) files1 (s_tick st) v' files' Hj1 Hi1 Hm1); eauto.
        * rewrite Ht1. lia.
        * rewrite Ht1. change (count_ticks (OAdd (m, d) :: ops)) with (count_ticks ops) in Hbud. lia.
    - (* something else in between *)
      simpl in Hrun.
      destruct (stepM st o) as [s1 b|] eqn:Hs1; [|discriminate].
      assert (Hb : o = OTick -> s_tick st + 1 < tk0 + timeout).
      { intro X. subst o. change (count_ticks (OTick :: ops)) with (1 + count_ticks ops) in Hbud. lia. }
      destruct (noise_step h st s1 m0 v fi files j tk0 o b Hi Hm Hj Htk Hn Hb Hs1) as [Hm1 Ht1].
      pose proof (step_inv _ _ _ _ _ Hi Hs1) as Hi1.
      eapply (IH _ s1 st' v fi files tk0 v' files' Hj Hi1 Hm1); eauto.
      + rewrite Ht1. lia.
      + rewrite Ht1. destruct o;
          [change (count_ticks (OAdd c0 :: ops)) with (count_ticks ops) in Hbud
          |change (count_ticks (OTick :: ops)) with (1 + count_ticks ops) in Hbud
          |change (count_ticks (ORemoved shard replica :: ops)) with (count_ticks ops) in Hbud
          |change (count_ticks (OClose :: ops)) with (count_ticks ops) in Hbud]; lia.
  Qed.

  (* finalize <= complete valid sequence *)
  Lemma complete_sequence_finalizes_proved :
    forall h (st st' : state) m0 d0 r ops v' files',
      inv h st -> clean D V max_slots st m0 ->
      delivers m0 1 r ops -> count_ticks ops < timeout ->
      same_stream D my_did m0 ((m0, d0) :: r) -> ids_from D 0 ((m0, d0) :: r) -> last_only D ((m0, d0) :: r) ->
      vfoldM vinit ((m0, d0) :: r) = Some v' -> vfinal v' = true ->
      replayM [] ((m0, d0) :: r) = Some files' ->
      runM st (OAdd (m0, d0) :: ops) = Some st' ->
      finalized_as st' m0 (fileinfos D [] ((m0, d0) :: r)) files'.
  Proof.
    intros h st st' m0 d0 r ops v' files' Hi Hc Hd Hbud Hs Hid Hl Hv Hf Hr Hrun.
    inversion Hs as [|? ? [_ [_ [Hdid Hbv]]] Hs']; subst. simpl in Hdid, Hbv.
    destruct Hid as [Hid0 Hid'].
    destruct (vfold_cons _ _ _ _ Hv) as [v1 [Hv1 Hv1r]].
    destruct (replay_cons _ _ _ _ Hr) as [files1 [Hr1 Hr1r]].
    pose proof (first_step st m0 d0 v1 files1 Hc Hdid Hbv Hid0 Hv1 Hr1) as Hadd. cbv zeta in Hadd.
    destruct Hc as [Ht [Hfull [Htmp [Hfin Hrm]]]].
    simpl in Hrun. rewrite Hadd in Hrun.
    destruct r as [|c2 r].
    - inversion Hd; subst.
      simpl in Hl, Hv1r, Hr1r. injection Hv1r as E1. injection Hr1r as E2. subst v1 files1.
      rewrite Hl in Hrun. unfold finish in Hrun. simpl t_v in Hrun. rewrite Hf in Hrun. simpl in Hrun.
      rewrite alookup_aset_same in Hrun by exact tkey_eqb_eq.
      rewrite Hfin in Hrun. injection Hrun as Hrun. subst st'.
      unfold finalized_as. simpl.
      rewrite alookup_adel_same by exact key_eqb_eq.
      rewrite alookup_adel_same by exact tkey_eqb_eq.
      rewrite alookup_aset_same by exact key_eqb_eq.
      repeat split; auto.
    - destruct Hl as [Hnl Hl]. rewrite Hnl in Hrun, Hadd.
      remember (set_temps
                  (track (key_of m0) (mkTracked m0 v1 (add_fileinfo m0 []) (s_tick st) 1)
                         (track (key_of m0) (mkTracked m0 v1 (add_fileinfo m0 []) (s_tick st) 1) st))
                  (aset tkey_eqb (tkey_of m0) files1
                        (aset tkey_eqb (tkey_of m0) []
                              (s_temps (track (key_of m0) (mkTracked m0 v1 (add_fileinfo m0 []) (s_tick st) 1)
                                              (track (key_of m0) (mkTracked m0 v1 (add_fileinfo m0 []) (s_tick st) 1) st))))))
        as s1 eqn:Es1.
      assert (Hi1 : inv (h ++ [(m0, d0)]) s1) by (eapply add_inv; [exact Hi|exact Hadd]).
      assert (Hm1 : mid2 s1 m0 v1 (add_fileinfo m0 []) files1 1 (s_tick st)).
      { subst s1. unfold mid2. simpl.
        rewrite alookup_aset_same by exact key_eqb_eq.
        rewrite alookup_aset_same by exact tkey_eqb_eq.
        repeat split; auto. }
      assert (H1 : (1 : N) <> 0) by lia.
      assert (Ht1 : s_tick s1 = s_tick st) by (subst s1; reflexivity).
      simpl in Hid'.
      eapply (deliver_rest m0 ops 1 (c2 :: r) Hd (h ++ [(m0, d0)]) s1 st' v1 (add_fileinfo m0 []) files1 (s_tick st) v' files' H1 Hi1 Hm1); eauto.
      + rewrite Ht1. lia.
      + rewrite Ht1. lia.
  Qed.
End Inv.

(* ---------- the statement of Props/C15.v ---------- *)
Lemma finalize_iff_complete_valid_sequence_gen :
  forall D dapp V vinit vadd vfinal my_did gc_tick timeout max_slots,
    (* only if: every final directory of every reachable state *)
    (forall (ops : list (op D)) (st : state D V) k fd,
        run D dapp V vinit vadd vfinal fixm fixf my_did gc_tick timeout max_slots init ops = Some st ->
        alookup key_eqb k (s_finals st) = Some fd ->
        exists acc, subseq acc (chunks_of D ops) /\
                    complete D dapp V vinit vadd vfinal my_did k acc fd) /\
    (* if: from every reachable state that holds nothing of the snapshot *)
    (forall (ops0 : list (op D)) (st st' : state D V) m0 d0 r ops v' files',
        run D dapp V vinit vadd vfinal fixm fixf my_did gc_tick timeout max_slots init ops0 = Some st ->
        clean D V max_slots st m0 ->
        delivers D my_did m0 1 r ops ->
        count_ticks D ops < timeout ->
        same_stream D my_did m0 ((m0, d0) :: r) -> ids_from D 0 ((m0, d0) :: r) -> last_only D ((m0, d0) :: r) ->
        vfold D V vadd vinit ((m0, d0) :: r) = Some v' -> vfinal v' = true ->
        replay D dapp [] ((m0, d0) :: r) = Some files' ->
        run D dapp V vinit vadd vfinal fixm fixf my_did gc_tick timeout max_slots st (OAdd (m0, d0) :: ops) = Some st' ->
        finalized_as D V st' m0 (fileinfos D [] ((m0, d0) :: r)) files').
Proof.
  intros. split.
  - intros ops st k fd Hr L.
    exact (finalized_only_if_complete_proved D dapp V vinit vadd vfinal my_did gc_tick timeout max_slots ops st k fd Hr L).
  - intros ops0 st st' m0 d0 r ops v' files' Hr0.
    apply (complete_sequence_finalizes_proved D dapp V vinit vadd vfinal my_did gc_tick timeout max_slots
             ([] ++ chunks_of D ops0) st st' m0 d0 r ops v' files').
    exact (run_inv D dapp V vinit vadd vfinal my_did gc_tick timeout max_slots ops0 [] init st
                   (init_inv D dapp V vinit vadd vfinal my_did) Hr0).
Qed.
