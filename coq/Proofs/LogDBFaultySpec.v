(* C10 — the recovered plain-format store against the logical log (uses the C09 refinement
   relation R of Proofs/LogDBPlain.v). *)
From Coq Require Import List NArith Bool Lia.
From DB Require Import Base.Bytes Gen.GenC09 Gen.GenC10 Model.LogStoreSpec Model.KV
  Model.LogDBPlain Model.LogDBBatched Model.LogDBFaulty Proofs.LogStoreSpec Proofs.LogDBKV
  Proofs.LogDBPlain Proofs.LogDBFaulty.
Import ListNotations.
Open Scope N_scope.

Lemma fold_R : forall ops p s, R p s -> wf_ops s ops = true ->
  forall k, exists p', ref_fold false (Some p) (firstn k ops) = Some p' /\
                  R p' (spec_run s (firstn k ops)) /\
                  (forall o, nth_error ops k = Some o -> spec_wf_op (spec_run s (firstn k ops)) o = true).
Proof.
  induction ops as [|o t IH]; intros p s HR Hwf k.
  - destruct k; cbn; exists p; (split; [reflexivity|]); (split; [exact HR|]); intros; discriminate.
  - cbn [wf_ops] in Hwf. apply andb_true_iff in Hwf. destruct Hwf as [W1 W2].
    destruct k as [|k].
    + cbn. exists p. split; [reflexivity|]. split; [exact HR|]. intros o' E. inversion E; subst. exact W1.
    + destruct (plain_step_R p s o HR W1) as (p1 & E1 & R1).
      destruct (IH p1 (spec_step s o) R1 W2 k) as (p' & EF & RF & WF).
      exists p'. cbn [firstn nth_error]. unfold ref_fold, spec_run in *. cbn [fold_left ref_step].
      rewrite E1. auto.
Qed.

Lemma firstn_S_nth : forall {A} (l : list A) k o, nth_error l k = Some o -> firstn (S k) l = firstn k l ++ [o].
Proof.
  induction l as [|a l IH]; intros k o H; destruct k; cbn in *; try discriminate.
  - inversion H; reflexivity.
  - f_equal. now apply IH.
Qed.

Definition log_ok (d : pdb) (s : sstate) : Prop :=
  (forall q, spec_wf_query s q = true -> plain_observe d q = spec_answer s q) /\
  forall n, contig (n_marker (s n) + 1) (n_ents (s n)) /\
            (forall e, In e (n_ents (s n)) -> kv_get (p_kv d) (KEntry n (e_index e)) = Some (VEntry e)) /\
            (get_max_index d n = Some (Some (n_last (s n))) \/
             (get_max_index d n = Some None /\ n_last (s n) = 0)) /\
            get_state (p_kv d) n = Some (n_st (s n)).

Lemma R_log_ok : forall d s, R d s -> log_ok d s.
Proof.
  intros d s HR. split.
  - intros q Hq. now apply (plain_query_R d s q HR).
  - intros n. pose proof HR as (HS & HW & HN). pose proof (HN n) as Rn.
    split; [exact (r_contig _ _ _ _ Rn)|]. split; [exact (r_ents _ _ _ _ Rn)|].
    split; [now apply get_max_index_R|].
    now apply get_state_R.
Qed.

Theorem recovered_log_proved : forall ft ops k r d',
  wf_ops spec_init ops = true ->
  f_run false all_fixed (fdb_init ft) ops = (k, r, d') ->
  (forall n, nth_error ops k <> Some (ORemNode n)) ->
  exists s, (s = spec_run spec_init (firstn k ops) \/
             (r <> FOk /\ s = spec_run spec_init (firstn (S k) ops))) /\
            log_ok (recovered d') s.
Proof.
  intros ft ops k r d' Hwf H NR.
  apply crash_atomic_kv_proved in H. destruct H as (p & EP & C).
  destruct (fold_R ops pdb_init spec_init R_init Hwf k) as (p0 & E0 & R0 & W0).
  assert (p0 = p).
  { unfold ref_run in EP. unfold ref_fold in E0. rewrite EP in E0. now inversion E0. }
  subst p0.
  destruct C as [(RO & K & RC)|(RN & K & CS)].
  - exists (spec_run spec_init (firstn k ops)). split; [now left|].
    apply R_log_ok. rewrite RC. now apply reopen_R.
  - destruct CS as [M|o p' EO ES M|n l EO _ _].
    + exists (spec_run spec_init (firstn k ops)). split; [now left|].
      apply R_log_ok. replace (recovered d') with (p_reopen p).
      * now apply reopen_R.
      * unfold recovered, p_reopen. now rewrite M.
    + exists (spec_run spec_init (firstn (S k) ops)). split; [right; split; auto|].
      destruct (plain_step_R p _ o R0 (W0 o EO)) as (p1 & E1 & R1).
      cbn [ref_step] in ES. rewrite ES in E1. inversion E1; subst p1.
      rewrite (firstn_S_nth ops k o EO). unfold spec_run in *. rewrite fold_left_app. cbn [fold_left].
      apply R_log_ok. replace (recovered d') with (p_reopen p').
      * now apply reopen_R.
      * unfold recovered, p_reopen. now rewrite M.
    + exfalso. exact (NR n EO).
Qed.

(* all puts/deletes of one SaveRaftState are in one write batch: the durable map after the
   call, whatever the fault, is the old one or the old one with ONE batch committed *)
Lemma ref_save_one_batch : forall b p us p',
  ref_step b p (OSave us) = Some p' -> exists w, p_kv p' = kv_commit (p_kv p) w.
Proof.
  intros b p us p' H. destruct b; cbn [ref_step plain_step batched_step] in H.
  - unfold b_save_raft_state in H.
    destruct (save_heads (p_kv p) (p_cache p) us) as [[c1 w1]|]; [|discriminate].
    destruct (b_save_tails (p_kv p) c1 us) as [[c2 w2]|]; [|discriminate].
    inversion H; subst. eexists; reflexivity.
  - unfold p_save_raft_state in H. destruct (save_wb p us) as [[c w]|]; [|discriminate].
    inversion H; subst. eexists; reflexivity.
Qed.

Theorem save_is_one_batch_proved :
  (c10_save_raft_state_commit_calls = 1 /\ c10_save_path_other_write_calls = 0 /\ c10_commit_sync = true) /\
  forall b d us r d', f_save_raft_state b true true d us = (r, d') ->
    d_kv d' = d_kv d \/ exists w, d_kv d' = kv_commit (d_kv d) w.
Proof.
  split; [repeat split; reflexivity|].
  intros b d us r d' H. apply save_raft_state_outcome in H.
  destruct H as [[_ K]|[(p' & E & K & _)|(_ & n & l & E & _)]].
  - now left.
  - right. destruct (ref_save_one_batch _ _ _ _ E) as (w & EW). exists w. rewrite K, EW. reflexivity.
  - discriminate.
Qed.
