(* Lemmas about the generic proto wire model and the per-type schemas. *)
From DB Require Import Base.Bytes Model.CodecEntry Model.CodecProto Proofs.Bytes Proofs.CodecEntry.
From Coq Require Import ZifyN ZifyNat ZifyBool.
Ltac Zify.zify_post_hook ::= Z.div_mod_to_equations.
Open Scope N_scope.

(* ---------- varints ---------- *)
Lemma rd_varint_uvarint x r : x < 2 ^ 64 -> rd_varint (uvarint x ++ r) = Some (x, r).
Proof.
  intros H. unfold rd_varint, uvarint.
  assert (H1 : x < 128 ^ N.of_nat 10).
  { change (128 ^ N.of_nat 10) with 1180591620717411303424.
    change (2 ^ 64) with 18446744073709551616 in H. lia. }
  assert (H2 : x * 2 ^ 0 < 2 ^ 64) by (change (2 ^ 0) with 1; lia).
  rewrite (declen_uvarint 9 9 10 x 0 0 r) by (try lia; assumption).
  f_equal. f_equal. change (2 ^ 0) with 1. lia.
Qed.

Lemma uvarint_nonempty x : uvarint x <> [].
Proof. apply uvarint_fuel_nonempty. Qed.

Lemma nlen_uvarint_sov x : nlen (uvarint x) = sov x.
Proof. rewrite nlen_uvarint. reflexivity. Qed.

Lemma sov_le_10 x : sov x <= 10.
Proof.
  unfold sov. rewrite varint_extra_nat.
  assert (forall f y, (varint_extra' f y <= f)%nat).
  { induction f as [|f IH]; intros y; cbn [varint_extra']; [lia|].
    destruct (y <? 128); [lia|]. specialize (IH (y / 128)). lia. }
  specialize (H 9%nat x). lia.
Qed.

Lemma sov_ge_1 x : 1 <= sov x.
Proof. unfold sov. lia. Qed.

Lemma sov_small x : x < 128 -> sov x = 1.
Proof. intros H. unfold sov. cbn [varint_extra]. apply N.ltb_lt in H. rewrite H. reflexivity. Qed.

(* ---------- keys ---------- *)
Definition wf_num (n : N) : Prop := 1 <= n < 2 ^ 28.

Lemma key_lt n wt : wf_num n -> wt < 8 -> key n wt < 2 ^ 64.
Proof. unfold wf_num, key. change (2 ^ 28) with 268435456. change (2 ^ 64) with 18446744073709551616. lia. Qed.

Lemma key_mod n wt : wt < 8 -> key n wt mod 8 = wt.
Proof. unfold key. intros H. rewrite N.add_comm, N.mod_add by lia. apply N.mod_small. exact H. Qed.

Lemma field_num_key n wt : wf_num n -> wt < 8 -> field_num (key n wt) = Z.of_N n.
Proof.
  unfold wf_num, key, field_num. intros Hn Hw.
  change (2 ^ 28) with 268435456 in Hn.
  assert (E : (n * 8 + wt) / 8 = n).
  { rewrite N.add_comm, N.div_add by lia. rewrite N.div_small by lia. lia. }
  rewrite E. change (2 ^ 32) with 4294967296. rewrite N.mod_small by lia.
  unfold to_int32. change (2 ^ 32) with 4294967296. rewrite N.mod_small by lia.
  destruct (Z.ltb_spec (Z.of_N n) (2 ^ 31)) as [|F]; [reflexivity|].
  change (2 ^ 31)%Z with 2147483648%Z in F. lia.
Qed.

(* ---------- the generic parser on encodings ---------- *)
Definition wf_field (f : field) : Prop :=
  match f with
  | (n, FV x) => wf_num n /\ x < 2 ^ 64
  | (n, FB b) => wf_num n /\ nlen b < 2 ^ 64
  | (_, FSkip) => False
  end.

Lemma parse_nonempty f d : d <> [] ->
  parse (S f) d =
  match rd_varint d with
  | None => None
  | Some (wire, r) =>
    let wt := wire mod 8 in
    let fnum := field_num wire in
    if wt =? 4 then None
    else if (fnum <=? 0)%Z then None
    else
      let num := Z.to_N fnum in
      if wt =? 0 then
        match rd_varint r with
        | None => None
        | Some (x, r') =>
          match parse f r' with None => None | Some fs => Some ((num, FV x) :: fs) end
        end
      else if wt =? 2 then
        match rd_varint r with
        | None => None
        | Some (len, r') =>
          if nlen r' <? len then None
          else let n := N.to_nat len in
               match parse f (skipn n r') with
               | None => None
               | Some fs => Some ((num, FB (firstn n r')) :: fs)
               end
        end
      else
        match skip_field (S (length d)) d with
        | None => None
        | Some n =>
          if nlen d <? n then None
          else match parse f (skipn (N.to_nat n) d) with
               | None => None
               | Some fs => Some ((num, FSkip) :: fs)
               end
        end
  end.
Proof. destruct d; [contradiction|reflexivity]. Qed.

Lemma enc_field_nonempty f rest : wf_field f -> enc_field f ++ rest <> [].
Proof.
  destruct f as [n [x|b|]]; simpl; intros H; try contradiction.
  - pose proof (uvarint_nonempty (key n 0)). destruct (uvarint (key n 0)); [contradiction|discriminate].
  - pose proof (uvarint_nonempty (key n 2)). destruct (uvarint (key n 2)); [contradiction|discriminate].
Qed.

Lemma parse_enc_field fuel f rest : wf_field f ->
  parse (S fuel) (enc_field f ++ rest) =
  match parse fuel rest with None => None | Some fs => Some (f :: fs) end.
Proof.
  intros Hw. rewrite parse_nonempty by (apply enc_field_nonempty; exact Hw).
  destruct f as [n [x|b|]]; [| |contradiction]; destruct Hw as [Hn Hx].
  - cbn [enc_field]. rewrite <- app_assoc.
    rewrite rd_varint_uvarint by (apply key_lt; [exact Hn|lia]).
    cbv zeta. rewrite key_mod by lia. rewrite field_num_key by (auto; lia).
    change (0 =? 4) with false. cbv iota.
    destruct (Z.leb_spec (Z.of_N n) 0) as [F|_]; [unfold wf_num in Hn; lia|].
    rewrite N2Z.id. change (0 =? 0) with true. cbv iota.
    rewrite rd_varint_uvarint by exact Hx. reflexivity.
  - cbn [enc_field]. rewrite <- !app_assoc.
    rewrite rd_varint_uvarint by (apply key_lt; [exact Hn|lia]).
    cbv zeta. rewrite key_mod by lia. rewrite field_num_key by (auto; lia).
    change (2 =? 4) with false. cbv iota.
    destruct (Z.leb_spec (Z.of_N n) 0) as [F|_]; [unfold wf_num in Hn; lia|].
    rewrite N2Z.id. change (2 =? 0) with false. change (2 =? 2) with true. cbv iota.
    rewrite rd_varint_uvarint by exact Hx.
    destruct (N.ltb_spec (nlen (b ++ rest)) (nlen b)) as [F|_].
    { rewrite nlen_app in F. lia. }
    assert (E : N.to_nat (nlen b) = length b) by (unfold nlen; lia).
    rewrite E, firstn_app_exact, skipn_app_exact by reflexivity. reflexivity.
Qed.

Lemma parse_enc fs : forall fuel, Forall wf_field fs -> (length fs <= fuel)%nat ->
  parse fuel (enc_fields fs) = Some fs.
Proof.
  induction fs as [|f fs IH]; intros fuel Hw Hf.
  - destruct fuel; reflexivity.
  - inversion Hw as [|? ? Hf1 Hfs]; subst.
    destruct fuel as [|fuel]; [simpl in Hf; lia|].
    unfold enc_fields. cbn [flat_map]. fold (enc_fields fs).
    rewrite parse_enc_field by exact Hf1.
    rewrite IH; [reflexivity|exact Hfs|simpl in Hf; lia].
Qed.

Lemma enc_field_length f : wf_field f -> (1 <= length (enc_field f))%nat.
Proof.
  intros H. pose proof (enc_field_nonempty f [] H) as N. rewrite app_nil_r in N.
  destruct (enc_field f); [contradiction|simpl; lia].
Qed.

Lemma enc_fields_length fs : Forall wf_field fs -> (length fs <= length (enc_fields fs))%nat.
Proof.
  induction 1 as [|f fs Hf _ IH]; [simpl; lia|].
  unfold enc_fields. cbn [flat_map]. fold (enc_fields fs). rewrite app_length.
  pose proof (enc_field_length f Hf). simpl. lia.
Qed.

Lemma parse_all_enc fs : Forall wf_field fs -> parse_all (enc_fields fs) = Some fs.
Proof. intros H. apply parse_enc; [exact H|apply enc_fields_length; exact H]. Qed.

Lemma enc_fields_app a b : enc_fields (a ++ b) = enc_fields a ++ enc_fields b.
Proof. unfold enc_fields. apply flat_map_app. Qed.

Lemma fold_fields_app {T} (step : T -> field -> option T) a b t :
  fold_fields step (a ++ b) t =
  match fold_fields step a t with None => None | Some t' => fold_fields step b t' end.
Proof.
  revert t; induction a as [|f a IH]; intros t; [reflexivity|].
  cbn [app fold_fields]. destruct (step t f); [apply IH|reflexivity].
Qed.

Lemma decode_with_enc {T} (step : T -> field -> option T) zero fs :
  Forall wf_field fs -> decode_with step zero (enc_fields fs) = fold_fields step fs zero.
Proof. intros H. unfold decode_with. rewrite parse_all_enc by exact H. reflexivity. Qed.

(* ---------- value conversions ---------- *)
Lemma enc_i32_lt z : enc_i32 z < 2 ^ 64.
Proof.
  unfold enc_i32. pose proof (Z.mod_pos_bound z (2 ^ 64) ltac:(lia)).
  change (2 ^ 64) with (Z.to_N (2 ^ 64)%Z). lia.
Qed.

Lemma dec_enc_i32 z : int32 z -> dec_i32 (enc_i32 z) = z.
Proof.
  unfold int32, dec_i32, enc_i32. intros H.
  change (2 ^ 31)%Z with 2147483648%Z in H.
  destruct (Z.ltb_spec z 0) as [Hn|Hp].
  - assert (E : (z mod 2 ^ 64 = z + 2 ^ 64)%Z).
    { symmetry. apply (Z.mod_unique z (2 ^ 64) (-1)); lia. }
    rewrite E.
    assert (E2 : Z.to_N (z + 2 ^ 64) mod 2 ^ 32 = Z.to_N (z + 2 ^ 32)).
    { change (2 ^ 64)%Z with 18446744073709551616%Z. change (2 ^ 32)%Z with 4294967296%Z.
      change (2 ^ 32) with 4294967296.
      symmetry. apply (N.mod_unique _ _ 4294967295); lia. }
    rewrite E2. unfold to_int32.
    change (2 ^ 32)%Z with 4294967296%Z. change (2 ^ 32) with 4294967296.
    rewrite N.mod_small by lia.
    rewrite Z2N.id by lia.
    destruct (Z.ltb_spec (z + 4294967296) (2 ^ 31)) as [F|_]; [change (2 ^ 31)%Z with 2147483648%Z in F; lia|lia].
  - rewrite Z.mod_small by (change (2 ^ 64)%Z with 18446744073709551616%Z; lia).
    change (2 ^ 32) with 4294967296. rewrite N.mod_small by lia.
    unfold to_int32. change (2 ^ 32) with 4294967296. rewrite N.mod_small by lia.
    rewrite Z2N.id by lia.
    destruct (Z.ltb_spec z (2 ^ 31)) as [_|F]; [reflexivity|change (2 ^ 31)%Z with 2147483648%Z in F; lia].
Qed.

Lemma enc_bool_lt b : enc_bool b < 2 ^ 64.
Proof. destruct b; vm_compute; reflexivity. Qed.
Lemma dec_enc_bool b : dec_bool (enc_bool b) = b.
Proof. destruct b; reflexivity. Qed.
Lemma dec_u32_small x : x < 2 ^ 32 -> dec_u32 x = x.
Proof. intros H. unfold dec_u32. apply N.mod_small. exact H. Qed.
Lemma sov_enc_bool b : sov (enc_bool b) = 1.
Proof. destruct b; reflexivity. Qed.

(* ---------- sizes ---------- *)
Lemma nlen_nil {A} : nlen (@nil A) = 0. Proof. reflexivity. Qed.

Lemma keylen1 n wt : n < 16 -> wt < 8 -> nlen (uvarint (key n wt)) = 1.
Proof. intros Hn Hw. rewrite nlen_uvarint_sov. apply sov_small. unfold key. lia. Qed.

Lemma keylen2 n wt : 16 <= n < 2048 -> wt < 8 -> nlen (uvarint (key n wt)) = 2.
Proof.
  intros Hn Hw. rewrite nlen_uvarint_sov. unfold sov, key. cbn [varint_extra].
  destruct (N.ltb_spec (n * 8 + wt) 128) as [F|_]; [lia|].
  destruct (N.ltb_spec ((n * 8 + wt) / 128) 128) as [_|F]; [reflexivity|].
  assert ((n * 8 + wt) / 128 < 128) by (apply N.div_lt_upper_bound; lia). lia.
Qed.

Lemma size_fv1 n x : n < 16 -> nlen (enc_field (n, FV x)) = szv x.
Proof. intros H. cbn [enc_field]. rewrite nlen_app, keylen1, nlen_uvarint_sov by lia. reflexivity. Qed.
Lemma size_fb1 n b : n < 16 -> nlen (enc_field (n, FB b)) = szb (nlen b).
Proof.
  intros H. cbn [enc_field]. rewrite !nlen_app, keylen1, nlen_uvarint_sov by lia. unfold szb. lia.
Qed.
Lemma size_fv2 n x : 16 <= n < 2048 -> nlen (enc_field (n, FV x)) = szv2 x.
Proof. intros H. cbn [enc_field]. rewrite nlen_app, keylen2, nlen_uvarint_sov by lia. reflexivity. Qed.
Lemma size_fb2 n b : 16 <= n < 2048 -> nlen (enc_field (n, FB b)) = szb2 (nlen b).
Proof.
  intros H. cbn [enc_field]. rewrite !nlen_app, keylen2, nlen_uvarint_sov by lia. unfold szb2. lia.
Qed.

Lemma enc_fields_cons f fs : enc_fields (f :: fs) = enc_field f ++ enc_fields fs.
Proof. reflexivity. Qed.
Lemma enc_fields_nil : enc_fields [] = []. Proof. reflexivity. Qed.

Lemma nlen_enc_map {A} (g : A -> field) (sz : A -> N) l :
  (forall a, nlen (enc_field (g a)) = sz a) -> nlen (enc_fields (map g l)) = sum_map sz l.
Proof.
  intros H. induction l as [|a l IH]; [reflexivity|].
  cbn [map sum_map fold_right]. rewrite enc_fields_cons, nlen_app, H. fold (sum_map sz l). rewrite IH. reflexivity.
Qed.

Lemma nlen_opt_field n o : n < 16 -> nlen (enc_fields (opt_field n o)) = opt_size o.
Proof.
  intros H. destruct o as [b|]; [|reflexivity].
  cbn [opt_field opt_size]. unfold enc_fields. cbn [flat_map]. rewrite app_nil_r. apply size_fb1. exact H.
Qed.

Ltac size_simpl :=
  repeat first
    [ rewrite enc_fields_app | rewrite enc_fields_cons
    | progress change (enc_fields []) with (@nil N)
    | rewrite nlen_app | rewrite nlen_nil
    | rewrite size_fv1 by lia | rewrite size_fb1 by lia
    | rewrite size_fv2 by lia | rewrite size_fb2 by lia
    | rewrite nlen_opt_field by lia ].

(* repeated fields appended one by one *)
Lemma fold_fields_map_append {T A} (step : T -> field -> option T) (g : A -> field) (P : A -> Prop)
      (get : T -> list A) (put : T -> list A -> T) (l : list A) :
  (forall t a, P a -> step t (g a) = Some (put t (get t ++ [a]))) ->
  (forall t x, get (put t x) = x) -> (forall t x y, put (put t x) y = put t y) ->
  Forall P l ->
  forall t, fold_fields step (map g l) t = Some (if l then t else put t (get t ++ l)).
Proof.
  intros Hs Hg Hp HP. induction HP as [|a l Ha _ IH]; intros t; [reflexivity|].
  cbn [map fold_fields]. rewrite (Hs _ _ Ha), IH.
  destruct l as [|b l]; [reflexivity|].
  rewrite Hg, Hp, <- app_assoc. reflexivity.
Qed.

Ltac fields_wf :=
  unfold wf_field, wf_num, u64 in *;
  repeat (apply Forall_cons || apply Forall_nil || split);
  try assumption; try apply enc_i32_lt; try apply enc_bool_lt;
  try (vm_compute; first [reflexivity | discriminate]).

Lemma lt63_lt64 x : x < 2 ^ 63 -> x < 2 ^ 64.
Proof. change (2 ^ 63) with 9223372036854775808. change (2 ^ 64) with 18446744073709551616. lia. Qed.
Lemma lt32_lt64 x : x < 2 ^ 32 -> x < 2 ^ 64.
Proof. change (2 ^ 32) with 4294967296. change (2 ^ 64) with 18446744073709551616. lia. Qed.

(* the regenerated guards: every optional byte field is written, and counted by
   Size(), exactly when it is non-nil.  A source change of any of these guards
   makes this tactic (and the lemmas using it) fail. *)
Ltac guards :=
  change sf_metadata_guard_nil_marshal with true in *; change sf_metadata_guard_nil_size with true in *;
  change sn_checksum_guard_nil_marshal with true in *; change sn_checksum_guard_nil_size with true in *;
  change sh_header_checksum_guard_nil_marshal with true in *;
  change sh_header_checksum_guard_nil_size with true in *;
  change sh_payload_checksum_guard_nil_marshal with true in *;
  change sh_payload_checksum_guard_nil_size with true in *;
  change ck_data_guard_nil_marshal with true in *; change ck_data_guard_nil_size with true in *;
  cbn [opt_present] in *.

Lemma guards_all_nil :
  (sf_metadata_guard_nil_marshal && sf_metadata_guard_nil_size && sn_checksum_guard_nil_marshal &&
   sn_checksum_guard_nil_size && sh_header_checksum_guard_nil_marshal && sh_header_checksum_guard_nil_size &&
   sh_payload_checksum_guard_nil_marshal && sh_payload_checksum_guard_nil_size &&
   ck_data_guard_nil_marshal && ck_data_guard_nil_size)%bool = true.
Proof. reflexivity. Qed.

Lemma opt_field_wf n o : wf_num n -> olen o < 2 ^ 64 -> Forall wf_field (opt_field n o).
Proof.
  intros Hn Ho. destruct o as [b|]; cbn [opt_field olen] in *.
  - constructor; [split; assumption|constructor].
  - constructor.
Qed.

(* ---------- State ---------- *)
Lemma state_fields_wf s : wf_state s -> Forall wf_field (state_to_fields s).
Proof.
  intros (A & B & C). unfold state_to_fields, wf_field, wf_num, u64 in *.
  repeat constructor; try assumption; vm_compute; try reflexivity; discriminate.
Qed.

Lemma state_roundtrip_proved s : wf_state s -> state_decode (state_encode s) = Some s.
Proof.
  intros H. unfold state_decode, state_encode. rewrite decode_with_enc by (apply state_fields_wf; exact H).
  destruct s; reflexivity.
Qed.

Lemma state_size_exact_proved s : nlen (state_encode s) = state_size s.
Proof. unfold state_encode, state_to_fields, state_size. size_simpl. lia. Qed.

Lemma state_size_le_upper_proved s : state_size s <= state_size_upper.
Proof.
  unfold state_size, szv. pose proof (sov_le_10 (st_term s)). pose proof (sov_le_10 (st_vote s)).
  pose proof (sov_le_10 (st_commit s)).
  change state_size_upper with 56. lia.
Qed.

(* ---------- Session ---------- *)
Lemma session_fields_wf s : wf_session s -> Forall wf_field (session_to_fields s).
Proof.
  intros (A & B & C & D). unfold session_to_fields, wf_field, wf_num, u64 in *.
  repeat constructor; try assumption; vm_compute; try reflexivity; discriminate.
Qed.
Lemma session_roundtrip_proved s : wf_session s -> session_decode (session_encode s) = Some s.
Proof.
  intros H. unfold session_decode, session_encode. rewrite decode_with_enc by (apply session_fields_wf; exact H).
  destruct s; reflexivity.
Qed.
Lemma session_size_exact_proved s : nlen (session_encode s) = session_size s.
Proof. unfold session_encode, session_to_fields, session_size. size_simpl. lia. Qed.

(* ---------- SnapshotFile ---------- *)
Lemma sf_fields_wf s : wf_sf s -> Forall wf_field (sf_to_fields s).
Proof.
  intros (A & B & C & D). unfold sf_to_fields. guards. apply Forall_app. split.
  - apply lt32_lt64 in A. fields_wf.
  - apply opt_field_wf; [vm_compute; split; [discriminate|reflexivity]|apply lt32_lt64; exact D].
Qed.

Lemma sf_fold s t : fold_fields sf_step (sf_to_fields s) t = Some
  (mkSF (sf_filepath s) (sf_filesize s) (sf_fileid s)
        (match sf_metadata s with Some b => Some b | None => sf_metadata t end)).
Proof. unfold sf_to_fields. guards. destruct s as [a b c [d|]]; destruct t; reflexivity. Qed.

Lemma sf_roundtrip_proved s : wf_sf s -> sf_decode (sf_encode s) = Some s.
Proof.
  intros H. unfold sf_decode, sf_encode. rewrite decode_with_enc by (apply sf_fields_wf; exact H).
  rewrite sf_fold. destruct s as [a b c [d|]]; reflexivity.
Qed.

Lemma sf_size_exact_proved s : nlen (sf_encode s) = sf_size s.
Proof. unfold sf_encode, sf_to_fields, sf_size. guards. size_simpl. lia. Qed.

Lemma sf_size_lt s : wf_sf s -> nlen (sf_encode s) < 2 ^ 64.
Proof.
  intros (A & B & C & D). rewrite sf_size_exact_proved. unfold sf_size, szb, szv, opt_size. guards.
  pose proof (sov_le_10 (nlen (sf_filepath s))). pose proof (sov_le_10 (sf_filesize s)).
  pose proof (sov_le_10 (sf_fileid s)).
  change (2 ^ 32) with 4294967296 in *. change (2 ^ 64) with 18446744073709551616.
  destruct (sf_metadata s) as [m|]; cbn [olen] in D.
  - unfold szb. pose proof (sov_le_10 (nlen m)). lia.
  - lia.
Qed.

(* ---------- maps ---------- *)
Lemma map_set_fresh {V} k (v : V) m : ~ In k (keys m) -> map_set k v m = m ++ [(k, v)].
Proof.
  induction m as [|[k' v'] m IH]; intros H; [reflexivity|].
  cbn [map_set]. cbn [keys map fst In] in H.
  destruct (N.eqb_spec k k') as [E|_]; [exfalso; apply H; left; congruence|].
  cbn [app]. f_equal. apply IH. intros F. apply H. right. exact F.
Qed.

Lemma uvarint_8 : uvarint 8 = [8]. Proof. reflexivity. Qed.
Lemma uvarint_18 : uvarint 18 = [18]. Proof. reflexivity. Qed.
Lemma uvarint_16 : uvarint 16 = [16]. Proof. reflexivity. Qed.

Lemma smap_entry_shape k v :
  smap_entry (k, v) = (uvarint 8 ++ uvarint k) ++ (uvarint 18 ++ uvarint (nlen v) ++ v) ++ [].
Proof. reflexivity. Qed.

Lemma field_num_8 : field_num 8 = 1%Z. Proof. reflexivity. Qed.
Lemma field_num_18 : field_num 18 = 2%Z. Proof. reflexivity. Qed.
Lemma field_num_16 : field_num 16 = 2%Z. Proof. reflexivity. Qed.

Lemma smap_entry_loop_nonempty f d k v : d <> [] ->
  smap_entry_loop (S f) d k v =
      match rd_varint d with
      | None => None
      | Some (wire, r) =>
        let fnum := field_num wire in
        if (fnum =? 1)%Z then
          match rd_varint r with
          | None => None
          | Some (x, r') => smap_entry_loop f r' (N.lor k x) v
          end
        else if (fnum =? 2)%Z then
          match rd_varint r with
          | None => None
          | Some (len, r') =>
            if nlen r' <? len then None
            else let n := N.to_nat len in smap_entry_loop f (skipn n r') k (firstn n r')
          end
        else
          match skip_field (S (length d)) d with
          | None => None
          | Some n => if nlen d <? n then None else smap_entry_loop f (skipn (N.to_nat n) d) k v
          end
      end.
Proof. destruct d; [contradiction|reflexivity]. Qed.

Lemma smap_entry_decode_enc k v : k < 2 ^ 64 -> nlen v < 2 ^ 64 ->
  smap_entry_decode (smap_entry (k, v)) = Some (k, v).
Proof.
  intros Hk Hv. unfold smap_entry_decode.
  assert (L : exists f, length (smap_entry (k, v)) = S (S f)).
  { rewrite smap_entry_shape, uvarint_8, uvarint_18. cbn [app length].
    rewrite app_length. cbn [length]. eexists. rewrite Nat.add_succ_r. reflexivity. }
  destruct L as [f ->]. rewrite smap_entry_shape.
  rewrite smap_entry_loop_nonempty by (rewrite uvarint_8; discriminate).
  rewrite <- app_assoc. rewrite rd_varint_uvarint by (vm_compute; reflexivity).
  cbv zeta. rewrite field_num_8. change (1 =? 1)%Z with true. cbv iota.
  rewrite rd_varint_uvarint by exact Hk. rewrite N.lor_0_l.
  rewrite smap_entry_loop_nonempty by (rewrite uvarint_18; discriminate).
  rewrite <- !app_assoc. rewrite rd_varint_uvarint by (vm_compute; reflexivity).
  cbv zeta. rewrite field_num_18. change (2 =? 1)%Z with false. change (2 =? 2)%Z with true. cbv iota.
  rewrite rd_varint_uvarint by exact Hv. rewrite app_nil_r.
  destruct (N.ltb_spec (nlen v) (nlen v)) as [F|_]; [lia|].
  assert (E : N.to_nat (nlen v) = length v) by (unfold nlen; lia).
  rewrite E, firstn_all, skipn_all. destruct f; reflexivity.
Qed.

Lemma bmap_entry_shape k v :
  bmap_entry (k, v) = (uvarint 8 ++ uvarint k) ++ (uvarint 16 ++ uvarint (enc_bool v)) ++ [].
Proof. reflexivity. Qed.

Lemma bmap_entry_loop_nonempty f d k v : d <> [] ->
  bmap_entry_loop (S f) d k v =
      match rd_varint d with
      | None => None
      | Some (wire, r) =>
        let fnum := field_num wire in
        if (fnum =? 1)%Z then
          match rd_varint r with
          | None => None
          | Some (x, r') => bmap_entry_loop f r' (N.lor k x) v
          end
        else if (fnum =? 2)%Z then
          match rd_varint r with
          | None => None
          | Some (x, r') => bmap_entry_loop f r' k (dec_bool x)
          end
        else
          match skip_field (S (length d)) d with
          | None => None
          | Some n => if nlen d <? n then None else bmap_entry_loop f (skipn (N.to_nat n) d) k v
          end
      end.
Proof. destruct d; [contradiction|reflexivity]. Qed.

Lemma bmap_entry_decode_enc k v : k < 2 ^ 64 ->
  bmap_entry_decode (bmap_entry (k, v)) = Some (k, v).
Proof.
  intros Hk. unfold bmap_entry_decode.
  assert (L : exists f, length (bmap_entry (k, v)) = S (S f)).
  { rewrite bmap_entry_shape, uvarint_8, uvarint_16. cbn [app length].
    rewrite app_length. cbn [length]. eexists. rewrite Nat.add_succ_r. reflexivity. }
  destruct L as [f ->]. rewrite bmap_entry_shape.
  rewrite bmap_entry_loop_nonempty by (rewrite uvarint_8; discriminate).
  rewrite <- app_assoc. rewrite rd_varint_uvarint by (vm_compute; reflexivity).
  cbv zeta. rewrite field_num_8. change (1 =? 1)%Z with true. cbv iota.
  rewrite rd_varint_uvarint by exact Hk. rewrite N.lor_0_l.
  rewrite bmap_entry_loop_nonempty by (rewrite uvarint_16; discriminate).
  rewrite <- !app_assoc. rewrite rd_varint_uvarint by (vm_compute; reflexivity).
  cbv zeta. rewrite field_num_16. change (2 =? 1)%Z with false. change (2 =? 2)%Z with true. cbv iota.
  rewrite rd_varint_uvarint by apply enc_bool_lt. rewrite dec_enc_bool.
  destruct f; reflexivity.
Qed.

(* folding the entries of one map field into a record whose map is [acc] *)
Lemma fold_smap {T} (step : T -> field -> option T) n (get : T -> smap) (put : T -> smap -> T) :
  (forall t y, step t (n, FB y) = match smap_put y (get t) with Some b' => Some (put t b') | None => None end) ->
  (forall t x, get (put t x) = x) -> (forall t x y, put (put t x) y = put t y) ->
  forall m t, wf_smap (get t ++ m) ->
  fold_fields step (smap_fields n m) t = Some (if m then t else put t (get t ++ m)).
Proof.
  intros Hs Hg Hp. induction m as [|[k v] m IH]; intros t Hw; [reflexivity|].
  unfold smap_fields. cbn [map fold_fields]. fold (smap_fields n m).
  rewrite Hs. unfold smap_put.
  destruct Hw as [Hnd Hall].
  assert (Hkv : k < 2 ^ 64 /\ nlen v < 2 ^ 64).
  { apply Forall_app in Hall as [_ Hall]. inversion Hall as [|? ? [A B] _]; subst.
    cbn [fst snd] in *. split; [exact A|apply lt32_lt64; exact B]. }
  rewrite smap_entry_decode_enc by apply Hkv.
  assert (Hfresh : ~ In k (keys (get t))).
  { unfold keys in *. rewrite map_app in Hnd. cbn [map fst] in Hnd.
    apply NoDup_remove_2 in Hnd. intros F. apply Hnd. apply in_or_app. left. exact F. }
  rewrite map_set_fresh by exact Hfresh.
  rewrite IH.
  - destruct m as [|kv m]; [reflexivity|]. rewrite Hg, Hp, <- app_assoc. reflexivity.
  - rewrite Hg, <- app_assoc. split; assumption.
Qed.

Lemma fold_bmap {T} (step : T -> field -> option T) n (get : T -> bmap) (put : T -> bmap -> T) :
  (forall t y, step t (n, FB y) = match bmap_put y (get t) with Some b' => Some (put t b') | None => None end) ->
  (forall t x, get (put t x) = x) -> (forall t x y, put (put t x) y = put t y) ->
  forall m t, wf_bmap (get t ++ m) ->
  fold_fields step (bmap_fields n m) t = Some (if m then t else put t (get t ++ m)).
Proof.
  intros Hs Hg Hp. induction m as [|[k v] m IH]; intros t Hw; [reflexivity|].
  unfold bmap_fields. cbn [map fold_fields]. fold (bmap_fields n m).
  rewrite Hs. unfold bmap_put.
  destruct Hw as [Hnd Hall].
  assert (Hkv : k < 2 ^ 64).
  { apply Forall_app in Hall as [_ Hall]. inversion Hall as [|? ? A _]; subst. exact A. }
  rewrite bmap_entry_decode_enc by apply Hkv.
  assert (Hfresh : ~ In k (keys (get t))).
  { unfold keys in *. rewrite map_app in Hnd. cbn [map fst] in Hnd.
    apply NoDup_remove_2 in Hnd. intros F. apply Hnd. apply in_or_app. left. exact F. }
  rewrite map_set_fresh by exact Hfresh.
  rewrite IH.
  - destruct m as [|kv m]; [reflexivity|]. rewrite Hg, Hp, <- app_assoc. reflexivity.
  - rewrite Hg, <- app_assoc. split; assumption.
Qed.

Lemma smap_entry_nlen kv : nlen (smap_entry kv) = smap_entry_size kv.
Proof.
  destruct kv as [k v]. rewrite smap_entry_shape, uvarint_8, uvarint_18.
  rewrite !nlen_app, !nlen_cons, !nlen_nil, !nlen_uvarint_sov. unfold smap_entry_size. cbn [fst snd]. lia.
Qed.
Lemma bmap_entry_nlen kv : nlen (bmap_entry kv) = bmap_entry_size kv.
Proof.
  destruct kv as [k v]. rewrite bmap_entry_shape, uvarint_8, uvarint_16.
  rewrite !nlen_app, !nlen_cons, !nlen_nil, !nlen_uvarint_sov, sov_enc_bool. unfold bmap_entry_size. cbn [fst snd]. lia.
Qed.

Lemma smap_fields_nlen n m : n < 16 -> nlen (enc_fields (smap_fields n m)) = smap_size m.
Proof.
  intros H. unfold smap_fields, smap_size. apply nlen_enc_map. intros kv.
  rewrite size_fb1 by exact H. rewrite smap_entry_nlen. unfold szb. cbv zeta. lia.
Qed.
Lemma bmap_fields_nlen n m : n < 16 -> nlen (enc_fields (bmap_fields n m)) = bmap_size m.
Proof.
  intros H. unfold bmap_fields, bmap_size. apply nlen_enc_map. intros kv.
  rewrite size_fb1 by exact H. rewrite bmap_entry_nlen. unfold szb. cbv zeta. lia.
Qed.

Lemma smap_entry_size_lt kv : fst kv < 2 ^ 64 -> nlen (snd kv) < 2 ^ 32 -> smap_entry_size kv < 2 ^ 33.
Proof.
  destruct kv as [k v]; cbn [fst snd]. intros A B. unfold smap_entry_size. cbn [fst snd].
  pose proof (sov_le_10 k). pose proof (sov_le_10 (nlen v)).
  change (2 ^ 32) with 4294967296 in B. change (2 ^ 33) with 8589934592. clear A. lia.
Qed.

Lemma smap_fields_wf n m : wf_num n -> wf_smap m -> Forall wf_field (smap_fields n m).
Proof.
  intros Hn [_ Hall]. unfold smap_fields. apply Forall_map. eapply Forall_impl; [|exact Hall].
  intros kv [A B]. change (wf_num n /\ nlen (smap_entry kv) < 2 ^ 64). split; [exact Hn|]. rewrite smap_entry_nlen.
  pose proof (smap_entry_size_lt kv A B). clear A B. change (2 ^ 33) with 8589934592 in *.
  change (2 ^ 64) with 18446744073709551616. lia.
Qed.
Lemma bmap_fields_wf n m : wf_num n -> wf_bmap m -> Forall wf_field (bmap_fields n m).
Proof.
  intros Hn [_ Hall]. unfold bmap_fields. apply Forall_map. eapply Forall_impl; [|exact Hall].
  intros kv A. change (wf_num n /\ nlen (bmap_entry kv) < 2 ^ 64). split; [exact Hn|]. rewrite bmap_entry_nlen. unfold bmap_entry_size.
  pose proof (sov_le_10 (fst kv)). clear A. destruct kv as [k v]; cbn [fst snd] in *. change (2 ^ 64) with 18446744073709551616. lia.
Qed.

(* ---------- Membership ---------- *)
Lemma wf_num_lit n : (1 <=? n) && (n <? 2 ^ 28) = true -> wf_num n.
Proof. intros H. apply andb_true_iff in H as [A B]. apply N.leb_le in A. apply N.ltb_lt in B. split; assumption. Qed.

Lemma mb_fields_wf m : wf_mb m -> Forall wf_field (mb_to_fields m).
Proof.
  intros (A & B & C & D & E). unfold mb_to_fields. rewrite !Forall_app. repeat split.
  - constructor; [|constructor]. split; [apply wf_num_lit; reflexivity|exact A].
  - apply smap_fields_wf; [apply wf_num_lit; reflexivity|exact B].
  - apply bmap_fields_wf; [apply wf_num_lit; reflexivity|exact C].
  - apply smap_fields_wf; [apply wf_num_lit; reflexivity|exact D].
  - apply smap_fields_wf; [apply wf_num_lit; reflexivity|exact E].
Qed.

Lemma mb_fold m : wf_mb m -> fold_fields mb_step (mb_to_fields m) mb_zero = Some m.
Proof.
  intros (A & B & C & D & E). unfold mb_to_fields.
  rewrite fold_fields_app. cbn [fold_fields mb_step mb_zero].
  rewrite fold_fields_app.
  rewrite (fold_smap mb_step 2 mb_addresses (fun t x => mkMB (mb_ccid t) x (mb_removed t) (mb_nonvotings t) (mb_witnesses t)));
    [|intros [] y; reflexivity|intros [] x; reflexivity|intros [] x y; reflexivity|exact B].
  rewrite fold_fields_app.
  rewrite (fold_bmap mb_step 3 mb_removed (fun t x => mkMB (mb_ccid t) (mb_addresses t) x (mb_nonvotings t) (mb_witnesses t)));
    [|intros [] y; reflexivity|intros [] x; reflexivity|intros [] x y; reflexivity
     |destruct (mb_addresses m); exact C].
  rewrite fold_fields_app.
  rewrite (fold_smap mb_step 4 mb_nonvotings (fun t x => mkMB (mb_ccid t) (mb_addresses t) (mb_removed t) x (mb_witnesses t)));
    [|intros [] y; reflexivity|intros [] x; reflexivity|intros [] x y; reflexivity
     |destruct (mb_addresses m); destruct (mb_removed m); exact D].
  rewrite (fold_smap mb_step 5 mb_witnesses (fun t x => mkMB (mb_ccid t) (mb_addresses t) (mb_removed t) (mb_nonvotings t) x));
    [|intros [] y; reflexivity|intros [] x; reflexivity|intros [] x y; reflexivity
     |destruct (mb_addresses m); destruct (mb_removed m); destruct (mb_nonvotings m); exact E].
  destruct m as [c a r n w]. cbn [mb_ccid mb_addresses mb_removed mb_nonvotings mb_witnesses].
  destruct a; destruct r; destruct n; destruct w; reflexivity.
Qed.

Lemma mb_roundtrip_proved m : wf_mb m -> mb_decode (mb_encode m) = Some m.
Proof.
  intros H. unfold mb_decode, mb_encode. rewrite decode_with_enc by (apply mb_fields_wf; exact H).
  apply mb_fold. exact H.
Qed.

Lemma mb_size_exact_proved m : nlen (mb_encode m) = mb_size m.
Proof.
  unfold mb_encode, mb_to_fields, mb_size. size_simpl.
  rewrite !smap_fields_nlen, bmap_fields_nlen by lia. lia.
Qed.

(* ---------- Snapshot ---------- *)
Lemma sn_size_parts s : sn_size s < 2 ^ 63 ->
  mb_size (sn_membership s) < 2 ^ 63 /\ nlen (sn_filepath s) < 2 ^ 63 /\ olen (sn_checksum s) < 2 ^ 63.
Proof.
  unfold sn_size, szb, szv, opt_size. guards. change (2 ^ 63) with 9223372036854775808.
  destruct (sn_checksum s); cbn [olen]; unfold szb; lia.
Qed.

Lemma Forall_map_wf {A} (g : A -> field) (P : A -> Prop) l :
  (forall a, P a -> wf_field (g a)) -> Forall P l -> Forall wf_field (map g l).
Proof. intros H HP. apply Forall_map. eapply Forall_impl; [exact H|exact HP]. Qed.

Lemma sn_fields_wf s : wf_sn s -> Forall wf_field (sn_to_fields s).
Proof.
  intros (A & B & C & D & E & F & G & H & I & J & K).
  destruct (sn_size_parts s K) as (K1 & K2 & K3).
  unfold sn_to_fields. guards. rewrite !Forall_app. repeat split.
  - apply lt32_lt64 in A. rewrite <- mb_size_exact_proved in K1. apply lt63_lt64 in K1. fields_wf.
  - apply (Forall_map_wf _ wf_sf); [|exact F]. intros f Hf.
    split; [apply wf_num_lit; reflexivity|apply sf_size_lt; exact Hf].
  - apply opt_field_wf; [apply wf_num_lit; reflexivity|apply lt32_lt64; exact G].
  - fields_wf.
Qed.

Definition sn_put_files (t : snapshot) (x : list snapshotfile) : snapshot :=
  mkSN (sn_filepath t) (sn_filesize t) (sn_index t) (sn_term t) (sn_membership t) x (sn_checksum t)
       (sn_dummy t) (sn_shard t) (sn_type t) (sn_imported t) (sn_ondisk t) (sn_witness t).

Lemma sn_fold s : wf_sn s -> fold_fields sn_step (sn_to_fields s) sn_zero = Some s.
Proof.
  intros (A & B & C & D & E & F & G & H & I & J & K).
  unfold sn_to_fields. guards.
  rewrite fold_fields_app.
  assert (S1 : fold_fields sn_step
     [(2, FB (sn_filepath s)); (3, FV (sn_filesize s)); (4, FV (sn_index s)); (5, FV (sn_term s));
      (6, FB (mb_encode (sn_membership s)))] sn_zero =
     Some (mkSN (sn_filepath s) (sn_filesize s) (sn_index s) (sn_term s) (sn_membership s)
                [] None false 0 0 false 0 false)).
  { cbn [fold_fields sn_step sn_zero].
    fold (mb_decode (mb_encode (sn_membership s))). rewrite mb_roundtrip_proved by exact E. reflexivity. }
  rewrite S1. clear S1.
  rewrite fold_fields_app.
  rewrite (fold_fields_map_append sn_step (fun f => (7, FB (sf_encode f))) wf_sf sn_files sn_put_files);
    [|intros [] a Ha; cbn [sn_step]; rewrite sf_roundtrip_proved by exact Ha; reflexivity
     |intros [] x; reflexivity|intros [] x y; reflexivity|exact F].
  rewrite fold_fields_app.
  destruct s as [a b c d e f g h i j k l m].
  cbn [sn_filepath sn_filesize sn_index sn_term sn_membership sn_files sn_checksum sn_dummy
       sn_shard sn_type sn_imported sn_ondisk sn_witness] in *.
  destruct f as [|f0 f]; destruct g as [g|];
    cbn [opt_field fold_fields sn_step sn_put_files app
         sn_filepath sn_filesize sn_index sn_term sn_membership sn_files sn_checksum sn_dummy
         sn_shard sn_type sn_imported sn_ondisk sn_witness];
    rewrite !dec_enc_bool, dec_enc_i32 by exact I; reflexivity.
Qed.

Lemma sn_roundtrip_proved s : wf_sn s -> sn_decode (sn_encode s) = Some s.
Proof.
  intros H. unfold sn_decode, sn_encode. rewrite decode_with_enc by (apply sn_fields_wf; exact H).
  apply sn_fold. exact H.
Qed.

Lemma sn_size_exact_proved s : nlen (sn_encode s) = sn_size s.
Proof.
  unfold sn_encode, sn_to_fields, sn_size. guards. size_simpl.
  rewrite (nlen_enc_map _ (fun f => szb (sf_size f))).
  2:{ intros f. rewrite size_fb1 by lia. rewrite sf_size_exact_proved. reflexivity. }
  rewrite mb_size_exact_proved. unfold szv. rewrite !sov_enc_bool. lia.
Qed.

(* ---------- EntryBatch ---------- *)
Lemma entry_enc_lt e : wf_entry e -> nlen (encode e) < 2 ^ 64.
Proof.
  intros H. pose proof (entry_size_le_upper_limit_proved e H) as L.
  destruct H as [(_ & _ & _ & _ & _ & _ & _ & _ & Hc) _].
  unfold size_upper_limit in L. change entry_non_cmd_fields_size with 128 in L.
  change colfer_size_max with 8796093022208 in Hc. change (2 ^ 64) with 18446744073709551616. lia.
Qed.

Lemma entry_decode_exact_enc' e : wf_entry e -> entry_decode_exact (encode e) = Some e.
Proof. intros H. unfold entry_decode_exact. rewrite entry_roundtrip_proved by exact H. reflexivity. Qed.

Lemma entries_fields_wf n es : wf_num n -> Forall wf_entry es ->
  Forall wf_field (map (fun e => (n, FB (encode e))) es).
Proof.
  intros Hn H. apply (Forall_map_wf _ wf_entry); [|exact H].
  intros e He. split; [exact Hn|apply entry_enc_lt; exact He].
Qed.

Lemma eb_roundtrip_proved es : Forall wf_entry es -> eb_decode (eb_encode es) = Some es.
Proof.
  intros H. unfold eb_decode, eb_encode, eb_to_fields.
  rewrite decode_with_enc by (apply entries_fields_wf; [apply wf_num_lit; reflexivity|exact H]).
  rewrite (fold_fields_map_append eb_step (fun e => (1, FB (encode e))) wf_entry (fun t => t) (fun _ x => x));
    [|intros t a Ha; cbn [eb_step]; rewrite entry_decode_exact_enc' by exact Ha; reflexivity
     |reflexivity|reflexivity|exact H].
  destruct es; reflexivity.
Qed.

Lemma entries_nlen n es : n < 16 ->
  nlen (enc_fields (map (fun e => (n, FB (encode e))) es)) = sum_map (fun e => szb (size e)) es.
Proof.
  intros H. apply nlen_enc_map. intros e. rewrite size_fb1 by exact H.
  rewrite entry_size_exact_proved. reflexivity.
Qed.

Lemma eb_size_exact_proved es : nlen (eb_encode es) = eb_size es.
Proof. unfold eb_encode, eb_to_fields, eb_size. apply entries_nlen. lia. Qed.

Lemma szb_le l : szb l <= l + 11.
Proof. unfold szb. pose proof (sov_le_10 l). lia. Qed.

Lemma entries_size_le_upper k es : Forall wf_entry es -> 11 <= k ->
  sum_map (fun e => szb (size e)) es <= sum_map (fun e => size_upper_limit e + k) es.
Proof.
  intros H Hk. induction H as [|e es He _ IH]; [cbn; lia|].
  cbn [sum_map fold_right].
  fold (sum_map (fun e => szb (size e)) es). fold (sum_map (fun e => size_upper_limit e + k) es).
  pose proof (entry_size_le_upper_limit_proved e He) as L. rewrite entry_size_exact_proved in L.
  pose proof (szb_le (size e)). lia.
Qed.

Lemma eb_size_le_upper_proved es : Forall wf_entry es -> eb_size es <= eb_size_upper es.
Proof.
  intros H. unfold eb_size, eb_size_upper.
  pose proof (entries_size_le_upper eb_upper_per_entry es H ltac:(vm_compute; discriminate)). lia.
Qed.

(* ---------- Message ---------- *)
Lemma msg_size_parts m : msg_size m < 2 ^ 63 -> sn_size (m_snapshot m) < 2 ^ 63.
Proof. unfold msg_size, szb, szv. change (2 ^ 63) with 9223372036854775808. lia. Qed.

Lemma msg_fields_wf m : wf_msg m -> Forall wf_field (msg_to_fields m).
Proof.
  intros (A & B & C & D & E & F & G & H & I & J & K & L & M).
  unfold msg_to_fields. rewrite !Forall_app. repeat split.
  - fields_wf.
  - apply entries_fields_wf; [apply wf_num_lit; reflexivity|exact J].
  - pose proof (msg_size_parts m M) as S. rewrite <- sn_size_exact_proved in S. apply lt63_lt64 in S.
    fields_wf.
Qed.

Definition msg_put_entries (t : message) (x : list entry) : message :=
  mkMsg (m_type t) (m_to t) (m_from t) (m_shard t) (m_term t) (m_logterm t) (m_logindex t)
        (m_commit t) (m_reject t) (m_hint t) x (m_snapshot t) (m_hinthigh t).

Lemma msg_fold m : wf_msg m -> fold_fields msg_step (msg_to_fields m) msg_zero = Some m.
Proof.
  intros (A & B & C & D & E & F & G & H & I & J & K & L & M).
  unfold msg_to_fields. rewrite fold_fields_app.
  cbn [fold_fields msg_step msg_zero]. rewrite dec_enc_i32 by exact A. rewrite dec_enc_bool.
  rewrite fold_fields_app.
  rewrite (fold_fields_map_append msg_step (fun e => (11, FB (encode e))) wf_entry m_entries msg_put_entries);
    [|intros [] a Ha; cbn [msg_step]; rewrite entry_decode_exact_enc' by exact Ha; reflexivity
     |intros [] x; reflexivity|intros [] x y; reflexivity|exact J].
  destruct m as [a b c d e f g h i j k l n].
  cbn [m_type m_to m_from m_shard m_term m_logterm m_logindex m_commit m_reject m_hint m_entries
       m_snapshot m_hinthigh] in *.
  destruct k as [|k0 k];
    cbn [fold_fields msg_step msg_put_entries app
         m_type m_to m_from m_shard m_term m_logterm m_logindex m_commit m_reject m_hint m_entries
         m_snapshot m_hinthigh];
    fold (sn_decode (sn_encode l)); rewrite sn_roundtrip_proved by exact K; reflexivity.
Qed.

Lemma msg_roundtrip_proved m : wf_msg m -> msg_decode (msg_encode m) = Some m.
Proof.
  intros H. unfold msg_decode, msg_encode. rewrite decode_with_enc by (apply msg_fields_wf; exact H).
  apply msg_fold. exact H.
Qed.

Lemma msg_size_exact_proved m : nlen (msg_encode m) = msg_size m.
Proof.
  unfold msg_encode, msg_to_fields, msg_size. size_simpl.
  rewrite entries_nlen by lia. rewrite sn_size_exact_proved. unfold szv. rewrite sov_enc_bool. lia.
Qed.

Lemma sum_map_ext {A} (f g : A -> N) l : (forall a, f a = g a) -> sum_map f l = sum_map g l.
Proof.
  intros H. induction l as [|a l IH]; [reflexivity|]. cbn [sum_map fold_right].
  fold (sum_map f l). fold (sum_map g l). rewrite H, IH. reflexivity.
Qed.

Lemma szv_le x : szv x <= 11.
Proof. unfold szv. pose proof (sov_le_10 x). lia. Qed.

Lemma msg_size_le_upper_proved m : wf_msg m -> msg_size m <= msg_size_upper m.
Proof.
  intros (A & B & C & D & E & F & G & H & I & J & K & L & M).
  unfold msg_size, msg_size_upper.
  pose proof (szv_le (enc_i32 (m_type m))). pose proof (szv_le (m_to m)). pose proof (szv_le (m_from m)).
  pose proof (szv_le (m_shard m)). pose proof (szv_le (m_term m)). pose proof (szv_le (m_logterm m)).
  pose proof (szv_le (m_logindex m)). pose proof (szv_le (m_commit m)). pose proof (szv_le (m_hint m)).
  pose proof (szv_le (m_hinthigh m)). pose proof (szb_le (sn_size (m_snapshot m))).
  pose proof (entries_size_le_upper msg_upper_per_entry (m_entries m) J ltac:(vm_compute; discriminate)) as P.
  assert (Q : sum_map (fun e => size_upper_limit e + msg_upper_per_entry) (m_entries m) =
              sum_map (fun e => msg_upper_per_entry + size_upper_limit e) (m_entries m))
    by (apply sum_map_ext; intros; lia).
  rewrite Q in P. change msg_upper_base with 192. lia.
Qed.

(* ---------- MessageBatch ---------- *)
Lemma bt_fields_wf b : wf_bt b -> Forall wf_field (bt_to_fields b).
Proof.
  intros (A & B & C & D). unfold bt_to_fields. rewrite Forall_app. split.
  - apply (Forall_map_wf _ wf_msg); [|exact A]. intros m Hm.
    split; [apply wf_num_lit; reflexivity|]. rewrite msg_size_exact_proved.
    apply lt63_lt64. apply Hm.
  - apply lt63_lt64 in C. apply lt32_lt64 in D. fields_wf.
Qed.

Definition bt_put_requests (t : messagebatch) (x : list message) : messagebatch :=
  mkMBatch x (bt_deployment t) (bt_source t) (bt_binver t).

Lemma bt_roundtrip_proved b : wf_bt b -> bt_decode (bt_encode b) = Some b.
Proof.
  intros Hw. pose proof Hw as (A & B & C & D).
  unfold bt_decode, bt_encode. rewrite decode_with_enc by (apply bt_fields_wf; exact Hw).
  unfold bt_to_fields. rewrite fold_fields_app.
  rewrite (fold_fields_map_append bt_step (fun m => (1, FB (msg_encode m))) wf_msg bt_requests bt_put_requests);
    [|intros [] a Ha; cbn [bt_step]; rewrite msg_roundtrip_proved by exact Ha; reflexivity
     |intros [] x; reflexivity|intros [] x y; reflexivity|exact A].
  destruct b as [r d s v]. cbn [bt_requests bt_deployment bt_source bt_binver] in *.
  destruct r as [|r0 r];
    cbn [fold_fields bt_step bt_put_requests bt_zero app bt_requests bt_deployment bt_source bt_binver];
    rewrite dec_u32_small by exact D; reflexivity.
Qed.

Lemma bt_size_exact_proved b : nlen (bt_encode b) = bt_size b.
Proof.
  unfold bt_encode, bt_to_fields, bt_size. size_simpl.
  rewrite (nlen_enc_map _ (fun m => szb (msg_size m))).
  2:{ intros m. rewrite size_fb1 by lia. rewrite msg_size_exact_proved. reflexivity. }
  lia.
Qed.

Lemma bt_size_le_upper_proved b : wf_bt b -> bt_size b <= bt_size_upper b.
Proof.
  intros (A & B & C & D). unfold bt_size, bt_size_upper.
  pose proof (szv_le (bt_deployment b)). pose proof (szb_le (nlen (bt_source b))).
  assert (V : szv (bt_binver b) <= 11) by apply szv_le.
  assert (P : sum_map (fun m => szb (msg_size m)) (bt_requests b) <=
              sum_map (fun m => bt_upper_per_msg + msg_size_upper m) (bt_requests b)).
  { induction A as [|m ms Hm _ IH]; [cbn; lia|].
    cbn [sum_map fold_right].
    fold (sum_map (fun m => szb (msg_size m)) ms).
    fold (sum_map (fun m => bt_upper_per_msg + msg_size_upper m) ms).
    pose proof (msg_size_le_upper_proved m Hm). pose proof (szb_le (msg_size m)).
    change bt_upper_per_msg with 16 in *. lia. }
  change bt_upper_base with 48. lia.
Qed.

(* ---------- ConfigChange ---------- *)
Lemma cc_fields_wf c : wf_cc c -> Forall wf_field (cc_to_fields c).
Proof. intros (A & B & C & D). unfold cc_to_fields. apply lt63_lt64 in D. fields_wf. Qed.

Lemma cc_roundtrip_proved c : wf_cc c -> cc_decode (cc_encode c) = Some c.
Proof.
  intros H. pose proof H as (A & B & C & D).
  unfold cc_decode, cc_encode. rewrite decode_with_enc by (apply cc_fields_wf; exact H).
  destruct c as [a b c0 d e]. cbn [cc_to_fields fold_fields cc_step cc_zero cc_id cc_type cc_replica cc_address cc_init] in *.
  rewrite dec_enc_i32 by exact B. rewrite dec_enc_bool. reflexivity.
Qed.

Lemma cc_size_exact_proved c : nlen (cc_encode c) = cc_size c.
Proof. unfold cc_encode, cc_to_fields, cc_size. size_simpl. unfold szv. rewrite sov_enc_bool. lia. Qed.

(* ---------- RaftDataStatus ---------- *)
Lemma rds_fields_wf s : wf_rds s -> Forall wf_field (rds_to_fields s).
Proof.
  intros (A & B & C & D & E & F & G & H & I & J). unfold rds_to_fields.
  apply lt63_lt64 in A, D, E. apply lt32_lt64 in B. fields_wf.
Qed.

Lemma rds_roundtrip_proved s : wf_rds s -> rds_decode (rds_encode s) = Some s.
Proof.
  intros H. pose proof H as (A & B & C & D & E & F & G & H1 & I & J).
  unfold rds_decode, rds_encode. rewrite decode_with_enc by (apply rds_fields_wf; exact H).
  destruct s as [a b c d e f g h i j k].
  cbn [rds_to_fields fold_fields rds_step rds_zero rds_address rds_binver rds_hardhash rds_logdbtype
       rds_hostname rds_deployment rds_stepworkers rds_logdbshards rds_maxsessions rds_entrybatch
       rds_addr_by_nhid] in *.
  rewrite dec_u32_small by exact B. rewrite dec_enc_bool. reflexivity.
Qed.

Lemma rds_size_exact_proved s : nlen (rds_encode s) = rds_size s.
Proof. unfold rds_encode, rds_to_fields, rds_size. size_simpl. unfold szv. rewrite sov_enc_bool. lia. Qed.

(* ---------- SnapshotHeader ---------- *)
Lemma sh_fields_wf s : wf_sh s -> Forall wf_field (sh_to_fields s).
Proof.
  intros (A & B & C & D & E & F & G & H & I). unfold sh_to_fields. guards.
  rewrite !Forall_app. repeat split.
  - apply lt63_lt64 in D. fields_wf.
  - apply opt_field_wf; [apply wf_num_lit; reflexivity|apply lt63_lt64; exact E].
  - apply opt_field_wf; [apply wf_num_lit; reflexivity|apply lt63_lt64; exact F].
  - fields_wf.
Qed.

Lemma sh_roundtrip_proved s : wf_sh s -> sh_decode (sh_encode s) = Some s.
Proof.
  intros H. pose proof H as (A & B & C & D & E & F & G & H1 & I).
  unfold sh_decode, sh_encode. rewrite decode_with_enc by (apply sh_fields_wf; exact H).
  unfold sh_to_fields. guards.
  destruct s as [a b c d e f g h i].
  cbn [sh_session_size sh_datastore_size sh_unreliable_time sh_git_version sh_header_checksum
       sh_payload_checksum sh_checksum_type sh_version sh_compression_type] in *.
  destruct e as [e|]; destruct f as [f|];
    cbn [opt_field app fold_fields sh_step sh_zero]; rewrite !dec_enc_i32 by assumption; reflexivity.
Qed.

Lemma sh_size_exact_proved s : nlen (sh_encode s) = sh_size s.
Proof. unfold sh_encode, sh_to_fields, sh_size. guards. size_simpl. lia. Qed.

(* ---------- Bootstrap ---------- *)
Lemma bs_fields_wf b : wf_bs b -> Forall wf_field (bs_to_fields b).
Proof.
  intros (A & B). unfold bs_to_fields. rewrite Forall_app. split.
  - apply smap_fields_wf; [apply wf_num_lit; reflexivity|exact A].
  - fields_wf.
Qed.

Lemma bs_roundtrip_proved b : wf_bs b -> bs_decode (bs_encode b) = Some b.
Proof.
  intros H. pose proof H as (A & B).
  unfold bs_decode, bs_encode. rewrite decode_with_enc by (apply bs_fields_wf; exact H).
  unfold bs_to_fields. rewrite fold_fields_app.
  rewrite (fold_smap bs_step 1 bs_addresses (fun t x => mkBS x (bs_join t) (bs_type t)));
    [|intros [] y; reflexivity|intros [] x; reflexivity|intros [] x y; reflexivity|exact A].
  destruct b as [a j t]. cbn [bs_addresses bs_join bs_type] in *.
  destruct a as [|kv a]; cbn [fold_fields bs_step bs_zero app bs_addresses bs_join bs_type];
    rewrite dec_enc_bool, dec_enc_i32 by exact B; reflexivity.
Qed.

Lemma bs_size_exact_proved b : nlen (bs_encode b) = bs_size b.
Proof.
  unfold bs_encode, bs_to_fields, bs_size. size_simpl. rewrite smap_fields_nlen by lia.
  unfold szv. rewrite sov_enc_bool. lia.
Qed.

(* ---------- Chunk ---------- *)
Lemma ck_fields_wf c : wf_ck c -> Forall wf_field (ck_to_fields c).
Proof.
  intros (A1 & A2 & A3 & A4 & A5 & A6 & A7 & A8 & A9 & A10 & A11 & A12 & A13 & A14 & A15 & A16 & A17 & A18 & A19).
  unfold ck_to_fields. guards. rewrite !Forall_app. repeat split.
  - fields_wf.
  - apply opt_field_wf; [apply wf_num_lit; reflexivity|apply lt63_lt64; exact A7].
  - apply lt63_lt64 in A11. apply lt32_lt64 in A17.
    rewrite <- mb_size_exact_proved in A19. apply lt63_lt64 in A19.
    pose proof (sf_size_lt _ A16) as S.
    fields_wf.
Qed.

Lemma ck_roundtrip_proved c : wf_ck c -> ck_decode (ck_encode c) = Some c.
Proof.
  intros H.
  pose proof H as (A1 & A2 & A3 & A4 & A5 & A6 & A7 & A8 & A9 & A10 & A11 & A12 & A13 & A14 & A15 & A16 & A17 & A18 & A19).
  unfold ck_decode, ck_encode. rewrite decode_with_enc by (apply ck_fields_wf; exact H).
  unfold ck_to_fields. guards.
  destruct c as [a b c0 d e g h i j k l m n o p q r t u v].
  cbn [ck_shard ck_replica ck_from ck_id ck_size ck_count ck_data ck_index ck_term ck_membership
       ck_filepath ck_filesize ck_deployment ck_filechunkid ck_filechunkcount ck_hasfileinfo
       ck_fileinfo ck_binver ck_ondisk ck_witness] in *.
  destruct h as [h|];
    cbn [opt_field app fold_fields ck_step ck_zero];
    fold (mb_decode (mb_encode k)); rewrite mb_roundtrip_proved by exact A10;
    cbn [fold_fields ck_step];
    fold (sf_decode (sf_encode r)); rewrite sf_roundtrip_proved by exact A16;
    cbn [fold_fields ck_step];
    rewrite !dec_enc_bool, dec_u32_small by exact A17; reflexivity.
Qed.

Lemma ck_size_exact_proved c : nlen (ck_encode c) = ck_size_of c.
Proof.
  unfold ck_encode, ck_to_fields, ck_size_of. guards. size_simpl.
  rewrite mb_size_exact_proved, sf_size_exact_proved. unfold szv, szv2. rewrite !sov_enc_bool. lia.
Qed.
