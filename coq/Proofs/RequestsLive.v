(* Liveness-as-safety for Model/Requests.v (property C12): an accepted request
   without a terminal result is still referenced; gc / close empty what is referenced. *)
From Coq Require Import NArith List Bool Lia Permutation.
From DB Require Import Gen.GenC12 Model.Requests Proofs.Requests Proofs.RequestsInv.
Import ListNotations.
Open Scope N_scope.

Definition rids (s : st) : list N := map sr (live s).

(* accepted (status 1) without a result: referenced.  In flight (status 0: propose between its
   two critical sections): referenced, or the proposal queue is closed (the second half of
   propose will then refuse it) *)
Definition tracked (s : st) : Prop := forall r, r < h_nreq (H s) -> nterm (got s r) = 0%nat ->
  (r_status (h_reqs (H s) r) = 1 -> In r (rids s)) /\
  (r_status (h_reqs (H s) r) = 0 -> In r (rids s) \/ q_stop (P s) = true).

Record TI (s : st) : Prop := mkTI { ti_tr : tracked s; ti_qs : stop_closed s; ti_if : inflight_keys s }.

Lemma init_TI : forall ps nc a b, TI (init ps nc a b).
Proof.
  intros. constructor.
  - intros r Hr. cbn in Hr. lia.
  - intros k Hk. cbn in Hk. discriminate.
  - intros i kv Hi. cbn in Hi. lia.
Qed.

Lemma N_below_in : forall n r, In r (N_below n) <-> r < n.
Proof.
  intros n r. unfold N_below. rewrite in_map_iff. split.
  - intros (k & <- & Hk). apply in_seq in Hk. lia.
  - intros Hr. exists (N.to_nat r). split; [apply N2Nat.id|]. apply in_seq. lia.
Qed.
Lemma key_in_flight_false : forall h key, key_in_flight h key = false ->
  forall i, i < h_nreq h -> r_status (h_reqs h i) = 0 -> r_key (h_reqs h i) <> key.
Proof.
  intros h key Hk i Hi Hs Heq. unfold key_in_flight in Hk.
  assert (existsb (fun r => (r_status (h_reqs h r) =? 0) && (r_key (h_reqs h r) =? key)) (N_below (h_nreq h)) = true) as Ht.
  { apply existsb_exists. exists i. split; [apply N_below_in; exact Hi|]. rewrite Hs, Heq, !N.eqb_refl. reflexivity. }
  congruence.
Qed.


(* ---- tracked is preserved by any step whose effect is EF ---- *)
Lemma TI_from_EF : forall s s', TI s -> EF s s' ->
  (q_stop (P s) = true -> q_stop (P s') = true) -> stop_closed s' -> inflight_keys s' -> TI s'.
Proof.
  intros s s' Ti (E0 & E1 & E2 & E3 & E4) Hq Hsc Hif. constructor; [|exact Hsc|exact Hif].
  intros r Hr Hn. destruct (N.lt_ge_cases r (h_nreq (H s))) as [Hlt|Hge]; [|apply E4; assumption].
  specialize (E2 r Hlt Hn). destruct (E3 r Hlt) as [_ Hst]. destruct (ti_tr s Ti r Hlt E2) as [T1 T0].
  assert (Hkeep : In r (rids s) -> r_status (h_reqs (H s') r) <> 2 -> In r (rids s')).
  { intros Hi Hn2. unfold rids in *. apply in_map_iff in Hi. destruct Hi as (sl & <- & Hsl).
    destruct (E1 sl Hsl) as [X|[X|X]]; [apply in_map; exact X | contradiction | contradiction]. }
  split; intros Hs.
  - apply Hkeep; [|rewrite Hs; discriminate]. destruct Hst as [X|(X0 & [X|[X1 X2]])].
    + apply T1. rewrite <- X. exact Hs.
    + rewrite Hs in X. discriminate.
    + destruct (T0 X0) as [Y|Y]; [exact Y | rewrite Y in X2; discriminate].
  - assert (Hs0 : r_status (h_reqs (H s) r) = 0).
    { destruct Hst as [X|(X0 & _)]; [rewrite <- X; exact Hs | exact X0]. }
    destruct (T0 Hs0) as [Y|Y]; [left; apply Hkeep; [exact Y | rewrite Hs; discriminate] | right; apply Hq; exact Y].
Qed.

(* ---- table-level facts of a step, by computation ---- *)
Ltac crush :=
  repeat match goal with
  | |- context[let '(_, _) := ?x in _] => destruct x eqn:?
  | |- context[match ?x with _ => _ end] => destruct x eqn:?
  end.
(* innermost first *)
Ltac crushi :=
  repeat match goal with
  | |- context[match ?x with _ => _ end] =>
      lazymatch x with
      | context[match _ with _ => _ end] => fail
      | _ => destruct x eqn:?
      end
  end.
Lemma incl_filter : forall A (p : A -> bool) l, incl (filter p l) l.
Proof. intros A p l x Hx. apply filter_In in Hx. apply Hx. Qed.

Lemma step0_tables : forall s o, (forall cid sid key to pick, o <> ProposeA cid sid key to pick) ->
  incl (pend (P (step0 s o))) (pend (P s)) /\
  (q_stop (P s) = true -> q_stop (P (step0 s o)) = true) /\
  (forall k, p_stop (P (step0 s o)) k = true -> p_stop (P s) k = true \/ q_stop (P (step0 s o)) = true).
Proof.
  intros s o Hno. destruct o; try (exfalso; eapply Hno; reflexivity); cbn [step0];
    unfold gc_at, reads_applied, x_request, x_gc, x_close, reads_gc; crush; cbn;
    repeat split; auto using incl_refl, incl_filter; unfold remove_key; auto using incl_filter.
Qed.
Lemma step0_tables_A : forall s cid sid key to pick, let s' := step0 s (ProposeA cid sid key to pick) in
  (q_stop (P s) = true -> q_stop (P s') = true) /\ (forall k, p_stop (P s') k = true -> p_stop (P s) k = true).
Proof. intros. subst s'. cbn [step0]. crush; cbn; auto. Qed.

(* the number of request records: only the five request operations add one *)
Lemma nreq_notifyf : forall sc f h x, h_nreq (notifyf sc f h x) = h_nreq h.
Proof. intros. unfold notifyf. destruct (negb _); [reflexivity|]. destruct (o_comp _); reflexivity. Qed.
Lemma nreq_fold_notifyf : forall sc f l h, h_nreq (fold_left (notifyf sc f) l h) = h_nreq h.
Proof. intros sc f l. induction l as [|x l IH]; intros h; [reflexivity|]. cbn. rewrite IH. apply nreq_notifyf. Qed.
Lemma nreq_fold_batches : forall B (F : B -> obj -> src) (G : B -> obj -> res) (K : B -> list slot) l h,
  h_nreq (fold_left (fun h b => notifyf_all (F b) (G b) h (K b)) l h) = h_nreq h.
Proof.
  intros B F G K l. induction l as [|b l IH]; intros h; [reflexivity|]. cbn. rewrite IH. unfold notifyf_all. apply nreq_fold_notifyf.
Qed.
Lemma nreq_notify_commit : forall h x, h_nreq (notify_commit h x) = h_nreq h.
Proof.
  intros. unfold notify_commit. destruct (negb (h_err h =? 0)); [reflexivity|].
  destruct (negb (o_nc _)); [reflexivity|]. destruct (negb (o_hascomm _)); [reflexivity|].
  destruct (o_comm _); [|reflexivity]. destruct (has_committed _); reflexivity.
Qed.

Definition allocating (o : op) : bool :=
  match o with ProposeA _ _ _ _ _ | Read _ _ | ReqCC _ _ | ReqSS _ _ | ReqLQ => true | _ => false end.

Lemma nreq_notifyf_all : forall sc f l h, h_nreq (notifyf_all sc f h l) = h_nreq h.
Proof. intros. unfold notifyf_all. apply nreq_fold_notifyf. Qed.
Lemma nreq_x_gc : forall h x, h_nreq (fst (x_gc h x)) = h_nreq h.
Proof.
  intros. unfold x_gc. destruct (x_pend x); [|reflexivity]. destruct (_ <? gc_tick); [reflexivity|].
  destruct (_ <? _); [cbn; apply nreq_notifyf | reflexivity].
Qed.
Lemma nreq_x_close : forall h x, h_nreq (fst (x_close h x)) = h_nreq h.
Proof. intros. unfold x_close. destruct (x_pend x); [cbn; apply nreq_notifyf | reflexivity]. Qed.
Lemma nreq_reads_applied : forall s a, h_nreq (H (reads_applied s a)) = h_nreq (H s).
Proof.
  intros. unfold reads_applied. destruct (_ || _); [reflexivity|].
  destruct (_ <? gc_tick); cbn [H setHR]; [apply nreq_fold_batches|].
  unfold reads_gc. cbn [H setHR]. rewrite nreq_notifyf_all. apply nreq_fold_batches.
Qed.

Lemma step0_nreq : forall s o, allocating o = false -> h_nreq (H (step0 s o)) = h_nreq (H s).
Proof.
  intros s o Ha. destruct o; try discriminate Ha; cbn [step0];
    try (apply nreq_reads_applied);
    try (match goal with |- context[x_gc ?h ?x] => pose proof (nreq_x_gc h x) as Hx; destruct (x_gc h x); exact Hx end);
    try (match goal with |- context[x_close ?h ?x] => pose proof (nreq_x_close h x) as Hx; destruct (x_open _); [|reflexivity]; destruct (x_close h x); exact Hx end);
    try (match goal with |- context[x_close ?h ?x] => pose proof (nreq_x_close h x) as Hx; destruct (x_close h x); exact Hx end);
    unfold gc_at, notify_all, notify; crush;
    cbn [H setH setHP setHR setHC setHS setHL h_nreq set_err set_clock set_pool set_broken updR updO set_reqs set_objs];
    rewrite ?nreq_notifyf_all, ?nreq_fold_notifyf, ?nreq_notifyf, ?nreq_notify_commit, ?nreq_fold_notifyf; try reflexivity.
Qed.

Lemma get_obj_nreq : forall pick ncf rid key cid sid dl h, h_nreq (fst (get_obj pick ncf rid key cid sid dl h)) = h_nreq h.
Proof. intros. unfold get_obj. destruct (nth_error _ _); reflexivity. Qed.

Lemma EF_status0 : forall s s' r, EF s s' -> r < h_nreq (H s) -> r_status (h_reqs (H s') r) = 0 ->
  r_status (h_reqs (H s) r) = 0 /\ r_key (h_reqs (H s') r) = r_key (h_reqs (H s) r).
Proof.
  intros s s' r (_ & _ & _ & E3 & _) Hr Hs. destruct (E3 r Hr) as [K [X|(X0 & [X|[X _]])]].
  - split; [rewrite <- X; exact Hs | exact K].
  - rewrite Hs in X. discriminate.
  - rewrite Hs in X. discriminate.
Qed.

Lemma inflight_keep : forall s s', inflight_keys s -> EF s s' -> incl (pend (P s')) (pend (P s)) ->
  (forall r, h_nreq (H s) <= r -> r < h_nreq (H s') -> r_status (h_reqs (H s') r) <> 0) -> inflight_keys s'.
Proof.
  intros s s' Hif Ef Hinc Hnew i kv Hi Hs Hkv Hk.
  destruct (N.lt_ge_cases i (h_nreq (H s))) as [Hlt|Hge]; [|exfalso; apply (Hnew i Hge Hi Hs)].
  destruct (EF_status0 s s' i Ef Hlt Hs) as [S0 K]. rewrite K in Hk. apply (Hif i kv Hlt S0 (Hinc kv Hkv) Hk).
Qed.

Lemma step0_inflight : forall s o, LI s -> inflight_keys s -> EF s (step0 s o) ->
  h_broken (H (step0 s o)) = false -> inflight_keys (step0 s o).
Proof.
  intros s o Li Hif Ef Hb.
  destruct (allocating o) eqn:Ea.
  - destruct o; try discriminate Ea.
    + (* ProposeA *)
      cbn [step0] in *. destruct (to =? 0); [exact Hif|].
      destruct (get_obj pick (cnc s) (h_nreq (H s)) key cid sid (add64 (h_clock (H s)) to) (H s)) as [h1 ob] eqn:Eg.
      pose proof (get_obj_nreq pick (cnc s) (h_nreq (H s)) key cid sid (add64 (h_clock (H s)) to) (H s)) as Hn1.
      rewrite Eg in Hn1. cbn [fst] in Hn1.
      destruct (find_key key (pend (P s))) eqn:Ef0; [cbn in Hb; discriminate|].
      destruct (key_in_flight (H s) key) eqn:Ekf; [cbn in Hb; discriminate|].
      intros i kv Hi Hs Hkv Hk. cbn [H P setHP p_set_pend pend] in *.
      assert (Hq : forall r, h_reqs (add_req h1 (mkReq 0 ob key cid sid (add64 (h_clock (H s)) to) (cnc s) 0 false [] [] [])) r
                   = if r =? h_nreq (H s) then mkReq 0 ob key cid sid (add64 (h_clock (H s)) to) (cnc s) 0 false [] [] [] else h_reqs h1 r).
      { intros r. unfold add_req. cbn. rewrite Hn1. reflexivity. }
      assert (Hnq : h_nreq (add_req h1 (mkReq 0 ob key cid sid (add64 (h_clock (H s)) to) (cnc s) 0 false [] [] [])) = h_nreq (H s) + 1)
        by (unfold add_req; cbn; rewrite Hn1; reflexivity).
      rewrite Hnq in Hi. rewrite Hq in Hs, Hk.
      destruct (i =? h_nreq (H s)) eqn:Ei.
      * apply N.eqb_eq in Ei. subst i. cbn in Hk. destruct Hkv as [<-|Hkv]; [reflexivity|].
        unfold remove_key in Hkv. apply filter_In in Hkv. destruct Hkv as [_ Hkv]. rewrite Hk, N.eqb_refl in Hkv. discriminate.
      * apply N.eqb_neq in Ei. assert (Hlt : i < h_nreq (H s)) by lia.
        assert (Hs' : r_status (h_reqs (add_req h1 (mkReq 0 ob key cid sid (add64 (h_clock (H s)) to) (cnc s) 0 false [] [] [])) i) = 0).
        { rewrite Hq. apply N.eqb_neq in Ei. rewrite Ei. exact Hs. }
        destruct (EF_status0 _ _ i Ef Hlt Hs') as [S0 K]. cbn [H setHP] in K. rewrite Hq in K.
        assert (Ei' : i =? h_nreq (H s) = false) by (apply N.eqb_neq; exact Ei). rewrite Ei' in K. rewrite K in Hk.
        destruct Hkv as [<-|Hkv].
        -- cbn in Hk. exfalso. apply (key_in_flight_false _ _ Ekf i Hlt S0). symmetry. exact Hk.
        -- unfold remove_key in Hkv. apply filter_In in Hkv. destruct Hkv as [Hkv _]. apply (Hif i kv Hlt S0 Hkv Hk).
    + (* Read *)
      apply (inflight_keep s _ Hif Ef); [apply step0_tables; discriminate|].
      cbn [step0]. destruct (to =? 0); [intros r A B; lia|].
      destruct (get_obj pick false (h_nreq (H s)) 0 0 0 (add64 (h_clock (H s)) to) (H s)) as [h1 ob] eqn:Eg.
      pose proof (get_obj_nreq pick false (h_nreq (H s)) 0 0 0 (add64 (h_clock (H s)) to) (H s)) as Hn1.
      rewrite Eg in Hn1. cbn [fst] in Hn1.
      destruct (read_outcome s to =? 0); cbn [H setHR setH]; unfold add_req; cbn; rewrite Hn1;
        intros r A B; assert (r = h_nreq (H s)) as -> by lia; rewrite N.eqb_refl; cbn; discriminate.
    + (* ReqCC *)
      apply (inflight_keep s _ Hif Ef); [apply step0_tables; discriminate|].
      cbn [step0]. unfold x_request. destruct (x_outcome (C s) to =? 0); [|cbn; intros r A B; lia].
      unfold new_obj, add_req. cbn. intros r A B; assert (r = h_nreq (H s)) as -> by lia; rewrite N.eqb_refl; cbn; discriminate.
    + (* ReqSS *)
      apply (inflight_keep s _ Hif Ef); [apply step0_tables; discriminate|].
      cbn [step0]. unfold x_request. destruct (x_outcome (S s) to =? 0); [|cbn; intros r A B; lia].
      unfold new_obj, add_req. cbn. intros r A B; assert (r = h_nreq (H s)) as -> by lia; rewrite N.eqb_refl; cbn; discriminate.
    + (* ReqLQ *)
      apply (inflight_keep s _ Hif Ef); [apply step0_tables; discriminate|].
      cbn [step0]. destruct (lq_outcome s =? 0); [|cbn; intros r A B; lia].
      unfold new_obj, add_req. cbn. intros r A B; assert (r = h_nreq (H s)) as -> by lia; rewrite N.eqb_refl; cbn; discriminate.
  - apply (inflight_keep s _ Hif Ef).
    + apply step0_tables. intros; intro X; subst o; discriminate Ea.
    + rewrite (step0_nreq s o Ea). intros r A B. lia.
Qed.

(* ================================================================== *)
(* one step, then runs                                                  *)
Lemma step_tables : forall s o, stop_closed s -> h_broken (H (step s o)) = false ->
  (q_stop (P s) = true -> q_stop (P (step s o)) = true) /\ stop_closed (step s o).
Proof.
  intros s o Hsc. unfold step. destruct (negb (h_err (H s) =? 0)); [intros _; split; auto|].
  destruct (h_err (H (step0 s o)) =? 0); [|intros _; split; auto].
  intros _.
  assert (Hcase : (exists cid sid key to pick, o = ProposeA cid sid key to pick) \/
                  (forall cid sid key to pick, o <> ProposeA cid sid key to pick)).
  { destruct o; try (right; intros; discriminate). left. repeat eexists. }
  destruct Hcase as [(cid & sid & key & to & pick & ->)|Hno].
  - destruct (step0_tables_A s cid sid key to pick) as (Hq & Hp). split; [exact Hq|].
    intros k Hk. apply Hq. apply (Hsc k). apply Hp. exact Hk.
  - destruct (step0_tables s o Hno) as (_ & Hq & Hp). split; [exact Hq|].
    intros k Hk. destruct (Hp k Hk) as [X|X]; [apply Hq; apply (Hsc k X) | exact X].
Qed.

Lemma step_inflight : forall s o, LI s -> inflight_keys s -> EF s (step s o) ->
  h_broken (H (step s o)) = false -> inflight_keys (step s o).
Proof.
  intros s o Li Hif. unfold step. destruct (negb (h_err (H s) =? 0)); [intros; exact Hif|].
  destruct (h_err (H (step0 s o)) =? 0); [apply step0_inflight; assumption|]. intros _ _. exact Hif.
Qed.

Lemma step_inv : forall s o, LI s -> TI s -> h_broken (H (step s o)) = false ->
  LI (step s o) /\ TI (step s o).
Proof.
  intros s o Li Ti Hb. destruct (step_LX s o Li (ti_qs s Ti) (ti_if s Ti) Hb) as [Li' Ef].
  split; [exact Li'|]. destruct (step_tables s o (ti_qs s Ti) Hb) as [Hq Hsc].
  apply (TI_from_EF s _ Ti Ef Hq Hsc). apply step_inflight; [exact Li | apply Ti | exact Ef | exact Hb].
Qed.

Fixpoint env_ok (ops : list op) (s : st) : Prop :=
  h_broken (H s) = false /\ match ops with [] => True | o :: ops' => env_ok ops' (step s o) end.
Lemma env_ok_head : forall ops s, env_ok ops s -> h_broken (H s) = false.
Proof. intros [|o ops] s Hs; apply Hs. Qed.

Lemma run_inv : forall ops s, LI s -> TI s -> env_ok ops s -> LI (run ops s) /\ TI (run ops s).
Proof.
  induction ops as [|o ops IH]; intros s Li Ti He; [split; assumption|]. cbn [run fold_left]. destruct He as [_ He].
  destruct (step_inv s o Li Ti (env_ok_head ops _ He)) as [Li' Ti']. apply IH; assumption.
Qed.

Lemma init_LI : forall ps nc a b, LI (init ps nc a b).
Proof.
  intros. constructor.
  - constructor; cbn.
    + intros r. exact I.
    + intros r e [].
    + intros o Ho. lia.
    + intros o Ho. lia.
    + intros o Ho. lia.
    + intros o [].
    + constructor.
    + intros r Hr. lia.
    + intros o Ho. lia.
  - cbn. constructor.
  - cbn. constructor.
  - cbn. constructor.
  - reflexivity.
Qed.

Lemma reachable_inv : forall ps nc a b ops, env_ok ops (init ps nc a b) ->
  LI (run ops (init ps nc a b)) /\ TI (run ops (init ps nc a b)).
Proof. intros. apply run_inv; [apply init_LI | apply init_TI | assumption]. Qed.
Lemma reachable_LI : forall ps nc a b ops, env_ok ops (init ps nc a b) -> LI (run ops (init ps nc a b)).
Proof. intros. apply reachable_inv. assumption. Qed.

(* ---- the property theorems ---- *)
Lemma at_most_one_terminal_proved : forall ps nc a b ops, env_ok ops (init ps nc a b) ->
  forall r, (nterm (got (run ops (init ps nc a b)) r) <= 1)%nat.
Proof. intros ps nc a b ops He r. apply shape_nterm_le1. apply (hi_shape _ (li_h _ (reachable_LI ps nc a b ops He))). Qed.

Lemma committed_at_most_once_and_first_proved : forall ps nc a b ops, env_ok ops (init ps nc a b) ->
  forall r, (ncomm (got (run ops (init ps nc a b)) r) <= 1)%nat /\
            (forall pre e post, got (run ops (init ps nc a b)) r = pre ++ e :: post -> is_committed e = true -> pre = []).
Proof.
  intros ps nc a b ops He r. pose proof (hi_shape _ (li_h _ (reachable_LI ps nc a b ops He)) r) as Hs. split.
  - apply shape_ncomm_le1. exact Hs.
  - intros pre e post Eg Hc. eapply shape_committed_first; [exact Hs | exact Eg | exact Hc].
Qed.

Lemma no_cross_talk_proved : forall ps nc a b ops, env_ok ops (init ps nc a b) ->
  forall r e, In e (got (run ops (init ps nc a b)) r) -> e_to e = r.
Proof. intros ps nc a b ops He r e. apply (hi_to _ (li_h _ (reachable_LI ps nc a b ops He))). Qed.

(* what a table or queue still references is exactly the requests that have no terminal
   result yet, each once, through the object that request owns *)
Lemma live_requests_have_no_result_proved : forall ps nc a b ops, env_ok ops (init ps nc a b) ->
  let s := run ops (init ps nc a b) in
  NoDup (map sr (live s)) /\
  forall sl, In sl (live s) -> nterm (got s (sr sl)) = 0%nat /\ o_owner (h_objs (H s) (so sl)) = sr sl /\
                               r_rel (h_reqs (H s) (sr sl)) = false.
Proof.
  intros ps nc a b ops He s. pose proof (reachable_LI ps nc a b ops He) as Li. fold s in Li. split; [apply Li|].
  intros sl Hin. destruct (ok_of_live s sl Li Hin) as (_ & _ & C & _ & E & F). auto.
Qed.

(* F3 repaired: read requests the step worker hands to a stopped table are terminated *)
Lemma stopped_add_terminates_taken_proved : forall ps nc a b ops lo hi, env_ok ops (init ps nc a b) ->
  let s := run ops (init ps nc a b) in
  h_err (H s) = 0 -> rd_stop (R s) = true ->
  let s' := step s (AddReads lo hi) in
  h_err (H s') = 0 /\ taken (R s') = [] /\ forall sl, In sl (taken (R s)) -> nterm (got s' (sr sl)) = 1%nat.
Proof.
  intros ps nc a b ops lo hi Henv s He Hst. pose proof (reachable_LI ps nc a b ops Henv) as Li. fold s in Li.
  unfold step. rewrite He. cbn [N.eqb negb step0]. rewrite Hst.
  destruct (taken (R s)) as [|t0 tk] eqn:Et.
  - rewrite He. cbn. rewrite Et. repeat split; auto. intros sl [].
  - cbn [read_add_terminates_when_stopped].
    unfold notify_all, notify. fold (notifyf_all (fun _ => SClose) (fun _ => terminated) (H s) (t0 :: tk)).
    set (s1 := setHR s (notifyf_all (fun _ : obj => SClose) (fun _ : obj => terminated) (H s) (t0 :: tk)) (r_set_tb (R s) [] (batches (R s)))).
    destruct (LX_finish s s1 (map (fun x => (fun _ : obj => SClose, fun _ : obj => terminated, x)) (t0 :: tk)) Li He) as ((Li1 & _) & Hfr & Hone).
    + apply Forall_triples. apply terminal_const. reflexivity.
    + rewrite map_snd_triples. unfold live, live_reads. cbn [s1 R setHR r_set_tb rq taken batches rd_stop P C S lq_pend app].
      rewrite Et, Hst. change (live_pend (setHR s _ _)) with (live_pend s).
      apply (perm_mid _ (live_pend s) _ _ _ (t0 :: tk) []). cbn [app]. rewrite !app_nil_r.
      apply (Permutation_app_comm (rq (R s)) (t0 :: tk)).
    + cbn [s1 H setHR]. apply notifyf_all_nseq.
    + apply Li.
    + apply Li.
    + destruct Hfr as (E1 & _). rewrite E1. cbn [N.eqb]. split; [exact E1|]. split; [reflexivity|].
      intros sl Hin. apply Hone. rewrite map_snd_triples. exact Hin.
Qed.

(* liveness as safety: an accepted request without a terminal result is still referenced by a
   live table, a queue or the step worker's hand *)
Lemma accepted_without_result_is_referenced_proved : forall ps nc a b ops, env_ok ops (init ps nc a b) ->
  let s := run ops (init ps nc a b) in
  forall r, r < h_nreq (H s) -> r_status (h_reqs (H s) r) = 1 -> nterm (got s r) = 0%nat ->
  In r (map sr (live s)).
Proof.
  intros ps nc a b ops He s r Hr Hs Hn. destruct (reachable_inv ps nc a b ops He) as [_ Ti].
  apply (ti_tr _ Ti r Hr Hn). exact Hs.
Qed.

(* ================================================================== *)
(* expiry and close                                                     *)
Lemma step_eq : forall s o, h_err (H s) = 0 -> h_err (H (step0 s o)) = 0 -> step s o = step0 s o.
Proof. intros s o E0 E1. unfold step. rewrite E0. cbn [N.eqb negb]. rewrite E1. reflexivity. Qed.

(* notifying part of what is referenced never panics and gives each exactly one terminal result *)
Lemma notify_live : forall s (l : list ((obj -> src) * (obj -> res) * slot)) rest, LI s -> h_err (H s) = 0 ->
  Forall (fun t => terminal (snd (fst t))) l -> Permutation (live s) (map snd l ++ rest) ->
  h_err (nseq l (H s)) = 0 /\ forall x, In x (map snd l) -> nterm (hgot (nseq l (H s)) (sr x)) = 1%nat.
Proof.
  intros s l rest Li He Hf Hp.
  assert (Hok : Forall (ok_slot (H s)) (map snd l ++ rest)) by (eapply Permutation_Forall; [exact Hp | apply Li]).
  assert (Hnd : NoDup (map sr (map snd l ++ rest))) by (eapply Permutation_NoDup; [apply Permutation_map; exact Hp | apply Li]).
  destruct (finish_seq l rest (H s) (li_h s Li) He Hf Hok Hnd) as (_ & Hfr & _ & Hone & _).
  split; [apply Hfr | exact Hone].
Qed.

Section Reached.
  Variables (ps : N) (nc : bool) (pq rq0 : N) (ops : list op).
  Hypothesis Henv : env_ok ops (init ps nc pq rq0).
  Let s := run ops (init ps nc pq rq0).
  Hypothesis Herr : h_err (H s) = 0.

  Let Li : LI s := reachable_LI ps nc pq rq0 ops Henv.

  (* proposals: the gc of the shard expires every entry whose deadline has passed *)
  Lemma tick_expires_proposal_proved : forall kv, In kv (pend (P s)) ->
    p_stop (P s) (fst kv mod cps s) = false ->
    (sub64 (h_clock (H s)) (p_lastgc (P s) (fst kv mod cps s)) <? gc_tick) = false ->
    o_dl (h_objs (H s) (so (snd kv))) < h_clock (H s) ->
    let s' := step s (GcP (fst kv)) in
    h_err (H s') = 0 /\ nterm (got s' (sr (snd kv))) = 1%nat.
  Proof.
    intros kv Hkv Hst Hgc Hdl s'.
    destruct (gc_at_LI s (fst kv mod cps s) (h_clock (H s)) Li Herr) as (_ & Hfr & Hone).
    assert (E : s' = gc_at s (fst kv mod cps s) (h_clock (H s))).
    { unfold s'. apply step_eq; [exact Herr | apply Hfr]. }
    rewrite E. split; [apply Hfr|]. apply (Hone Hst Hgc kv Hkv eq_refl Hdl).
  Qed.

  (* config change / snapshot: one pending request *)
  Lemma x_gc_expires : forall (x : otab) sl (a b : list slot), x_pend x = Some sl -> live s = a ++ [sl] ++ b ->
    (sub64 (h_clock (H s)) (x_lastgc x) <? gc_tick) = false ->
    o_dl (h_objs (H s) (so sl)) < h_clock (H s) ->
    h_err (fst (x_gc (H s) x)) = 0 /\ nterm (hgot (fst (x_gc (H s) x)) (sr sl)) = 1%nat.
  Proof.
    intros x sl a b Hx Hl Hgc Hdl. unfold x_gc. rewrite Hx, Hgc. apply N.ltb_lt in Hdl. rewrite Hdl. cbn [fst].
    destruct (notify_live s [(fun o => SGc (h_clock (H s)) (o_dl o), fun _ => mkRes cTimeout 0 0, sl)] (a ++ b) Li Herr) as [E1 E2].
    - constructor; [|constructor]. apply terminal_const. reflexivity.
    - rewrite Hl. cbn. apply Permutation_sym. apply Permutation_middle.
    - split; [exact E1|]. apply E2. left. reflexivity.
  Qed.
  Lemma tick_expires_config_change_proved : forall sl, x_pend (C s) = Some sl ->
    (sub64 (h_clock (H s)) (x_lastgc (C s)) <? gc_tick) = false ->
    o_dl (h_objs (H s) (so sl)) < h_clock (H s) ->
    let s' := step s GcC in h_err (H s') = 0 /\ nterm (got s' (sr sl)) = 1%nat.
  Proof.
    intros sl Hx Hgc Hdl s'.
    destruct (x_gc_expires (C s) sl (live_pend s ++ live_reads s) (olist (x_pend (S s)) ++ olist (lq_pend s)) Hx) as [E1 E2]; auto.
    { unfold live. rewrite Hx. cbn [olist]. rewrite <- !app_assoc. reflexivity. }
    assert (E : s' = step0 s GcC).
    { unfold s'. apply step_eq; [exact Herr|]. cbn [step0]. destruct (x_gc (H s) (C s)). exact E1. }
    rewrite E. cbn [step0]. unfold got. destruct (x_gc (H s) (C s)). cbn [fst H setHC] in *. auto.
  Qed.
  Lemma tick_expires_snapshot_proved : forall sl, x_pend (S s) = Some sl ->
    (sub64 (h_clock (H s)) (x_lastgc (S s)) <? gc_tick) = false ->
    o_dl (h_objs (H s) (so sl)) < h_clock (H s) ->
    let s' := step s GcS in h_err (H s') = 0 /\ nterm (got s' (sr sl)) = 1%nat.
  Proof.
    intros sl Hx Hgc Hdl s'.
    destruct (x_gc_expires (S s) sl (live_pend s ++ live_reads s ++ olist (x_pend (C s))) (olist (lq_pend s)) Hx) as [E1 E2]; auto.
    { unfold live. rewrite Hx. cbn [olist]. rewrite <- !app_assoc. reflexivity. }
    assert (E : s' = step0 s GcS).
    { unfold s'. apply step_eq; [exact Herr|]. cbn [step0]. destruct (x_gc (H s) (S s)). exact E1. }
    rewrite E. cbn [step0]. unfold got. destruct (x_gc (H s) (S s)). cbn [fst H setHS] in *. auto.
  Qed.
End Reached.

Lemma nseq_odl : forall l h o, o_dl (h_objs (nseq l h) o) = o_dl (h_objs h o).
Proof.
  induction l as [|[[sc f] x] l IH]; intros h o; [reflexivity|]. cbn [nseq]. rewrite IH.
  destruct (objs_notifyf sc f h x o) as [E|[r E]]; rewrite E; reflexivity.
Qed.

Definition r_ready (a : N) (b : (N * N) * (N * list slot)) : bool := (0 <? fst (snd b)) && (fst (snd b) <=? a).
Definition r_scb (s : st) (a : N) (b : (N * N) * (N * list slot)) (o : obj) : src :=
  SReadApplied a (fst (snd b)) (h_clock (H s)) (o_dl o).
Definition r_fr (s : st) (o : obj) : res :=
  if h_clock (H s) <? o_dl o then mkRes cCompleted 0 0 else mkRes cTimeout 0 0.
Definition RL1 (s : st) (a : N) := flat_map (fun b => map (fun x => (r_scb s a b, r_fr s, x)) (snd (snd b))) (filter (r_ready a) (batches (R s))).
Definition R_bs1 (s : st) (a : N) := filter (fun b => negb (r_ready a b)) (batches (R s)).
Definition r_expired (s : st) (a : N) (x : slot) : bool := o_dl (h_objs (nseq (RL1 s a) (H s)) (so x)) <? h_clock (H s).
Definition RL2 (s : st) (a : N) :=
  map (fun x => (fun o : obj => SGc (h_clock (H s)) (o_dl o), fun _ : obj => mkRes cTimeout 0 0, x)) (filter (r_expired s a) (batch_slots (R_bs1 s a))).

Lemma reads_applied_heap : forall s a, rd_stop (R s) = false -> batches (R s) <> [] ->
  (sub64 (h_clock (H s)) (rd_lastgc (R s)) <? gc_tick) = false ->
  H (reads_applied s a) = nseq (RL1 s a ++ RL2 s a) (H s).
Proof.
  intros s a Est Hne Hgc. unfold reads_applied. rewrite Est. cbn [orb].
  destruct (batches (R s)) as [|b0 bs0] eqn:Eb; [contradiction|]. rewrite <- Eb. clear Eb b0 bs0 Hne.
  rewrite Hgc. unfold reads_gc. cbn [H setHR].
  change (fold_left _ (filter _ (batches (R s))) (H s))
    with (fold_left (fun h b => notifyf_all (r_scb s a b) (r_fr s) h (snd (snd b))) (filter (r_ready a) (batches (R s))) (H s)).
  rewrite fold_batches_nseq. fold (RL1 s a). rewrite nseq_app. unfold RL2. rewrite <- notifyf_all_nseq. reflexivity.
Qed.

Section ReachedReads.
  Variables (ps : N) (nc : bool) (pq rq0 : N) (ops : list op).
  Hypothesis Henv : env_ok ops (init ps nc pq rq0).
  Let s := run ops (init ps nc pq rq0).
  Hypothesis Herr : h_err (H s) = 0.
  Let Li : LI s := reachable_LI ps nc pq rq0 ops Henv.

  (* read index: applied() runs the gc, which expires every request of every batch whose
     deadline has passed (a batch that is confirmed in the same call gets Timeout as well) *)
  Lemma tick_expires_read_proved : forall a sl, rd_stop (R s) = false ->
    (sub64 (h_clock (H s)) (rd_lastgc (R s)) <? gc_tick) = false ->
    In sl (batch_slots (batches (R s))) -> o_dl (h_objs (H s) (so sl)) < h_clock (H s) ->
    let s' := step s (ReadsApplied a) in
    h_err (H s') = 0 /\ nterm (got s' (sr sl)) = 1%nat.
  Proof.
    intros a sl Est Hgc Hin Hdl s'.
    assert (Hne : batches (R s) <> []) by (intros E; rewrite E in Hin; destruct Hin).
    assert (Hfr : terminal (r_fr s)) by (intros o; unfold r_fr; destruct (h_clock (H s) <? o_dl o); reflexivity).
    assert (Hp1 : Permutation (batch_slots (batches (R s))) (map snd (RL1 s a) ++ batch_slots (R_bs1 s a))).
    { unfold RL1. rewrite map_snd_flat_triples. apply (batch_split (r_ready a)). }
    assert (Hgoal : h_err (H (reads_applied s a)) = 0 /\ nterm (got (reads_applied s a) (sr sl)) = 1%nat).
    { unfold got. rewrite (reads_applied_heap s a Est Hne Hgc).
      destruct (notify_live s (RL1 s a ++ RL2 s a)
                  ([] ++ live_pend s ++ (rq (R s) ++ taken (R s) ++ filter (fun x => negb (r_expired s a x)) (batch_slots (R_bs1 s a))) ++
                   olist (x_pend (C s)) ++ olist (x_pend (S s)) ++ olist (lq_pend s)) Li Herr) as [E1 E2].
      - apply Forall_app. split; [apply Forall_flat_triples; exact Hfr | apply Forall_triples; apply terminal_const; reflexivity].
      - unfold RL2. rewrite map_app, map_snd_triples. unfold live, live_reads. rewrite Est.
        apply (perm_mid _ (live_pend s)). apply perm_tail3.
        etransitivity; [exact Hp1|]. rewrite <- app_assoc. apply Permutation_app_head. apply perm_filter_split.
      - split; [exact E1|]. apply E2. unfold RL2. rewrite map_app, map_snd_triples.
        apply (Permutation_in _ Hp1) in Hin. apply in_app_or in Hin. apply in_or_app.
        destruct Hin as [Hin|Hin]; [left; exact Hin | right].
        apply filter_In. split; [exact Hin|]. unfold r_expired. rewrite nseq_odl. apply N.ltb_lt. exact Hdl. }
    destruct Hgoal as [G1 G2].
    assert (E : s' = reads_applied s a) by (unfold s'; apply step_eq; [exact Herr | exact G1]).
    rewrite E. auto.
  Qed.
End ReachedReads.

(* ================================================================== *)
(* closed tables hold nothing                                           *)
Record CI (s : st) : Prop := mkCI {
  ci_rq : rd_stop (R s) = true -> rq (R s) = [] /\ rq_stop (R s) = true;
  ci_c : x_open (C s) = false -> x_pend (C s) = None;
  ci_s : x_open (S s) = false -> x_pend (S s) = None;
  ci_l : lq_stop s = true -> lq_pend s = None;
  ci_cps : cps s <> 0 }.

Lemma read_outcome_open : forall s to, read_outcome s to = 0 -> rq_stop (R s) = false.
Proof.
  intros s to. unfold read_outcome. destruct (to =? 0); [discriminate|].
  destruct (rq_size (R s) <=? _); destruct (rq_stop (R s)); intros X; try discriminate X; reflexivity.
Qed.

Lemma step0_CI : forall s o, CI s -> CI (step0 s o).
Proof.
  intros s o [C1 C2 C3 C4 C5].
  assert (Hfin : forall s', (rd_stop (R s') = true -> rd_stop (R s) = true /\ rq (R s') = rq (R s) /\ rq_stop (R s') = rq_stop (R s)) ->
     C s' = C s -> S s' = S s -> lq_pend s' = lq_pend s -> lq_stop s' = lq_stop s -> cps s' = cps s -> CI s').
  { intros s' A B D E F G. constructor; rewrite ?B, ?D, ?E, ?F, ?G; auto.
    intros X. destruct (A X) as (X1 & X2 & X3). rewrite X2, X3. apply C1. exact X1. }
  destruct o; cbn [step0];
    try (unfold gc_at, reads_applied, reads_gc, x_match, x_gc, x_close; crushi;
         first [ apply Hfin; cbn; auto; try (intros; congruence); fail
               | constructor; cbn; auto;
                 try (intros X; first [apply C2 in X | apply C3 in X | apply C4 in X | destruct (C1 X)]; auto; congruence);
                 try (intros; congruence); fail ]).
  - (* Read *)
    destruct (to =? 0); [constructor; auto|].
    destruct (get_obj pick false (h_nreq (H s)) 0 0 0 (add64 (h_clock (H s)) to) (H s)) as [h1 ob].
    destruct (read_outcome s to =? 0) eqn:Eo; constructor; cbn; auto.
    apply N.eqb_eq in Eo. apply read_outcome_open in Eo. intros Hst. destruct (C1 Hst) as [_ X]. congruence.
  - (* ReqCC *)
    unfold x_request. destruct (x_outcome (C s) to =? 0); [|constructor; cbn; auto].
    unfold new_obj. constructor; cbn; auto. discriminate.
  - (* ReqSS *)
    unfold x_request. destruct (x_outcome (S s) to =? 0); [|constructor; cbn; auto].
    unfold new_obj. constructor; cbn; auto. discriminate.
  - (* ReqLQ *)
    unfold lq_outcome. cbn [logquery_add_refuses_when_stopped andb].
    destruct (lq_stop s) eqn:El; cbn; [constructor; auto|].
    destruct (lq_pend s) eqn:Ep; cbn; [constructor; auto; intros; congruence|].
    unfold new_obj. constructor; cbn; auto; intros; congruence.
Qed.

Lemma step_CI : forall s o, CI s -> CI (step s o).
Proof.
  intros s o Ci. unfold step. destruct (negb _); [exact Ci|].
  destruct (h_err (H (step0 s o)) =? 0); [apply step0_CI; exact Ci|].
  destruct Ci. constructor; cbn; auto.
Qed.
Lemma run_CI : forall ops s, CI s -> CI (run ops s).
Proof. induction ops as [|o ops IH]; intros s Ci; [exact Ci|]. cbn. apply IH. apply step_CI. exact Ci. Qed.
Lemma init_CI : forall ps nc a b, CI (init ps nc a b).
Proof.
  intros. constructor; cbn; try discriminate. destruct (ps =? 0) eqn:E; [discriminate|]. apply N.eqb_neq. exact E.
Qed.

(* node.close() has completed on every table *)
Definition closed (s : st) : Prop :=
  rd_stop (R s) = true /\ (forall k, k < cps s -> p_stop (P s) k = true) /\
  x_open (C s) = false /\ x_open (S s) = false /\ lq_stop s = true.

Lemma filter_none : forall A (p : A -> bool) l, (forall x, In x l -> p x = false) -> filter p l = [].
Proof.
  intros A p l. induction l as [|a l IH]; intros Hp; [reflexivity|]. cbn. rewrite (Hp a (or_introl eq_refl)).
  apply IH. intros x Hx. apply Hp. right. exact Hx.
Qed.

Lemma closed_live : forall s, CI s -> closed s -> live s = taken (R s).
Proof.
  intros s Ci (C1 & C2 & C3 & C4 & C5). unfold live, live_pend, live_reads.
  rewrite (filter_none _ (alive s)).
  - destruct (ci_rq s Ci C1) as [E _]. rewrite E, C1, (ci_c s Ci C3), (ci_s s Ci C4), (ci_l s Ci C5). cbn.
    rewrite !app_nil_r. reflexivity.
  - intros kv _. unfold alive. rewrite C2; [reflexivity|]. apply N.mod_lt. apply Ci.
Qed.

(* (3) + exactly one, after close: in every reachable state in which close() has completed on every
   table and the step worker holds no read requests between get() and add(), every accepted request
   has exactly one terminal result *)
Lemma exactly_one_when_closed_proved : forall ps nc a b ops, env_ok ops (init ps nc a b) ->
  let s := run ops (init ps nc a b) in
  closed s -> taken (R s) = [] ->
  forall r, r < h_nreq (H s) -> r_status (h_reqs (H s) r) = 1 -> nterm (got s r) = 1%nat.
Proof.
  intros ps nc a b ops He s Hc Ht r Hr Hs.
  pose proof (at_most_one_terminal_proved ps nc a b ops He r) as Hle. fold s in Hle.
  destruct (nterm (got s r)) as [|[|n]] eqn:En; [|reflexivity|lia].
  exfalso. pose proof (accepted_without_result_is_referenced_proved ps nc a b ops He r Hr Hs En) as Hin.
  fold s in Hin. rewrite (closed_live s (run_CI ops _ (init_CI ps nc a b)) Hc), Ht in Hin. destruct Hin.
Qed.

(* ---- running node.close() reaches a closed state ---- *)
Definition close_ops (s : st) (lo hi : N) : list op :=
  CloseR :: map CloseP (N_below (cps s)) ++ [CloseC; CloseS; CloseL; AddReads lo hi].
Definition closing (o : op) : bool :=
  match o with CloseR | CloseP _ | CloseC | CloseS | CloseL | AddReads _ _ => true | _ => false end.
Definition flags_mono (s s' : st) : Prop :=
  cps s' = cps s /\ (rd_stop (R s) = true -> rd_stop (R s') = true) /\
  (forall k, p_stop (P s) k = true -> p_stop (P s') k = true) /\
  (x_open (C s) = false -> x_open (C s') = false) /\ (x_open (S s) = false -> x_open (S s') = false) /\
  (lq_stop s = true -> lq_stop s' = true).
Lemma flags_mono_refl : forall s, flags_mono s s.
Proof. intros. unfold flags_mono. repeat split; auto. Qed.
Lemma flags_mono_trans : forall a b c, flags_mono a b -> flags_mono b c -> flags_mono a c.
Proof.
  intros a b c (A1 & A2 & A3 & A4 & A5 & A6) (B1 & B2 & B3 & B4 & B5 & B6). unfold flags_mono.
  repeat split; auto; congruence.
Qed.
Lemma step0_flags : forall s o, closing o = true -> flags_mono s (step0 s o).
Proof.
  intros s o Hc. destruct o; try discriminate Hc; cbn [step0]; unfold x_close; crushi; unfold flags_mono; cbn;
    repeat split; auto; try congruence;
    intros k1 Hk1; unfold fupd; destruct (k1 =? _); auto.
Qed.
Lemma step_ok_inv : forall s o, h_err (H (step s o)) = 0 -> h_err (H s) = 0 /\ step s o = step0 s o.
Proof.
  intros s o. unfold step. destruct (h_err (H s) =? 0) eqn:E0; cbn [negb].
  - apply N.eqb_eq in E0. destruct (h_err (H (step0 s o)) =? 0) eqn:E1; [auto|].
    cbn. intros X. apply N.eqb_neq in E1. contradiction.
  - intros X. apply N.eqb_neq in E0. contradiction.
Qed.
Lemma run_app : forall a b s, run (a ++ b) s = run b (run a s).
Proof. intros. unfold run. apply fold_left_app. Qed.
Lemma run_err0 : forall l s, h_err (H (run l s)) = 0 -> h_err (H s) = 0.
Proof.
  induction l as [|o l IH]; intros s He; [exact He|]. cbn in He. apply IH in He. apply step_ok_inv in He. apply He.
Qed.
Lemma run_closing_mono : forall l s, Forall (fun o => closing o = true) l -> h_err (H (run l s)) = 0 -> flags_mono s (run l s).
Proof.
  induction l as [|o l IH]; intros s Hf He; [apply flags_mono_refl|]. inversion Hf; subst. cbn in *.
  pose proof (run_err0 l _ He) as He1. destruct (step_ok_inv s o He1) as [_ E].
  eapply flags_mono_trans; [|apply IH; assumption]. rewrite E. apply step0_flags. assumption.
Qed.

Lemma run_closeP_all : forall l s, h_err (H (run (map CloseP l) s)) = 0 ->
  forall k, In k l -> k < cps s -> p_stop (P (run (map CloseP l) s)) k = true.
Proof.
  induction l as [|k0 l IH]; intros s He k Hin Hk; [destruct Hin|]. cbn [map run fold_left] in *.
  pose proof (run_err0 _ _ He) as He1. destruct (step_ok_inv s (CloseP k0) He1) as [_ E].
  assert (Hm : flags_mono (step s (CloseP k0)) (run (map CloseP l) (step s (CloseP k0)))).
  { apply run_closing_mono; [|exact He]. apply Forall_forall. intros o Ho. apply in_map_iff in Ho. destruct Ho as (x & <- & _). reflexivity. }
  destruct Hin as [<-|Hin].
  - apply Hm. rewrite E. cbn. unfold fupd. rewrite (N.mod_small _ _ Hk), N.eqb_refl. reflexivity.
  - apply IH; [exact He | exact Hin|]. rewrite E. cbn. exact Hk.
Qed.

Lemma close_reaches_closed_proved : forall s lo hi, let s2 := run (close_ops s lo hi) s in
  h_err (H s2) = 0 -> closed s2 /\ taken (R s2) = [].
Proof.
  intros s lo hi s2 He. unfold s2, close_ops in *.
  change (CloseR :: map CloseP (N_below (cps s)) ++ [CloseC; CloseS; CloseL; AddReads lo hi])
    with ([CloseR] ++ map CloseP (N_below (cps s)) ++ [CloseC] ++ [CloseS] ++ [CloseL] ++ [AddReads lo hi]) in *.
  rewrite !run_app in *.
  set (s_r := run [CloseR] s) in *. set (s_p := run (map CloseP (N_below (cps s))) s_r) in *.
  set (s_c := run [CloseC] s_p) in *. set (s_s := run [CloseS] s_c) in *. set (s_l := run [CloseL] s_s) in *.
  set (s_a := run [AddReads lo hi] s_l) in *.
  assert (El := run_err0 [AddReads lo hi] s_l He). assert (Es := run_err0 [CloseL] s_s El).
  assert (Ec := run_err0 [CloseS] s_c Es). assert (Ep := run_err0 [CloseC] s_p Ec).
  assert (Er := run_err0 _ s_r Ep).
  assert (Mr : flags_mono s s_r) by (apply run_closing_mono; [repeat constructor | exact Er]).
  assert (Mp : flags_mono s_r s_p).
  { apply run_closing_mono; [|exact Ep]. apply Forall_forall. intros o Ho. apply in_map_iff in Ho. destruct Ho as (x & <- & _). reflexivity. }
  assert (Mc : flags_mono s_p s_c) by (apply run_closing_mono; [repeat constructor | exact Ec]).
  assert (Ms : flags_mono s_c s_s) by (apply run_closing_mono; [repeat constructor | exact Es]).
  assert (Ml : flags_mono s_s s_l) by (apply run_closing_mono; [repeat constructor | exact El]).
  assert (Ma : flags_mono s_l s_a) by (apply run_closing_mono; [repeat constructor | exact He]).
  assert (Fr : rd_stop (R s_r) = true).
  { unfold s_r. cbn [run fold_left]. destruct (step_ok_inv s CloseR Er) as [_ E]. rewrite E. reflexivity. }
  assert (Fp : forall k, k < cps s -> p_stop (P s_p) k = true).
  { intros k Hk. apply (run_closeP_all (N_below (cps s)) s_r Ep k); [apply N_below_in; exact Hk|].
    destruct Mr as [X _]. rewrite X. exact Hk. }
  assert (Fc : x_open (C s_c) = false).
  { unfold s_c. cbn [run fold_left]. destruct (step_ok_inv s_p CloseC Ec) as [_ E]. rewrite E. cbn [step0].
    destruct (x_open (C s_p)) eqn:Eo; [|exact Eo]. unfold x_close. destruct (x_pend (C s_p)); reflexivity. }
  assert (Fs : x_open (S s_s) = false).
  { unfold s_s. cbn [run fold_left]. destruct (step_ok_inv s_c CloseS Es) as [_ E]. rewrite E. cbn [step0].
    unfold x_close. destruct (x_pend (S s_c)); reflexivity. }
  assert (Fl : lq_stop s_l = true).
  { unfold s_l. cbn [run fold_left]. destruct (step_ok_inv s_s CloseL El) as [_ E]. rewrite E. cbn [step0].
    destruct (lq_pend s_s); reflexivity. }
  assert (Mra : flags_mono s_r s_a) by (repeat (eapply flags_mono_trans; [eassumption|]); apply flags_mono_refl).
  assert (Mpa : flags_mono s_p s_a) by (repeat (eapply flags_mono_trans; [eassumption|]); apply flags_mono_refl).
  assert (Mca : flags_mono s_c s_a) by (repeat (eapply flags_mono_trans; [eassumption|]); apply flags_mono_refl).
  assert (Msa : flags_mono s_s s_a) by (repeat (eapply flags_mono_trans; [eassumption|]); apply flags_mono_refl).
  split.
  - unfold closed. split; [apply Mra; exact Fr|]. split; [|split; [apply Mca; exact Fc | split; [apply Msa; exact Fs | apply Ma; exact Fl]]].
    intros k Hk. apply Mpa. apply Fp.
    assert (X : cps s_a = cps s).
    { destruct Ma as [A _], Ml as [B _], Ms as [C0 _], Mc as [D _], Mp as [E0 _], Mr as [F _]. congruence. }
    rewrite X in Hk. exact Hk.
  - unfold s_a. cbn [run fold_left]. destruct (step_ok_inv s_l (AddReads lo hi) He) as [_ E]. rewrite E. cbn [step0].
    assert (Rl : rd_stop (R s_l) = true).
    { assert (M : flags_mono s_r s_l) by (exact (flags_mono_trans _ _ _ Mp (flags_mono_trans _ _ _ Mc (flags_mono_trans _ _ _ Ms Ml)))). apply M. exact Fr. }
    destruct (taken (R s_l)) eqn:Et; [exact Et|]. rewrite Rl. cbn [read_add_terminates_when_stopped]. reflexivity.
Qed.

(* (3) node.close(), table by table, followed by the add() of a handleReadIndex that was under
   way: if no step panics, everything that was still referenced has been terminated - every accepted
   request has exactly one terminal result *)
Lemma close_terminates_referenced_proved : forall ps nc a b ops lo hi,
  let s := run ops (init ps nc a b) in
  env_ok (ops ++ close_ops s lo hi) (init ps nc a b) ->
  let s2 := run (close_ops s lo hi) s in
  h_err (H s2) = 0 ->
  forall r, r < h_nreq (H s2) -> r_status (h_reqs (H s2) r) = 1 -> nterm (got s2 r) = 1%nat.
Proof.
  intros ps nc a b ops lo hi s Henv s2 He r Hr Hs.
  destruct (close_reaches_closed_proved s lo hi He) as [Hc Ht]. fold s2 in Hc, Ht.
  assert (E : s2 = run (ops ++ close_ops s lo hi) (init ps nc a b)) by (unfold s2, s; rewrite run_app; reflexivity).
  rewrite E in *. apply (exactly_one_when_closed_proved ps nc a b _ Henv Hc Ht r Hr Hs).
Qed.

(* where an accepted request without a result is referenced *)
Lemma referenced_where_proved : forall ps nc a b ops, env_ok ops (init ps nc a b) ->
  let s := run ops (init ps nc a b) in
  forall r, r < h_nreq (H s) -> r_status (h_reqs (H s) r) = 1 -> nterm (got s r) = 0%nat ->
  exists sl, sr sl = r /\
    ((exists key, In (key, sl) (pend (P s)) /\ p_stop (P s) (key mod cps s) = false) \/
     In sl (rq (R s)) \/ In sl (taken (R s)) \/
     (rd_stop (R s) = false /\ In sl (batch_slots (batches (R s)))) \/
     x_pend (C s) = Some sl \/ x_pend (S s) = Some sl \/ lq_pend s = Some sl).
Proof.
  intros ps nc a b ops He s r Hr Hs Hn.
  pose proof (accepted_without_result_is_referenced_proved ps nc a b ops He r Hr Hs Hn) as Hin. fold s in Hin.
  apply in_map_iff in Hin. destruct Hin as (sl & E & Hin). exists sl. split; [exact E|].
  unfold live, live_pend, live_reads in Hin. rewrite !in_app_iff in Hin.
  destruct Hin as [Hin|[[Hin|[Hin|Hin]]|[Hin|[Hin|Hin]]]].
  - left. apply in_map_iff in Hin. destruct Hin as ([key sl'] & E2 & Hin). cbn in E2. subst sl'.
    apply filter_In in Hin. destruct Hin as [Hin Ha]. exists key. split; [exact Hin|].
    unfold alive in Ha. cbn in Ha. apply negb_true_iff in Ha. exact Ha.
  - auto.
  - auto.
  - destruct (rd_stop (R s)); [destruct Hin | right; right; right; left; auto].
  - destruct (x_pend (C s)) as [x|]; [destruct Hin as [<-|[]]; auto 10 | destruct Hin].
  - destruct (x_pend (S s)) as [x|]; [destruct Hin as [<-|[]]; auto 10 | destruct Hin].
  - destruct (lq_pend s) as [x|]; [destruct Hin as [<-|[]]; auto 10 | destruct Hin].
Qed.
