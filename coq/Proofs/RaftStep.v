(* Local (single-replica, single-step) lemmas about the L1 model: how term and vote
   evolve through every function of raft.go. Used by Props/C03.v. *)
From DB Require Import Model.RaftCore Proofs.RaftTable.
From Coq Require Import ZifyN ZifyNat ZifyBool Lia.
Open Scope N_scope.
#[local] Arguments N.add : simpl never.
#[local] Arguments N.sub : simpl never.
#[local] Arguments N.mul : simpl never.
#[local] Arguments N.div : simpl never.
#[local] Arguments N.eqb : simpl never.
#[local] Arguments N.ltb : simpl never.
#[local] Arguments N.leb : simpl never.
#[local] Arguments N.min : simpl never.
#[local] Arguments N.max : simpl never.

(* term and vote unchanged *)
Definition tv_eq (r r' : raft) : Prop := r_term r' = r_term r /\ r_vote r' = r_vote r.
(* term never decreases; within a term a vote once cast is kept *)
Definition tv_le (r r' : raft) : Prop :=
  r_term r <= r_term r' /\ (r_term r' = r_term r -> r_vote r <> 0 -> r_vote r' = r_vote r).

Lemma tv_eq_refl r : tv_eq r r. Proof. split; reflexivity. Qed.
Lemma tv_eq_trans a b c : tv_eq a b -> tv_eq b c -> tv_eq a c.
Proof. unfold tv_eq. intros [? ?] [? ?]. split; congruence. Qed.
Lemma tv_eq_le a b : tv_eq a b -> tv_le a b.
Proof. unfold tv_eq, tv_le. intros [Ht Hv]. split; [lia|]. intros; assumption. Qed.
Lemma tv_le_refl r : tv_le r r. Proof. apply tv_eq_le, tv_eq_refl. Qed.
Lemma tv_le_trans a b c : tv_le a b -> tv_le b c -> tv_le a c.
Proof.
  unfold tv_le. intros [H1 H2] [H3 H4]. split; [lia|].
  intros He Hv. assert (E1 : r_term b = r_term a) by lia. assert (E2 : r_term c = r_term b) by lia.
  rewrite H4; [apply H2; assumption|exact E2|]. rewrite H2; assumption.
Qed.
Lemma tv_eq_le_trans a b c : tv_eq a b -> tv_le b c -> tv_le a c.
Proof. intros H1 H2. eapply tv_le_trans; [apply tv_eq_le; exact H1|exact H2]. Qed.
Lemma tv_le_eq_trans a b c : tv_le a b -> tv_eq b c -> tv_le a c.
Proof. intros H1 H2. eapply tv_le_trans; [exact H1|apply tv_eq_le; exact H2]. Qed.

Lemma fold_tv_eq {A} (f : raft -> A -> raft) l :
  (forall r x, tv_eq r (f r x)) -> forall r, tv_eq r (fold_left f l r).
Proof.
  intros Hf. induction l as [|x l IH]; intros r; simpl; [apply tv_eq_refl|].
  eapply tv_eq_trans; [apply Hf|apply IH].
Qed.
Lemma fold_tv_le {A} (f : raft -> A -> raft) l :
  (forall r x, tv_le r (f r x)) -> forall r, tv_le r (fold_left f l r).
Proof.
  intros Hf. induction l as [|x l IH]; intros r; simpl; [apply tv_le_refl|].
  eapply tv_le_trans; [apply Hf|apply IH].
Qed.

Ltac tveq_simpl := unfold tv_eq; simpl; auto.

Lemma panic_tv r : tv_eq r (panic r). Proof. tveq_simpl. Qed.
Lemma send_tv r m : tv_eq r (send r m).
Proof. unfold send. destruct (finalize_term _ _); tveq_simpl. Qed.
Lemma set_peer_tv r k id p : tv_eq r (set_peer r k id p).
Proof. destruct k; tveq_simpl. Qed.
Lemma set_leader_id_tv r l : tv_eq r (set_leader_id r l). Proof. tveq_simpl. Qed.
Lemma reset_peers_tv r : tv_eq r (reset_peers r). Proof. tveq_simpl. Qed.

#[export] Hint Resolve tv_eq_refl tv_le_refl panic_tv send_tv set_peer_tv set_leader_id_tv reset_peers_tv : tv.
Ltac tvle := solve [apply tv_eq_le; auto with tv | auto with tv].

Lemma send_replicate_tv r to : tv_eq r (send_replicate r to).
Proof.
  unfold send_replicate. destruct (find_peer r to) as [[k rp]|]; [|auto with tv].
  destruct (rm_is_paused rp); [auto with tv|].
  destruct (log_entries_from _ _) as [ents0|].
  - destruct ents0 as [|e0 es]; [apply send_tv|].
    destruct (rm_progress _ _); [|auto with tv].
    eapply tv_eq_trans; [apply set_peer_tv|apply send_tv].
  - destruct (negb (rm_active rp)); [auto with tv|].
    destruct (is_empty_snapshot _); [auto with tv|].
    eapply tv_eq_trans; [apply set_peer_tv|apply send_tv].
Qed.
#[export] Hint Resolve send_replicate_tv : tv.

Lemma broadcast_replicate_tv r : tv_eq r (broadcast_replicate r).
Proof.
  unfold broadcast_replicate. destruct (negb (is_leader r)); [auto with tv|].
  destruct (amem _ _); [auto with tv|].
  apply fold_tv_eq. intros r' x. destruct (x =? r_id r); auto with tv.
Qed.
Lemma send_heartbeat_tv r to c mt : tv_eq r (send_heartbeat r to c mt).
Proof. unfold send_heartbeat. apply send_tv. Qed.
#[export] Hint Resolve broadcast_replicate_tv send_heartbeat_tv : tv.

Lemma broadcast_heartbeat_hint_tv r c : tv_eq r (broadcast_heartbeat_hint r c).
Proof.
  unfold broadcast_heartbeat_hint. cbv zeta.
  assert (H1 : forall l, tv_eq r (fold_left (fun r' id => if id =? r_id r then r' else send_heartbeat r' id c (peer_match r id)) l r)).
  { intros l. apply fold_tv_eq. intros r' x. destruct (x =? r_id r); auto with tv. }
  destruct ((fst c =? 0) && (snd c =? 0)); [|apply H1].
  eapply tv_eq_trans; [apply H1|]. apply fold_tv_eq. intros; auto with tv.
Qed.
#[export] Hint Resolve broadcast_heartbeat_hint_tv : tv.
Lemma broadcast_heartbeat_tv r : tv_eq r (broadcast_heartbeat r).
Proof.
  unfold broadcast_heartbeat. destruct (negb (is_leader r)); [auto with tv|].
  destruct (rev (r_reads r)); [auto with tv|].
  eapply tv_eq_trans; [apply broadcast_heartbeat_hint_tv|].
  apply fold_tv_eq. intros; auto with tv.
Qed.

Lemma try_commit_tv r : tv_eq r (fst (try_commit r)).
Proof.
  unfold try_commit. destruct (negb (is_leader r)); [simpl; auto with tv|].
  destruct (log_try_commit _ _ _); tveq_simpl.
Qed.
#[export] Hint Resolve broadcast_heartbeat_tv try_commit_tv : tv.

Lemma append_entries_tv r ents : tv_eq r (append_entries r ents).
Proof.
  unfold append_entries. destruct (log_append _ _); [|auto with tv].
  match goal with |- context [alookup ?a ?b] => destruct (alookup a b) end.
  - match goal with |- tv_eq r (if ?c then fst (try_commit ?x) else ?y) =>
      assert (H : tv_eq r x) by tveq_simpl; destruct c end.
    + eapply tv_eq_trans; [exact H|apply try_commit_tv].
    + exact H.
  - tveq_simpl.
Qed.
#[export] Hint Resolve append_entries_tv : tv.

(* reset: the only place (with becomeCandidate and the vote grant) where term/vote change *)
Lemma reset_tv r term b : r_term r <= term -> tv_le r (reset r term b).
Proof.
  intros Hle. unfold reset, reset_peers, tv_le.
  destruct (N.eqb_spec (r_term r) term) as [E|E]; destruct b; simpl; (split; [lia|]); intros; try reflexivity; try lia.
Qed.
Lemma reset_same_tv r t b : t = r_term r -> tv_eq r (reset r t b).
Proof. intros ->. unfold reset, reset_peers, tv_eq. rewrite N.eqb_refl. destruct b; simpl; auto. Qed.
Lemma reset_term r term b : r_term (reset r term b) = term.
Proof. unfold reset, reset_peers. destruct (N.eqb_spec (r_term r) term) as [E|E]; destruct b; simpl; auto. Qed.

Lemma to_follower_state_tv r term lid rt : r_term r <= term -> tv_le r (to_follower_state r term lid rt).
Proof.
  intros H. unfold to_follower_state. destruct (is_witness r); [tvle|].
  eapply tv_le_eq_trans; [|apply set_leader_id_tv].
  eapply tv_eq_le_trans; [|apply reset_tv; simpl; exact H]. tveq_simpl.
Qed.
Lemma become_follower_tv r term lid : r_term r <= term -> tv_le r (become_follower r term lid).
Proof. apply to_follower_state_tv. Qed.
Lemma become_follower_ke_tv r term lid : r_term r <= term -> tv_le r (become_follower_ke r term lid).
Proof. apply to_follower_state_tv. Qed.
Lemma become_nonvoting_tv r term lid : r_term r <= term -> tv_le r (become_nonvoting r term lid).
Proof. intros H. unfold become_nonvoting. destruct (negb _); [tvle|].
  eapply tv_le_eq_trans; [apply reset_tv; exact H|apply set_leader_id_tv]. Qed.
Lemma become_witness_tv r term lid : r_term r <= term -> tv_le r (become_witness r term lid).
Proof. intros H. unfold become_witness. destruct (negb _); [tvle|].
  eapply tv_le_eq_trans; [apply reset_tv; exact H|apply set_leader_id_tv]. Qed.

Lemma become_follower_same_tv r lid : tv_eq r (become_follower r (r_term r) lid).
Proof.
  unfold become_follower, to_follower_state. destruct (is_witness r); [auto with tv|].
  eapply tv_eq_trans; [|apply set_leader_id_tv].
  eapply tv_eq_trans; [|apply reset_same_tv; reflexivity]. tveq_simpl.
Qed.
#[export] Hint Resolve become_follower_same_tv : tv.

Lemma become_prevote_candidate_tv r : tv_eq r (become_prevote_candidate r).
Proof.
  unfold become_prevote_candidate. destruct (_ || _); [auto with tv|].
  eapply tv_eq_trans; [|apply set_leader_id_tv].
  eapply tv_eq_trans; [|apply reset_same_tv; reflexivity]. tveq_simpl.
Qed.

Lemma vote_upd_term (X : raft) v : r_term (X <| r_vote := v |>) = r_term X.
Proof. reflexivity. Qed.
Lemma vote_upd_vote (X : raft) v : r_vote (X <| r_vote := v |>) = v.
Proof. reflexivity. Qed.
Lemma become_candidate_tv r : tv_le r (become_candidate r).
Proof.
  unfold become_candidate. destruct (_ || _); [tvle|].
  remember (set_leader_id (reset (r <| r_role := Candidate |>) (r_term r + 1) true) 0) as X eqn:EX.
  assert (E : r_term X = r_term r + 1).
  { subst X. destruct (set_leader_id_tv (reset (r <| r_role := Candidate |>) (r_term r + 1) true) 0) as [Ht _].
    rewrite Ht. apply reset_term. }
  unfold tv_le. rewrite vote_upd_term, vote_upd_vote, E. split; [lia|]. intros; lia.
Qed.

Lemma become_leader_head_tv r : tv_eq r (set_leader_id (reset (r <| r_role := Leader |>) (r_term r) true) (r_id r)).
Proof.
  eapply tv_eq_trans; [|apply set_leader_id_tv].
  eapply tv_eq_trans; [|apply reset_same_tv; reflexivity]. split; reflexivity.
Qed.
Lemma become_leader_cc_tv (r1 : raft) :
  tv_eq r1 (if 1 <? pending_cc_count r1 then panic r1
            else if pending_cc_count r1 =? 1 then r1 <| r_pending_cc := true |> else r1).
Proof.
  destruct (1 <? _); [apply panic_tv|].
  destruct (_ =? 1); [|apply tv_eq_refl]. split; reflexivity.
Qed.
Lemma become_leader_tv r : tv_eq r (become_leader r).
Proof.
  unfold become_leader. destruct (_ && _); [auto with tv|]. cbv zeta.
  eapply tv_eq_trans; [|apply append_entries_tv].
  eapply tv_eq_trans; [apply become_leader_head_tv|apply become_leader_cc_tv].
Qed.
#[export] Hint Resolve become_prevote_candidate_tv become_leader_tv : tv.

Lemma handle_vote_resp_tv r from rej : tv_eq r (fst (handle_vote_resp r from rej)).
Proof. unfold handle_vote_resp. split; reflexivity. Qed.
#[export] Hint Resolve handle_vote_resp_tv : tv.

Lemma campaign_tv r : tv_le r (campaign r).
Proof.
  unfold campaign. cbv zeta.
  assert (H2 : tv_le r (fst (handle_vote_resp (become_candidate r) (r_id (become_candidate r)) false))).
  { eapply tv_le_eq_trans; [apply become_candidate_tv|apply handle_vote_resp_tv]. }
  destruct (is_single_node_quorum _).
  - eapply tv_le_eq_trans; [exact H2|apply become_leader_tv].
  - eapply tv_le_eq_trans; [|apply fold_tv_eq; intros r' k; destruct (k =? r_id r); auto with tv].
    eapply tv_le_eq_trans; [exact H2|split; reflexivity].
Qed.

Lemma prevote_campaign_tv r : tv_le r (prevote_campaign r).
Proof.
  unfold prevote_campaign. cbv zeta.
  assert (H2 : tv_eq r (fst (handle_vote_resp (become_prevote_candidate r) (r_id (become_prevote_candidate r)) false))).
  { eapply tv_eq_trans; [apply become_prevote_candidate_tv|apply handle_vote_resp_tv]. }
  destruct (is_single_node_quorum _).
  - eapply tv_eq_le_trans; [exact H2|apply campaign_tv].
  - apply tv_eq_le. eapply tv_eq_trans; [exact H2|].
    apply fold_tv_eq; intros r' k; destruct (k =? r_id r); auto with tv.
Qed.
#[export] Hint Resolve campaign_tv prevote_campaign_tv : tv.

(* ---- membership ---- *)
Lemma pcc_upd_tv (r : raft) b : tv_eq r (r <| r_pending_cc := b |>).
Proof. split; reflexivity. Qed.
#[export] Hint Resolve pcc_upd_tv : tv.

Lemma add_node_tv r id : tv_eq r (add_node r id).
Proof.
  unfold add_node. cbv zeta.
  destruct (_ && _); [eapply tv_eq_trans; [apply pcc_upd_tv|apply panic_tv]|].
  destruct (amem id (r_remotes _)); [apply pcc_upd_tv|].
  destruct (alookup id (r_nonvotings _)).
  - destruct (id =? _).
    + eapply tv_eq_trans; [|apply become_follower_same_tv]. split; reflexivity.
    + split; reflexivity.
  - destruct (amem id (r_witnesses _)); [eapply tv_eq_trans; [apply pcc_upd_tv|apply panic_tv]|].
    split; reflexivity.
Qed.
Lemma add_nonvoting_tv r id : tv_eq r (add_nonvoting r id).
Proof.
  unfold add_nonvoting. cbv zeta.
  destruct (_ && _); [eapply tv_eq_trans; [apply pcc_upd_tv|apply panic_tv]|].
  destruct (amem _ _); split; reflexivity.
Qed.
Lemma add_witness_tv r id : tv_eq r (add_witness r id).
Proof.
  unfold add_witness. cbv zeta.
  destruct (_ && _); [eapply tv_eq_trans; [apply pcc_upd_tv|apply panic_tv]|].
  destruct (amem _ _); split; reflexivity.
Qed.

Lemma try_commit_then_broadcast_tv (r2 : raft) :
  tv_eq r2 (let '(r3, ok) := try_commit r2 in if ok then broadcast_replicate r3 else r3).
Proof.
  pose proof (try_commit_tv r2) as H. destruct (try_commit r2) as [r3 ok]. simpl in H.
  destruct ok; [eapply tv_eq_trans; [exact H|apply broadcast_replicate_tv]|exact H].
Qed.

Lemma remove_node_tv r id : tv_eq r (remove_node r id).
Proof.
  unfold remove_node. cbv zeta.
  set (r0 := r <| r_remotes := aremove id (r_remotes r) |> <| r_nonvotings := aremove id (r_nonvotings r) |>
               <| r_witnesses := aremove id (r_witnesses r) |> <| r_pending_cc := false |>).
  assert (H0 : tv_eq r r0) by (split; reflexivity). clearbody r0.
  assert (H1 : tv_eq r (if (r_id r0 =? id) && is_leader r0 then become_follower r0 (r_term r0) 0 else r0)).
  { destruct (_ && _); [eapply tv_eq_trans; [exact H0|apply become_follower_same_tv]|exact H0]. }
  set (r1 := if (r_id r0 =? id) && is_leader r0 then become_follower r0 (r_term r0) 0 else r0) in *. clearbody r1.
  assert (H2 : tv_eq r (if leader_transfering r1 && (r_transfer_target r1 =? id) then r1 <| r_transfer_target := 0 |> else r1)).
  { destruct (_ && _); [eapply tv_eq_trans; [exact H1|split; reflexivity]|exact H1]. }
  set (r2 := if leader_transfering r1 && (r_transfer_target r1 =? id) then r1 <| r_transfer_target := 0 |> else r1) in *. clearbody r2.
  destruct (_ && _); [|exact H2].
  eapply tv_eq_trans; [exact H2|apply try_commit_then_broadcast_tv].
Qed.
#[export] Hint Resolve add_node_tv add_nonvoting_tv add_witness_tv remove_node_tv : tv.

(* ---- restore ---- *)
Lemma log_upd_tv (r : raft) l : tv_eq r (r <| r_log := l |>).
Proof. split; reflexivity. Qed.
#[export] Hint Resolve log_upd_tv : tv.

Lemma restore_tv r s : tv_eq r (fst (restore r s)).
Proof.
  unfold restore. cbv zeta.
  destruct (_ <=? _); [apply tv_eq_refl|].
  destruct (_ && _); [apply panic_tv|].
  destruct (_ && _); [apply panic_tv|].
  destruct (match_term _ _ _).
  - destruct (log_commit_to _ _); simpl; auto with tv.
  - simpl. auto with tv.
Qed.

Lemma rr_step_addr_tv r id : tv_eq r (rr_step_addr r id).
Proof.
  unfold rr_step_addr. cbv zeta.
  assert (H1 : tv_eq r (if (id =? r_id r) && is_nonvoting r then become_follower r (r_term r) (r_leader r) else r)).
  { destruct (_ && _); auto with tv. }
  destruct (amem _ _); [eapply tv_eq_trans; [exact H1|apply panic_tv]|].
  eapply tv_eq_trans; [exact H1|split; reflexivity].
Qed.
Lemma rr_step_down_tv r : tv_eq r (rr_step_down r).
Proof. unfold rr_step_down. destruct (_ && _); auto with tv. Qed.
Lemma restore_remotes_tv r s : tv_eq r (restore_remotes r s).
Proof.
  unfold restore_remotes. cbv zeta.
  eapply tv_eq_trans; [|apply fold_tv_eq; intros; split; reflexivity].
  eapply tv_eq_trans; [|split; reflexivity].
  eapply tv_eq_trans; [|apply fold_tv_eq; intros; split; reflexivity].
  eapply tv_eq_trans; [|split; reflexivity].
  eapply tv_eq_trans; [|apply rr_step_down_tv].
  eapply tv_eq_trans; [|apply fold_tv_eq; apply rr_step_addr_tv]. split; reflexivity.
Qed.
#[export] Hint Resolve restore_tv restore_remotes_tv : tv.

(* ---- readindex ---- *)
Lemma reads_upd_tv (r : raft) l : tv_eq r (r <| r_reads := l |>).
Proof. split; reflexivity. Qed.
Lemma ri_add_request_tv r i c f : tv_eq r (ri_add_request r i c f).
Proof.
  unfold ri_add_request. destruct (existsb _ _); [apply tv_eq_refl|].
  destruct (r_reads r); [apply reads_upd_tv|]. destruct (_ <? _); [apply panic_tv|apply reads_upd_tv].
Qed.
Lemma ri_confirm_tv r c f q : tv_eq r (fst (ri_confirm r c f q)).
Proof.
  unfold ri_confirm. destruct (split_at_ctx _ _ _) as [[[before rs] after]|]; [|apply tv_eq_refl].
  cbv zeta. destruct (_ <? q); [simpl; apply reads_upd_tv|].
  destruct (existsb _ _); simpl; [apply panic_tv|apply reads_upd_tv].
Qed.
#[export] Hint Resolve ri_add_request_tv ri_confirm_tv : tv.

(* ---- handlers ---- *)
Lemma report_dropped_proposal_tv r m : tv_eq r (report_dropped_proposal r m).
Proof. split; reflexivity. Qed.
Lemma report_dropped_read_tv r m : tv_eq r (report_dropped_read r m).
Proof. split; reflexivity. Qed.
#[export] Hint Resolve report_dropped_proposal_tv report_dropped_read_tv : tv.
Lemma handle_log_query_tv r m : tv_eq r (handle_log_query r m).
Proof.
  unfold handle_log_query. destruct (r_log_query r); [apply panic_tv|]. cbv zeta.
  repeat match goal with |- context [if ?c then _ else _] => destruct c end;
    try apply panic_tv; split; reflexivity.
Qed.
#[export] Hint Resolve handle_log_query_tv : tv.

Lemma handle_heartbeat_message_tv r m : tv_eq r (handle_heartbeat_message r m).
Proof.
  unfold handle_heartbeat_message. destruct (log_commit_to _ _); [|apply panic_tv].
  eapply tv_eq_trans; [apply log_upd_tv|apply send_tv].
Qed.
Lemma handle_install_snapshot_message_tv r m : tv_eq r (handle_install_snapshot_message r m).
Proof.
  unfold handle_install_snapshot_message.
  pose proof (restore_tv r (m_snapshot m)) as H. destruct (restore r (m_snapshot m)) as [r1 ok]. simpl in H.
  eapply tv_eq_trans; [exact H|apply send_tv].
Qed.
Lemma handle_replicate_message_tv r m : tv_eq r (handle_replicate_message r m).
Proof.
  unfold handle_replicate_message. cbv zeta.
  destruct (_ <? _); [apply send_tv|].
  destruct (match_term _ _ _); [|apply send_tv].
  destruct (log_try_append _ _ _); [|apply panic_tv].
  destruct (log_commit_to _ _); [|apply panic_tv].
  eapply tv_eq_trans; [apply log_upd_tv|apply send_tv].
Qed.
#[export] Hint Resolve handle_heartbeat_message_tv handle_install_snapshot_message_tv handle_replicate_message_tv : tv.

Lemma handle_node_election_tv r m : tv_le r (handle_node_election r m).
Proof.
  unfold handle_node_election. destruct (is_leader r); [apply tv_le_refl|].
  destruct (has_config_change_to_apply r); [apply tv_le_refl|].
  destruct (_ && _); auto with tv.
Qed.
Lemma handle_node_request_prevote_tv r m : tv_eq r (handle_node_request_prevote r m).
Proof.
  unfold handle_node_request_prevote. cbv zeta. destruct (_ <? _); [apply panic_tv|].
  destruct (_ && _); apply send_tv.
Qed.

(* the vote grant: allowed only when no vote was cast in this term, or for the same candidate *)
Lemma handle_node_request_vote_tv r m :
  m_term m <= r_term r -> tv_le r (handle_node_request_vote r m).
Proof.
  intros Hm. unfold handle_node_request_vote. cbv zeta.
  destruct (can_grant_vote r m && up_to_date _ _ _) eqn:E; [|apply tv_eq_le, send_tv].
  apply andb_prop in E. destruct E as [Eg _].
  eapply tv_le_eq_trans; [|apply send_tv].
  unfold tv_le. cbn [r_term r_vote]. change (r_term (r <| r_election_tick := 0 |> <| r_vote := m_from m |>)) with (r_term r).
  change (r_vote (r <| r_election_tick := 0 |> <| r_vote := m_from m |>)) with (m_from m).
  split; [lia|]. intros _ Hv.
  unfold can_grant_vote, gen_canGrantVote in Eg.
  destruct (N.eqb_spec (r_vote r) 0); [contradiction|].
  destruct (N.eqb_spec (r_vote r) (m_from m)); [congruence|].
  destruct (N.ltb_spec (r_term r) (m_term m)); [lia|]. simpl in Eg. discriminate.
Qed.

Lemma handle_node_config_change_tv r m : tv_eq r (handle_node_config_change r m).
Proof.
  unfold handle_node_config_change. destruct (m_reject m); [apply pcc_upd_tv|]. cbv zeta.
  destruct (_ =? cc_AddNode); [apply add_node_tv|].
  destruct (_ =? cc_RemoveNode); [apply remove_node_tv|].
  destruct (_ =? cc_AddNonVoting); [apply add_nonvoting_tv|].
  destruct (_ =? cc_AddWitness); [apply add_witness_tv|apply panic_tv].
Qed.

Lemma handle_leader_check_quorum_tv r : tv_eq r (handle_leader_check_quorum r).
Proof.
  unfold handle_leader_check_quorum. destruct (negb _); [apply panic_tv|]. cbv zeta.
  destruct (_ <? _).
  - eapply tv_eq_trans; [|apply become_follower_same_tv]. split; reflexivity.
  - split; reflexivity.
Qed.

Lemma propose_scan_tv : forall ents r acc, tv_eq r (fst (propose_scan r ents acc)).
Proof.
  induction ents as [|e rest IH]; intros r acc; cbn [propose_scan]; [simpl; apply tv_eq_refl|].
  destruct (_ =? _); [|apply IH].
  destruct (r_pending_cc r); (eapply tv_eq_trans; [|apply IH]); split; reflexivity.
Qed.

Lemma handle_leader_propose_tv r m : tv_eq r (handle_leader_propose r m).
Proof.
  unfold handle_leader_propose. destruct (negb _); [apply panic_tv|].
  destruct (leader_transfering r); [apply report_dropped_proposal_tv|].
  pose proof (propose_scan_tv (m_entries m) r []) as H.
  destruct (propose_scan r (m_entries m) []) as [r1 ents]. simpl in H.
  eapply tv_eq_trans; [exact H|]. eapply tv_eq_trans; [apply append_entries_tv|apply broadcast_replicate_tv].
Qed.

Lemma ready_upd_tv (r : raft) l : tv_eq r (r <| r_ready := l |>).
Proof. split; reflexivity. Qed.

Lemma handle_leader_read_index_tv r m : tv_eq r (handle_leader_read_index r m).
Proof.
  unfold handle_leader_read_index. destruct (negb (is_leader r)); [apply panic_tv|]. cbv zeta.
  destruct (amem _ _); [apply tv_eq_refl|].
  destruct (negb (is_single_node_quorum r)).
  - destruct (_ =? 0); [apply panic_tv|].
    destruct (negb _); [apply report_dropped_read_tv|].
    eapply tv_eq_trans; [apply ri_add_request_tv|apply broadcast_heartbeat_hint_tv].
  - destruct (_ && _); [eapply tv_eq_trans; [apply ready_upd_tv|apply send_tv]|apply ready_upd_tv].
Qed.

Lemma send_timeout_now_tv r to : tv_eq r (send_timeout_now r to).
Proof. unfold send_timeout_now. apply send_tv. Qed.

Lemma handle_leader_replicate_resp_tv r m k rp : tv_eq r (handle_leader_replicate_resp r m k rp).
Proof.
  unfold handle_leader_replicate_resp. destruct (negb (is_leader r)); [apply panic_tv|]. cbv zeta.
  destruct (negb (m_reject m)).
  - destruct (rm_try_update _ _) as [rp1 updated]. destruct updated; [|apply set_peer_tv].
    pose proof (try_commit_tv (set_peer r k (m_from m) (rm_responded_to rp1))) as H.
    destruct (try_commit _) as [r2 ok]. simpl in H.
    assert (H2 : tv_eq r r2) by (eapply tv_eq_trans; [apply set_peer_tv|exact H]).
    assert (H3 : tv_eq r (if ok then broadcast_replicate r2
                          else if rm_is_paused (rp <| rm_active := true |>) then send_replicate r2 (m_from m) else r2)).
    { destruct ok; [eapply tv_eq_trans; [exact H2|apply broadcast_replicate_tv]|].
      destruct (rm_is_paused _); [eapply tv_eq_trans; [exact H2|apply send_replicate_tv]|exact H2]. }
    destruct (_ && _); [eapply tv_eq_trans; [exact H3|apply send_timeout_now_tv]|exact H3].
  - destruct (rm_decrease_to _ _ _) as [rp1 dec]. destruct dec; [|apply set_peer_tv].
    eapply tv_eq_trans; [apply set_peer_tv|apply send_replicate_tv].
Qed.

Lemma handle_read_index_leader_confirmation_tv r m : tv_eq r (handle_read_index_leader_confirmation r m).
Proof.
  unfold handle_read_index_leader_confirmation. cbv zeta.
  pose proof (ri_confirm_tv r (m_hint m, m_hinthigh m) (m_from m) (quorum r)) as H.
  destruct (ri_confirm _ _ _ _) as [r1 ris]. simpl in H.
  eapply tv_eq_trans; [exact H|]. apply fold_tv_eq. intros r' s.
  destruct (_ || _); [apply ready_upd_tv|apply send_tv].
Qed.

Lemma handle_leader_heartbeat_resp_tv r m k rp : tv_eq r (handle_leader_heartbeat_resp r m k rp).
Proof.
  unfold handle_leader_heartbeat_resp. destruct (negb (is_leader r)); [apply panic_tv|]. cbv zeta.
  assert (H2 : tv_eq r (if rm_match (rm_wait_to_retry (rp <| rm_active := true |>)) <?
                           log_last (r_log (set_peer r k (m_from m) (rm_wait_to_retry (rp <| rm_active := true |>))))
                        then send_replicate (set_peer r k (m_from m) (rm_wait_to_retry (rp <| rm_active := true |>))) (m_from m)
                        else set_peer r k (m_from m) (rm_wait_to_retry (rp <| rm_active := true |>)))).
  { destruct (_ <? _); [eapply tv_eq_trans; [apply set_peer_tv|apply send_replicate_tv]|apply set_peer_tv]. }
  destruct (negb (m_hint m =? 0)); [|exact H2].
  eapply tv_eq_trans; [exact H2|apply handle_read_index_leader_confirmation_tv].
Qed.

Lemma handle_leader_transfer_tv r m : tv_eq r (handle_leader_transfer r m).
Proof.
  unfold handle_leader_transfer. destruct (negb (is_leader r)); [apply panic_tv|]. cbv zeta.
  destruct (_ =? 0); [apply panic_tv|]. destruct (leader_transfering r); [apply tv_eq_refl|].
  destruct (_ =? _); [apply tv_eq_refl|]. destruct (alookup _ _); [|apply tv_eq_refl].
  destruct (_ =? _); [eapply tv_eq_trans; [|apply send_timeout_now_tv]|]; split; reflexivity.
Qed.

Lemma handle_leader_snapshot_status_tv r m k rp : tv_eq r (handle_leader_snapshot_status r m k rp).
Proof.
  unfold handle_leader_snapshot_status. destruct (rm_state rp); try apply tv_eq_refl.
  destruct (_ =? 0); [apply set_peer_tv|].
  eapply tv_eq_trans; [apply set_peer_tv|split; reflexivity].
Qed.
Lemma handle_leader_unreachable_tv r m k rp : tv_eq r (handle_leader_unreachable r m k rp).
Proof. unfold handle_leader_unreachable. apply set_peer_tv. Qed.

Lemma handle_follower_propose_tv r m : tv_eq r (handle_follower_propose r m).
Proof. unfold handle_follower_propose. destruct (_ =? 0); auto with tv. Qed.
Lemma handle_follower_read_index_tv r m : tv_eq r (handle_follower_read_index r m).
Proof. unfold handle_follower_read_index. destruct (_ =? 0); auto with tv. Qed.
Lemma handle_follower_leader_transfer_tv r m : tv_eq r (handle_follower_leader_transfer r m).
Proof. unfold handle_follower_leader_transfer. destruct (_ =? 0); auto with tv. Qed.
Lemma leader_is_available_tv r m : tv_eq r (leader_is_available r m).
Proof. unfold leader_is_available. eapply tv_eq_trans; [|apply set_leader_id_tv]. split; reflexivity. Qed.
Lemma handle_follower_read_index_resp_tv r m : tv_eq r (handle_follower_read_index_resp r m).
Proof. unfold handle_follower_read_index_resp. cbv zeta.
  apply (tv_eq_trans _ (leader_is_available r m)); [apply leader_is_available_tv|apply ready_upd_tv]. Qed.
Lemma handle_candidate_read_index_tv r m : tv_eq r (handle_candidate_read_index r m).
Proof. unfold handle_candidate_read_index. cbv zeta.
  apply (tv_eq_trans _ (report_dropped_read r m)); [apply report_dropped_read_tv|split; reflexivity]. Qed.

Lemma handle_candidate_request_vote_resp_tv r m : tv_eq r (handle_candidate_request_vote_resp r m).
Proof.
  unfold handle_candidate_request_vote_resp. destruct (amem _ _); [apply tv_eq_refl|].
  pose proof (handle_vote_resp_tv r (m_from m) (m_reject m)) as H.
  destruct (handle_vote_resp _ _ _) as [r1 count]. simpl in H.
  destruct (_ =? _); [eapply tv_eq_trans; [exact H|]; eapply tv_eq_trans; [apply become_leader_tv|apply broadcast_replicate_tv]|].
  destruct (_ =? _); [eapply tv_eq_trans; [exact H|apply become_follower_same_tv]|exact H].
Qed.

Lemma handle_prevote_candidate_resp_tv r m : tv_le r (handle_prevote_candidate_resp r m).
Proof.
  unfold handle_prevote_candidate_resp. destruct (amem _ _); [apply tv_le_refl|].
  pose proof (handle_vote_resp_tv r (m_from m) (m_reject m)) as H.
  destruct (handle_vote_resp _ _ _) as [r1 count]. simpl in H.
  destruct (_ =? _); [eapply tv_eq_le_trans; [exact H|apply campaign_tv]|].
  destruct (_ =? _); [apply tv_eq_le; eapply tv_eq_trans; [exact H|apply become_follower_same_tv]|apply tv_eq_le; exact H].
Qed.

(* ---- the dispatcher ---- *)
Lemma run_handler_tv h r m :
  (h = H_handleNodeRequestVote -> m_term m <= r_term r) -> tv_le r (run_handler h r m).
Proof.
  intros Hrv. unfold run_handler. cbv zeta.
  assert (Hcand : forall lid, tv_eq r (become_follower r (r_term r) lid)) by (intros; apply become_follower_same_tv).
  destruct h; try apply tv_le_refl;
    try (destruct (find_peer r (m_from m)) as [[k rp]|]; [|apply tv_le_refl]).
  all: try solve [ apply tv_eq_le; eapply tv_eq_trans; [apply Hcand|];
                   first [apply handle_heartbeat_message_tv|apply handle_replicate_message_tv|apply handle_install_snapshot_message_tv] ].
  all: try solve [ apply tv_eq_le; eapply tv_eq_trans; [apply leader_is_available_tv|];
                   first [apply handle_heartbeat_message_tv|apply handle_replicate_message_tv|apply handle_install_snapshot_message_tv] ].
  all: try solve [ apply tv_eq_le; first [ apply report_dropped_proposal_tv | apply handle_candidate_read_index_tv
    | apply handle_candidate_request_vote_resp_tv | apply handle_follower_propose_tv
    | apply handle_follower_read_index_tv | apply handle_follower_leader_transfer_tv
    | apply handle_follower_read_index_resp_tv | apply broadcast_heartbeat_tv | apply handle_leader_check_quorum_tv
    | apply handle_leader_propose_tv | apply handle_leader_read_index_tv | apply handle_leader_replicate_resp_tv
    | apply handle_leader_heartbeat_resp_tv | apply handle_leader_snapshot_status_tv | apply handle_leader_unreachable_tv
    | apply handle_leader_transfer_tv | apply handle_node_request_prevote_tv | apply handle_node_config_change_tv
    | apply restore_remotes_tv | apply handle_log_query_tv | apply tv_eq_refl ] ].
  - apply handle_node_election_tv.
  - apply handle_node_request_vote_tv. apply Hrv. reflexivity.
  - apply handle_prevote_candidate_resp_tv.
Qed.

Lemma drop_request_vote_tv r m : tv_eq r (fst (drop_request_vote_from_high_term r m)).
Proof.
  unfold drop_request_vote_from_high_term.
  destruct (_ || _); [apply tv_eq_refl|]. destruct (_ =? _); [apply tv_eq_refl|].
  destruct (_ && _); [apply panic_tv|]. destruct (_ && _); apply tv_eq_refl.
Qed.

Lemma on_message_term_not_matched_tv r m : tv_le r (fst (on_message_term_not_matched r m)).
Proof.
  unfold on_message_term_not_matched. destruct (_ || _); [apply tv_le_refl|].
  pose proof (drop_request_vote_tv r m) as H0.
  destruct (drop_request_vote_from_high_term r m) as [r0 drop]. simpl in H0.
  destruct drop; [apply tv_eq_le; exact H0|].
  destruct (N.ltb_spec (r_term r0) (m_term m)) as [Hlt|Hge].
  - destruct (gen_isPreVoteMessageWithExpectedHigherTerm _ _); [apply tv_eq_le; exact H0|]. cbv zeta.
    assert (Hle : r_term r0 <= m_term m) by lia.
    destruct (is_nonvoting r0); [simpl; eapply tv_eq_le_trans; [exact H0|apply become_nonvoting_tv; exact Hle]|].
    destruct (is_witness r0); [simpl; eapply tv_eq_le_trans; [exact H0|apply become_witness_tv; exact Hle]|].
    destruct (_ =? _); simpl; (eapply tv_eq_le_trans; [exact H0|]);
      [apply become_follower_ke_tv|apply become_follower_tv]; exact Hle.
  - destruct (_ || _); simpl; apply tv_eq_le; [eapply tv_eq_trans; [exact H0|apply send_tv]|exact H0].
Qed.

(* unfolding equations of the mutually recursive Handle / tick *)
Lemma handle_S f r m : handle (S f) r m =
    if r_panic r then r
    else if negb (r_prevote r) && is_prevote_message (m_type m) then panic r
    else
      let '(r1, ignore) := on_message_term_not_matched r m in
      if ignore || r_panic r1 then r1
      else if negb (is_prevote_message (m_type m)) && negb (m_term m =? 0) && negb (r_term r1 =? m_term m)
      then panic r1
      else
        let h := handler_of (role_num (r_role r1)) (m_type m) in
        match h with
        | H_handleLocalTick => if m_reject m then quiesced_tick r1 else tick f r1
        | H_handleFollowerTimeoutNow =>
          let r2 := tick f (r1 <| r_election_tick := r_rand_timeout r1 |> <| r_is_transfer_target := true |>) in
          r2 <| r_is_transfer_target := false |>
        | _ => run_handler h r1 m
        end.
Proof. reflexivity. Qed.

Definition step_ok (f : nat) : Prop :=
  (forall r m, tv_le r (handle f r m)) /\ (forall r, tv_le r (tick f r)) /\
  (forall r, tv_le r (check_pending_snapshot_ack f r)).

Lemma quiesced_tick_tv r : tv_eq r (quiesced_tick r).
Proof. split; reflexivity. Qed.

Lemma handle_step f : step_ok f -> forall r m, tv_le r (handle (S f) r m).
Proof.
  intros (Hh & Ht & Hc) r m. rewrite handle_S.
  destruct (r_panic r); [apply tv_le_refl|].
  destruct (_ && _); [apply tv_eq_le, panic_tv|].
  pose proof (on_message_term_not_matched_tv r m) as H1.
  destruct (on_message_term_not_matched r m) as [r1 ignore]. simpl in H1.
  destruct (_ || _); [exact H1|].
  destruct (negb (is_prevote_message (m_type m)) && negb (m_term m =? 0) && negb (r_term r1 =? m_term m)) eqn:Echk;
    [eapply tv_le_eq_trans; [exact H1|apply panic_tv]|].
  cbv zeta.
  assert (Hrv : handler_of (role_num (r_role r1)) (m_type m) = H_handleNodeRequestVote -> m_term m <= r_term r1).
  { intros Hh'. apply request_vote_handler_type in Hh'.
    rewrite Hh' in Echk. change (is_prevote_message mt_RequestVote) with false in Echk. simpl in Echk.
    destruct (N.eqb_spec (m_term m) 0); [lia|]. destruct (N.eqb_spec (r_term r1) (m_term m)); [lia|].
    simpl in Echk. discriminate. }
  eapply tv_le_trans; [exact H1|].
  destruct (handler_of (role_num (r_role r1)) (m_type m)) eqn:Eh;
    try (apply run_handler_tv; intros Habs; first [discriminate Habs | apply Hrv; reflexivity]).
  - (* timeout now *)
    cbv zeta. eapply tv_le_eq_trans; [|split; reflexivity].
    eapply tv_eq_le_trans; [|apply Ht]. split; reflexivity.
  - (* local tick *)
    destruct (m_reject m); [apply tv_eq_le, quiesced_tick_tv|apply Ht].
Qed.

Lemma tick_S f r : tick (S f) r =
    let r0 := r <| r_quiesce := false |> <| r_tick_count := r_tick_count r + 1 |> in
    if is_leader r0 then
      let r1 := r0 <| r_election_tick := r_election_tick r0 + 1 |> in
      let abort := leader_transfering r1 && (r_election_timeout r1 <=? r_election_tick r1) in
      let r2 := if r_election_timeout r1 <=? r_election_tick r1 then
                  let r1' := r1 <| r_election_tick := 0 |> in
                  if r_check_quorum r1' then handle f r1' ((msg0 mt_CheckQuorum) <| m_from := r_id r1' |>) else r1'
                else r1 in
      let r3 := if abort then r2 <| r_transfer_target := 0 |> else r2 in
      let r4 := r3 <| r_heartbeat_tick := r_heartbeat_tick r3 + 1 |> in
      let r5 := if r_heartbeat_timeout r4 <=? r_heartbeat_tick r4 then
                  handle f (r4 <| r_heartbeat_tick := 0 |>) ((msg0 mt_LeaderHeartbeat) <| m_from := r_id r4 |>)
                else r4 in
      check_pending_snapshot_ack f r5
    else
      let r1 := r0 <| r_election_tick := r_election_tick r0 + 1 |> in
      if is_nonvoting r1 || is_witness r1 then r1
      else if negb (self_removed r1) && (r_rand_timeout r1 <=? r_election_tick r1) then
        handle f (r1 <| r_election_tick := 0 |>) ((msg0 mt_Election) <| m_from := r_id r1 |>)
      else r1.
Proof. reflexivity. Qed.

(* small frame facts used to chain the field updates of tick *)
Lemma upd_quiesce_tick_tv (r : raft) : tv_eq r (r <| r_quiesce := false |> <| r_tick_count := r_tick_count r + 1 |>).
Proof. split; reflexivity. Qed.
Lemma upd_etick_tv (r : raft) v : tv_eq r (r <| r_election_tick := v |>).
Proof. split; reflexivity. Qed.
Lemma upd_htick_tv (r : raft) v : tv_eq r (r <| r_heartbeat_tick := v |>).
Proof. split; reflexivity. Qed.
Lemma upd_xfer_tv (r : raft) v : tv_eq r (r <| r_transfer_target := v |>).
Proof. split; reflexivity. Qed.

Lemma tick_leader_part1 f (r1 : raft) : step_ok f ->
  tv_le r1 (if r_election_timeout r1 <=? r_election_tick r1 then
              let r1' := r1 <| r_election_tick := 0 |> in
              if r_check_quorum r1' then handle f r1' ((msg0 mt_CheckQuorum) <| m_from := r_id r1' |>) else r1'
            else r1).
Proof.
  intros (Hh & _ & _). destruct (_ <=? _); [|apply tv_le_refl]. cbv zeta.
  destruct (r_check_quorum _); [eapply tv_eq_le_trans; [apply upd_etick_tv|apply Hh]|apply tv_eq_le, upd_etick_tv].
Qed.

Lemma tv_le_if a (c : bool) x y : tv_le a x -> tv_le a y -> tv_le a (if c then x else y).
Proof. destruct c; auto. Qed.

Lemma tick_step f : step_ok f -> forall r, tv_le r (tick (S f) r).
Proof.
  intros Hok r. pose proof Hok as (Hh & Ht & Hc). rewrite tick_S. cbv zeta.
  set (r0 := r <| r_quiesce := false |> <| r_tick_count := r_tick_count r + 1 |>).
  assert (H0 : tv_eq r r0) by apply upd_quiesce_tick_tv. clearbody r0.
  eapply tv_eq_le_trans; [exact H0|].
  apply tv_le_if.
  - set (r1 := r0 <| r_election_tick := r_election_tick r0 + 1 |>).
    assert (H1 : tv_eq r0 r1) by apply upd_etick_tv. clearbody r1.
    eapply tv_eq_le_trans; [exact H1|].
    eapply tv_le_trans; [|apply Hc].
    match goal with |- tv_le r1 (if _ then handle f (?r4 <| r_heartbeat_tick := 0 |>) _ else _) =>
      assert (Hr4 : tv_le r1 r4) end.
    { eapply tv_le_eq_trans; [|apply upd_htick_tv].
      apply tv_le_if; [eapply tv_le_eq_trans; [apply tick_leader_part1; exact Hok|apply upd_xfer_tv]
                      |apply tick_leader_part1; exact Hok]. }
    apply tv_le_if; [|exact Hr4].
    eapply tv_le_trans; [|apply Hh]. eapply tv_le_eq_trans; [exact Hr4|apply upd_htick_tv].
  - set (r1 := r0 <| r_election_tick := r_election_tick r0 + 1 |>).
    assert (H1 : tv_eq r0 r1) by apply upd_etick_tv. clearbody r1.
    eapply tv_eq_le_trans; [exact H1|].
    apply tv_le_if; [apply tv_le_refl|].
    apply tv_le_if; [|apply tv_le_refl].
    eapply tv_eq_le_trans; [apply upd_etick_tv|apply Hh].
Qed.

Lemma check_S f r : check_pending_snapshot_ack (S f) r =
    if is_leader r && r_snapshotting r then
      let step := fun (k : pkind) (acc : raft) (id : N) =>
        match find_peer acc id with
        | Some (k', rp) =>
          match rm_state rp with
          | RSnapshot =>
            if 0 <? rm_ack_tick rp then
              let rp1 := rp <| rm_ack_tick := rm_ack_tick rp - 1 |> in
              if rm_ack_tick rp1 =? 0 then
                let acc1 := set_peer acc k' id rp1 in
                let acc2 := handle f acc1 ((msg0 mt_SnapshotStatus) <| m_from := id |> <| m_reject := rm_ack_rej rp1 |>) in
                match find_peer acc2 id with
                | Some (k2, rp2) => set_peer acc2 k2 id (rm_clear_ack rp2)
                | None => acc2
                end
              else (set_peer acc k' id rp1) <| r_snapshotting := true |>
            else acc <| r_snapshotting := true |>
          | _ => acc
          end
        | None => acc
        end in
      let r0 := r <| r_snapshotting := false |> in
      let r1 := fold_left (step KRemote) (akeys (r_remotes r0)) r0 in
      let r2 := fold_left (step KNonVoting) (akeys (r_nonvotings r1)) r1 in
      fold_left (step KWitness) (akeys (r_witnesses r2)) r2
    else r.
Proof. reflexivity. Qed.

Lemma upd_snapshotting_tv (r : raft) v : tv_eq r (r <| r_snapshotting := v |>).
Proof. split; reflexivity. Qed.

Lemma check_step f : step_ok f -> forall r, tv_le r (check_pending_snapshot_ack (S f) r).
Proof.
  intros (Hh & _ & _) r. rewrite check_S. destruct (_ && _); [|apply tv_le_refl]. cbv zeta.
  match goal with |- context [fold_left (?st KWitness)] =>
    assert (Hstep : forall k acc id, tv_le acc (st k acc id)) end.
  { intros k acc id. cbv beta.
    destruct (find_peer acc id) as [[k' rp]|]; [|apply tv_le_refl].
    destruct (rm_state rp); try apply tv_le_refl.
    destruct (0 <? _); [|apply tv_eq_le, upd_snapshotting_tv].
    cbv zeta. destruct (_ =? 0).
    - assert (H2 : tv_le acc (handle f (set_peer acc k' id (rp <| rm_ack_tick := rm_ack_tick rp - 1 |>))
           ((msg0 mt_SnapshotStatus) <| m_from := id |> <| m_reject := rm_ack_rej (rp <| rm_ack_tick := rm_ack_tick rp - 1 |>) |>))).
      { eapply tv_eq_le_trans; [apply set_peer_tv|apply Hh]. }
      destruct (find_peer _ id) as [[k2 rp2]|]; [|exact H2].
      eapply tv_le_eq_trans; [exact H2|apply set_peer_tv].
    - apply tv_eq_le. eapply tv_eq_trans; [apply set_peer_tv|apply upd_snapshotting_tv]. }
  eapply tv_le_trans; [|apply fold_tv_le; apply (Hstep KWitness)].
  eapply tv_le_trans; [|apply fold_tv_le; apply (Hstep KNonVoting)].
  eapply tv_le_trans; [|apply fold_tv_le; apply (Hstep KRemote)].
  apply tv_eq_le, upd_snapshotting_tv.
Qed.

Lemma step_ok_all : forall f, step_ok f.
Proof.
  induction f as [|f IH].
  - split; [|split]; intros; simpl; apply tv_eq_le, panic_tv.
  - split; [|split]; [apply handle_step|apply tick_step|apply check_step]; exact IH.
Qed.

(* ---- the local theorems ---- *)
Theorem handle_term_monotone_proved f r m : r_term r <= r_term (handle f r m).
Proof. destruct (step_ok_all f) as (Hh & _ & _). apply Hh. Qed.

Theorem handle_vote_stable_proved f r m :
  r_term (handle f r m) = r_term r -> r_vote r <> 0 -> r_vote (handle f r m) = r_vote r.
Proof. destruct (step_ok_all f) as (Hh & _ & _). apply Hh. Qed.
