(* L2 stage 3, part c: the safety theorems of the model with membership change, the
   soundness of its step function, and a concrete membership function that meets the
   contract. *)
From DB Require Import Model.RaftNet Model.RaftNetCfg Proofs.RaftNetLists Proofs.RaftNetElection
  Proofs.RaftNetLog Proofs.RaftNetCommitDefs Proofs.RaftNetCommit Proofs.RaftNetSafety
  Proofs.RaftNetCfgLemmas Proofs.RaftNetCfgInv Proofs.RaftNetCfgStep.

Section CfgSafety.
  Variable cfg_of : list entry -> list id.
  Variable is_cc : entry -> bool.
  Hypothesis cfg_noncc : forall l e, is_cc e = false -> cfg_of (l ++ [e]) = cfg_of l.
  Hypothesis cfg_step_near : forall l e, qnear (cfg_of l) (cfg_of (l ++ [e])).
  Hypothesis cfg_nodup : forall l, NoDup (cfg_of l).
  Hypothesis noop_noncc : forall t, is_cc (noop t) = false.

  Notation ccs := (ccs is_cc).
  Notation cfg := (cfg cfg_of).
  Notation step3 := (step3 cfg_of is_cc).
  Notation steps3 := (steps3 cfg_of is_cc).
  Notation reachable3 := (reachable3 cfg_of is_cc).
  Notation inv4 := (inv4 cfg_of is_cc).
  Notation inv4_reachable := (inv4_reachable cfg_of is_cc cfg_noncc cfg_step_near cfg_nodup noop_noncc).
  Notation inv4_step := (inv4_step cfg_of is_cc cfg_noncc cfg_step_near cfg_nodup noop_noncc).
  Notation LC3 := (LC3 cfg_of is_cc cfg_noncc cfg_step_near).
  Notation agl3 := (agl3 cfg_of is_cc cfg_noncc cfg_step_near).

  Theorem election_safety3 s i j :
    reachable3 s ->
    role (nodes (base3 s) i) = Leader -> role (nodes (base3 s) j) = Leader ->
    term (nodes (base3 s) i) = term (nodes (base3 s) j) -> i = j.
  Proof.
    intros Hr Hi Hj Ht. pose proof (s_1 _ _ s (inv4_reachable s Hr)) as H1.
    pose proof (i_leader _ H1 i Hi) as A. pose proof (i_leader _ H1 j Hj) as B.
    rewrite Ht in A. congruence.
  Qed.

  Theorem one_vote_per_term3 s t w c1 c2 vl1 vl2 :
    reachable3 s ->
    In (Vote t w c1 vl1) (msgs (base3 s)) -> In (Vote t w c2 vl2) (msgs (base3 s)) -> c1 = c2.
  Proof. intros Hr. apply (i_one_vote _ (s_1 _ _ s (inv4_reachable s Hr))). Qed.

  (* a leader owns a quorum of votes of the configuration it had when it campaigned *)
  Theorem leader_has_vote_quorum3 s i :
    reachable3 s -> role (nodes (base3 s) i) = Leader ->
    exists Q, is_quorum (lcfg s (term (nodes (base3 s) i))) Q /\
              forall w, In w Q -> voted_msg (base3 s) (term (nodes (base3 s) i)) w i.
  Proof.
    intros Hr Hi. pose proof (inv4_reachable s Hr) as Hinv.
    pose proof (i_leader _ (s_1 _ _ s Hinv) i Hi) as Hl.
    destruct (s_elected _ _ s Hinv _ _ Hl) as (Q & HQ & HQw).
    exists Q. split; [exact HQ|]. intros w Hw. now destruct (HQw w Hw).
  Qed.

  Theorem log_matching3 s i j k :
    reachable3 s ->
    1 <= k -> k <= length (log (nodes (base3 s) i)) -> k <= length (log (nodes (base3 s) j)) ->
    term_at (log (nodes (base3 s) i)) k = term_at (log (nodes (base3 s) j)) k ->
    firstn k (log (nodes (base3 s) i)) = firstn k (log (nodes (base3 s) j)).
  Proof.
    intros Hr. pose proof (s_2 _ _ s (inv4_reachable s Hr)) as H2.
    apply (log_ok_matching (base3 s)); apply (i_log_ok _ H2).
  Qed.

  Theorem state_machine_safety3 s a b k :
    reachable3 s -> k <= commit (nodes (base3 s) a) -> k <= commit (nodes (base3 s) b) ->
    firstn k (log (nodes (base3 s) a)) = firstn k (log (nodes (base3 s) b)).
  Proof.
    intros Hr Ha Hb. pose proof (inv4_reachable s Hr) as Hinv.
    destruct (i_commit_bounds _ (s_3a _ _ s Hinv) a) as (Hca & _).
    destruct (i_commit_bounds _ (s_3a _ _ s Hinv) b) as (Hcb & _).
    eapply (cprefix3_agree2 cfg_of is_cc cfg_noncc cfg_step_near s Hinv _ _ _ _ _ _ k
                            (s_hc _ _ s Hinv a) (s_hc _ _ s Hinv b)); lia.
  Qed.

  (* what was committed in term t (by a quorum of the configuration the leader of t had
     applied) is in the log of every leader of a later term, whatever its configuration *)
  Theorem leader_completeness3 s t k a i :
    reachable3 s -> In (t, k, a) (cevents s) ->
    role (nodes (base3 s) i) = Leader -> t < term (nodes (base3 s) i) ->
    firstn k (log (nodes (base3 s) i)) = firstn k (llog (base3 s) t).
  Proof.
    intros Hr Hin Hrole Hlt. pose proof (inv4_reachable s Hr) as Hinv.
    pose proof (s_2 _ _ s Hinv) as H2.
    rewrite <- (i_leader_log _ H2 i Hrole).
    pose proof (i_leader _ (s_1 _ _ s Hinv) i Hrole) as Hl.
    apply (llog0_agree cfg_of is_cc s Hinv).
    - pose proof (s_ev _ _ s Hinv _ Hin) as (_ & _ & Hk & _). exact Hk.
    - eapply (LC3 s Hinv _ _ Hl); eauto.
  Qed.

  (* the guards of the code hold in every reachable state *)
  Theorem applied_le_committed s i :
    reachable3 s -> applied s i <= commit (nodes (base3 s) i).
  Proof. intros Hr. apply (s_app _ _ s (inv4_reachable s Hr)). Qed.

  Theorem no_campaign_with_unapplied_entries s i :
    reachable3 s -> role (nodes (base3 s) i) = Candidate ->
    applied s i = commit (nodes (base3 s) i).
  Proof. intros Hr Hc. now destruct (s_cand _ _ s (inv4_reachable s Hr) i Hc). Qed.

  Theorem one_unapplied_cc_in_leader_log s i :
    reachable3 s -> role (nodes (base3 s) i) = Leader ->
    ccs (log (nodes (base3 s) i)) (applied s i) <= 1.
  Proof. intros Hr Hl. now destruct (s_lead _ _ s (inv4_reachable s Hr) i Hl). Qed.

  (* preLeaderPromotionHandleConfigChange never panics: no log has two config changes
     above its commit index *)
  Theorem one_cc_above_commit s i :
    reachable3 s -> ccs (log (nodes (base3 s) i)) (commit (nodes (base3 s) i)) <= 1.
  Proof. intros Hr. apply (s_b _ _ s (inv4_reachable s Hr)). Qed.

  (* ---- committed entries are never replaced ---- *)

  Lemma hcommit_base s l b' i :
    inv4 s -> step (cfg s (actor l)) (base3 s) l b' ->
    hcommit (nodes (base3 s) i) <= hcommit (nodes b' i) /\
    agree (hcommit (nodes (base3 s) i)) (log (nodes b' i)) (log (nodes (base3 s) i)).
  Proof.
    intros Hinv Hstep. pose proof (s_2 _ _ s Hinv) as H2. pose proof (s_3a _ _ s Hinv) as H3a.
    split.
    - inv_step Hstep; simp_upd; lia.
    - destruct (i_commit_bounds _ H3a i) as (_ & Hb).
      destruct (step_log_cases _ _ _ _ i Hstep)
        as [(e & ->)|[(T & ldr & prev & pt & ents & lc & Hae & HT & HT' & Hpt & Hta)
                     |(m & -> & Hm & _)]].
      + now apply agree_app_l.
      + subst T pt.
        now destruct (handle_ae_hcommit _ i ldr prev ents lc _ H2 (agl3 s Hinv) Hae Hta).
      + now apply agree_firstn.
  Qed.

  Lemma hcommit_step3 s l s' i :
    inv4 s -> step3 s l s' ->
    hcommit (nodes (base3 s) i) <= hcommit (nodes (base3 s') i) /\
    agree (hcommit (nodes (base3 s) i)) (log (nodes (base3 s') i)) (log (nodes (base3 s) i)).
  Proof.
    intros Hinv Hstep. inversion Hstep; subst; cbn [base3].
    - eapply hcommit_base; eauto.
    - split; [lia | apply agree_refl].
    - apply (hcommit_base s (LRestart i0 c m) b' i Hinv). assumption.
  Qed.

  Lemma hcommit_steps3 s ls s' i :
    inv4 s -> steps3 s ls s' ->
    hcommit (nodes (base3 s) i) <= hcommit (nodes (base3 s') i) /\
    agree (hcommit (nodes (base3 s) i)) (log (nodes (base3 s') i)) (log (nodes (base3 s) i)).
  Proof.
    intros Hi Hs. induction Hs; [split; [lia | apply agree_refl]|].
    destruct (hcommit_step3 s l s1 i Hi H) as (Ha & Hb).
    destruct (IHHs (inv4_step s l s1 Hi H)) as (Hc & Hd).
    split; [lia|]. eapply agree_trans; [eapply agree_le; [exact Hd | exact Ha] | exact Hb].
  Qed.

  Theorem committed_never_replaced3 s ls s' i k :
    reachable3 s -> steps3 s ls s' -> k <= commit (nodes (base3 s) i) ->
    firstn k (log (nodes (base3 s') i)) = firstn k (log (nodes (base3 s) i)).
  Proof.
    intros Hr Hs Hk. pose proof (inv4_reachable s Hr) as Hinv.
    destruct (hcommit_steps3 s ls s' i Hinv Hs) as (_ & Hag).
    destruct (i_commit_bounds _ (s_3a _ _ s Hinv) i) as (Hc & _).
    eapply agree_le; [exact Hag | lia].
  Qed.

  (* ---- the two panics on the replication path stay unreachable ---- *)

  Theorem append_never_conflicts_with_committed3 s j t ldr prev pt ents lc :
    reachable3 s -> In (AE t ldr prev pt ents lc) (msgs (base3 s)) ->
    t = term (nodes (base3 s) j) -> term_at (log (nodes (base3 s) j)) prev = pt ->
    try_append (log (nodes (base3 s) j)) (commit (nodes (base3 s) j)) prev ents <> None.
  Proof.
    intros Hr Hae -> Hpt. pose proof (inv4_reachable s Hr) as Hinv.
    pose proof (s_2 _ _ s Hinv) as H2. pose proof (s_3a _ _ s Hinv) as H3a.
    unfold try_append.
    destruct (first_conflict (log (nodes (base3 s) j)) (S prev) ents) as [ci|] eqn:Hfc; [|discriminate].
    destruct (Nat.ltb_spec (commit (nodes (base3 s) j)) ci) as [|Hge]; [discriminate|]. exfalso.
    destruct (ae_view _ _ _ _ _ _ _ _ H2 Hae (i_log_ok _ H2 j) Hpt) as (Hprev & Hview & Hents).
    assert (Hpos : forall e, In e ents -> 1 <= eterm e) by (intros e He; apply Hents; exact He).
    assert (LM : lmatch (log (nodes (base3 s) j)) (firstn prev (log (nodes (base3 s) j)) ++ ents)).
    { rewrite Hview. eapply log_ok_lmatch; [apply (i_log_ok _ H2)|].
      apply log_ok_firstn. apply (i_llog_ok _ H2). }
    destruct (first_conflict_some _ prev ents ci Hprev Hpos LM Hfc) as (Hci & _ & Hne & _).
    destruct (i_ae _ H2 _ _ _ _ _ _ Hae) as (Hlead & Hlen & _).
    destruct (agl3 s Hinv j _ eq_refl Hlead) as (Hag & _).
    destruct (i_commit_bounds _ H3a j) as (Hc & _).
    apply Hne. rewrite Hview.
    rewrite (agree_term_at _ ci _ _ Hag) by lia.
    symmetry. apply term_at_firstn. lia.
  Qed.

  Theorem heartbeat_commit_in_range3 s j t ldr c :
    reachable3 s -> In (HB t ldr j c) (msgs (base3 s)) -> t = term (nodes (base3 s) j) ->
    c <= length (log (nodes (base3 s) j)).
  Proof.
    intros Hr Hhb ->. pose proof (inv4_reachable s Hr) as Hinv.
    pose proof (s_3a _ _ s Hinv) as H3a.
    destruct (s_hb _ _ s Hinv _ _ _ _ Hhb) as [->|(Hack & _)]; [lia|].
    pose proof (acked_len _ _ _ _ (i_ack_le _ H3a) Hack) as Hl.
    destruct (i_ack_node _ H3a _ _ _ Hack) as [Hag|(U & HU & _)]; [|lia].
    apply agree_sym in Hag. eapply agree_len; eauto.
  Qed.

  (* ---- leader completeness, event form ---- *)

  Lemma step3_mono s l s' :
    inv4 s -> step3 s l s' -> gext (base3 s) (base3 s') /\ incl (cevents s) (cevents s').
  Proof.
    intros Hinv Hstep. inversion Hstep; subst; cbn [base3 cevents].
    - split; [eapply base_gext; eauto | apply cevents'_incl].
    - split; [apply gext_refl | apply incl_refl].
    - split; [|apply incl_refl].
      eapply step_gext; eauto using s_1, s_2. intros j Hj. discriminate.
  Qed.

  Lemma steps3_mono s ls s' :
    inv4 s -> steps3 s ls s' -> gext (base3 s) (base3 s') /\ incl (cevents s) (cevents s').
  Proof.
    intros Hinv Hs. induction Hs; [split; [apply gext_refl | apply incl_refl]|].
    destruct (step3_mono s l s1 Hinv H) as (G1 & I1).
    destruct (IHHs (inv4_step s l s1 Hinv H)) as (G2 & I2).
    split; [eapply gext_trans; eauto | eapply incl_tran; eauto].
  Qed.

  Lemma steps3_reachable s ls s' : reachable3 s -> steps3 s ls s' -> reachable3 s'.
  Proof.
    intros (l0 & H0) Hs. exists (l0 ++ ls).
    induction H0; simpl; [assumption|]. econstructor; eauto.
  Qed.

  (* once a leader advanced its commit index to k, its first k entries are in the log of
     every leader of every later term in every later state, across membership changes *)
  Theorem leader_completeness3_trace s i k s1 ls s2 j :
    reachable3 s -> step3 s (L3Base (LAdvanceCommit i k)) s1 -> steps3 s1 ls s2 ->
    role (nodes (base3 s2) j) = Leader ->
    term (nodes (base3 s) i) < term (nodes (base3 s2) j) ->
    firstn k (log (nodes (base3 s2) j)) = firstn k (log (nodes (base3 s) i)).
  Proof.
    intros Hr Hstep Hs Hrole Hlt. pose proof (inv4_reachable s Hr) as Hinv.
    assert (Hss : steps3 s (L3Base (LAdvanceCommit i k) :: ls) s2) by (econstructor; eauto).
    destruct (steps3_mono s _ s2 Hinv Hss) as (Hg & _).
    pose proof (inv4_step s _ s1 Hinv Hstep) as Hinv1.
    destruct (steps3_mono s1 _ s2 Hinv1 Hs) as (_ & Hincl).
    inversion Hstep; subst.
    match goal with Hb : step _ (base3 s) (LAdvanceCommit i k) b' |- _ =>
      simpl in Hb;
      destruct (advance_event_ok cfg_of is_cc cfg_nodup s i k b' Hinv Hb) as (_ & Hll & _ & Hk) end.
    assert (Hin : In (term (nodes (base3 s) i), k, applied s i) (cevents s2)).
    { apply Hincl. cbn [cevents cevents']. now left. }
    rewrite (leader_completeness3 s2 _ k _ j (steps3_reachable s _ s2 Hr Hss) Hin Hrole Hlt).
    rewrite <- Hll. apply (agree_gext_l _ _ k _ _ Hg); [rewrite Hll; lia | apply agree_refl].
  Qed.

  (* ---- executable side ---- *)

  Lemma guard3_b_spec s l : guard3_b is_cc s l = true -> guard3 is_cc s l.
  Proof.
    destruct l; simpl; auto; intros H; try discriminate.
    - now apply Nat.eqb_eq in H.
    - now apply Nat.leb_le in H.
    - intros Hcc. rewrite Hcc in H. simpl in H. now apply negb_true_iff in H.
    - now apply Nat.leb_le in H.
  Qed.

  Theorem step_fn3_sound s l s' : step_fn3 cfg_of is_cc s l = Some s' -> step3 s l s'.
  Proof.
    destruct l; cbn [step_fn3]; intros H.
    - destruct (guard3_b is_cc s l) eqn:Hg; [|discriminate].
      destruct (step_fn (cfg s (actor l)) (base3 s) l) as [b'|] eqn:Hs; [|discriminate].
      injection H as <-. apply S3Base; [now apply guard3_b_spec | now apply step_fn_sound].
    - destruct (Nat.ltb_spec (applied s i) (commit (nodes (base3 s) i))); [|discriminate].
      injection H as <-. now apply S3Apply.
    - match type of H with (if ?c then _ else _) = _ => destruct c eqn:Hc; [|discriminate] end.
      destruct (step_fn (cfg s i) (base3 s) (LRestart i c m)) as [b'|] eqn:Hs; [|discriminate].
      injection H as <-. apply andb_prop in Hc. destruct Hc as [Hc H3].
      apply andb_prop in Hc. destruct Hc as [Ha Hb]. apply Nat.leb_le in Ha, Hb, H3.
      apply S3Crash; auto. now apply step_fn_sound.
  Qed.

  Theorem run3_sound ls : forall s s', run3 cfg_of is_cc s ls = Some s' -> steps3 s ls s'.
  Proof.
    induction ls as [|l ls IH]; simpl; intros s s' H.
    - injection H as <-. constructor.
    - destruct (step_fn3 cfg_of is_cc s l) as [s1|] eqn:E; [|discriminate].
      econstructor; [apply step_fn3_sound; exact E | apply IH; exact H].
  Qed.

  Corollary run3_reachable ls s : run3 cfg_of is_cc (init3) ls = Some s -> reachable3 s.
  Proof. intros H. exists ls. now apply run3_sound. Qed.

End CfgSafety.

(* ---------------------------------------------------------------- *)
(* a concrete membership function that meets the contract: payload 100+v adds voter v,
   payload 200+v removes voter v (ignored when it would not change the membership) *)

Definition cc_payload (e : entry) : bool := 100 <=? epay e.

Definition cfg_add (x : id) (C : list id) : list id :=
  if in_dec Nat.eq_dec x C then C else x :: C.

Definition cfg_remove (x : id) (C : list id) : list id :=
  filter (fun y => negb (y =? x)) C.

Definition cfg_apply (C : list id) (e : entry) : list id :=
  let p := epay e in
  if p <? 100 then C
  else if p <? 200 then cfg_add (p - 100) C
  else if p <? 300 then cfg_remove (p - 200) C
  else C.

Definition cfg_fold (C0 : list id) (l : list entry) : list id := fold_left cfg_apply l C0.

Lemma cfg_remove_length x C :
  NoDup C -> In x C -> length C = S (length (cfg_remove x C)).
Proof.
  induction C as [|a C IH]; intros ND Hin; [contradiction|].
  inversion ND; subst. simpl. destruct (Nat.eqb_spec a x) as [->|Hne]; simpl.
  - f_equal. unfold cfg_remove. symmetry. f_equal.
    assert (E : filter (fun y => negb (y =? x)) C = C).
    { apply forallb_filter_id || idtac.
      clear - H1. induction C as [|b C IH]; [reflexivity|]. simpl.
      destruct (Nat.eqb_spec b x) as [->|]; [exfalso; apply H1; now left|].
      simpl. f_equal. apply IH. intros Hx. apply H1. now right. }
    exact E.
  - f_equal. apply IH; [assumption|]. destruct Hin as [E|Hin]; [congruence | exact Hin].
Qed.

Lemma cfg_apply_nodup C e : NoDup C -> NoDup (cfg_apply C e).
Proof.
  intros ND. unfold cfg_apply.
  destruct (epay e <? 100); [exact ND|].
  destruct (epay e <? 200).
  - unfold cfg_add. destruct (in_dec Nat.eq_dec (epay e - 100) C); [exact ND | now constructor].
  - destruct (epay e <? 300); [|exact ND]. now apply NoDup_filter.
Qed.

Lemma cfg_apply_near C e : NoDup C -> qnear C (cfg_apply C e).
Proof.
  intros ND. unfold cfg_apply.
  destruct (epay e <? 100); [apply qnear_refl|].
  destruct (epay e <? 200).
  - unfold cfg_add. destruct (in_dec Nat.eq_dec (epay e - 100) C) as [Hin|Hnin];
      [apply qnear_refl | now apply quorum_intersect_adjacent].
  - destruct (epay e <? 300); [|apply qnear_refl].
    destruct (in_dec Nat.eq_dec (epay e - 200) C) as [Hin|Hnin].
    + apply qnear_sym. apply qnear_grow; [exact ND | | now apply cfg_remove_length].
      intros y Hy. apply filter_In in Hy. tauto.
    + replace (cfg_remove (epay e - 200) C) with C; [apply qnear_refl|].
      unfold cfg_remove. symmetry.
      clear - Hnin. induction C as [|b C IH]; [reflexivity|]. simpl.
      destruct (Nat.eqb_spec b (epay e - 200)) as [->|]; [exfalso; apply Hnin; now left|].
      simpl. f_equal. apply IH. intros Hx. apply Hnin. now right.
Qed.

Lemma cfg_fold_nodup C0 l : NoDup C0 -> NoDup (cfg_fold C0 l).
Proof.
  unfold cfg_fold. revert C0. induction l as [|e l IH]; intros C0 ND; [exact ND|].
  simpl. apply IH. now apply cfg_apply_nodup.
Qed.

(* ---------------------------------------------------------------- *)
(* the contract on (cfg_of, is_cc), packaged, and the theorems restated under it *)

Definition cfg_contract (cfg_of : list entry -> list id) (is_cc : entry -> bool) : Prop :=
  (forall l e, is_cc e = false -> cfg_of (l ++ [e]) = cfg_of l) /\
  (forall l e, qnear (cfg_of l) (cfg_of (l ++ [e]))) /\
  (forall l, NoDup (cfg_of l)) /\
  (forall t, is_cc (noop t) = false).

Section Packaged.
  Variable cfg_of : list entry -> list id.
  Variable is_cc : entry -> bool.
  Hypothesis HC : cfg_contract cfg_of is_cc.

  Let A := proj1 HC.
  Let B := proj1 (proj2 HC).
  Let C := proj1 (proj2 (proj2 HC)).
  Let D := proj2 (proj2 (proj2 HC)).

  Definition election_safety3_c := election_safety3 cfg_of is_cc A B C D.
  Definition one_vote_per_term3_c := one_vote_per_term3 cfg_of is_cc A B C D.
  Definition leader_has_vote_quorum3_c := leader_has_vote_quorum3 cfg_of is_cc A B C D.
  Definition log_matching3_c := log_matching3 cfg_of is_cc A B C D.
  Definition state_machine_safety3_c := state_machine_safety3 cfg_of is_cc A B C D.
  Definition leader_completeness3_c := leader_completeness3 cfg_of is_cc A B C D.
  Definition leader_completeness3_trace_c := leader_completeness3_trace cfg_of is_cc A B C D.
  Definition applied_le_committed_c := applied_le_committed cfg_of is_cc A B C D.
  Definition no_campaign_with_unapplied_entries_c :=
    no_campaign_with_unapplied_entries cfg_of is_cc A B C D.
  Definition one_unapplied_cc_in_leader_log_c := one_unapplied_cc_in_leader_log cfg_of is_cc A B C D.
  Definition one_cc_above_commit_c := one_cc_above_commit cfg_of is_cc A B C D.
  Definition committed_never_replaced3_c := committed_never_replaced3 cfg_of is_cc A B C D.
  Definition append_never_conflicts_with_committed3_c :=
    append_never_conflicts_with_committed3 cfg_of is_cc A B C D.
  Definition heartbeat_commit_in_range3_c := heartbeat_commit_in_range3 cfg_of is_cc A B C D.
End Packaged.

(* the contract holds for the concrete membership function *)
Theorem cfg_fold_contract C0 : NoDup C0 -> cfg_contract (cfg_fold C0) cc_payload.
Proof.
  intros ND. repeat split.
  - intros l e H. unfold cfg_fold. rewrite fold_left_app. simpl. unfold cfg_apply.
    unfold cc_payload in H. apply Nat.leb_gt in H.
    destruct (Nat.ltb_spec (epay e) 100); [reflexivity | lia].
  - intros l e. unfold cfg_fold. rewrite fold_left_app. simpl.
    apply cfg_apply_near. now apply cfg_fold_nodup.
  - intros l. now apply cfg_fold_nodup.
Qed.
