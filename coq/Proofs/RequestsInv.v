(* The main invariant of Model/Requests.v (property C12): heap part and table part. *)
From Coq Require Import NArith List Bool Lia.
From DB Require Import Gen.GenC12 Model.Requests Proofs.Requests.
Import ListNotations.
Open Scope N_scope.

(* ================================================================== *)
(* The main invariant: heap part                                        *)
From Coq Require Import Permutation.

Definition shape (l : list ev) : Prop :=
  match map is_committed l with
  | [] | [true] | [false] | [true; false] => True
  | _ => False
  end.

Lemma nterm_app : forall a b, nterm (a ++ b) = (nterm a + nterm b)%nat.
Proof. intros. unfold nterm. rewrite filter_app, app_length. reflexivity. Qed.
Lemma ncomm_app : forall a b, ncomm (a ++ b) = (ncomm a + ncomm b)%nat.
Proof. intros. unfold ncomm. rewrite filter_app, app_length. reflexivity. Qed.

Lemma shape_nterm_le1 : forall l, shape l -> (nterm l <= 1)%nat.
Proof.
  intros l. unfold shape, nterm, is_term.
  destruct l as [|a [|b [|c l]]]; cbn; try (destruct (is_committed a)); try (destruct (is_committed b));
    try (destruct (is_committed c)); cbn; try lia; try contradiction; destruct (map is_committed l); contradiction.
Qed.
Lemma shape_ncomm_le1 : forall l, shape l -> (ncomm l <= 1)%nat.
Proof.
  intros l. unfold shape, ncomm.
  destruct l as [|a [|b [|c l]]]; cbn; try (destruct (is_committed a)); try (destruct (is_committed b));
    try (destruct (is_committed c)); cbn; try lia; try contradiction; destruct (map is_committed l); contradiction.
Qed.
Lemma shape_add_term : forall l e, shape l -> nterm l = 0%nat -> is_term e = true -> shape (l ++ [e]).
Proof.
  intros l e. unfold shape, nterm, is_term.
  destruct l as [|a [|b [|c l]]]; cbn; intros Hs Hn He; apply negb_true_iff in He.
  - rewrite He. exact I.
  - destruct (is_committed a); cbn in *; [rewrite He; exact I | discriminate].
  - destruct (is_committed a), (is_committed b); cbn in *; try discriminate; contradiction.
  - destruct (is_committed a), (is_committed b), (is_committed c); cbn in *; try discriminate; try contradiction;
      destruct (map is_committed l); contradiction.
Qed.
Lemma shape_add_comm : forall l e, shape l -> nterm l = 0%nat -> ncomm l = 0%nat -> is_committed e = true -> shape (l ++ [e]).
Proof.
  intros l e. unfold shape, nterm, ncomm, is_term.
  destruct l as [|a l]; cbn; intros Hs Hn Hc He.
  - rewrite He. exact I.
  - destruct (is_committed a); cbn in *; discriminate.
Qed.
(* the order: a Committed notification is never preceded by a terminal result *)
Lemma shape_committed_first : forall l a b e, shape l -> l = a ++ e :: b -> is_committed e = true -> a = [].
Proof.
  intros l a b e Hs -> He. unfold shape in Hs.
  destruct a as [|x [|y a]]; [reflexivity| |]; cbn in Hs.
  - rewrite He in Hs. destruct (is_committed x); destruct (map is_committed b); contradiction.
  - destruct (is_committed x), (is_committed y); destruct (map is_committed (a ++ e :: b)) eqn:E; try contradiction;
      destruct a; cbn in E; discriminate.
Qed.

Record HI (h : heap) : Prop := mkHI {
  hi_shape : forall r, shape (hgot h r);
  hi_to : forall r e, In e (hgot h r) -> e_to e = r;
  hi_comp : forall o, o < h_nobj h -> (o_comp (h_objs h o) <> [] \/ o_rtr (h_objs h o) = true) ->
            nterm (hgot h (o_owner (h_objs h o))) <> 0%nat;
  hi_comm : forall o, o < h_nobj h -> o_comm (h_objs h o) <> [] ->
            ncomm (hgot h (o_owner (h_objs h o))) <> 0%nat;
  hi_nc : forall o, o < h_nobj h -> o_nc (h_objs h o) = true -> o_hascomm (h_objs h o) = true;
  hi_pool : forall o, In o (h_pool h) ->
            o < h_nobj h /\ r_rel (h_reqs h (o_owner (h_objs h o))) = true /\ o_rtr (h_objs h o) = false;
  hi_pool_nd : NoDup (h_pool h);
  hi_own : forall r, r < h_nreq h -> r_rel (h_reqs h r) = false ->
           o_owner (h_objs h (r_obj (h_reqs h r))) = r /\ r_obj (h_reqs h r) < h_nobj h;
  hi_owner_lt : forall o, o < h_nobj h -> o_owner (h_objs h o) < h_nreq h }.

Definition ok_slot (h : heap) (sl : slot) : Prop :=
  sr sl < h_nreq h /\ so sl < h_nobj h /\ o_owner (h_objs h (so sl)) = sr sl /\
  r_obj (h_reqs h (sr sl)) = so sl /\ nterm (hgot h (sr sl)) = 0%nat /\ r_rel (h_reqs h (sr sl)) = false.

Lemma ok_slot_comp_empty : forall h sl, HI h -> ok_slot h sl ->
  o_comp (h_objs h (so sl)) = [] /\ o_rtr (h_objs h (so sl)) = false.
Proof.
  intros h sl Hi (A & B & C & D & E & F).
  pose proof (hi_comp h Hi (so sl) B) as Hc. rewrite C in Hc.
  destruct (o_comp (h_objs h (so sl))) eqn:E1; destruct (o_rtr (h_objs h (so sl))) eqn:E2; auto;
    exfalso; apply Hc; auto; left; discriminate.
Qed.
Lemma ok_slot_inj : forall h x y, ok_slot h x -> ok_slot h y -> so x = so y -> sr x = sr y.
Proof. intros h x y (_ & _ & C & _) (_ & _ & C' & _) E. rewrite <- C, <- C', E. reflexivity. Qed.

(* one terminal notification of an ok slot *)
Definition terminal (f : obj -> res) : Prop := forall o, rc (f o) =? cCommitted = false.

Lemma notifyf_ok : forall sc f h x, HI h -> h_err h = 0 -> ok_slot h x -> terminal f ->
  let h' := notifyf sc f h x in
  HI h' /\ h_err h' = 0 /\ h_broken h' = h_broken h /\ h_clock h' = h_clock h /\
  h_nreq h' = h_nreq h /\ h_nobj h' = h_nobj h /\ h_pool h' = h_pool h /\
  (forall y, ok_slot h y -> sr y <> sr x -> ok_slot h' y) /\
  nterm (hgot h' (sr x)) = 1%nat /\
  (forall r, r <> sr x -> h_reqs h' r = h_reqs h r) /\
  (forall r, r_status (h_reqs h' r) = r_status (h_reqs h r) /\ r_kind (h_reqs h' r) = r_kind (h_reqs h r)) /\
  (forall o, o_dl (h_objs h' o) = o_dl (h_objs h o) /\ o_key (h_objs h' o) = o_key (h_objs h o) /\
             o_cid (h_objs h' o) = o_cid (h_objs h o) /\ o_sid (h_objs h' o) = o_sid (h_objs h o)).
Proof.
  intros sc f h x Hi He Hx Hf.
  destruct (ok_slot_comp_empty h x Hi Hx) as [Hc Hr].
  destruct Hx as (A & B & C & D & E & F).
  unfold notifyf. rewrite He. cbn [N.eqb negb]. rewrite Hc. rewrite C.
  set (o := h_objs h (so x)). set (e := mkEv (f o) (sr x) (sc o)).
  set (h' := updR (updO h (so x) (fun o0 => o_notified o0 (f o0))) (sr x) (fun q => r_add_got q e)).
  assert (Hobj : forall o0, h_objs h' o0 = if o0 =? so x then o_notified o (f o) else h_objs h o0) by reflexivity.
  assert (Hreq : forall r, h_reqs h' r = if r =? sr x then r_add_got (h_reqs h (sr x)) e else h_reqs h r) by reflexivity.
  assert (Hn1 : h_nobj h' = h_nobj h) by reflexivity.
  assert (Hn2 : h_nreq h' = h_nreq h) by reflexivity.
  assert (Hn3 : h_pool h' = h_pool h) by reflexivity.
  assert (Hn4 : h_err h' = 0) by exact He.
  assert (Hn5 : h_broken h' = h_broken h) by reflexivity.
  assert (Hn6 : h_clock h' = h_clock h) by reflexivity.
  assert (Hg : forall r, hgot h' r = if r =? sr x then hgot h r ++ [e] else hgot h r).
  { intros r. unfold hgot. rewrite Hreq. destruct (r =? sr x) eqn:Er; [|reflexivity]. apply N.eqb_eq in Er. subst r. reflexivity. }
  clearbody h'.
  assert (Het : is_term e = true) by (unfold is_term, is_committed; cbn; rewrite Hf; reflexivity).
  assert (Hec : is_committed e = false) by (unfold is_committed; cbn; apply Hf).
  assert (Hnt : forall r, nterm (hgot h r) <> 0%nat -> nterm (hgot h' r) <> 0%nat).
  { intros r Hn. rewrite Hg. destruct (r =? sr x); [rewrite nterm_app; lia | exact Hn]. }
  assert (Hnc : forall r, ncomm (hgot h r) <> 0%nat -> ncomm (hgot h' r) <> 0%nat).
  { intros r Hn. rewrite Hg. destruct (r =? sr x); [rewrite ncomm_app; lia | exact Hn]. }
  assert (Hoo : o_owner o = sr x) by exact C.
  split; [|repeat (split; [assumption|]); split; [|split; [|split; [|split]]]].
  - constructor; rewrite ?Hn1, ?Hn2, ?Hn3.
    + intros r. rewrite Hg. destruct (r =? sr x) eqn:Er; [|apply Hi]. apply N.eqb_eq in Er. subst r.
      apply shape_add_term; [apply Hi | exact E | exact Het].
    + intros r e0. rewrite Hg. destruct (r =? sr x) eqn:Er; [|apply Hi]. apply N.eqb_eq in Er. subst r.
      intros Hin. apply in_app_or in Hin. destruct Hin as [Hin|[<-|[]]]; [apply Hi; exact Hin | reflexivity].
    + intros o0 Ho0. rewrite Hobj. destruct (o0 =? so x) eqn:Eo.
      * intros _. cbn. rewrite Hoo, Hg, N.eqb_refl, nterm_app. unfold nterm at 2. cbn. rewrite Het. cbn. lia.
      * intros Hp. apply Hnt. apply (hi_comp h Hi o0 Ho0 Hp).
    + intros o0 Ho0. rewrite Hobj. destruct (o0 =? so x) eqn:Eo.
      * apply N.eqb_eq in Eo. subst o0. cbn. intros Hp. apply Hnc. apply (hi_comm h Hi (so x) Ho0 Hp).
      * intros Hp. apply Hnc. apply (hi_comm h Hi o0 Ho0 Hp).
    + intros o0 Ho0. rewrite Hobj. destruct (o0 =? so x) eqn:Eo; [apply N.eqb_eq in Eo; subst o0; cbn|]; apply Hi; exact Ho0.
    + intros o0 Hin. destruct (hi_pool h Hi o0 Hin) as (P1 & P2 & P3).
      rewrite Hobj. destruct (o0 =? so x) eqn:Eo.
      * apply N.eqb_eq in Eo. subst o0. exfalso. fold o in P2. rewrite Hoo in P2. congruence.
      * split; [exact P1|]. split; [|exact P3]. rewrite Hreq.
        destruct (o_owner (h_objs h o0) =? sr x) eqn:Er; [|exact P2].
        apply N.eqb_eq in Er. rewrite Er in P2. congruence.
    + apply Hi.
    + intros r Hr0. rewrite Hreq. destruct (r =? sr x) eqn:Er.
      * apply N.eqb_eq in Er. subst r. cbn. intros _. rewrite Hobj, D, N.eqb_refl. cbn. auto.
      * intros Hrel. destruct (hi_own h Hi r Hr0 Hrel) as [O1 O2]. rewrite Hobj.
        destruct (r_obj (h_reqs h r) =? so x) eqn:Eo; [|auto].
        apply N.eqb_eq in Eo. rewrite Eo in O1. fold o in O1. rewrite Hoo in O1. apply N.eqb_neq in Er. congruence.
    + intros o0 Ho0. rewrite Hobj. destruct (o0 =? so x) eqn:Eo; [apply N.eqb_eq in Eo; subst o0; cbn|]; apply Hi; auto.
  - (* other ok slots *)
    intros y (A' & B' & C' & D' & E' & F') Hne.
    assert (Hso : so y <> so x) by (intros Eq; apply Hne; rewrite <- C', Eq; exact C).
    apply N.eqb_neq in Hne. apply N.eqb_neq in Hso.
    unfold ok_slot. rewrite Hn1, Hn2, Hobj, Hreq, Hg, Hso, Hne. repeat split; auto.
  - rewrite Hg, N.eqb_refl, nterm_app, E. unfold nterm. cbn. rewrite Het. reflexivity.
  - intros r Hr1. rewrite Hreq. apply N.eqb_neq in Hr1. rewrite Hr1. reflexivity.
  - intros r. rewrite Hreq. destruct (r =? sr x) eqn:Er; [apply N.eqb_eq in Er; subst r|]; split; reflexivity.
  - intros o0. rewrite Hobj. destruct (o0 =? so x) eqn:Er; [apply N.eqb_eq in Er; subst o0|]; repeat split; reflexivity.
Qed.

Definition frame (h h' : heap) : Prop :=
  h_err h' = 0 /\ h_broken h' = h_broken h /\ h_clock h' = h_clock h /\ h_nreq h' = h_nreq h /\
  h_nobj h' = h_nobj h /\ h_pool h' = h_pool h /\
  (forall r, r_status (h_reqs h' r) = r_status (h_reqs h r) /\ r_kind (h_reqs h' r) = r_kind (h_reqs h r)) /\
  (forall o, o_dl (h_objs h' o) = o_dl (h_objs h o) /\ o_key (h_objs h' o) = o_key (h_objs h o) /\
             o_cid (h_objs h' o) = o_cid (h_objs h o) /\ o_sid (h_objs h' o) = o_sid (h_objs h o)).

Lemma frame_refl : forall h, h_err h = 0 -> frame h h.
Proof. intros h He. unfold frame. repeat split; auto. Qed.
Lemma frame_trans : forall a b c, frame a b -> frame b c -> frame a c.
Proof.
  intros a b c (A1 & A2 & A3 & A4 & A5 & A6 & A7 & A8) (B1 & B2 & B3 & B4 & B5 & B6 & B7 & B8).
  unfold frame. repeat split; try congruence.
  - rewrite (proj1 (B7 r)). apply A7.
  - rewrite (proj2 (B7 r)). apply A7.
  - destruct (B8 o) as (X & _). rewrite X. apply A8.
  - destruct (B8 o) as (_ & X & _). rewrite X. apply A8.
  - destruct (B8 o) as (_ & _ & X & _). rewrite X. apply A8.
  - destruct (B8 o) as (_ & _ & _ & X). rewrite X. apply A8.
Qed.

Lemma finish_heap : forall sc f, terminal f -> forall xs rest h, HI h -> h_err h = 0 ->
  Forall (ok_slot h) (xs ++ rest) -> NoDup (map sr (xs ++ rest)) ->
  let h' := notifyf_all sc f h xs in
  HI h' /\ frame h h' /\ Forall (ok_slot h') rest /\
  (forall x, In x xs -> nterm (hgot h' (sr x)) = 1%nat) /\
  (forall r, ~ In r (map sr xs) -> h_reqs h' r = h_reqs h r).
Proof.
  intros sc f Hf xs. induction xs as [|x xs IH]; intros rest h Hi He Hok Hnd.
  - cbn. split; [exact Hi|]. split; [apply frame_refl; exact He|]. split; [exact Hok|]. split; [intros x []|reflexivity].
  - cbn [notifyf_all fold_left]. cbn in Hok, Hnd. inversion Hok as [|? ? Hx Hok']; subst. inversion Hnd as [|? ? Hnx Hnd']; subst.
    destruct (notifyf_ok sc f h x Hi He Hx Hf) as (Hi1 & He1 & Hb1 & Hc1 & Hq1 & Ho1 & Hp1 & Hoth & Hn1 & Hsame & Hst & Hob).
    assert (Hok1 : Forall (ok_slot (notifyf sc f h x)) (xs ++ rest)).
    { rewrite Forall_forall in *. intros y Hy. apply Hoth; [apply Hok'; exact Hy|].
      intros Eq. apply Hnx. rewrite <- Eq. apply in_map. exact Hy. }
    destruct (IH rest (notifyf sc f h x) Hi1 He1 Hok1 Hnd') as (Hi2 & Hfr & Hr2 & Hn2 & Hs2).
    split; [exact Hi2|]. split; [|split; [exact Hr2|split]].
    + eapply frame_trans; [|exact Hfr]. unfold frame. repeat split; auto; try apply Hst; apply Hob.
    + intros y [<-|Hy]; [|apply Hn2; exact Hy].
      unfold hgot. change (notifyf_all sc f (notifyf sc f h x) xs) with (fold_left (notifyf sc f) xs (notifyf sc f h x)) in Hs2.
      unfold notifyf_all in Hs2. rewrite Hs2; [exact Hn1|].
      intros Hin. apply Hnx. rewrite map_app. apply in_or_app. left. exact Hin.
    + intros r Hr. unfold notifyf_all in Hs2. rewrite Hs2; [apply Hsame|]; intros Eq; apply Hr; cbn; auto.
Qed.

Lemma has_committed_false : forall l, has_committed l = false -> ncomm l = 0%nat.
Proof.
  induction l as [|e l IH]; [reflexivity|]. unfold has_committed, ncomm in *. cbn.
  fold (is_committed e). destruct (is_committed e); cbn; [discriminate | exact IH].
Qed.

Lemma notify_commit_ok : forall h x, HI h -> h_err h = 0 -> ok_slot h x ->
  let h' := notify_commit h x in
  h_err h' = 0 -> h_broken h' = false ->
  HI h' /\ frame h h' /\ (forall y, ok_slot h y -> ok_slot h' y).
Proof.
  intros h x Hi He Hx. destruct Hx as (A & B & C & D & E & F). unfold notify_commit. rewrite He. cbn [N.eqb negb].
  destruct (o_nc (h_objs h (so x))) eqn:Enc; cbn [negb]; [|cbn; discriminate].
  destruct (o_hascomm (h_objs h (so x))) eqn:Ehc; cbn [negb]; [|cbn; discriminate].
  destruct (o_comm (h_objs h (so x))) eqn:Ecm; [|cbn; discriminate].
  rewrite C. destruct (has_committed (r_got (h_reqs h (sr x)))) eqn:Ehas; [cbn; discriminate|].
  apply has_committed_false in Ehas. fold (hgot h (sr x)) in Ehas.
  set (o := h_objs h (so x)). set (e := mkEv (mkRes cCommitted 0 0) (sr x) SCommit).
  set (h' := updR (updO h (so x) (fun o0 => o_committed o0 (mkRes cCommitted 0 0))) (sr x) (fun q => r_add_got q e)).
  assert (Hobj : forall o0, h_objs h' o0 = if o0 =? so x then o_committed o (mkRes cCommitted 0 0) else h_objs h o0) by reflexivity.
  assert (Hreq : forall r, h_reqs h' r = if r =? sr x then r_add_got (h_reqs h (sr x)) e else h_reqs h r) by reflexivity.
  assert (Hn1 : h_nobj h' = h_nobj h) by reflexivity.
  assert (Hn2 : h_nreq h' = h_nreq h) by reflexivity.
  assert (Hn3 : h_pool h' = h_pool h) by reflexivity.
  assert (Hn4 : h_err h' = 0) by exact He.
  assert (Hn5 : h_broken h' = h_broken h) by reflexivity.
  assert (Hn6 : h_clock h' = h_clock h) by reflexivity.
  assert (Hg : forall r, hgot h' r = if r =? sr x then hgot h r ++ [e] else hgot h r).
  { intros r. unfold hgot. rewrite Hreq. destruct (r =? sr x) eqn:Er; [|reflexivity]. apply N.eqb_eq in Er. subst r. reflexivity. }
  clearbody h'. intros _ _.
  assert (Hec : is_committed e = true) by reflexivity.
  assert (Het : is_term e = false) by reflexivity.
  assert (Hnt : forall r, nterm (hgot h' r) = nterm (hgot h r)).
  { intros r. rewrite Hg. destruct (r =? sr x); [|reflexivity]. rewrite nterm_app. unfold nterm at 2. cbn. lia. }
  assert (Hnc : forall r, ncomm (hgot h r) <> 0%nat -> ncomm (hgot h' r) <> 0%nat).
  { intros r Hn. rewrite Hg. destruct (r =? sr x); [rewrite ncomm_app; lia | exact Hn]. }
  assert (Hoo : o_owner o = sr x) by exact C.
  split; [|split].
  - constructor; rewrite ?Hn1, ?Hn2, ?Hn3.
    + intros r. rewrite Hg. destruct (r =? sr x) eqn:Er; [|apply Hi]. apply N.eqb_eq in Er. subst r.
      apply shape_add_comm; [apply Hi | exact E | exact Ehas | exact Hec].
    + intros r e0. rewrite Hg. destruct (r =? sr x) eqn:Er; [|apply Hi]. apply N.eqb_eq in Er. subst r.
      intros Hin. apply in_app_or in Hin. destruct Hin as [Hin|[<-|[]]]; [apply Hi; exact Hin | reflexivity].
    + intros o0 Ho0. rewrite Hobj. destruct (o0 =? so x) eqn:Eo.
      * apply N.eqb_eq in Eo. subst o0. cbn. intros Hp. rewrite Hnt. apply (hi_comp h Hi (so x) Ho0 Hp).
      * intros Hp. rewrite Hnt. apply (hi_comp h Hi o0 Ho0 Hp).
    + intros o0 Ho0. rewrite Hobj. destruct (o0 =? so x) eqn:Eo.
      * cbn. intros _. rewrite Hoo, Hg, N.eqb_refl, ncomm_app. unfold ncomm at 2. cbn. lia.
      * intros Hp. apply Hnc. apply (hi_comm h Hi o0 Ho0 Hp).
    + intros o0 Ho0. rewrite Hobj. destruct (o0 =? so x) eqn:Eo; [apply N.eqb_eq in Eo; subst o0; cbn|]; apply Hi; exact Ho0.
    + intros o0 Hin. destruct (hi_pool h Hi o0 Hin) as (P1 & P2 & P3).
      rewrite Hobj, Hreq. destruct (o0 =? so x) eqn:Eo.
      * apply N.eqb_eq in Eo. subst o0. exfalso. fold o in P2. rewrite Hoo in P2. congruence.
      * split; [exact P1|]. split; [|exact P3].
        destruct (o_owner (h_objs h o0) =? sr x) eqn:Er; [|exact P2].
        apply N.eqb_eq in Er. rewrite Er in P2. congruence.
    + apply Hi.
    + intros r Hr0. rewrite Hreq. destruct (r =? sr x) eqn:Er.
      * apply N.eqb_eq in Er. subst r. cbn. intros _. rewrite Hobj, D, N.eqb_refl. cbn. auto.
      * intros Hrel. destruct (hi_own h Hi r Hr0 Hrel) as [O1 O2]. rewrite Hobj.
        destruct (r_obj (h_reqs h r) =? so x) eqn:Eo; [|auto].
        apply N.eqb_eq in Eo. rewrite Eo in O1. fold o in O1. rewrite Hoo in O1. apply N.eqb_neq in Er. congruence.
    + intros o0 Ho0. rewrite Hobj. destruct (o0 =? so x) eqn:Eo; [apply N.eqb_eq in Eo; subst o0; cbn|]; apply Hi; auto.
  - unfold frame. repeat split; auto.
    + rewrite Hreq. destruct (r =? sr x) eqn:Er; [apply N.eqb_eq in Er; subst r|]; reflexivity.
    + rewrite Hreq. destruct (r =? sr x) eqn:Er; [apply N.eqb_eq in Er; subst r|]; reflexivity.
    + rewrite Hobj. destruct (o0 =? so x) eqn:Er; [apply N.eqb_eq in Er; subst o0|]; reflexivity.
    + rewrite Hobj. destruct (o0 =? so x) eqn:Er; [apply N.eqb_eq in Er; subst o0|]; reflexivity.
    + rewrite Hobj. destruct (o0 =? so x) eqn:Er; [apply N.eqb_eq in Er; subst o0|]; reflexivity.
    + rewrite Hobj. destruct (o0 =? so x) eqn:Er; [apply N.eqb_eq in Er; subst o0|]; reflexivity.
  - intros y (A' & B' & C' & D' & E' & F'). unfold ok_slot. rewrite Hn1, Hn2, Hobj, Hreq, Hnt.
    destruct (so y =? so x) eqn:E1.
    + apply N.eqb_eq in E1. assert (E2 : sr y = sr x) by (rewrite <- C', E1; exact C).
      rewrite E2, N.eqb_refl. cbn. rewrite <- E2. repeat split; auto. rewrite Hoo. auto.
    + destruct (sr y =? sr x) eqn:E2; [|repeat split; auto].
      apply N.eqb_eq in E2. exfalso. apply N.eqb_neq in E1. apply E1. rewrite <- D', E2. exact D.
Qed.

Lemma remove_nth_split : forall A (l : list A) n x, nth_error l n = Some x ->
  exists l1 l2, l = l1 ++ x :: l2 /\ remove_nth n l = l1 ++ l2.
Proof.
  induction l as [|a l IH]; destruct n; cbn; intros x Hx; try discriminate.
  - inversion Hx; subst. exists [], l. split; reflexivity.
  - destruct (IH n x Hx) as (l1 & l2 & E1 & E2). exists (a :: l1), l2. split; [cbn; rewrite <- E1; reflexivity|].
    unfold remove_nth in *. cbn [firstn app]. rewrite <- E2. reflexivity.
Qed.

(* allocation of a request: pool.Get / pool.New + reuse, then the new request record *)
Lemma alloc_ok : forall pick ncf key cid sid dl h q, HI h ->
  let h1 := fst (get_obj pick ncf (h_nreq h) key cid sid dl h) in
  let o := snd (get_obj pick ncf (h_nreq h) key cid sid dl h) in
  r_obj q = o -> r_got q = [] -> r_rel q = false ->
  let h' := add_req h1 q in
  HI h' /\ ok_slot h' (mkSlot o (h_nreq h)) /\ (forall y, ok_slot h y -> ok_slot h' y) /\
  h_err h' = h_err h /\ h_broken h' = h_broken h /\ h_clock h' = h_clock h /\ h_nreq h' = h_nreq h + 1 /\
  h_reqs h' (h_nreq h) = q /\
  (forall r, r <> h_nreq h -> hgot h' r = hgot h r /\ r_status (h_reqs h' r) = r_status (h_reqs h r) /\
                              r_kind (h_reqs h' r) = r_kind (h_reqs h r) /\ r_key (h_reqs h' r) = r_key (h_reqs h r)) /\
  h_objs h' o = mkObj key cid sid dl ncf [] [] ncf false (h_nreq h) /\
  (forall y, ok_slot h y -> h_objs h' (so y) = h_objs h (so y)).
Proof.
  intros pick ncf key cid sid dl h q Hi. unfold get_obj.
  destruct (nth_error (h_pool h) (N.to_nat pick)) as [o|] eqn:Ep; cbn [fst snd]; intros Hq1 Hq2 Hq3.
  - (* reuse of a pooled object *)
    assert (Hin : In o (h_pool h)) by (eapply nth_error_In; exact Ep).
    destruct (hi_pool h Hi o Hin) as (P1 & P2 & P3).
    set (ob := h_objs h o) in *. set (prev := o_owner ob) in *. set (rid := h_nreq h).
    set (pool' := remove_nth (N.to_nat pick) (h_pool h)).
    set (h' := add_req (updO (set_pool (updR h prev (fun q0 => r_set_left q0 (o_comp ob) (o_comm ob))) pool') o
                         (fun _ => mkObj key cid sid dl ncf [] [] ncf (o_rtr ob) rid)) q).
    assert (Hobj : forall o0, h_objs h' o0 = if o0 =? o then mkObj key cid sid dl ncf [] [] ncf (o_rtr ob) rid else h_objs h o0) by reflexivity.
    assert (Hreq : forall r, h_reqs h' r = if r =? rid then q else if r =? prev then r_set_left (h_reqs h prev) (o_comp ob) (o_comm ob) else h_reqs h r) by reflexivity.
    assert (Hn1 : h_nobj h' = h_nobj h) by reflexivity.
    assert (Hn2 : h_nreq h' = rid + 1) by reflexivity.
    assert (Hn3 : h_pool h' = pool') by reflexivity.
    assert (Hn4 : h_err h' = h_err h) by reflexivity.
    assert (Hn5 : h_broken h' = h_broken h) by reflexivity.
    assert (Hn6 : h_clock h' = h_clock h) by reflexivity.
    clearbody h'.
    assert (Hprev : prev < rid) by (apply (hi_owner_lt h Hi o P1)).
    assert (Hg : forall r, r <> rid -> hgot h' r = hgot h r).
    { intros r Hr. unfold hgot. rewrite Hreq. apply N.eqb_neq in Hr. rewrite Hr.
      destruct (r =? prev) eqn:E; [apply N.eqb_eq in E; subst r|]; reflexivity. }
    assert (Hg0 : hgot h' rid = []) by (unfold hgot; rewrite Hreq, N.eqb_refl; exact Hq2).
    assert (Hrel : forall r, r <> rid -> r_rel (h_reqs h' r) = r_rel (h_reqs h r)).
    { intros r Hr. rewrite Hreq. apply N.eqb_neq in Hr. rewrite Hr.
      destruct (r =? prev) eqn:E; [apply N.eqb_eq in E; subst r|]; reflexivity. }
    assert (Hrobj : forall r, r <> rid -> r_obj (h_reqs h' r) = r_obj (h_reqs h r)).
    { intros r Hr. rewrite Hreq. apply N.eqb_neq in Hr. rewrite Hr.
      destruct (r =? prev) eqn:E; [apply N.eqb_eq in E; subst r|]; reflexivity. }
    assert (Hpin : forall x, In x pool' -> In x (h_pool h) /\ x <> o).
    { intros x Hx. unfold pool' in Hx. pose proof (hi_pool_nd h Hi) as Hnd.
      destruct (remove_nth_split _ _ _ _ Ep) as (l1 & l2 & El & Er). rewrite Er in Hx. rewrite El in *.
      apply NoDup_remove in Hnd. destruct Hnd as [_ Hnot].
      split; [apply in_app_or in Hx; apply in_or_app; destruct Hx; [left|right; right]; assumption|].
      intros ->. apply Hnot. exact Hx. }
    assert (Hokold : forall y, ok_slot h y -> so y <> o /\ sr y <> rid /\ sr y <> prev).
    { intros y (A & B & C & D & E & F). assert (Hyp : sr y <> prev) by (intros Eq; rewrite Eq in F; congruence).
      split; [|split; [fold rid in A; lia | exact Hyp]]. intros Eq. apply Hyp. rewrite <- C, Eq. reflexivity. }
    split; [|split; [|split]].
    + constructor; rewrite ?Hn1, ?Hn2, ?Hn3.
      * intros r. destruct (N.eq_dec r rid) as [->|Hr]; [rewrite Hg0; exact I | rewrite Hg by exact Hr; apply Hi].
      * intros r e. destruct (N.eq_dec r rid) as [->|Hr]; [rewrite Hg0; intros [] | rewrite Hg by exact Hr; apply Hi].
      * intros o0 Ho0. rewrite Hobj. destruct (o0 =? o) eqn:Eo; [cbn; rewrite P3; intros [X|X]; [contradiction|discriminate]|].
        intros Hp. assert (o_owner (h_objs h o0) <> rid) by (pose proof (hi_owner_lt h Hi o0 Ho0); lia).
        rewrite Hg by assumption. apply (hi_comp h Hi o0 Ho0 Hp).
      * intros o0 Ho0. rewrite Hobj. destruct (o0 =? o) eqn:Eo; [cbn; intros X; contradiction|].
        intros Hp. assert (o_owner (h_objs h o0) <> rid) by (pose proof (hi_owner_lt h Hi o0 Ho0); lia).
        rewrite Hg by assumption. apply (hi_comm h Hi o0 Ho0 Hp).
      * intros o0 Ho0. rewrite Hobj. destruct (o0 =? o) eqn:Eo; [cbn; auto | apply Hi; exact Ho0].
      * intros o0 Hx. destruct (Hpin o0 Hx) as [Hx1 Hx2]. destruct (hi_pool h Hi o0 Hx1) as (Q1 & Q2 & Q3).
        rewrite Hobj. apply N.eqb_neq in Hx2. rewrite Hx2. split; [exact Q1|]. split; [|exact Q3].
        rewrite Hrel; [exact Q2|]. pose proof (hi_owner_lt h Hi o0 Q1). lia.
      * unfold pool'. pose proof (hi_pool_nd h Hi) as Hnd.
        destruct (remove_nth_split _ _ _ _ Ep) as (l1 & l2 & El & Er). rewrite Er. rewrite El in Hnd.
        apply NoDup_remove in Hnd. apply Hnd.
      * intros r Hr. destruct (N.eq_dec r rid) as [->|Hne].
        -- rewrite Hreq, N.eqb_refl, Hq1, Hobj, N.eqb_refl. cbn. auto.
        -- rewrite Hrel, Hrobj by exact Hne. intros Hf. destruct (hi_own h Hi r ltac:(lia) Hf) as [O1 O2].
           rewrite Hobj. destruct (r_obj (h_reqs h r) =? o) eqn:Eo; [|auto].
           apply N.eqb_eq in Eo. rewrite Eo in O1. fold ob in O1. fold prev in O1. subst r. congruence.
      * intros o0 Ho0. rewrite Hobj. destruct (o0 =? o); [cbn; lia | pose proof (hi_owner_lt h Hi o0 Ho0); lia].
    + unfold ok_slot. cbn [so sr]. rewrite Hn1, Hn2, Hobj, N.eqb_refl, Hg0, Hreq, N.eqb_refl. cbn.
      repeat split; auto. lia.
    + intros y Hy. destruct (Hokold y Hy) as (Y1 & Y2 & Y3). destruct Hy as (A & B & C & D & E & F).
      unfold ok_slot. rewrite Hn1, Hn2, Hobj, Hg, Hrel, Hrobj by assumption.
      apply N.eqb_neq in Y1. rewrite Y1. repeat split; auto. lia.
    + repeat (split; [assumption|]). split; [rewrite Hreq, N.eqb_refl; reflexivity|].
      split; [|split].
      * intros r Hr. split; [apply Hg; exact Hr|]. rewrite Hreq. apply N.eqb_neq in Hr. rewrite Hr.
        destruct (r =? prev) eqn:E; [apply N.eqb_eq in E; subst r|]; auto.
      * rewrite Hobj, N.eqb_refl, P3. reflexivity.
      * intros y Hy. destruct (Hokold y Hy) as (Y1 & _). rewrite Hobj. apply N.eqb_neq in Y1. rewrite Y1. reflexivity.
  - (* a new object *)
    set (rid := h_nreq h). set (o := h_nobj h).
    set (h' := add_req (set_nobj (updO h o (fun _ => mkObj key cid sid dl ncf [] [] ncf false rid)) (o + 1)) q).
    assert (Hobj : forall o0, h_objs h' o0 = if o0 =? o then mkObj key cid sid dl ncf [] [] ncf false rid else h_objs h o0) by reflexivity.
    assert (Hreq : forall r, h_reqs h' r = if r =? rid then q else h_reqs h r) by reflexivity.
    assert (Hn1 : h_nobj h' = o + 1) by reflexivity.
    assert (Hn2 : h_nreq h' = rid + 1) by reflexivity.
    assert (Hn3 : h_pool h' = h_pool h) by reflexivity.
    assert (Hn4 : h_err h' = h_err h) by reflexivity.
    assert (Hn5 : h_broken h' = h_broken h) by reflexivity.
    assert (Hn6 : h_clock h' = h_clock h) by reflexivity.
    clearbody h'.
    assert (Hg : forall r, r <> rid -> hgot h' r = hgot h r).
    { intros r Hr. unfold hgot. rewrite Hreq. apply N.eqb_neq in Hr. rewrite Hr. reflexivity. }
    assert (Hg0 : hgot h' rid = []) by (unfold hgot; rewrite Hreq, N.eqb_refl; exact Hq2).
    split; [|split; [|split]].
    + constructor; rewrite ?Hn1, ?Hn2, ?Hn3.
      * intros r. destruct (N.eq_dec r rid) as [->|Hr]; [rewrite Hg0; exact I | rewrite Hg by exact Hr; apply Hi].
      * intros r e. destruct (N.eq_dec r rid) as [->|Hr]; [rewrite Hg0; intros [] | rewrite Hg by exact Hr; apply Hi].
      * intros o0 Ho0. rewrite Hobj. destruct (o0 =? o) eqn:Eo; [cbn; intros [X|X]; [contradiction|discriminate]|].
        apply N.eqb_neq in Eo. assert (Ho1 : o0 < h_nobj h) by (fold o; lia). intros Hp.
        assert (o_owner (h_objs h o0) <> rid) by (pose proof (hi_owner_lt h Hi o0 Ho1); lia).
        rewrite Hg by assumption. apply (hi_comp h Hi o0 Ho1 Hp).
      * intros o0 Ho0. rewrite Hobj. destruct (o0 =? o) eqn:Eo; [cbn; intros X; contradiction|].
        apply N.eqb_neq in Eo. assert (Ho1 : o0 < h_nobj h) by (fold o; lia). intros Hp.
        assert (o_owner (h_objs h o0) <> rid) by (pose proof (hi_owner_lt h Hi o0 Ho1); lia).
        rewrite Hg by assumption. apply (hi_comm h Hi o0 Ho1 Hp).
      * intros o0 Ho0. rewrite Hobj. destruct (o0 =? o) eqn:Eo; [cbn; auto|].
        apply N.eqb_neq in Eo. apply Hi. fold o. lia.
      * intros o0 Hx. destruct (hi_pool h Hi o0 Hx) as (Q1 & Q2 & Q3). fold o in Q1.
        rewrite Hobj. assert (Eo : o0 =? o = false) by (apply N.eqb_neq; lia). rewrite Eo.
        split; [lia|]. split; [|exact Q3]. rewrite Hreq.
        assert (Er : o_owner (h_objs h o0) =? rid = false) by (apply N.eqb_neq; pose proof (hi_owner_lt h Hi o0 Q1); lia).
        rewrite Er. exact Q2.
      * apply Hi.
      * intros r Hr. rewrite Hreq. destruct (r =? rid) eqn:Er.
        -- rewrite Hq1, Hobj, N.eqb_refl. cbn. apply N.eqb_eq in Er. split; [auto|lia].
        -- apply N.eqb_neq in Er. intros Hf. destruct (hi_own h Hi r ltac:(lia) Hf) as [O1 O2]. fold o in O2.
           rewrite Hobj. assert (Eo : r_obj (h_reqs h r) =? o = false) by (apply N.eqb_neq; lia). rewrite Eo. split; [auto|lia].
      * intros o0 Ho0. rewrite Hobj. destruct (o0 =? o) eqn:Eo; [cbn; lia|].
        apply N.eqb_neq in Eo. assert (Ho1 : o0 < h_nobj h) by (fold o; lia). pose proof (hi_owner_lt h Hi o0 Ho1). lia.
    + unfold ok_slot. cbn [so sr]. rewrite Hn1, Hn2, Hobj, N.eqb_refl, Hg0, Hreq, N.eqb_refl. cbn.
      repeat split; auto; lia.
    + intros y (A & B & C & D & E & F). fold o in B. fold rid in A.
      unfold ok_slot. rewrite Hn1, Hn2, Hobj, Hreq.
      assert (E1 : so y =? o = false) by (apply N.eqb_neq; lia).
      assert (E2 : sr y =? rid = false) by (apply N.eqb_neq; lia).
      rewrite E1, E2, Hg by lia. repeat split; auto; lia.
    + repeat (split; [assumption|]). split; [rewrite Hreq, N.eqb_refl; reflexivity|].
      split; [|split].
      * intros r Hr. split; [apply Hg; exact Hr|]. rewrite Hreq. apply N.eqb_neq in Hr. rewrite Hr. auto.
      * rewrite Hobj, N.eqb_refl. reflexivity.
      * intros y (A & B & _). fold o in B. rewrite Hobj. assert (E1 : so y =? o = false) by (apply N.eqb_neq; lia). rewrite E1. reflexivity.
Qed.

(* ---- heap changes that do not touch what HI / ok_slot look at ---- *)
Lemma HI_ext : forall h h', h_objs h' = h_objs h -> h_reqs h' = h_reqs h -> h_nobj h' = h_nobj h ->
  h_nreq h' = h_nreq h -> h_pool h' = h_pool h -> HI h -> HI h'.
Proof.
  intros h h' E1 E2 E3 E4 E5 Hi. constructor; unfold hgot; rewrite ?E1, ?E2, ?E3, ?E4, ?E5; apply Hi.
Qed.
Lemma ok_slot_ext : forall h h' y, h_objs h' = h_objs h -> h_reqs h' = h_reqs h -> h_nobj h' = h_nobj h ->
  h_nreq h' = h_nreq h -> ok_slot h y -> ok_slot h' y.
Proof. intros h h' y E1 E2 E3 E4. unfold ok_slot, hgot. rewrite E1, E2, E3, E4. auto. Qed.

(* sequences of terminal notifications with their own source / result functions *)
Fixpoint nseq (l : list ((obj -> src) * (obj -> res) * slot)) (h : heap) : heap :=
  match l with
  | [] => h
  | (sc, f, x) :: l => nseq l (notifyf sc f h x)
  end.
Lemma nseq_app : forall a b h, nseq (a ++ b) h = nseq b (nseq a h).
Proof. induction a as [|[[sc f] x] a IH]; intros; cbn; [reflexivity | apply IH]. Qed.
Lemma notifyf_all_nseq : forall sc f xs h, notifyf_all sc f h xs = nseq (map (fun x => (sc, f, x)) xs) h.
Proof. intros sc f xs. induction xs as [|x xs IH]; intros h; cbn; [reflexivity | apply IH]. Qed.

Lemma finish_seq : forall l rest h, HI h -> h_err h = 0 ->
  Forall (fun t => terminal (snd (fst t))) l ->
  Forall (ok_slot h) (map snd l ++ rest) -> NoDup (map sr (map snd l ++ rest)) ->
  let h' := nseq l h in
  HI h' /\ frame h h' /\ Forall (ok_slot h') rest /\
  (forall x, In x (map snd l) -> nterm (hgot h' (sr x)) = 1%nat) /\
  (forall r, ~ In r (map sr (map snd l)) -> h_reqs h' r = h_reqs h r).
Proof.
  induction l as [|[[sc f] x] l IH]; intros rest h Hi He Hf Hok Hnd.
  - cbn. split; [exact Hi|]. split; [apply frame_refl; exact He|]. split; [exact Hok|]. split; [intros x []|reflexivity].
  - cbn [nseq]. cbn in Hok, Hnd. inversion Hok as [|? ? Hx Hok']; subst. inversion Hnd as [|? ? Hnx Hnd']; subst.
    inversion Hf as [|? ? Hfx Hf']; subst. cbn in Hfx.
    destruct (notifyf_ok sc f h x Hi He Hx Hfx) as (Hi1 & He1 & Hb1 & Hc1 & Hq1 & Ho1 & Hp1 & Hoth & Hn1 & Hsame & Hst & Hob).
    assert (Hok1 : Forall (ok_slot (notifyf sc f h x)) (map snd l ++ rest)).
    { rewrite Forall_forall in *. intros y Hy. apply Hoth; [apply Hok'; exact Hy|].
      intros Eq. apply Hnx. rewrite <- Eq. apply in_map. exact Hy. }
    destruct (IH rest (notifyf sc f h x) Hi1 He1 Hf' Hok1 Hnd') as (Hi2 & Hfr & Hr2 & Hn2 & Hs2).
    split; [exact Hi2|]. split; [|split; [exact Hr2|split]].
    + eapply frame_trans; [|exact Hfr]. unfold frame. repeat split; auto; try apply Hst; apply Hob.
    + intros y [<-|Hy]; [|apply Hn2; exact Hy].
      unfold hgot. rewrite Hs2; [exact Hn1|].
      intros Hin. apply Hnx. rewrite map_app. apply in_or_app. left. exact Hin.
    + intros r Hr. rewrite Hs2; [apply Hsame|]; intros Eq; apply Hr; cbn; auto.
Qed.

(* ================================================================== *)
(* table part                                                           *)
Definition olist {A} (o : option A) : list A := match o with Some x => [x] | None => [] end.
Definition alive (s : st) (kv : N * slot) : bool := negb (p_stop (P s) (fst kv mod cps s)).
Definition live_pend (s : st) : list slot := map snd (filter (alive s) (pend (P s))).
Definition live_reads (s : st) : list slot :=
  rq (R s) ++ taken (R s) ++ (if rd_stop (R s) then [] else batch_slots (batches (R s))).
Definition live (s : st) : list slot :=
  live_pend s ++ live_reads s ++ olist (x_pend (C s)) ++ olist (x_pend (S s)) ++ olist (lq_pend s).

Record LI (s : st) : Prop := mkLI {
  li_h : HI (H s);
  li_ok : Forall (ok_slot (H s)) (live s);
  li_nd : NoDup (map sr (live s));
  li_keys : NoDup (map fst (pend (P s)));
  li_cm : cm_b (P s) = None }.

Lemma NoDup_app_r : forall A (a b : list A), NoDup (a ++ b) -> NoDup b.
Proof. induction a as [|x a IH]; cbn; intros b Hn; [exact Hn|]. inversion Hn; subst. apply IH. assumption. Qed.

(* the step notified [map snd l], silently forgot [drop], kept the rest *)
Lemma LI_finish : forall s s' l drop, LI s -> h_err (H s) = 0 ->
  Forall (fun t => terminal (snd (fst t))) l ->
  Permutation (live s) (map snd l ++ drop ++ live s') ->
  H s' = nseq l (H s) -> NoDup (map fst (pend (P s'))) -> cm_b (P s') = None ->
  LI s' /\ frame (H s) (H s').
Proof.
  intros s s' l drop Li He Hf Hp Hh Hk Hc.
  assert (Hok : Forall (ok_slot (H s)) (map snd l ++ drop ++ live s')).
  { eapply Permutation_Forall; [exact Hp | apply Li]. }
  assert (Hnd : NoDup (map sr (map snd l ++ drop ++ live s'))).
  { eapply Permutation_NoDup; [apply Permutation_map; exact Hp | apply Li]. }
  destruct (finish_seq l (drop ++ live s') (H s) (li_h s Li) He Hf Hok Hnd) as (Hi' & Hfr & Hok' & _ & _).
  rewrite <- Hh in *. split; [|exact Hfr]. constructor; auto.
  - apply Forall_app in Hok'. apply Hok'.
  - rewrite !map_app in Hnd. apply NoDup_app_r in Hnd. apply NoDup_app_r in Hnd. exact Hnd.
Qed.

Lemma perm_filter_split : forall A (p : A -> bool) l,
  Permutation l (filter p l ++ filter (fun x => negb (p x)) l).
Proof.
  intros A p. induction l as [|a l IH]; [constructor|]. cbn. destruct (p a); cbn.
  - constructor. exact IH.
  - apply Permutation_cons_app. exact IH.
Qed.
Lemma filter_filter_comm : forall A (p q : A -> bool) l, filter p (filter q l) = filter q (filter p l).
Proof.
  intros A p q. induction l as [|a l IH]; [reflexivity|]. cbn.
  destruct (q a) eqn:Eq, (p a) eqn:Ep; cbn; rewrite ?Eq, ?Ep, IH; reflexivity.
Qed.
Lemma NoDup_map_filter : forall A B (g : A -> B) p l, NoDup (map g l) -> NoDup (map g (filter p l)).
Proof.
  intros A B g p. induction l as [|a l IH]; cbn; intros Hn; [constructor|]. inversion Hn; subst.
  destruct (p a); cbn; [constructor|]; auto. intros Hin. apply H1. apply in_map_iff in Hin.
  destruct Hin as (x & E & Hx). apply filter_In in Hx. apply in_map_iff. exists x. split; [exact E | apply Hx].
Qed.

Lemma find_key_none : forall key l, find_key key l = None -> remove_key key l = l.
Proof.
  intros key. induction l as [|kv l IH]; [reflexivity|]. unfold find_key, remove_key in *. cbn.
  destruct (fst kv =? key) eqn:E; cbn; [discriminate|]. intros Hn. f_equal. apply IH. exact Hn.
Qed.
Lemma find_key_some : forall key l sl, NoDup (map fst l) -> find_key key l = Some sl ->
  filter (fun kv => fst kv =? key) l = [(key, sl)].
Proof.
  intros key. induction l as [|kv l IH]; intros sl Hnd Hf; [discriminate|]. unfold find_key in *. cbn in *.
  inversion Hnd; subst. destruct (fst kv =? key) eqn:E.
  - inversion Hf; subst. apply N.eqb_eq in E. destruct kv as [k v]. cbn in *. subst k. f_equal.
    assert (forall l0 : list (N * slot), ~ In key (map fst l0) -> filter (fun kv => fst kv =? key) l0 = []) as Hnone.
    { induction l0 as [|a l0 IH0]; [reflexivity|]. cbn. intros Hni. destruct (fst a =? key) eqn:Ea.
      - apply N.eqb_eq in Ea. exfalso. apply Hni. left. exact Ea.
      - apply IH0. intros Hin. apply Hni. right. exact Hin. }
    apply Hnone. exact H1.
  - apply IH; assumption.
Qed.

Lemma perm_mid : forall A (a b b' c x d : list A),
  Permutation b (x ++ d ++ b') -> Permutation (a ++ b ++ c) (x ++ d ++ a ++ b' ++ c).
Proof.
  intros A a b b' c x d Hp.
  transitivity (a ++ (x ++ d ++ b') ++ c).
  - apply Permutation_app_head. apply Permutation_app_tail. exact Hp.
  - replace (a ++ (x ++ d ++ b') ++ c) with (a ++ (x ++ d) ++ (b' ++ c)) by (rewrite <- !app_assoc; reflexivity).
    replace (x ++ d ++ a ++ b' ++ c) with ((x ++ d) ++ a ++ (b' ++ c)) by (rewrite <- !app_assoc; reflexivity).
    apply Permutation_app_swap_app.
Qed.
Lemma perm_head : forall A (a a' c x d : list A),
  Permutation a (x ++ d ++ a') -> Permutation (a ++ c) (x ++ d ++ a' ++ c).
Proof. intros A a a' c x d Hp. apply (perm_mid A [] a a' c x d Hp). Qed.

Lemma NoDup_app_intro : forall A (a b : list A), NoDup a -> NoDup b ->
  (forall x, In x a -> In x b -> False) -> NoDup (a ++ b).
Proof.
  induction a as [|x a IH]; cbn; intros b Ha Hb Hd; [exact Hb|]. inversion Ha; subst. constructor.
  - intros Hin. apply in_app_or in Hin. destruct Hin as [Hin|Hin]; [contradiction | apply (Hd x); auto].
  - apply IH; auto. intros y Hy1 Hy2. apply (Hd y); auto.
Qed.

Lemma LI_same_heap : forall s s', LI s -> H s' = H s -> Permutation (live s) (live s') ->
  NoDup (map fst (pend (P s'))) -> cm_b (P s') = None -> LI s'.
Proof.
  intros s s' Li Hh Hp Hk Hc. constructor; auto; rewrite ?Hh.
  - apply Li.
  - eapply Permutation_Forall; [exact Hp | apply Li].
  - eapply Permutation_NoDup; [apply Permutation_map; exact Hp | apply Li].
Qed.
Lemma LI_drop : forall s s' drop, LI s -> H s' = H s -> Permutation (live s) (drop ++ live s') ->
  NoDup (map fst (pend (P s'))) -> cm_b (P s') = None -> LI s'.
Proof.
  intros s s' drop Li Hh Hp Hk Hc. constructor; auto; rewrite ?Hh.
  - apply Li.
  - pose proof (Permutation_Forall Hp (li_ok s Li)) as Hf. apply Forall_app in Hf. apply Hf.
  - pose proof (Permutation_NoDup (Permutation_map sr Hp) (li_nd s Li)) as Hn. rewrite map_app in Hn.
    apply NoDup_app_r in Hn. exact Hn.
Qed.
(* heap changed, but ok_slot of every old live slot survives and the new live list is
   the old one plus fresh ok slots with new request ids *)
Lemma LI_heap : forall s s' news, LI s -> HI (H s') ->
  (forall y, ok_slot (H s) y -> ok_slot (H s') y) ->
  Forall (ok_slot (H s')) news -> NoDup (map sr news) ->
  (forall y, In y news -> h_nreq (H s) <= sr y) ->
  Permutation (live s') (news ++ live s) ->
  NoDup (map fst (pend (P s'))) -> cm_b (P s') = None -> LI s'.
Proof.
  intros s s' news Li Hi Hold Hnew Hnn Hfresh Hp Hk Hc. constructor; auto.
  - eapply Permutation_Forall; [symmetry; exact Hp|]. apply Forall_app. split; [exact Hnew|].
    eapply Forall_impl; [|apply Li]. exact Hold.
  - eapply Permutation_NoDup; [apply Permutation_map; symmetry; exact Hp|]. rewrite map_app.
    apply NoDup_app_intro; [exact Hnn | apply Li |].
    intros r Hr1 Hr2. apply in_map_iff in Hr1. destruct Hr1 as (y & <- & Hy). apply Hfresh in Hy.
    apply in_map_iff in Hr2. destruct Hr2 as (z & Ez & Hz).
    pose proof (li_ok s Li) as Hok. rewrite Forall_forall in Hok. destruct (Hok z Hz) as (A & _). lia.
Qed.
