(* The main invariant of Model/Requests.v (property C12): heap part and table part. *)
From Coq Require Import NArith List Bool Lia.
From DB Require Import Gen.GenC12 Model.Requests Proofs.Requests.
Import ListNotations.
Open Scope N_scope.

(* ================================================================== *)
(* The main invariant: heap part                                        *)
From Coq Require Import Permutation.

Definition shape (l : list ev) : Prop :=
  match map is_committed l with
  | [] | [true] | [false] | [true; false] => True
  | _ => False
  end.

Lemma nterm_app : forall a b, nterm (a ++ b) = (nterm a + nterm b)%nat.
Proof. intros. unfold nterm. rewrite filter_app, app_length. reflexivity. Qed.
Lemma ncomm_app : forall a b, ncomm (a ++ b) = (ncomm a + ncomm b)%nat.
Proof. intros. unfold ncomm. rewrite filter_app, app_length. reflexivity. Qed.

Lemma shape_nterm_le1 : forall l, shape l -> (nterm l <= 1)%nat.
Proof.
  intros l. unfold shape, nterm, is_term.
  destruct l as [|a [|b [|c l]]]; cbn; try (destruct (is_committed a)); try (destruct (is_committed b));
    try (destruct (is_committed c)); cbn; try lia; try contradiction; destruct (map is_committed l); contradiction.
Qed.
Lemma shape_ncomm_le1 : forall l, shape l -> (ncomm l <= 1)%nat.
Proof.
  intros l. unfold shape, ncomm.
  destruct l as [|a [|b [|c l]]]; cbn; try (destruct (is_committed a)); try (destruct (is_committed b));
    try (destruct (is_committed c)); cbn; try lia; try contradiction; destruct (map is_committed l); contradiction.
Qed.
Lemma shape_add_term : forall l e, shape l -> nterm l = 0%nat -> is_term e = true -> shape (l ++ [e]).
Proof.
  intros l e. unfold shape, nterm, is_term.
  destruct l as [|a [|b [|c l]]]; cbn; intros Hs Hn He; apply negb_true_iff in He.
  - rewrite He. exact I.
  - destruct (is_committed a); cbn in *; [rewrite He; exact I | discriminate].
  - destruct (is_committed a), (is_committed b); cbn in *; try discriminate; contradiction.
  - destruct (is_committed a), (is_committed b), (is_committed c); cbn in *; try discriminate; try contradiction;
      destruct (map is_committed l); contradiction.
Qed.
Lemma shape_add_comm : forall l e, shape l -> nterm l = 0%nat -> ncomm l = 0%nat -> is_committed e = true -> shape (l ++ [e]).
Proof.
  intros l e. unfold shape, nterm, ncomm, is_term.
  destruct l as [|a l]; cbn; intros Hs Hn Hc He.
  - rewrite He. exact I.
  - destruct (is_committed a); cbn in *; discriminate.
Qed.
(* the order: a Committed notification is never preceded by a terminal result *)
Lemma shape_committed_first : forall l a b e, shape l -> l = a ++ e :: b -> is_committed e = true -> a = [].
Proof.
  intros l a b e Hs -> He. unfold shape in Hs.
  destruct a as [|x [|y a]]; [reflexivity| |]; cbn in Hs.
  - rewrite He in Hs. destruct (is_committed x); destruct (map is_committed b); contradiction.
  - destruct (is_committed x), (is_committed y); destruct (map is_committed (a ++ e :: b)) eqn:E; try contradiction;
      destruct a; cbn in E; discriminate.
Qed.

Record HI (h : heap) : Prop := mkHI {
  hi_shape : forall r, shape (hgot h r);
  hi_to : forall r e, In e (hgot h r) -> e_to e = r;
  hi_comp : forall o, o < h_nobj h -> (o_comp (h_objs h o) <> [] \/ o_rtr (h_objs h o) = true) ->
            nterm (hgot h (o_owner (h_objs h o))) <> 0%nat;
  hi_comm : forall o, o < h_nobj h -> o_comm (h_objs h o) <> [] ->
            ncomm (hgot h (o_owner (h_objs h o))) <> 0%nat;
  hi_nc : forall o, o < h_nobj h -> o_nc (h_objs h o) = true -> o_hascomm (h_objs h o) = true;
  hi_pool : forall o, In o (h_pool h) ->
            o < h_nobj h /\ r_rel (h_reqs h (o_owner (h_objs h o))) = true /\ o_rtr (h_objs h o) = false;
  hi_pool_nd : NoDup (h_pool h);
  hi_own : forall r, r < h_nreq h -> r_rel (h_reqs h r) = false ->
           o_owner (h_objs h (r_obj (h_reqs h r))) = r /\ r_obj (h_reqs h r) < h_nobj h;
  hi_owner_lt : forall o, o < h_nobj h -> o_owner (h_objs h o) < h_nreq h }.

Definition ok_slot (h : heap) (sl : slot) : Prop :=
  sr sl < h_nreq h /\ so sl < h_nobj h /\ o_owner (h_objs h (so sl)) = sr sl /\
  r_obj (h_reqs h (sr sl)) = so sl /\ nterm (hgot h (sr sl)) = 0%nat /\ r_rel (h_reqs h (sr sl)) = false.

Lemma ok_slot_comp_empty : forall h sl, HI h -> ok_slot h sl ->
  o_comp (h_objs h (so sl)) = [] /\ o_rtr (h_objs h (so sl)) = false.
Proof.
  intros h sl Hi (A & B & C & D & E & F).
  pose proof (hi_comp h Hi (so sl) B) as Hc. rewrite C in Hc.
  destruct (o_comp (h_objs h (so sl))) eqn:E1; destruct (o_rtr (h_objs h (so sl))) eqn:E2; auto;
    exfalso; apply Hc; auto; left; discriminate.
Qed.
Lemma ok_slot_inj : forall h x y, ok_slot h x -> ok_slot h y -> so x = so y -> sr x = sr y.
Proof. intros h x y (_ & _ & C & _) (_ & _ & C' & _) E. rewrite <- C, <- C', E. reflexivity. Qed.

(* one terminal notification of an ok slot *)
Definition terminal (f : obj -> res) : Prop := forall o, rc (f o) =? cCommitted = false.

Lemma notifyf_ok : forall sc f h x, HI h -> h_err h = 0 -> ok_slot h x -> terminal f ->
  let h' := notifyf sc f h x in
  HI h' /\ h_err h' = 0 /\ h_broken h' = h_broken h /\ h_clock h' = h_clock h /\
  h_nreq h' = h_nreq h /\ h_nobj h' = h_nobj h /\ h_pool h' = h_pool h /\
  (forall y, ok_slot h y -> sr y <> sr x -> ok_slot h' y) /\
  nterm (hgot h' (sr x)) = 1%nat /\
  (forall r, r <> sr x -> h_reqs h' r = h_reqs h r) /\
  (forall r, r_status (h_reqs h' r) = r_status (h_reqs h r) /\ r_kind (h_reqs h' r) = r_kind (h_reqs h r) /\
             r_key (h_reqs h' r) = r_key (h_reqs h r)) /\
  (forall o, o_dl (h_objs h' o) = o_dl (h_objs h o) /\ o_key (h_objs h' o) = o_key (h_objs h o) /\
             o_cid (h_objs h' o) = o_cid (h_objs h o) /\ o_sid (h_objs h' o) = o_sid (h_objs h o)).
Proof.
  intros sc f h x Hi He Hx Hf.
  destruct (ok_slot_comp_empty h x Hi Hx) as [Hc Hr].
  destruct Hx as (A & B & C & D & E & F).
  unfold notifyf. rewrite He. cbn [N.eqb negb]. rewrite Hc. rewrite C.
  set (o := h_objs h (so x)). set (e := mkEv (f o) (sr x) (sc o)).
  set (h' := updR (updO h (so x) (fun o0 => o_notified o0 (f o0))) (sr x) (fun q => r_add_got q e)).
  assert (Hobj : forall o0, h_objs h' o0 = if o0 =? so x then o_notified o (f o) else h_objs h o0) by reflexivity.
  assert (Hreq : forall r, h_reqs h' r = if r =? sr x then r_add_got (h_reqs h (sr x)) e else h_reqs h r) by reflexivity.
  assert (Hn1 : h_nobj h' = h_nobj h) by reflexivity.
  assert (Hn2 : h_nreq h' = h_nreq h) by reflexivity.
  assert (Hn3 : h_pool h' = h_pool h) by reflexivity.
  assert (Hn4 : h_err h' = 0) by exact He.
  assert (Hn5 : h_broken h' = h_broken h) by reflexivity.
  assert (Hn6 : h_clock h' = h_clock h) by reflexivity.
  assert (Hg : forall r, hgot h' r = if r =? sr x then hgot h r ++ [e] else hgot h r).
  { intros r. unfold hgot. rewrite Hreq. destruct (r =? sr x) eqn:Er; [|reflexivity]. apply N.eqb_eq in Er. subst r. reflexivity. }
  clearbody h'.
  assert (Het : is_term e = true) by (unfold is_term, is_committed; cbn; rewrite Hf; reflexivity).
  assert (Hec : is_committed e = false) by (unfold is_committed; cbn; apply Hf).
  assert (Hnt : forall r, nterm (hgot h r) <> 0%nat -> nterm (hgot h' r) <> 0%nat).
  { intros r Hn. rewrite Hg. destruct (r =? sr x); [rewrite nterm_app; lia | exact Hn]. }
  assert (Hnc : forall r, ncomm (hgot h r) <> 0%nat -> ncomm (hgot h' r) <> 0%nat).
  { intros r Hn. rewrite Hg. destruct (r =? sr x); [rewrite ncomm_app; lia | exact Hn]. }
  assert (Hoo : o_owner o = sr x) by exact C.
  split; [|repeat (split; [assumption|]); split; [|split; [|split; [|split]]]].
  - constructor; rewrite ?Hn1, ?Hn2, ?Hn3.
    + intros r. rewrite Hg. destruct (r =? sr x) eqn:Er; [|apply Hi]. apply N.eqb_eq in Er. subst r.
      apply shape_add_term; [apply Hi | exact E | exact Het].
    + intros r e0. rewrite Hg. destruct (r =? sr x) eqn:Er; [|apply Hi]. apply N.eqb_eq in Er. subst r.
      intros Hin. apply in_app_or in Hin. destruct Hin as [Hin|[<-|[]]]; [apply Hi; exact Hin | reflexivity].
    + intros o0 Ho0. rewrite Hobj. destruct (o0 =? so x) eqn:Eo.
      * intros _. cbn. rewrite Hoo, Hg, N.eqb_refl, nterm_app. unfold nterm at 2. cbn. rewrite Het. cbn. lia.
      * intros Hp. apply Hnt. apply (hi_comp h Hi o0 Ho0 Hp).
    + intros o0 Ho0. rewrite Hobj. destruct (o0 =? so x) eqn:Eo.
      * apply N.eqb_eq in Eo. subst o0. cbn. intros Hp. apply Hnc. apply (hi_comm h Hi (so x) Ho0 Hp).
      * intros Hp. apply Hnc. apply (hi_comm h Hi o0 Ho0 Hp).
    + intros o0 Ho0. rewrite Hobj. destruct (o0 =? so x) eqn:Eo; [apply N.eqb_eq in Eo; subst o0; cbn|]; apply Hi; exact Ho0.
    + intros o0 Hin. destruct (hi_pool h Hi o0 Hin) as (P1 & P2 & P3).
      rewrite Hobj. destruct (o0 =? so x) eqn:Eo.
      * apply N.eqb_eq in Eo. subst o0. exfalso. fold o in P2. rewrite Hoo in P2. congruence.
      * split; [exact P1|]. split; [|exact P3]. rewrite Hreq.
        destruct (o_owner (h_objs h o0) =? sr x) eqn:Er; [|exact P2].
        apply N.eqb_eq in Er. rewrite Er in P2. congruence.
    + apply Hi.
    + intros r Hr0. rewrite Hreq. destruct (r =? sr x) eqn:Er.
      * apply N.eqb_eq in Er. subst r. cbn. intros _. rewrite Hobj, D, N.eqb_refl. cbn. auto.
      * intros Hrel. destruct (hi_own h Hi r Hr0 Hrel) as [O1 O2]. rewrite Hobj.
        destruct (r_obj (h_reqs h r) =? so x) eqn:Eo; [|auto].
        apply N.eqb_eq in Eo. rewrite Eo in O1. fold o in O1. rewrite Hoo in O1. apply N.eqb_neq in Er. congruence.
    + intros o0 Ho0. rewrite Hobj. destruct (o0 =? so x) eqn:Eo; [apply N.eqb_eq in Eo; subst o0; cbn|]; apply Hi; auto.
  - (* other ok slots *)
    intros y (A' & B' & C' & D' & E' & F') Hne.
    assert (Hso : so y <> so x) by (intros Eq; apply Hne; rewrite <- C', Eq; exact C).
    apply N.eqb_neq in Hne. apply N.eqb_neq in Hso.
    unfold ok_slot. rewrite Hn1, Hn2, Hobj, Hreq, Hg, Hso, Hne. repeat split; auto.
  - rewrite Hg, N.eqb_refl, nterm_app, E. unfold nterm. cbn. rewrite Het. reflexivity.
  - intros r Hr1. rewrite Hreq. apply N.eqb_neq in Hr1. rewrite Hr1. reflexivity.
  - intros r. rewrite Hreq. destruct (r =? sr x) eqn:Er; [apply N.eqb_eq in Er; subst r|]; repeat split; reflexivity.
  - intros o0. rewrite Hobj. destruct (o0 =? so x) eqn:Er; [apply N.eqb_eq in Er; subst o0|]; repeat split; reflexivity.
Qed.

Definition frame (h h' : heap) : Prop :=
  h_err h' = 0 /\ h_broken h' = h_broken h /\ h_clock h' = h_clock h /\ h_nreq h' = h_nreq h /\
  h_nobj h' = h_nobj h /\ h_pool h' = h_pool h /\
  (forall r, r_status (h_reqs h' r) = r_status (h_reqs h r) /\ r_kind (h_reqs h' r) = r_kind (h_reqs h r) /\
             r_key (h_reqs h' r) = r_key (h_reqs h r)) /\
  (forall o, o_dl (h_objs h' o) = o_dl (h_objs h o) /\ o_key (h_objs h' o) = o_key (h_objs h o) /\
             o_cid (h_objs h' o) = o_cid (h_objs h o) /\ o_sid (h_objs h' o) = o_sid (h_objs h o)).

Lemma frame_refl : forall h, h_err h = 0 -> frame h h.
Proof. intros h He. unfold frame. repeat split; auto. Qed.
Lemma frame_trans : forall a b c, frame a b -> frame b c -> frame a c.
Proof.
  intros a b c (A1 & A2 & A3 & A4 & A5 & A6 & A7 & A8) (B1 & B2 & B3 & B4 & B5 & B6 & B7 & B8).
  unfold frame. repeat split; try congruence.
  - destruct (B7 r) as (X & _). rewrite X. apply A7.
  - destruct (B7 r) as (_ & X & _). rewrite X. apply A7.
  - destruct (B7 r) as (_ & _ & X). rewrite X. apply A7.
  - destruct (B8 o) as (X & _). rewrite X. apply A8.
  - destruct (B8 o) as (_ & X & _). rewrite X. apply A8.
  - destruct (B8 o) as (_ & _ & X & _). rewrite X. apply A8.
  - destruct (B8 o) as (_ & _ & _ & X). rewrite X. apply A8.
Qed.

Lemma finish_heap : forall sc f, terminal f -> forall xs rest h, HI h -> h_err h = 0 ->
  Forall (ok_slot h) (xs ++ rest) -> NoDup (map sr (xs ++ rest)) ->
  let h' := notifyf_all sc f h xs in
  HI h' /\ frame h h' /\ Forall (ok_slot h') rest /\
  (forall x, In x xs -> nterm (hgot h' (sr x)) = 1%nat) /\
  (forall r, ~ In r (map sr xs) -> h_reqs h' r = h_reqs h r).
Proof.
  intros sc f Hf xs. induction xs as [|x xs IH]; intros rest h Hi He Hok Hnd.
  - cbn. split; [exact Hi|]. split; [apply frame_refl; exact He|]. split; [exact Hok|]. split; [intros x []|reflexivity].
  - cbn [notifyf_all fold_left]. cbn in Hok, Hnd. inversion Hok as [|? ? Hx Hok']; subst. inversion Hnd as [|? ? Hnx Hnd']; subst.
    destruct (notifyf_ok sc f h x Hi He Hx Hf) as (Hi1 & He1 & Hb1 & Hc1 & Hq1 & Ho1 & Hp1 & Hoth & Hn1 & Hsame & Hst & Hob).
    assert (Hok1 : Forall (ok_slot (notifyf sc f h x)) (xs ++ rest)).
    { rewrite Forall_forall in *. intros y Hy. apply Hoth; [apply Hok'; exact Hy|].
      intros Eq. apply Hnx. rewrite <- Eq. apply in_map. exact Hy. }
    destruct (IH rest (notifyf sc f h x) Hi1 He1 Hok1 Hnd') as (Hi2 & Hfr & Hr2 & Hn2 & Hs2).
    split; [exact Hi2|]. split; [|split; [exact Hr2|split]].
    + eapply frame_trans; [|exact Hfr]. unfold frame. repeat split; auto; try apply Hst; apply Hob.
    + intros y [<-|Hy]; [|apply Hn2; exact Hy].
      unfold hgot. change (notifyf_all sc f (notifyf sc f h x) xs) with (fold_left (notifyf sc f) xs (notifyf sc f h x)) in Hs2.
      unfold notifyf_all in Hs2. rewrite Hs2; [exact Hn1|].
      intros Hin. apply Hnx. rewrite map_app. apply in_or_app. left. exact Hin.
    + intros r Hr. unfold notifyf_all in Hs2. rewrite Hs2; [apply Hsame|]; intros Eq; apply Hr; cbn; auto.
Qed.

Lemma has_committed_false : forall l, has_committed l = false -> ncomm l = 0%nat.
Proof.
  induction l as [|e l IH]; [reflexivity|]. unfold has_committed, ncomm in *. cbn.
  fold (is_committed e). destruct (is_committed e); cbn; [discriminate | exact IH].
Qed.

Lemma notify_commit_ok : forall h x, HI h -> h_err h = 0 -> ok_slot h x ->
  let h' := notify_commit h x in
  h_err h' = 0 -> h_broken h' = false ->
  HI h' /\ frame h h' /\ (forall y, ok_slot h y -> ok_slot h' y).
Proof.
  intros h x Hi He Hx. destruct Hx as (A & B & C & D & E & F). unfold notify_commit. rewrite He. cbn [N.eqb negb].
  destruct (o_nc (h_objs h (so x))) eqn:Enc; cbn [negb]; [|cbn; discriminate].
  destruct (o_hascomm (h_objs h (so x))) eqn:Ehc; cbn [negb]; [|cbn; discriminate].
  destruct (o_comm (h_objs h (so x))) eqn:Ecm; [|cbn; discriminate].
  rewrite C. destruct (has_committed (r_got (h_reqs h (sr x)))) eqn:Ehas; [cbn; discriminate|].
  apply has_committed_false in Ehas. fold (hgot h (sr x)) in Ehas.
  set (o := h_objs h (so x)). set (e := mkEv (mkRes cCommitted 0 0) (sr x) SCommit).
  set (h' := updR (updO h (so x) (fun o0 => o_committed o0 (mkRes cCommitted 0 0))) (sr x) (fun q => r_add_got q e)).
  assert (Hobj : forall o0, h_objs h' o0 = if o0 =? so x then o_committed o (mkRes cCommitted 0 0) else h_objs h o0) by reflexivity.
  assert (Hreq : forall r, h_reqs h' r = if r =? sr x then r_add_got (h_reqs h (sr x)) e else h_reqs h r) by reflexivity.
  assert (Hn1 : h_nobj h' = h_nobj h) by reflexivity.
  assert (Hn2 : h_nreq h' = h_nreq h) by reflexivity.
  assert (Hn3 : h_pool h' = h_pool h) by reflexivity.
  assert (Hn4 : h_err h' = 0) by exact He.
  assert (Hn5 : h_broken h' = h_broken h) by reflexivity.
  assert (Hn6 : h_clock h' = h_clock h) by reflexivity.
  assert (Hg : forall r, hgot h' r = if r =? sr x then hgot h r ++ [e] else hgot h r).
  { intros r. unfold hgot. rewrite Hreq. destruct (r =? sr x) eqn:Er; [|reflexivity]. apply N.eqb_eq in Er. subst r. reflexivity. }
  clearbody h'. intros _ _.
  assert (Hec : is_committed e = true) by reflexivity.
  assert (Het : is_term e = false) by reflexivity.
  assert (Hnt : forall r, nterm (hgot h' r) = nterm (hgot h r)).
  { intros r. rewrite Hg. destruct (r =? sr x); [|reflexivity]. rewrite nterm_app. unfold nterm at 2. cbn. lia. }
  assert (Hnc : forall r, ncomm (hgot h r) <> 0%nat -> ncomm (hgot h' r) <> 0%nat).
  { intros r Hn. rewrite Hg. destruct (r =? sr x); [rewrite ncomm_app; lia | exact Hn]. }
  assert (Hoo : o_owner o = sr x) by exact C.
  split; [|split].
  - constructor; rewrite ?Hn1, ?Hn2, ?Hn3.
    + intros r. rewrite Hg. destruct (r =? sr x) eqn:Er; [|apply Hi]. apply N.eqb_eq in Er. subst r.
      apply shape_add_comm; [apply Hi | exact E | exact Ehas | exact Hec].
    + intros r e0. rewrite Hg. destruct (r =? sr x) eqn:Er; [|apply Hi]. apply N.eqb_eq in Er. subst r.
      intros Hin. apply in_app_or in Hin. destruct Hin as [Hin|[<-|[]]]; [apply Hi; exact Hin | reflexivity].
    + intros o0 Ho0. rewrite Hobj. destruct (o0 =? so x) eqn:Eo.
      * apply N.eqb_eq in Eo. subst o0. cbn. intros Hp. rewrite Hnt. apply (hi_comp h Hi (so x) Ho0 Hp).
      * intros Hp. rewrite Hnt. apply (hi_comp h Hi o0 Ho0 Hp).
    + intros o0 Ho0. rewrite Hobj. destruct (o0 =? so x) eqn:Eo.
      * cbn. intros _. rewrite Hoo, Hg, N.eqb_refl, ncomm_app. unfold ncomm at 2. cbn. lia.
      * intros Hp. apply Hnc. apply (hi_comm h Hi o0 Ho0 Hp).
    + intros o0 Ho0. rewrite Hobj. destruct (o0 =? so x) eqn:Eo; [apply N.eqb_eq in Eo; subst o0; cbn|]; apply Hi; exact Ho0.
    + intros o0 Hin. destruct (hi_pool h Hi o0 Hin) as (P1 & P2 & P3).
      rewrite Hobj, Hreq. destruct (o0 =? so x) eqn:Eo.
      * apply N.eqb_eq in Eo. subst o0. exfalso. fold o in P2. rewrite Hoo in P2. congruence.
      * split; [exact P1|]. split; [|exact P3].
        destruct (o_owner (h_objs h o0) =? sr x) eqn:Er; [|exact P2].
        apply N.eqb_eq in Er. rewrite Er in P2. congruence.
    + apply Hi.
    + intros r Hr0. rewrite Hreq. destruct (r =? sr x) eqn:Er.
      * apply N.eqb_eq in Er. subst r. cbn. intros _. rewrite Hobj, D, N.eqb_refl. cbn. auto.
      * intros Hrel. destruct (hi_own h Hi r Hr0 Hrel) as [O1 O2]. rewrite Hobj.
        destruct (r_obj (h_reqs h r) =? so x) eqn:Eo; [|auto].
        apply N.eqb_eq in Eo. rewrite Eo in O1. fold o in O1. rewrite Hoo in O1. apply N.eqb_neq in Er. congruence.
    + intros o0 Ho0. rewrite Hobj. destruct (o0 =? so x) eqn:Eo; [apply N.eqb_eq in Eo; subst o0; cbn|]; apply Hi; auto.
  - unfold frame. repeat split; auto.
    + rewrite Hreq. destruct (r =? sr x) eqn:Er; [apply N.eqb_eq in Er; subst r|]; reflexivity.
    + rewrite Hreq. destruct (r =? sr x) eqn:Er; [apply N.eqb_eq in Er; subst r|]; reflexivity.
    + rewrite Hreq. destruct (r =? sr x) eqn:Er; [apply N.eqb_eq in Er; subst r|]; reflexivity.
    + rewrite Hobj. destruct (o0 =? so x) eqn:Er; [apply N.eqb_eq in Er; subst o0|]; reflexivity.
    + rewrite Hobj. destruct (o0 =? so x) eqn:Er; [apply N.eqb_eq in Er; subst o0|]; reflexivity.
    + rewrite Hobj. destruct (o0 =? so x) eqn:Er; [apply N.eqb_eq in Er; subst o0|]; reflexivity.
    + rewrite Hobj. destruct (o0 =? so x) eqn:Er; [apply N.eqb_eq in Er; subst o0|]; reflexivity.
  - intros y (A' & B' & C' & D' & E' & F'). unfold ok_slot. rewrite Hn1, Hn2, Hobj, Hreq, Hnt.
    destruct (so y =? so x) eqn:E1.
    + apply N.eqb_eq in E1. assert (E2 : sr y = sr x) by (rewrite <- C', E1; exact C).
      rewrite E2, N.eqb_refl. cbn. rewrite <- E2. repeat split; auto. rewrite Hoo. auto.
    + destruct (sr y =? sr x) eqn:E2; [|repeat split; auto].
      apply N.eqb_eq in E2. exfalso. apply N.eqb_neq in E1. apply E1. rewrite <- D', E2. exact D.
Qed.

Lemma remove_nth_split : forall A (l : list A) n x, nth_error l n = Some x ->
  exists l1 l2, l = l1 ++ x :: l2 /\ remove_nth n l = l1 ++ l2.
Proof.
  induction l as [|a l IH]; destruct n; cbn; intros x Hx; try discriminate.
  - inversion Hx; subst. exists [], l. split; reflexivity.
  - destruct (IH n x Hx) as (l1 & l2 & E1 & E2). exists (a :: l1), l2. split; [cbn; rewrite <- E1; reflexivity|].
    unfold remove_nth in *. cbn [firstn app]. rewrite <- E2. reflexivity.
Qed.

(* allocation of a request: pool.Get / pool.New + reuse, then the new request record *)
Lemma alloc_ok : forall pick ncf key cid sid dl h q, HI h ->
  let h1 := fst (get_obj pick ncf (h_nreq h) key cid sid dl h) in
  let o := snd (get_obj pick ncf (h_nreq h) key cid sid dl h) in
  r_obj q = o -> r_got q = [] -> r_rel q = false ->
  let h' := add_req h1 q in
  HI h' /\ ok_slot h' (mkSlot o (h_nreq h)) /\ (forall y, ok_slot h y -> ok_slot h' y) /\
  h_err h' = h_err h /\ h_broken h' = h_broken h /\ h_clock h' = h_clock h /\ h_nreq h' = h_nreq h + 1 /\
  h_reqs h' (h_nreq h) = q /\
  (forall r, r <> h_nreq h -> hgot h' r = hgot h r /\ r_status (h_reqs h' r) = r_status (h_reqs h r) /\
                              r_kind (h_reqs h' r) = r_kind (h_reqs h r) /\ r_key (h_reqs h' r) = r_key (h_reqs h r)) /\
  h_objs h' o = mkObj key cid sid dl ncf [] [] ncf false (h_nreq h) /\
  (forall y, ok_slot h y -> h_objs h' (so y) = h_objs h (so y)).
Proof.
  intros pick ncf key cid sid dl h q Hi. unfold get_obj.
  destruct (nth_error (h_pool h) (N.to_nat pick)) as [o|] eqn:Ep; cbn [fst snd]; intros Hq1 Hq2 Hq3.
  - (* reuse of a pooled object *)
    assert (Hin : In o (h_pool h)) by (eapply nth_error_In; exact Ep).
    destruct (hi_pool h Hi o Hin) as (P1 & P2 & P3).
    set (ob := h_objs h o) in *. set (prev := o_owner ob) in *. set (rid := h_nreq h).
    set (pool' := remove_nth (N.to_nat pick) (h_pool h)).
    set (h' := add_req (updO (set_pool (updR h prev (fun q0 => r_set_left q0 (o_comp ob) (o_comm ob))) pool') o
                         (fun _ => mkObj key cid sid dl ncf [] [] ncf (o_rtr ob) rid)) q).
    assert (Hobj : forall o0, h_objs h' o0 = if o0 =? o then mkObj key cid sid dl ncf [] [] ncf (o_rtr ob) rid else h_objs h o0) by reflexivity.
    assert (Hreq : forall r, h_reqs h' r = if r =? rid then q else if r =? prev then r_set_left (h_reqs h prev) (o_comp ob) (o_comm ob) else h_reqs h r) by reflexivity.
    assert (Hn1 : h_nobj h' = h_nobj h) by reflexivity.
    assert (Hn2 : h_nreq h' = rid + 1) by reflexivity.
    assert (Hn3 : h_pool h' = pool') by reflexivity.
    assert (Hn4 : h_err h' = h_err h) by reflexivity.
    assert (Hn5 : h_broken h' = h_broken h) by reflexivity.
    assert (Hn6 : h_clock h' = h_clock h) by reflexivity.
    clearbody h'.
    assert (Hprev : prev < rid) by (apply (hi_owner_lt h Hi o P1)).
    assert (Hg : forall r, r <> rid -> hgot h' r = hgot h r).
    { intros r Hr. unfold hgot. rewrite Hreq. apply N.eqb_neq in Hr. rewrite Hr.
      destruct (r =? prev) eqn:E; [apply N.eqb_eq in E; subst r|]; reflexivity. }
    assert (Hg0 : hgot h' rid = []) by (unfold hgot; rewrite Hreq, N.eqb_refl; exact Hq2).
    assert (Hrel : forall r, r <> rid -> r_rel (h_reqs h' r) = r_rel (h_reqs h r)).
    { intros r Hr. rewrite Hreq. apply N.eqb_neq in Hr. rewrite Hr.
      destruct (r =? prev) eqn:E; [apply N.eqb_eq in E; subst r|]; reflexivity. }
    assert (Hrobj : forall r, r <> rid -> r_obj (h_reqs h' r) = r_obj (h_reqs h r)).
    { intros r Hr. rewrite Hreq. apply N.eqb_neq in Hr. rewrite Hr.
      destruct (r =? prev) eqn:E; [apply N.eqb_eq in E; subst r|]; reflexivity. }
    assert (Hpin : forall x, In x pool' -> In x (h_pool h) /\ x <> o).
    { intros x Hx. unfold pool' in Hx. pose proof (hi_pool_nd h Hi) as Hnd.
      destruct (remove_nth_split _ _ _ _ Ep) as (l1 & l2 & El & Er). rewrite Er in Hx. rewrite El in *.
      apply NoDup_remove in Hnd. destruct Hnd as [_ Hnot].
      split; [apply in_app_or in Hx; apply in_or_app; destruct Hx; [left|right; right]; assumption|].
      intros ->. apply Hnot. exact Hx. }
    assert (Hokold : forall y, ok_slot h y -> so y <> o /\ sr y <> rid /\ sr y <> prev).
    { intros y (A & B & C & D & E & F). assert (Hyp : sr y <> prev) by (intros Eq; rewrite Eq in F; congruence).
      split; [|split; [fold rid in A; lia | exact Hyp]]. intros Eq. apply Hyp. rewrite <- C, Eq. reflexivity. }
    split; [|split; [|split]].
    + constructor; rewrite ?Hn1, ?Hn2, ?Hn3.
      * intros r. destruct (N.eq_dec r rid) as [->|Hr]; [rewrite Hg0; exact I | rewrite Hg by exact Hr; apply Hi].
      * intros r e. destruct (N.eq_dec r rid) as [->|Hr]; [rewrite Hg0; intros [] | rewrite Hg by exact Hr; apply Hi].
      * intros o0 Ho0. rewrite Hobj. destruct (o0 =? o) eqn:Eo; [cbn; rewrite P3; intros [X|X]; [contradiction|discriminate]|].
        intros Hp. assert (o_owner (h_objs h o0) <> rid) by (pose proof (hi_owner_lt h Hi o0 Ho0); lia).
        rewrite Hg by assumption. apply (hi_comp h Hi o0 Ho0 Hp).
      * intros o0 Ho0. rewrite Hobj. destruct (o0 =? o) eqn:Eo; [cbn; intros X; contradiction|].
        intros Hp. assert (o_owner (h_objs h o0) <> rid) by (pose proof (hi_owner_lt h Hi o0 Ho0); lia).
        rewrite Hg by assumption. apply (hi_comm h Hi o0 Ho0 Hp).
      * intros o0 Ho0. rewrite Hobj. destruct (o0 =? o) eqn:Eo; [cbn; auto | apply Hi; exact Ho0].
      * intros o0 Hx. destruct (Hpin o0 Hx) as [Hx1 Hx2]. destruct (hi_pool h Hi o0 Hx1) as (Q1 & Q2 & Q3).
        rewrite Hobj. apply N.eqb_neq in Hx2. rewrite Hx2. split; [exact Q1|]. split; [|exact Q3].
        rewrite Hrel; [exact Q2|]. pose proof (hi_owner_lt h Hi o0 Q1). lia.
      * unfold pool'. pose proof (hi_pool_nd h Hi) as Hnd.
        destruct (remove_nth_split _ _ _ _ Ep) as (l1 & l2 & El & Er). rewrite Er. rewrite El in Hnd.
        apply NoDup_remove in Hnd. apply Hnd.
      * intros r Hr. destruct (N.eq_dec r rid) as [->|Hne].
        -- rewrite Hreq, N.eqb_refl, Hq1, Hobj, N.eqb_refl. cbn. auto.
        -- rewrite Hrel, Hrobj by exact Hne. intros Hf. destruct (hi_own h Hi r ltac:(lia) Hf) as [O1 O2].
           rewrite Hobj. destruct (r_obj (h_reqs h r) =? o) eqn:Eo; [|auto].
           apply N.eqb_eq in Eo. rewrite Eo in O1. fold ob in O1. fold prev in O1. subst r. congruence.
      * intros o0 Ho0. rewrite Hobj. destruct (o0 =? o); [cbn; lia | pose proof (hi_owner_lt h Hi o0 Ho0); lia].
    + unfold ok_slot. cbn [so sr]. rewrite Hn1, Hn2, Hobj, N.eqb_refl, Hg0, Hreq, N.eqb_refl. cbn.
      repeat split; auto. lia.
    + intros y Hy. destruct (Hokold y Hy) as (Y1 & Y2 & Y3). destruct Hy as (A & B & C & D & E & F).
      unfold ok_slot. rewrite Hn1, Hn2, Hobj, Hg, Hrel, Hrobj by assumption.
      apply N.eqb_neq in Y1. rewrite Y1. repeat split; auto. lia.
    + repeat (split; [assumption|]). split; [rewrite Hreq, N.eqb_refl; reflexivity|].
      split; [|split].
      * intros r Hr. split; [apply Hg; exact Hr|]. rewrite Hreq. apply N.eqb_neq in Hr. rewrite Hr.
        destruct (r =? prev) eqn:E; [apply N.eqb_eq in E; subst r|]; auto.
      * rewrite Hobj, N.eqb_refl, P3. reflexivity.
      * intros y Hy. destruct (Hokold y Hy) as (Y1 & _). rewrite Hobj. apply N.eqb_neq in Y1. rewrite Y1. reflexivity.
  - (* a new object *)
    set (rid := h_nreq h). set (o := h_nobj h).
    set (h' := add_req (set_nobj (updO h o (fun _ => mkObj key cid sid dl ncf [] [] ncf false rid)) (o + 1)) q).
    assert (Hobj : forall o0, h_objs h' o0 = if o0 =? o then mkObj key cid sid dl ncf [] [] ncf false rid else h_objs h o0) by reflexivity.
    assert (Hreq : forall r, h_reqs h' r = if r =? rid then q else h_reqs h r) by reflexivity.
    assert (Hn1 : h_nobj h' = o + 1) by reflexivity.
    assert (Hn2 : h_nreq h' = rid + 1) by reflexivity.
    assert (Hn3 : h_pool h' = h_pool h) by reflexivity.
    assert (Hn4 : h_err h' = h_err h) by reflexivity.
    assert (Hn5 : h_broken h' = h_broken h) by reflexivity.
    assert (Hn6 : h_clock h' = h_clock h) by reflexivity.
    clearbody h'.
    assert (Hg : forall r, r <> rid -> hgot h' r = hgot h r).
    { intros r Hr. unfold hgot. rewrite Hreq. apply N.eqb_neq in Hr. rewrite Hr. reflexivity. }
    assert (Hg0 : hgot h' rid = []) by (unfold hgot; rewrite Hreq, N.eqb_refl; exact Hq2).
    split; [|split; [|split]].
    + constructor; rewrite ?Hn1, ?Hn2, ?Hn3.
      * intros r. destruct (N.eq_dec r rid) as [->|Hr]; [rewrite Hg0; exact I | rewrite Hg by exact Hr; apply Hi].
      * intros r e. destruct (N.eq_dec r rid) as [->|Hr]; [rewrite Hg0; intros [] | rewrite Hg by exact Hr; apply Hi].
      * intros o0 Ho0. rewrite Hobj. destruct (o0 =? o) eqn:Eo; [cbn; intros [X|X]; [contradiction|discriminate]|].
        apply N.eqb_neq in Eo. assert (Ho1 : o0 < h_nobj h) by (fold o; lia). intros Hp.
        assert (o_owner (h_objs h o0) <> rid) by (pose proof (hi_owner_lt h Hi o0 Ho1); lia).
        rewrite Hg by assumption. apply (hi_comp h Hi o0 Ho1 Hp).
      * intros o0 Ho0. rewrite Hobj. destruct (o0 =? o) eqn:Eo; [cbn; intros X; contradiction|].
        apply N.eqb_neq in Eo. assert (Ho1 : o0 < h_nobj h) by (fold o; lia). intros Hp.
        assert (o_owner (h_objs h o0) <> rid) by (pose proof (hi_owner_lt h Hi o0 Ho1); lia).
        rewrite Hg by assumption. apply (hi_comm h Hi o0 Ho1 Hp).
      * intros o0 Ho0. rewrite Hobj. destruct (o0 =? o) eqn:Eo; [cbn; auto|].
        apply N.eqb_neq in Eo. apply Hi. fold o. lia.
      * intros o0 Hx. destruct (hi_pool h Hi o0 Hx) as (Q1 & Q2 & Q3). fold o in Q1.
        rewrite Hobj. assert (Eo : o0 =? o = false) by (apply N.eqb_neq; lia). rewrite Eo.
        split; [lia|]. split; [|exact Q3]. rewrite Hreq.
        assert (Er : o_owner (h_objs h o0) =? rid = false) by (apply N.eqb_neq; pose proof (hi_owner_lt h Hi o0 Q1); lia).
        rewrite Er. exact Q2.
      * apply Hi.
      * intros r Hr. rewrite Hreq. destruct (r =? rid) eqn:Er.
        -- rewrite Hq1, Hobj, N.eqb_refl. cbn. apply N.eqb_eq in Er. split; [auto|lia].
        -- apply N.eqb_neq in Er. intros Hf. destruct (hi_own h Hi r ltac:(lia) Hf) as [O1 O2]. fold o in O2.
           rewrite Hobj. assert (Eo : r_obj (h_reqs h r) =? o = false) by (apply N.eqb_neq; lia). rewrite Eo. split; [auto|lia].
      * intros o0 Ho0. rewrite Hobj. destruct (o0 =? o) eqn:Eo; [cbn; lia|].
        apply N.eqb_neq in Eo. assert (Ho1 : o0 < h_nobj h) by (fold o; lia). pose proof (hi_owner_lt h Hi o0 Ho1). lia.
    + unfold ok_slot. cbn [so sr]. rewrite Hn1, Hn2, Hobj, N.eqb_refl, Hg0, Hreq, N.eqb_refl. cbn.
      repeat split; auto; lia.
    + intros y (A & B & C & D & E & F). fold o in B. fold rid in A.
      unfold ok_slot. rewrite Hn1, Hn2, Hobj, Hreq.
      assert (E1 : so y =? o = false) by (apply N.eqb_neq; lia).
      assert (E2 : sr y =? rid = false) by (apply N.eqb_neq; lia).
      rewrite E1, E2, Hg by lia. repeat split; auto; lia.
    + repeat (split; [assumption|]). split; [rewrite Hreq, N.eqb_refl; reflexivity|].
      split; [|split].
      * intros r Hr. split; [apply Hg; exact Hr|]. rewrite Hreq. apply N.eqb_neq in Hr. rewrite Hr. auto.
      * rewrite Hobj, N.eqb_refl. reflexivity.
      * intros y (A & B & _). fold o in B. rewrite Hobj. assert (E1 : so y =? o = false) by (apply N.eqb_neq; lia). rewrite E1. reflexivity.
Qed.

(* ---- heap changes that do not touch what HI / ok_slot look at ---- *)
Lemma HI_ext : forall h h', h_objs h' = h_objs h -> h_reqs h' = h_reqs h -> h_nobj h' = h_nobj h ->
  h_nreq h' = h_nreq h -> h_pool h' = h_pool h -> HI h -> HI h'.
Proof.
  intros h h' E1 E2 E3 E4 E5 Hi. constructor; unfold hgot; rewrite ?E1, ?E2, ?E3, ?E4, ?E5; apply Hi.
Qed.
Lemma ok_slot_ext : forall h h' y, h_objs h' = h_objs h -> h_reqs h' = h_reqs h -> h_nobj h' = h_nobj h ->
  h_nreq h' = h_nreq h -> ok_slot h y -> ok_slot h' y.
Proof. intros h h' y E1 E2 E3 E4. unfold ok_slot, hgot. rewrite E1, E2, E3, E4. auto. Qed.

(* sequences of terminal notifications with their own source / result functions *)
Fixpoint nseq (l : list ((obj -> src) * (obj -> res) * slot)) (h : heap) : heap :=
  match l with
  | [] => h
  | (sc, f, x) :: l => nseq l (notifyf sc f h x)
  end.
Lemma nseq_app : forall a b h, nseq (a ++ b) h = nseq b (nseq a h).
Proof. induction a as [|[[sc f] x] a IH]; intros; cbn; [reflexivity | apply IH]. Qed.
Lemma notifyf_all_nseq : forall sc f xs h, notifyf_all sc f h xs = nseq (map (fun x => (sc, f, x)) xs) h.
Proof. intros sc f xs. induction xs as [|x xs IH]; intros h; cbn; [reflexivity | apply IH]. Qed.

Lemma finish_seq : forall l rest h, HI h -> h_err h = 0 ->
  Forall (fun t => terminal (snd (fst t))) l ->
  Forall (ok_slot h) (map snd l ++ rest) -> NoDup (map sr (map snd l ++ rest)) ->
  let h' := nseq l h in
  HI h' /\ frame h h' /\ Forall (ok_slot h') rest /\
  (forall x, In x (map snd l) -> nterm (hgot h' (sr x)) = 1%nat) /\
  (forall r, ~ In r (map sr (map snd l)) -> h_reqs h' r = h_reqs h r).
Proof.
  induction l as [|[[sc f] x] l IH]; intros rest h Hi He Hf Hok Hnd.
  - cbn. split; [exact Hi|]. split; [apply frame_refl; exact He|]. split; [exact Hok|]. split; [intros x []|reflexivity].
  - cbn [nseq]. cbn in Hok, Hnd. inversion Hok as [|? ? Hx Hok']; subst. inversion Hnd as [|? ? Hnx Hnd']; subst.
    inversion Hf as [|? ? Hfx Hf']; subst. cbn in Hfx.
    destruct (notifyf_ok sc f h x Hi He Hx Hfx) as (Hi1 & He1 & Hb1 & Hc1 & Hq1 & Ho1 & Hp1 & Hoth & Hn1 & Hsame & Hst & Hob).
    assert (Hok1 : Forall (ok_slot (notifyf sc f h x)) (map snd l ++ rest)).
    { rewrite Forall_forall in *. intros y Hy. apply Hoth; [apply Hok'; exact Hy|].
      intros Eq. apply Hnx. rewrite <- Eq. apply in_map. exact Hy. }
    destruct (IH rest (notifyf sc f h x) Hi1 He1 Hf' Hok1 Hnd') as (Hi2 & Hfr & Hr2 & Hn2 & Hs2).
    split; [exact Hi2|]. split; [|split; [exact Hr2|split]].
    + eapply frame_trans; [|exact Hfr]. unfold frame. repeat split; auto; try apply Hst; apply Hob.
    + intros y [<-|Hy]; [|apply Hn2; exact Hy].
      unfold hgot. rewrite Hs2; [exact Hn1|].
      intros Hin. apply Hnx. rewrite map_app. apply in_or_app. left. exact Hin.
    + intros r Hr. rewrite Hs2; [apply Hsame|]; intros Eq; apply Hr; cbn; auto.
Qed.

(* ================================================================== *)
(* table part                                                           *)
Definition olist {A} (o : option A) : list A := match o with Some x => [x] | None => [] end.
Definition alive (s : st) (kv : N * slot) : bool := negb (p_stop (P s) (fst kv mod cps s)).
Definition live_pend (s : st) : list slot := map snd (filter (alive s) (pend (P s))).
Definition live_reads (s : st) : list slot :=
  rq (R s) ++ taken (R s) ++ (if rd_stop (R s) then [] else batch_slots (batches (R s))).
Definition live (s : st) : list slot :=
  live_pend s ++ live_reads s ++ olist (x_pend (C s)) ++ olist (x_pend (S s)) ++ olist (lq_pend s).

Record LI (s : st) : Prop := mkLI {
  li_h : HI (H s);
  li_ok : Forall (ok_slot (H s)) (live s);
  li_nd : NoDup (map sr (live s));
  li_keys : NoDup (map fst (pend (P s)));
  li_cm : cm_b (P s) = None }.

Lemma NoDup_app_r : forall A (a b : list A), NoDup (a ++ b) -> NoDup b.
Proof. induction a as [|x a IH]; cbn; intros b Hn; [exact Hn|]. inversion Hn; subst. apply IH. assumption. Qed.

Definition stop_closed (s : st) : Prop := forall k, p_stop (P s) k = true -> q_stop (P s) = true.
Definition inflight_keys (s : st) : Prop := forall i kv, i < h_nreq (H s) ->
  r_status (h_reqs (H s) i) = 0 -> In kv (pend (P s)) -> fst kv = r_key (h_reqs (H s) i) -> sr (snd kv) = i.

(* what a step did to the references, seen from outside: no reference is lost silently,
   results only grow, keys stay, the status only moves 0 -> 1 (accepted, queue open) / 0 -> 2,
   and a new request record is referenced if it was accepted *)
Definition EF (s s' : st) : Prop :=
  h_nreq (H s) <= h_nreq (H s') /\
  (forall sl, In sl (live s) -> In sl (live s') \/ nterm (hgot (H s') (sr sl)) <> 0%nat \/
                              r_status (h_reqs (H s') (sr sl)) = 2) /\
  (forall r, r < h_nreq (H s) -> nterm (hgot (H s') r) = 0%nat -> nterm (hgot (H s) r) = 0%nat) /\
  (forall r, r < h_nreq (H s) -> r_key (h_reqs (H s') r) = r_key (h_reqs (H s) r) /\
       (r_status (h_reqs (H s') r) = r_status (h_reqs (H s) r) \/
        (r_status (h_reqs (H s) r) = 0 /\
         (r_status (h_reqs (H s') r) = 2 \/ (r_status (h_reqs (H s') r) = 1 /\ q_stop (P s) = false))))) /\
  (forall r, h_nreq (H s) <= r -> r < h_nreq (H s') ->
       (r_status (h_reqs (H s') r) = 1 -> In r (map sr (live s'))) /\
       (r_status (h_reqs (H s') r) = 0 -> In r (map sr (live s')) \/ q_stop (P s') = true)).
Definition LX (s s' : st) : Prop := LI s' /\ EF s s'.

Lemma EF_refl : forall s, EF s s.
Proof.
  intros s. unfold EF. split; [lia|]. split; [auto|]. split; [auto|]. split; [auto|]. intros r A B. lia.
Qed.
Lemma LX_refl : forall s, LI s -> LX s s.
Proof. intros s Li. split; [exact Li | apply EF_refl]. Qed.
(* EF only looks at the heap, the live list and q_stop of either state *)
Lemma EF_ext : forall s1 s1' s2 s2', H s2 = H s1 -> live s2 = live s1 -> q_stop (P s2) = q_stop (P s1) ->
  H s2' = H s1' -> live s2' = live s1' -> q_stop (P s2') = q_stop (P s1') -> EF s1 s1' -> EF s2 s2'.
Proof. intros s1 s1' s2 s2' A B C D E F. unfold EF. rewrite A, B, C, D, E, F. auto. Qed.

(* the step notified [map snd l] and kept every other reference *)
Lemma LX_finish : forall s s' l, LI s -> h_err (H s) = 0 ->
  Forall (fun t => terminal (snd (fst t))) l ->
  Permutation (live s) (map snd l ++ live s') ->
  H s' = nseq l (H s) -> NoDup (map fst (pend (P s'))) -> cm_b (P s') = None ->
  LX s s' /\ frame (H s) (H s') /\ (forall x, In x (map snd l) -> nterm (hgot (H s') (sr x)) = 1%nat).
Proof.
  intros s s' l Li He Hf Hp Hh Hk Hc.
  assert (Hok : Forall (ok_slot (H s)) (map snd l ++ live s')).
  { eapply Permutation_Forall; [exact Hp | apply Li]. }
  assert (Hnd : NoDup (map sr (map snd l ++ live s'))).
  { eapply Permutation_NoDup; [apply Permutation_map; exact Hp | apply Li]. }
  destruct (finish_seq l (live s') (H s) (li_h s Li) He Hf Hok Hnd) as (Hi' & Hfr & Hok' & Hone & Hsame).
  rewrite <- Hh in *. split; [|split; [exact Hfr | exact Hone]]. split.
  - constructor; auto. rewrite !map_app in Hnd. apply NoDup_app_r in Hnd. exact Hnd.
  - destruct Hfr as (_ & _ & _ & Hnq & _ & _ & Hst & _). unfold EF. rewrite Hnq.
    split; [lia|]. split; [|split; [|split]].
    + intros sl Hsl. apply (Permutation_in _ Hp) in Hsl. apply in_app_or in Hsl. destruct Hsl as [Hsl|Hsl]; [|auto].
      right. left. rewrite (Hone sl Hsl). discriminate.
    + intros r Hr Hn. destruct (in_dec N.eq_dec r (map sr (map snd l))) as [Hin|Hnin].
      * apply in_map_iff in Hin. destruct Hin as (x & <- & Hx). rewrite (Hone x Hx) in Hn. discriminate.
      * unfold hgot in *. rewrite (Hsame r Hnin) in Hn. exact Hn.
    + intros r Hr. destruct (Hst r) as (S1 & _ & S3). auto.
    + intros r A B. lia.
Qed.

Lemma perm_filter_split : forall A (p : A -> bool) l,
  Permutation l (filter p l ++ filter (fun x => negb (p x)) l).
Proof.
  intros A p. induction l as [|a l IH]; [constructor|]. cbn. destruct (p a); cbn.
  - constructor. exact IH.
  - apply Permutation_cons_app. exact IH.
Qed.
Lemma filter_filter_comm : forall A (p q : A -> bool) l, filter p (filter q l) = filter q (filter p l).
Proof.
  intros A p q. induction l as [|a l IH]; [reflexivity|]. cbn.
  destruct (q a) eqn:Eq, (p a) eqn:Ep; cbn; rewrite ?Eq, ?Ep, IH; reflexivity.
Qed.
Lemma NoDup_map_filter : forall A B (g : A -> B) p l, NoDup (map g l) -> NoDup (map g (filter p l)).
Proof.
  intros A B g p. induction l as [|a l IH]; cbn; intros Hn; [constructor|]. inversion Hn; subst.
  destruct (p a); cbn; [constructor|]; auto. intros Hin. apply H1. apply in_map_iff in Hin.
  destruct Hin as (x & E & Hx). apply filter_In in Hx. apply in_map_iff. exists x. split; [exact E | apply Hx].
Qed.

Lemma find_key_none : forall key l, find_key key l = None -> remove_key key l = l.
Proof.
  intros key. induction l as [|kv l IH]; [reflexivity|]. unfold find_key, remove_key in *. cbn.
  destruct (fst kv =? key) eqn:E; cbn; [discriminate|]. intros Hn. f_equal. apply IH. exact Hn.
Qed.
Lemma find_key_some : forall key l sl, NoDup (map fst l) -> find_key key l = Some sl ->
  filter (fun kv => fst kv =? key) l = [(key, sl)].
Proof.
  intros key. induction l as [|kv l IH]; intros sl Hnd Hf; [discriminate|]. unfold find_key in *. cbn in *.
  inversion Hnd; subst. destruct (fst kv =? key) eqn:E.
  - inversion Hf; subst. apply N.eqb_eq in E. destruct kv as [k v]. cbn in *. subst k. f_equal.
    assert (forall l0 : list (N * slot), ~ In key (map fst l0) -> filter (fun kv => fst kv =? key) l0 = []) as Hnone.
    { induction l0 as [|a l0 IH0]; [reflexivity|]. cbn. intros Hni. destruct (fst a =? key) eqn:Ea.
      - apply N.eqb_eq in Ea. exfalso. apply Hni. left. exact Ea.
      - apply IH0. intros Hin. apply Hni. right. exact Hin. }
    apply Hnone. exact H1.
  - apply IH; assumption.
Qed.

Lemma perm_mid : forall A (a b b' c x d : list A),
  Permutation b (x ++ d ++ b') -> Permutation (a ++ b ++ c) (x ++ d ++ a ++ b' ++ c).
Proof.
  intros A a b b' c x d Hp.
  transitivity (a ++ (x ++ d ++ b') ++ c).
  - apply Permutation_app_head. apply Permutation_app_tail. exact Hp.
  - replace (a ++ (x ++ d ++ b') ++ c) with (a ++ (x ++ d) ++ (b' ++ c)) by (rewrite <- !app_assoc; reflexivity).
    replace (x ++ d ++ a ++ b' ++ c) with ((x ++ d) ++ a ++ (b' ++ c)) by (rewrite <- !app_assoc; reflexivity).
    apply Permutation_app_swap_app.
Qed.
Lemma perm_tail3 : forall A (a b c c' x : list A),
  Permutation c (x ++ c') -> Permutation (a ++ b ++ c) (x ++ [] ++ a ++ b ++ c').
Proof.
  intros A a b c c' x Hp. cbn [app]. transitivity (a ++ b ++ x ++ c').
  - do 2 apply Permutation_app_head. exact Hp.
  - rewrite (app_assoc a b (x ++ c')), (app_assoc a b c'). apply Permutation_app_swap_app.
Qed.
Lemma perm_head : forall A (a a' c x d : list A),
  Permutation a (x ++ d ++ a') -> Permutation (a ++ c) (x ++ d ++ a' ++ c).
Proof. intros A a a' c x d Hp. apply (perm_mid A [] a a' c x d Hp). Qed.

Lemma NoDup_app_intro : forall A (a b : list A), NoDup a -> NoDup b ->
  (forall x, In x a -> In x b -> False) -> NoDup (a ++ b).
Proof.
  induction a as [|x a IH]; cbn; intros b Ha Hb Hd; [exact Hb|]. inversion Ha; subst. constructor.
  - intros Hin. apply in_app_or in Hin. destruct Hin as [Hin|Hin]; [contradiction | apply (Hd x); auto].
  - apply IH; auto. intros y Hy1 Hy2. apply (Hd y); auto.
Qed.

Lemma LI_same_heap : forall s s', LI s -> H s' = H s -> Permutation (live s) (live s') ->
  NoDup (map fst (pend (P s'))) -> cm_b (P s') = None -> LX s s'.
Proof.
  intros s s' Li Hh Hp Hk Hc. split.
  - constructor; auto; rewrite ?Hh.
    + apply Li.
    + eapply Permutation_Forall; [exact Hp | apply Li].
    + eapply Permutation_NoDup; [apply Permutation_map; exact Hp | apply Li].
  - unfold EF. rewrite Hh. split; [lia|]. split; [|split; [auto|split; [auto|intros r A B; lia]]].
    intros sl Hsl. left. apply (Permutation_in _ Hp). exact Hsl.
Qed.
Lemma LI_drop : forall s s' drop, LI s -> H s' = H s -> Permutation (live s) (drop ++ live s') ->
  NoDup (map fst (pend (P s'))) -> cm_b (P s') = None -> LI s'.
Proof.
  intros s s' drop Li Hh Hp Hk Hc. constructor; auto; rewrite ?Hh.
  - apply Li.
  - pose proof (Permutation_Forall Hp (li_ok s Li)) as Hf. apply Forall_app in Hf. apply Hf.
  - pose proof (Permutation_NoDup (Permutation_map sr Hp) (li_nd s Li)) as Hn. rewrite map_app in Hn.
    apply NoDup_app_r in Hn. exact Hn.
Qed.
(* heap changed, but ok_slot of every old live slot survives and the new live list is
   the old one plus fresh ok slots with new request ids *)
Lemma LI_heap : forall s s' news, LI s -> HI (H s') ->
  (forall y, ok_slot (H s) y -> ok_slot (H s') y) ->
  Forall (ok_slot (H s')) news -> NoDup (map sr news) ->
  (forall y, In y news -> h_nreq (H s) <= sr y) ->
  Permutation (live s') (news ++ live s) ->
  NoDup (map fst (pend (P s'))) -> cm_b (P s') = None ->
  h_nreq (H s') = h_nreq (H s) + 1 ->
  (forall r, r <> h_nreq (H s) -> hgot (H s') r = hgot (H s) r /\ r_status (h_reqs (H s') r) = r_status (h_reqs (H s) r) /\
                                   r_kind (h_reqs (H s') r) = r_kind (h_reqs (H s) r) /\ r_key (h_reqs (H s') r) = r_key (h_reqs (H s) r)) ->
  (r_status (h_reqs (H s') (h_nreq (H s))) = 1 -> In (h_nreq (H s)) (map sr news)) ->
  (r_status (h_reqs (H s') (h_nreq (H s))) = 0 -> In (h_nreq (H s)) (map sr news) \/ q_stop (P s') = true) ->
  LX s s'.
Proof.
  intros s s' news Li Hi Hold Hnew Hnn Hfresh Hp Hk Hc Hnq Hrq Hn1 Hn0. split.
  - constructor; auto.
    + eapply Permutation_Forall; [symmetry; exact Hp|]. apply Forall_app. split; [exact Hnew|].
      eapply Forall_impl; [|apply Li]. exact Hold.
    + eapply Permutation_NoDup; [apply Permutation_map; symmetry; exact Hp|]. rewrite map_app.
      apply NoDup_app_intro; [exact Hnn | apply Li |].
      intros r Hr1 Hr2. apply in_map_iff in Hr1. destruct Hr1 as (y & <- & Hy). apply Hfresh in Hy.
      apply in_map_iff in Hr2. destruct Hr2 as (z & Ez & Hz).
      pose proof (li_ok s Li) as Hok. rewrite Forall_forall in Hok. destruct (Hok z Hz) as (A & _). lia.
  - assert (Hin : forall r, In r (map sr news) -> In r (map sr (live s'))).
    { intros r Hr. apply (Permutation_in _ (Permutation_map sr (Permutation_sym Hp))). rewrite map_app. apply in_or_app. auto. }
    unfold EF. rewrite Hnq. split; [lia|]. split; [|split; [|split]].
    + intros sl Hsl. left. apply (Permutation_in _ (Permutation_sym Hp)). apply in_or_app. auto.
    + intros r Hr Hn. destruct (Hrq r ltac:(lia)) as (G & _). rewrite G in Hn. exact Hn.
    + intros r Hr. destruct (Hrq r ltac:(lia)) as (_ & S1 & _ & S3). auto.
    + intros r A B. assert (r = h_nreq (H s)) as -> by lia. split; intros Hs.
      * apply Hin. apply Hn1. exact Hs.
      * destruct (Hn0 Hs) as [X|X]; [left; apply Hin; exact X | right; exact X].
Qed.

Lemma filter_implies : forall A (p q : A -> bool) l, (forall x, p x = true -> q x = true) ->
  filter q (filter p l) = filter p l.
Proof.
  intros A p q l Hi. induction l as [|a l IH]; [reflexivity|]. cbn. destruct (p a) eqn:E; [|exact IH].
  cbn. rewrite (Hi a E), IH. reflexivity.
Qed.
Lemma map_snd_triples : forall (sc : obj -> src) (f : obj -> res) (xs : list slot),
  map snd (map (fun x => (sc, f, x)) xs) = xs.
Proof. intros. rewrite map_map. cbn. apply map_id. Qed.
Lemma Forall_triples : forall (sc : obj -> src) (f : obj -> res) (xs : list slot), terminal f ->
  Forall (fun t : (obj -> src) * (obj -> res) * slot => terminal (snd (fst t))) (map (fun x => (sc, f, x)) xs).
Proof. intros sc f xs Hf. apply Forall_forall. intros t Ht. apply in_map_iff in Ht. destruct Ht as (x & <- & _). exact Hf. Qed.
Lemma terminal_const : forall c v w, c =? cCommitted = false -> terminal (fun _ => mkRes c v w).
Proof. intros c v w Hc o. exact Hc. Qed.

(* removing from the pending map the entries that satisfy [p] (all of them in live shards)
   and notifying exactly those *)
Lemma pend_split : forall s (p : N * slot -> bool),
  (forall kv, p kv = true -> alive s kv = true) ->
  Permutation (live_pend s)
    (map snd (filter p (pend (P s))) ++ map snd (filter (alive s) (filter (fun kv => negb (p kv)) (pend (P s))))).
Proof.
  intros s p Hp. unfold live_pend. rewrite <- map_app. apply Permutation_map.
  rewrite <- (filter_implies _ p (alive s) (pend (P s)) Hp).
  rewrite (filter_filter_comm _ (alive s) p). rewrite (filter_filter_comm _ (alive s) (fun kv => negb (p kv))).
  apply perm_filter_split.
Qed.

Lemma gc_at_LI : forall s k now, LI s -> h_err (H s) = 0 ->
  LX s (gc_at s k now) /\ frame (H s) (H (gc_at s k now)) /\
  (p_stop (P s) k = false -> (sub64 now (p_lastgc (P s) k) <? gc_tick) = false ->
   forall kv, In kv (pend (P s)) -> fst kv mod cps s = k -> o_dl (h_objs (H s) (so (snd kv))) < now ->
   nterm (hgot (H (gc_at s k now)) (sr (snd kv))) = 1%nat).
Proof.
  intros s k now Li He. unfold gc_at.
  destruct (p_stop (P s) k) eqn:Est; [split; [apply (LX_refl _ Li) | split; [apply frame_refl; exact He | discriminate]]|].
  destruct (sub64 now (p_lastgc (P s) k) <? gc_tick);
    [split; [apply (LX_refl _ Li) | split; [apply frame_refl; exact He | intros _ X; discriminate X]]|].
  set (expired := fun kv : N * slot => (fst kv mod cps s =? k) && (o_dl (h_objs (H s) (so (snd kv))) <? now)).
  set (sc := fun o : obj => SGc now (o_dl o)). set (f := fun _ : obj => mkRes cTimeout 0 0).
  destruct (LX_finish s (setHP s (notifyf_all sc f (H s) (map snd (filter expired (pend (P s)))))
                          (p_set_gc (P s) (filter (fun kv => negb (expired kv)) (pend (P s))) (fupd (p_lastgc (P s)) k now)))
              (map (fun x => (sc, f, x)) (map snd (filter expired (pend (P s))))) Li He) as (Lx & Fr & Hone).
  - apply Forall_triples. apply terminal_const. reflexivity.
  - rewrite map_snd_triples. cbn [app]. unfold live. apply perm_head with (d := []). cbn [app].
    apply (pend_split s expired). intros kv Hk. unfold expired in Hk. apply andb_true_iff in Hk. destruct Hk as [Hk _].
    apply N.eqb_eq in Hk. unfold alive. rewrite Hk, Est. reflexivity.
  - cbn. apply notifyf_all_nseq.
  - cbn. apply NoDup_map_filter. apply Li.
  - cbn. apply Li.
  - split; [exact Lx|]. split; [exact Fr|]. intros _ _ kv Hkv Hk Hd. apply Hone. rewrite map_snd_triples.
    apply in_map. apply filter_In. split; [exact Hkv|]. unfold expired. rewrite Hk, N.eqb_refl. cbn. apply N.ltb_lt. exact Hd.
Qed.

Lemma LI_weaken : forall s s' drop, LI s -> HI (H s') ->
  (forall y, ok_slot (H s) y -> ok_slot (H s') y) ->
  Permutation (live s) (drop ++ live s') ->
  NoDup (map fst (pend (P s'))) -> cm_b (P s') = None ->
  h_nreq (H s') = h_nreq (H s) ->
  (forall r, nterm (hgot (H s') r) = 0%nat -> nterm (hgot (H s) r) = 0%nat) ->
  (forall r, r_key (h_reqs (H s') r) = r_key (h_reqs (H s) r) /\
       (r_status (h_reqs (H s') r) = r_status (h_reqs (H s) r) \/
        (r_status (h_reqs (H s) r) = 0 /\
         (r_status (h_reqs (H s') r) = 2 \/ (r_status (h_reqs (H s') r) = 1 /\ q_stop (P s) = false))))) ->
  (forall y, In y drop -> r_status (h_reqs (H s') (sr y)) = 2) ->
  LX s s'.
Proof.
  intros s s' drop Li Hi Hold Hp Hk Hc Hnq Hg Hst Hdrop. split.
  - constructor; auto.
    + pose proof (Permutation_Forall Hp (li_ok s Li)) as Hf. apply Forall_app in Hf. destruct Hf as [_ Hf].
      eapply Forall_impl; [|exact Hf]. exact Hold.
    + pose proof (Permutation_NoDup (Permutation_map sr Hp) (li_nd s Li)) as Hn. rewrite map_app in Hn.
      apply NoDup_app_r in Hn. exact Hn.
  - unfold EF. rewrite Hnq. split; [lia|]. split; [|split; [auto|split; [auto|intros r A B; lia]]].
    intros sl Hsl. apply (Permutation_in _ Hp) in Hsl. apply in_app_or in Hsl. destruct Hsl as [Hsl|Hsl]; auto.
Qed.

Lemma HI_updR_same : forall h r f,
  (forall q, r_got (f q) = r_got q /\ r_rel (f q) = r_rel q /\ r_obj (f q) = r_obj q) ->
  HI h -> HI (updR h r f) /\ (forall y, ok_slot h y -> ok_slot (updR h r f) y).
Proof.
  intros h r f Hf Hi.
  assert (Hg : forall x, hgot (updR h r f) x = hgot h x).
  { intros x. rewrite hgot_updR. destruct (x =? r) eqn:E; [|reflexivity]. apply N.eqb_eq in E. subst x. apply Hf. }
  assert (Hrel : forall x, r_rel (h_reqs (updR h r f) x) = r_rel (h_reqs h x)).
  { intros x. cbn. destruct (x =? r) eqn:E; [|reflexivity]. apply N.eqb_eq in E. subst x. apply Hf. }
  assert (Hro : forall x, r_obj (h_reqs (updR h r f) x) = r_obj (h_reqs h x)).
  { intros x. cbn. destruct (x =? r) eqn:E; [|reflexivity]. apply N.eqb_eq in E. subst x. apply Hf. }
  split.
  - constructor; intros; rewrite ?Hg, ?Hrel, ?Hro in *; try (apply Hi; assumption).
  - intros y (A & B & C & D & E & F). unfold ok_slot. rewrite Hg, Hrel, Hro. repeat split; auto.
Qed.

Lemma HI_drain : forall h o, HI h -> HI (updO h o o_drained) /\ (forall y, ok_slot h y -> ok_slot (updO h o o_drained) y).
Proof.
  intros h o Hi.
  assert (Hobj : forall x, h_objs (updO h o o_drained) x = if x =? o then o_drained (h_objs h o) else h_objs h x) by reflexivity.
  split.
  - constructor; try apply Hi.
    + intros x Hx. rewrite Hobj. destruct (x =? o) eqn:E.
      * apply N.eqb_eq in E. subst x. cbn. intros [X|X]; [contradiction|]. apply (hi_comp h Hi o Hx). auto.
      * apply (hi_comp h Hi x Hx).
    + intros x Hx. rewrite Hobj. destruct (x =? o) eqn:E; [cbn; intros X; contradiction | apply (hi_comm h Hi x Hx)].
    + intros x Hx. rewrite Hobj. destruct (x =? o) eqn:E; [apply N.eqb_eq in E; subst x; cbn|]; apply Hi; exact Hx.
    + intros x Hx. rewrite Hobj. destruct (x =? o) eqn:E; [apply N.eqb_eq in E; subst x; cbn|]; apply (hi_pool h Hi); exact Hx.
    + intros r Hr Hrel. rewrite Hobj. destruct (_ =? o) eqn:E; [apply N.eqb_eq in E; cbn; rewrite <- E|]; apply (hi_own h Hi r Hr Hrel).
    + intros x Hx. rewrite Hobj. destruct (x =? o) eqn:E; [apply N.eqb_eq in E; subst x; cbn|]; apply Hi; exact Hx.
  - intros y (A & B & C & D & E & F). unfold ok_slot. rewrite Hobj.
    destruct (so y =? o) eqn:Eo; [apply N.eqb_eq in Eo; cbn; rewrite <- Eo|]; repeat split; auto.
Qed.

Lemma HI_release : forall h i, HI h -> i < h_nreq h -> r_rel (h_reqs h i) = false ->
  o_rtr (h_objs h (r_obj (h_reqs h i))) = true ->
  let h' := set_pool (updR (updO h (r_obj (h_reqs h i)) o_released) i r_set_rel) (r_obj (h_reqs h i) :: h_pool h) in
  HI h' /\ (forall y, ok_slot h y -> ok_slot h' y).
Proof.
  intros h i Hi Hlt Hrel Hrtr. destruct (hi_own h Hi i Hlt Hrel) as [Hown Hob].
  set (o := r_obj (h_reqs h i)) in *. intros h'.
  assert (Hobj : forall x, h_objs h' x = if x =? o then o_released (h_objs h o) else h_objs h x) by reflexivity.
  assert (Hreq : forall r, h_reqs h' r = if r =? i then r_set_rel (h_reqs h i) else h_reqs h r) by reflexivity.
  assert (Hn1 : h_nobj h' = h_nobj h) by reflexivity.
  assert (Hn2 : h_nreq h' = h_nreq h) by reflexivity.
  assert (Hn3 : h_pool h' = o :: h_pool h) by reflexivity.
  assert (Hg : forall r, hgot h' r = hgot h r).
  { intros r. unfold hgot. rewrite Hreq. destruct (r =? i) eqn:E; [apply N.eqb_eq in E; subst r|]; reflexivity. }
  assert (Hown' : forall x, o_owner (h_objs h' x) = o_owner (h_objs h x)).
  { intros x. rewrite Hobj. destruct (x =? o) eqn:E; [apply N.eqb_eq in E; subst x|]; reflexivity. }
  clearbody h'.
  assert (Hnt : nterm (hgot h i) <> 0%nat) by (rewrite <- Hown; apply (hi_comp h Hi o Hob); auto).
  split.
  - constructor; rewrite ?Hn1, ?Hn2, ?Hn3.
    + intros r. rewrite Hg. apply Hi.
    + intros r e. rewrite Hg. apply Hi.
    + intros x Hx. rewrite Hown', Hg, Hobj. destruct (x =? o) eqn:E.
      * apply N.eqb_eq in E. subst x. cbn. intros [X|X]; [|discriminate]. apply (hi_comp h Hi o Hx). auto.
      * apply (hi_comp h Hi x Hx).
    + intros x Hx. rewrite Hown', Hg, Hobj. destruct (x =? o) eqn:E; [apply N.eqb_eq in E; subst x; cbn|]; apply (hi_comm h Hi); exact Hx.
    + intros x Hx. rewrite Hobj. destruct (x =? o) eqn:E; [cbn; discriminate | apply Hi; exact Hx].
    + intros x [<-|Hx].
      * rewrite Hown', Hown, Hreq, N.eqb_refl, Hobj, N.eqb_refl. cbn. auto.
      * destruct (hi_pool h Hi x Hx) as (Q1 & Q2 & Q3). rewrite Hown', Hreq, Hobj.
        split; [exact Q1|]. split.
        -- destruct (_ =? i); [reflexivity | exact Q2].
        -- destruct (x =? o) eqn:E; [reflexivity | exact Q3].
    + constructor; [|apply Hi]. intros Hin. destruct (hi_pool h Hi o Hin) as (_ & Q2 & _). rewrite Hown in Q2. congruence.
    + intros r Hr. rewrite Hreq. destruct (r =? i) eqn:E; [cbn; discriminate|]. intros Hf.
      rewrite Hown'. apply (hi_own h Hi r Hr Hf).
    + intros x Hx. rewrite Hown'. apply Hi. exact Hx.
  - intros y (A & B & C & D & E & F).
    assert (Hne : sr y <> i) by (intros Eq; rewrite Eq in E; contradiction).
    unfold ok_slot. rewrite Hn1, Hn2, Hown', Hg, Hreq. apply N.eqb_neq in Hne. rewrite Hne. repeat split; auto.
Qed.

(* ================================================================== *)
(* every step preserves LI (unless the environment broke an assumption) *)
Lemma find_key_none_notin : forall key l, find_key key l = None -> ~ In key (map fst l).
Proof.
  intros key. induction l as [|kv l IH]; [intros _ []|]. unfold find_key in *. cbn.
  destruct (fst kv =? key) eqn:E; [discriminate|]. intros Hn [Hk|Hk]; [apply N.eqb_neq in E; contradiction | apply IH; assumption].
Qed.
Lemma find_key_in : forall key l sl, find_key key l = Some sl -> In (key, sl) l.
Proof.
  intros key. induction l as [|kv l IH]; intros sl; [discriminate|]. unfold find_key in *. cbn.
  destruct (fst kv =? key) eqn:E.
  - intros Hs. inversion Hs; subst. left. apply N.eqb_eq in E. destruct kv; cbn in *; subst; reflexivity.
  - intros Hs. right. apply IH. exact Hs.
Qed.
Lemma NoDup_remove_key : forall key l, NoDup (map fst l) -> NoDup (map fst (remove_key key l)).
Proof. intros. apply NoDup_map_filter. assumption. Qed.

Lemma take_some : forall s cid sid key now sl, LI s -> take s cid sid key now = Some sl ->
  p_stop (P s) (key mod cps s) = false /\ find_key key (pend (P s)) = Some sl /\
  filter (fun kv => fst kv =? key) (pend (P s)) = [(key, sl)] /\ In sl (live s).
Proof.
  intros s cid sid key now sl Li. unfold take, shard.
  destruct (p_stop (P s) (key mod cps s)) eqn:Est; [discriminate|].
  destruct (find_key key (pend (P s))) as [sl'|] eqn:Ef; [|discriminate].
  destruct (_ && _); [|discriminate]. intros Hs. inversion Hs; subst sl'.
  repeat split; auto.
  - apply find_key_some; [apply Li | exact Ef].
  - unfold live. apply in_or_app. left. unfold live_pend. apply in_map_iff. exists (key, sl). split; [reflexivity|].
    apply filter_In. split; [apply find_key_in; exact Ef|]. unfold alive. cbn. rewrite Est. reflexivity.
Qed.

(* removing key (whose shard is live) from the pending map and notifying its slot *)
Lemma pend_remove_key : forall s key sl,
  p_stop (P s) (key mod cps s) = false ->
  filter (fun kv => fst kv =? key) (pend (P s)) = [(key, sl)] ->
  Permutation (live_pend s) ([sl] ++ map snd (filter (alive s) (remove_key key (pend (P s))))).
Proof.
  intros s key sl Est Hf.
  pose proof (pend_split s (fun kv => fst kv =? key)) as Hp. rewrite Hf in Hp. cbn [map snd] in Hp.
  apply Hp. intros kv Hk. apply N.eqb_eq in Hk. unfold alive. rewrite Hk, Est. reflexivity.
Qed.

Lemma ok_of_live : forall s sl, LI s -> In sl (live s) -> ok_slot (H s) sl.
Proof. intros s sl Li Hin. pose proof (li_ok s Li) as Hok. rewrite Forall_forall in Hok. apply Hok. exact Hin. Qed.

Definition one (sc : obj -> src) (f : obj -> res) (x : slot) : list ((obj -> src) * (obj -> res) * slot) := [(sc, f, x)].

Lemma LI_notify_pend : forall s s' sc r key sl, LI s -> h_err (H s) = 0 ->
  rc r =? cCommitted = false ->
  p_stop (P s) (key mod cps s) = false ->
  filter (fun kv => fst kv =? key) (pend (P s)) = [(key, sl)] ->
  H s' = notify sc r (H s) sl ->
  live s' = map snd (filter (alive s) (remove_key key (pend (P s)))) ++ live_reads s ++ olist (x_pend (C s)) ++ olist (x_pend (S s)) ++ olist (lq_pend s) ->
  NoDup (map fst (pend (P s'))) -> cm_b (P s') = None -> LX s s'.
Proof.
  intros s s' sc r key sl Li He Hr Est Hf Hh Hl Hk Hc.
  apply (LX_finish s s' [(fun _ => sc, fun _ => r, sl)] Li He); auto.
  - constructor; [|constructor]. intros o. exact Hr.
  - cbn [map snd app]. rewrite Hl. unfold live. apply (perm_head _ (live_pend s) _ _ [sl] []).
    apply (pend_remove_key s key sl Est Hf).
Qed.

Lemma new_obj_eq : forall ncf rid key dl h,
  new_obj ncf rid key dl h = get_obj (N.of_nat (length (h_pool h))) ncf rid key 0 0 dl h.
Proof.
  intros. unfold new_obj, get_obj. rewrite Nat2N.id.
  assert (E : nth_error (h_pool h) (length (h_pool h)) = None) by (apply nth_error_None; lia).
  rewrite E. reflexivity.
Qed.

Lemma batch_slots_app : forall a b, batch_slots (a ++ b) = batch_slots a ++ batch_slots b.
Proof. intros. unfold batch_slots. apply flat_map_app. Qed.
Lemma batch_split : forall (p : (N * N) * (N * list slot) -> bool) bs,
  Permutation (batch_slots bs) (batch_slots (filter p bs) ++ batch_slots (filter (fun b => negb (p b)) bs)).
Proof.
  intros p bs. rewrite <- batch_slots_app. unfold batch_slots. apply Permutation_flat_map. apply perm_filter_split.
Qed.
Lemma batch_slots_map_filter : forall (q : slot -> bool) bs,
  batch_slots (map (fun b : (N * N) * (N * list slot) => (fst b, (fst (snd b), filter q (snd (snd b))))) bs)
  = filter q (batch_slots bs).
Proof.
  intros q. induction bs as [|b bs IH]; [reflexivity|]. unfold batch_slots in *. cbn. rewrite filter_app, IH. reflexivity.
Qed.
Lemma batch_slots_filter_empty : forall (keep : (N * N) * (N * list slot) -> bool) bs,
  (forall b, keep b = false -> snd (snd b) = []) -> batch_slots (filter keep bs) = batch_slots bs.
Proof.
  intros keep bs Hk. induction bs as [|b bs IH]; [reflexivity|]. unfold batch_slots in *. cbn.
  destruct (keep b) eqn:E; cbn; [rewrite IH; reflexivity | rewrite (Hk b E), IH; reflexivity].
Qed.
Lemma batch_slots_map_idx : forall (g : (N * N) * (N * list slot) -> (N * N) * (N * list slot)) bs,
  (forall b, snd (snd (g b)) = snd (snd b)) -> batch_slots (map g bs) = batch_slots bs.
Proof.
  intros g bs Hg. induction bs as [|b bs IH]; [reflexivity|]. unfold batch_slots in *. cbn. rewrite Hg, IH. reflexivity.
Qed.

(* the three one-slot tables *)
Lemma LI_x_notify : forall s s' sc f sl (a b : list slot), LI s -> h_err (H s) = 0 -> terminal f ->
  live s = a ++ [sl] ++ b -> live s' = a ++ b ->
  H s' = notifyf sc f (H s) sl ->
  NoDup (map fst (pend (P s'))) -> cm_b (P s') = None -> LX s s'.
Proof.
  intros s s' sc f sl a b Li He Hf Hl Hl' Hh Hk Hc.
  apply (LX_finish s s' [(sc, f, sl)] Li He); auto.
  cbn [map snd app]. rewrite Hl, Hl'. cbn [app]. apply Permutation_sym. apply Permutation_middle.
Qed.

Ltac same_live Li := apply (LI_same_heap _ _ Li); [reflexivity | apply Permutation_refl | apply Li | apply Li].

Lemma x_gc_LI_C : forall s, LI s -> h_err (H s) = 0 ->
  LX s (let '(h1, x) := x_gc (H s) (C s) in setHC s h1 x).
Proof.
  intros s Li He. unfold x_gc. destruct (x_pend (C s)) as [sl|] eqn:Ex.
  - destruct (sub64 _ _ <? gc_tick); [destruct s, C; cbn in *; subst; apply (LX_refl _ Li)|].
    destruct (o_dl _ <? _).
    + eapply (LI_x_notify s _ (fun o => SGc (h_clock (H s)) (o_dl o)) (fun _ => mkRes cTimeout 0 0) sl (live_pend s ++ live_reads s) (olist (x_pend (S s)) ++ olist (lq_pend s)) Li He).
      * apply terminal_const. reflexivity.
      * unfold live. rewrite Ex. cbn [olist]. rewrite <- !app_assoc. reflexivity.
      * unfold live. cbn. rewrite <- !app_assoc. reflexivity.
      * reflexivity.
      * apply Li.
      * apply Li.
    + apply (LI_same_heap _ _ Li); [reflexivity | | apply Li | apply Li].
      unfold live. cbn. rewrite Ex. apply Permutation_refl.
  - destruct s, C; cbn in *; subst; apply (LX_refl _ Li).
Qed.
Lemma x_gc_LI_S : forall s, LI s -> h_err (H s) = 0 ->
  LX s (let '(h1, x) := x_gc (H s) (S s) in setHS s h1 x).
Proof.
  intros s Li He. unfold x_gc. destruct (x_pend (S s)) as [sl|] eqn:Ex.
  - destruct (sub64 _ _ <? gc_tick); [destruct s, S; cbn in *; subst; apply (LX_refl _ Li)|].
    destruct (o_dl _ <? _).
    + eapply (LI_x_notify s _ (fun o => SGc (h_clock (H s)) (o_dl o)) (fun _ => mkRes cTimeout 0 0) sl (live_pend s ++ live_reads s ++ olist (x_pend (C s))) (olist (lq_pend s)) Li He).
      * apply terminal_const. reflexivity.
      * unfold live. rewrite Ex. cbn [olist]. rewrite <- !app_assoc. reflexivity.
      * unfold live. cbn. rewrite <- !app_assoc. reflexivity.
      * reflexivity.
      * apply Li.
      * apply Li.
    + apply (LI_same_heap _ _ Li); [reflexivity | | apply Li | apply Li].
      unfold live. cbn. rewrite Ex. apply Permutation_refl.
  - destruct s, S; cbn in *; subst; apply (LX_refl _ Li).
Qed.

Lemma broken_notifyf : forall sc f h x, h_broken (notifyf sc f h x) = h_broken h.
Proof.
  intros. unfold notifyf. destruct (negb _); [reflexivity|]. destruct (o_comp _); reflexivity.
Qed.
Lemma broken_notifyf_all : forall sc f xs h, h_broken (notifyf_all sc f h xs) = h_broken h.
Proof.
  intros sc f xs. induction xs as [|x xs IH]; intros h; [reflexivity|].
  change (notifyf_all sc f h (x :: xs)) with (notifyf_all sc f (notifyf sc f h x) xs). rewrite IH. apply broken_notifyf.
Qed.
Lemma filter_andb : forall A (p q : A -> bool) l, filter (fun x => p x && q x) l = filter p (filter q l).
Proof.
  intros A p q. induction l as [|a l IH]; [reflexivity|]. cbn. destruct (q a) eqn:Eq, (p a) eqn:Ep; cbn; rewrite ?Ep, IH; reflexivity.
Qed.

Lemma closeP_LI : forall s k0, LI s -> h_err (H s) = 0 ->
  h_broken (H (step0 s (CloseP k0))) = false -> LX s (step0 s (CloseP k0)).
Proof.
  intros s k0 Li He. cbn [step0]. set (k := k0 mod cps s).
  set (inK := fun kv : N * slot => fst kv mod cps s =? k).
  unfold notify_all, notify.
  fold (notifyf_all (fun _ => SClose) (fun _ => terminated)
          (if p_stop (P s) k then set_broken (H s) else H s) (map snd (filter inK (pend (P s))))).
  destruct (p_stop (P s) k) eqn:Est.
  - cbn [H setHP]. rewrite broken_notifyf_all. cbn. discriminate.
  - intros _.
    apply (LX_finish s _ (map (fun x => (fun _ : obj => SClose, fun _ : obj => terminated, x)) (map snd (filter inK (pend (P s))))) Li He).
    + apply Forall_triples. apply terminal_const. reflexivity.
    + rewrite map_snd_triples. unfold live. apply (perm_head _ (live_pend s) _ _ _ []). cbn [app].
      etransitivity; [apply (pend_split s inK)|].
      * intros kv Hk. unfold inK in Hk. apply N.eqb_eq in Hk. unfold alive. rewrite Hk, Est. reflexivity.
      * apply Permutation_app_head. unfold live_pend. cbn [P setHP p_set_stop pend].
        rewrite <- (filter_andb _ (alive s) (fun kv => negb (inK kv))).
        erewrite filter_ext; [apply Permutation_refl|].
        intros kv. unfold alive, inK, fupd. cbn. destruct (fst kv mod cps s =? k) eqn:E; cbn.
        -- apply N.eqb_eq in E. rewrite E, Est. reflexivity.
        -- rewrite andb_true_r. reflexivity.
    + cbn [H setHP]. apply notifyf_all_nseq.
    + apply Li.
    + apply Li.
Qed.

Lemma closeR_LI : forall s, LI s -> h_err (H s) = 0 ->
  h_broken (H (step0 s CloseR)) = false -> LX s (step0 s CloseR).
Proof.
  intros s Li He. cbn [step0]. unfold notify_all, notify.
  fold (notifyf_all (fun _ => SClose) (fun _ => terminated) (if rd_stop (R s) then set_broken (H s) else H s) (rq (R s))).
  match goal with |- context[fold_left ?g (batch_slots ?b) ?h0] =>
    change (fold_left g (batch_slots b) h0) with (notifyf_all (fun _ => SClose) (fun _ => terminated) h0 (batch_slots b)) end.
  destruct (rd_stop (R s)) eqn:Est.
  - cbn [H setHR]. rewrite !broken_notifyf_all. cbn. discriminate.
  - intros _. set (tr := fun x : slot => (fun _ : obj => SClose, fun _ : obj => terminated, x)).
    apply (LX_finish s _ (map tr (rq (R s)) ++ map tr (batch_slots (batches (R s)))) Li He).
    + apply Forall_app. split; apply Forall_triples; apply terminal_const; reflexivity.
    + rewrite map_app. unfold tr. rewrite !map_snd_triples. unfold live, live_reads.
      cbn [R setHR r_closed rq taken batches rd_stop P C S lq_pend]. rewrite Est.
      change (live_pend (setHR s _ _)) with (live_pend s).
      apply (perm_mid _ (live_pend s) _ _ _ _ []). cbn [app]. rewrite app_nil_r.
      rewrite <- app_assoc. apply Permutation_app_head. apply Permutation_app_comm.
    + cbn [H setHR]. rewrite nseq_app. rewrite !notifyf_all_nseq. reflexivity.
    + apply Li.
    + apply Li.
Qed.

Lemma fold_batches_nseq : forall (scb : (N * N) * (N * list slot) -> obj -> src) (fr : obj -> res) bsl h,
  fold_left (fun h b => notifyf_all (scb b) fr h (snd (snd b))) bsl h
  = nseq (flat_map (fun b => map (fun x => (scb b, fr, x)) (snd (snd b))) bsl) h.
Proof.
  intros scb fr. induction bsl as [|b bsl IH]; intros h; [reflexivity|]. cbn [fold_left flat_map].
  rewrite nseq_app, <- notifyf_all_nseq. apply IH.
Qed.
Lemma map_snd_flat_triples : forall (scb : (N * N) * (N * list slot) -> obj -> src) (fr : obj -> res) bsl,
  map snd (flat_map (fun b => map (fun x => (scb b, fr, x)) (snd (snd b))) bsl) = batch_slots bsl.
Proof.
  intros scb fr. induction bsl as [|b bsl IH]; [reflexivity|]. unfold batch_slots in *. cbn [flat_map].
  rewrite map_app, IH, map_map. cbn. rewrite map_id. reflexivity.
Qed.
Lemma Forall_flat_triples : forall (scb : (N * N) * (N * list slot) -> obj -> src) (fr : obj -> res) bsl, terminal fr ->
  Forall (fun t : (obj -> src) * (obj -> res) * slot => terminal (snd (fst t)))
         (flat_map (fun b => map (fun x => (scb b, fr, x)) (snd (snd b))) bsl).
Proof.
  intros scb fr bsl Hf. apply Forall_forall. intros t Ht. apply in_flat_map in Ht. destruct Ht as (b & _ & Ht).
  apply in_map_iff in Ht. destruct Ht as (x & <- & _). exact Hf.
Qed.

Lemma readsApplied_LI : forall s a, LI s -> h_err (H s) = 0 -> LX s (reads_applied s a).
Proof.
  intros s a Li He. unfold reads_applied.
  destruct (rd_stop (R s)) eqn:Est; [apply (LX_refl _ Li)|]. cbn [orb].
  destruct (batches (R s)) as [|b0 bs0] eqn:Eb; [apply (LX_refl _ Li)|]. rewrite <- Eb. clear Eb b0 bs0.
  set (now := h_clock (H s)).
  set (ready := fun b : (N * N) * (N * list slot) => (0 <? fst (snd b)) && (fst (snd b) <=? a)).
  set (scb := fun (b : (N * N) * (N * list slot)) (o : obj) => SReadApplied a (fst (snd b)) now (o_dl o)).
  set (fr := fun o : obj => if now <? o_dl o then mkRes cCompleted 0 0 else mkRes cTimeout 0 0).
  assert (Hfr : terminal fr) by (intros o; unfold fr; destruct (now <? o_dl o); reflexivity).
  change (fold_left _ (filter ready (batches (R s))) (H s))
    with (fold_left (fun h b => notifyf_all (scb b) fr h (snd (snd b))) (filter ready (batches (R s))) (H s)).
  rewrite fold_batches_nseq.
  set (L1 := flat_map (fun b => map (fun x => (scb b, fr, x)) (snd (snd b))) (filter ready (batches (R s)))).
  set (bs1 := filter (fun b => negb (ready b)) (batches (R s))).
  assert (Hp1 : Permutation (batch_slots (batches (R s))) (map snd L1 ++ batch_slots bs1)).
  { unfold L1. rewrite map_snd_flat_triples. apply (batch_split ready). }
  destruct (sub64 now (rd_lastgc (R s)) <? gc_tick).
  - apply (LX_finish s _ L1 Li He).
    + apply Forall_flat_triples. exact Hfr.
    + unfold live, live_reads. cbn [R setHR r_set_b rq taken batches rd_stop P C S lq_pend]. rewrite Est.
      change (live_pend (setHR s _ _)) with (live_pend s).
      apply (perm_mid _ (live_pend s) _ _ _ _ []). apply perm_tail3. exact Hp1.
    + reflexivity.
    + apply Li.
    + apply Li.
  - unfold reads_gc. cbn zeta.
    set (expired := fun sl : slot => o_dl (h_objs (nseq L1 (H s)) (so sl)) <? now).
    set (gsc := fun o : obj => SGc now (o_dl o)). set (gf := fun _ : obj => mkRes cTimeout 0 0).
    set (keepb := fun b : (N * N) * (N * list slot) =>
                    negb ((snd (fst b) <? now) && match snd (snd b) with [] => true | _ => false end)).
    apply (LX_finish s _ (L1 ++ map (fun x => (gsc, gf, x)) (filter expired (batch_slots bs1))) Li He).
    + apply Forall_app. split; [apply Forall_flat_triples; exact Hfr | apply Forall_triples; apply terminal_const; reflexivity].
    + rewrite map_app, map_snd_triples.
      unfold live, live_reads. cbn [R setHR r_set_bg rq taken batches rd_stop P C S lq_pend]. rewrite Est.
      change (live_pend (setHR s _ _)) with (live_pend s).
      apply (perm_mid _ (live_pend s) _ _ _ _ []). apply perm_tail3.
      rewrite (batch_slots_filter_empty keepb).
      * rewrite (batch_slots_map_filter (fun sl => negb (expired sl))).
        etransitivity; [exact Hp1|]. rewrite <- app_assoc. apply Permutation_app_head. apply perm_filter_split.
      * intros b Hk. unfold keepb in Hk. apply negb_false_iff in Hk. apply andb_true_iff in Hk. destruct Hk as [_ Hk].
        destruct (snd (snd b)); [reflexivity | discriminate].
    + cbn [H setHR]. rewrite nseq_app, <- notifyf_all_nseq. reflexivity.
    + apply Li.
    + apply Li.
Qed.

Lemma x_match_some : forall h x key sl, x_match h x key = Some sl -> x_pend x = Some sl.
Proof. intros h x key sl. unfold x_match. destruct (x_pend x); [|discriminate]. destruct (_ =? key); [auto|discriminate]. Qed.

Lemma alive_setHP : forall s h p kv, p_stop p = p_stop (P s) -> alive (setHP s h p) kv = alive s kv.
Proof. intros s h p kv E. unfold alive. cbn. rewrite E. reflexivity. Qed.

Lemma notify_commit_nterm : forall h x r, nterm (hgot (notify_commit h x) r) = nterm (hgot h r).
Proof.
  intros h x r. unfold notify_commit.
  destruct (negb (h_err h =? 0)); [auto|].
  destruct (negb (o_nc _)); [reflexivity|]. destruct (negb (o_hascomm _)); [reflexivity|].
  destruct (o_comm _); [|reflexivity].
  assert (Hr : forall h0, h_reqs h0 = h_reqs h ->
     nterm (hgot (updR (updO h0 (so x) (fun o0 => o_committed o0 (mkRes cCommitted 0 0))) (o_owner (h_objs h (so x)))
              (fun q => r_add_got q (mkEv (mkRes cCommitted 0 0) (sr x) SCommit))) r) = nterm (hgot h r)).
  { intros h0 E0. unfold hgot. cbn. rewrite E0. destruct (r =? o_owner (h_objs h (so x))) eqn:E; [|reflexivity].
    apply N.eqb_eq in E. subst r. cbn. unfold nterm. rewrite filter_app, app_length. cbn. lia. }
  destruct (has_committed _); apply Hr; reflexivity.
Qed.

Lemma proposeB_outcome_open : forall s, proposeB_outcome s = 0 -> q_stop (P s) = false.
Proof.
  intros s. unfold proposeB_outcome. destruct (q_paused (P s) || _); destruct (q_stop (P s)); intros X; try discriminate X; reflexivity.
Qed.

Lemma step0_LI : forall s o, LI s -> stop_closed s -> inflight_keys s -> h_err (H s) = 0 ->
  h_err (H (step0 s o)) = 0 -> h_broken (H (step0 s o)) = false -> LX s (step0 s o).
Proof.
  intros s o Li Hsc Hif He. destruct o; cbn [step0].
  - (* ProposeA *)
    destruct (to =? 0); [intros; apply (LX_refl _ Li)|].
    pose proof (alloc_ok pick (cnc s) key cid sid (add64 (h_clock (H s)) to) (H s)) as Ha.
    destruct (get_obj pick (cnc s) (h_nreq (H s)) key cid sid (add64 (h_clock (H s)) to) (H s)) as [h1 ob] eqn:Eg.
    cbn [fst snd] in Ha.
    specialize (Ha (mkReq 0 ob key cid sid (add64 (h_clock (H s)) to) (cnc s) 0 false [] [] []) (li_h s Li) eq_refl eq_refl eq_refl).
    destruct Ha as (Hi' & Hnew & Hold & _ & _ & _ & Hnq & Hq & Hrq & _).
    destruct (find_key key (pend (P s))) eqn:Ef; [cbn; intros _ Hb; discriminate|].
    destruct (key_in_flight (H s) key) eqn:Ekf; [cbn; intros _ Hb; discriminate|].
    intros _ _. rewrite (find_key_none _ _ Ef).
    set (new := mkSlot ob (h_nreq (H s))).
    apply (LI_heap s _ (if alive s (key, new) then [new] else []) Li); cbn [H setHP P p_set_pend pend cm_b]; auto.
    + destruct (alive s (key, new)); [constructor; [exact Hnew | constructor] | constructor].
    + destruct (alive s (key, new)); cbn; [constructor; [intros [] | constructor] | constructor].
    + intros y Hy. destruct (alive s (key, new)); [destruct Hy as [<-|[]]; cbn; lia | destruct Hy].
    + unfold live, live_pend. cbn [P setHP p_set_pend pend R C S lq_pend filter].
      change (alive (setHP s _ _) (key, new)) with (alive s (key, new)).
      destruct (alive s (key, new)); cbn [map app]; apply Permutation_refl.
    + cbn. constructor; [apply find_key_none_notin; exact Ef | apply Li].
    + apply Li.
    + rewrite Hq. cbn. discriminate.
    + intros _. destruct (alive s (key, new)) eqn:Ea; [left; cbn; auto|]. right.
      unfold alive in Ea. cbn in Ea. apply negb_false_iff in Ea. apply (Hsc _ Ea).
  - (* ProposeB *)
    destruct (_ && _) eqn:Ec; [|intros; apply (LX_refl _ Li)].
    apply andb_true_iff in Ec. destruct Ec as [Ec Es0]. apply andb_true_iff in Ec. destruct Ec as [Elt _].
    apply N.ltb_lt in Elt. apply N.eqb_eq in Es0.
    destruct (proposeB_outcome s =? 0) eqn:Eo; intros _ _.
    + apply N.eqb_eq in Eo. apply proposeB_outcome_open in Eo.
      destruct (HI_updR_same (H s) i (fun q => r_set_status q 1) ltac:(intros; cbn; auto) (li_h s Li)) as [Hi' Hold].
      apply (LI_weaken s _ [] Li); [exact Hi' | exact Hold | apply Permutation_refl | apply Li | apply Li | reflexivity | | | intros y []].
      * intros r. cbn [H setHP]. rewrite hgot_updR. destruct (r =? i) eqn:E; [apply N.eqb_eq in E; subst r; cbn|]; auto.
      * intros r. cbn [H setHP updR set_reqs h_reqs]. destruct (r =? i) eqn:E; [apply N.eqb_eq in E; subst r; cbn|]; auto.
        split; [reflexivity|]. right. split; [exact Es0|]. right. auto.
    + destruct (HI_updR_same (H s) i (fun q => r_set_status q 2) ltac:(intros; cbn; auto) (li_h s Li)) as [Hi' Hold].
      set (key := r_key (h_reqs (H s) i)).
      apply (LI_weaken s _ (map snd (filter (alive s) (filter (fun kv => fst kv =? key) (pend (P s))))) Li); [exact Hi' | exact Hold | | | | reflexivity | | | ].
      * unfold live. apply (perm_head _ (live_pend s) _ _ [] _).
        change (Permutation (map snd (filter (alive s) (pend (P s))))
                  ([] ++ map snd (filter (alive s) (filter (fun kv => fst kv =? key) (pend (P s)))) ++
                   map snd (filter (alive s) (remove_key key (pend (P s)))))).
        cbn [app]. rewrite <- map_app. apply Permutation_map. unfold remove_key.
        rewrite (filter_filter_comm _ (alive s)). rewrite (filter_filter_comm _ (alive s) (fun kv => negb (fst kv =? key))).
        apply (perm_filter_split _ (fun kv => fst kv =? key)).
      * cbn. apply NoDup_remove_key. apply Li.
      * apply Li.
      * intros r. cbn [H setHP]. rewrite hgot_updR. destruct (r =? i) eqn:E; [apply N.eqb_eq in E; subst r; cbn|]; auto.
      * intros r. cbn [H setHP updR set_reqs h_reqs]. destruct (r =? i) eqn:E; [apply N.eqb_eq in E; subst r; cbn|]; auto.
      * intros y Hy. apply in_map_iff in Hy. destruct Hy as (kv & <- & Hkv). apply filter_In in Hkv. destruct Hkv as [Hkv _].
        apply filter_In in Hkv. destruct Hkv as [Hkv Hk]. apply N.eqb_eq in Hk.
        rewrite (Hif i kv Elt Es0 Hkv Hk). cbn [H setHP updR set_reqs h_reqs]. rewrite N.eqb_refl. reflexivity.
  - (* Read *)
    destruct (to =? 0); [intros; apply (LX_refl _ Li)|].
    pose proof (alloc_ok pick false 0 0 0 (add64 (h_clock (H s)) to) (H s)) as Ha.
    destruct (get_obj pick false (h_nreq (H s)) 0 0 0 (add64 (h_clock (H s)) to) (H s)) as [h1 ob] eqn:Eg.
    cbn [fst snd] in Ha. intros _ _.
    destruct (read_outcome s to =? 0).
    + specialize (Ha (mkReq 1 ob 0 0 0 (add64 (h_clock (H s)) to) false 1 false [] [] []) (li_h s Li) eq_refl eq_refl eq_refl).
      destruct Ha as (Hi' & Hnew & Hold & _ & _ & _ & Hnq & Hq & Hrq & _).
      apply (LI_heap s _ [mkSlot ob (h_nreq (H s))] Li); cbn [H setHR]; auto.
      * cbn. constructor; [intros [] | constructor].
      * intros y [<-|[]]. cbn. lia.
      * unfold live, live_reads. cbn [R setHR r_set_rq rq taken batches rd_stop P C S lq_pend].
        change (live_pend (setHR s _ _)) with (live_pend s).
        rewrite <- !app_assoc. cbn [app]. apply Permutation_sym.
        etransitivity; [|apply Permutation_app_head; apply Permutation_middle]. apply Permutation_middle.
      * apply Li.
      * apply Li.
      * intros _. cbn. auto.
      * rewrite Hq. cbn. discriminate.
    + specialize (Ha (mkReq 1 ob 0 0 0 (add64 (h_clock (H s)) to) false 2 false [] [] []) (li_h s Li) eq_refl eq_refl eq_refl).
      destruct Ha as (Hi' & Hnew & Hold & _ & _ & _ & Hnq & Hq & Hrq & _).
      apply (LI_heap s _ [] Li); cbn [H setH]; auto; try solve [constructor]; try solve [apply Li]; try solve [intros y []];
        try solve [apply Permutation_refl]; try solve [rewrite Hq; cbn; discriminate].
  - (* ReqCC *)
    unfold x_request. destruct (x_outcome (C s) to =? 0) eqn:Eo; [|intros; destruct s; apply (LX_refl _ Li)].
    rewrite new_obj_eq.
    pose proof (alloc_ok (N.of_nat (length (h_pool (H s)))) (cnc s) key 0 0 (add64 (h_clock (H s)) to) (H s)) as Ha.
    destruct (get_obj _ (cnc s) (h_nreq (H s)) key 0 0 (add64 (h_clock (H s)) to) (H s)) as [h1 ob] eqn:Eg.
    cbn [fst snd] in Ha. intros _ _.
    specialize (Ha (mkReq 2 ob key 0 0 (add64 (h_clock (H s)) to) (cnc s) 1 false [] [] []) (li_h s Li) eq_refl eq_refl eq_refl).
    destruct Ha as (Hi' & Hnew & Hold & _ & _ & _ & Hnq & Hq & Hrq & _).
    assert (Ex : x_pend (C s) = None).
    { unfold x_outcome in Eo. destruct (to =? 0); [discriminate|]. destruct (x_pend (C s)); [discriminate | reflexivity]. }
    apply (LI_heap s _ [mkSlot ob (h_nreq (H s))] Li); cbn [H setHC]; auto.
    + cbn. constructor; [intros [] | constructor].
    + intros y [<-|[]]. cbn. lia.
    + unfold live. cbn [C setHC x_pend olist S lq_pend]. rewrite Ex. cbn [olist app].
      change (live_pend (setHC s _ _)) with (live_pend s). change (live_reads (setHC s _ _)) with (live_reads s).
      apply Permutation_sym. rewrite !app_assoc. apply Permutation_cons_app. rewrite <- !app_assoc. apply Permutation_refl.
    + apply Li.
    + apply Li.
    + intros _. cbn. auto.
    + rewrite Hq. cbn. discriminate.
  - (* ReqSS *)
    unfold x_request. destruct (x_outcome (S s) to =? 0) eqn:Eo; [|intros; destruct s; apply (LX_refl _ Li)].
    rewrite new_obj_eq.
    pose proof (alloc_ok (N.of_nat (length (h_pool (H s)))) false key 0 0 (add64 (h_clock (H s)) to) (H s)) as Ha.
    destruct (get_obj _ false (h_nreq (H s)) key 0 0 (add64 (h_clock (H s)) to) (H s)) as [h1 ob] eqn:Eg.
    cbn [fst snd] in Ha. intros _ _.
    specialize (Ha (mkReq 3 ob key 0 0 (add64 (h_clock (H s)) to) false 1 false [] [] []) (li_h s Li) eq_refl eq_refl eq_refl).
    destruct Ha as (Hi' & Hnew & Hold & _ & _ & _ & Hnq & Hq & Hrq & _).
    assert (Ex : x_pend (S s) = None).
    { unfold x_outcome in Eo. destruct (to =? 0); [discriminate|]. destruct (x_pend (S s)); [discriminate | reflexivity]. }
    apply (LI_heap s _ [mkSlot ob (h_nreq (H s))] Li); cbn [H setHS]; auto.
    + cbn. constructor; [intros [] | constructor].
    + intros y [<-|[]]. cbn. lia.
    + unfold live. cbn [C S setHS x_pend olist lq_pend]. rewrite Ex. cbn [olist app].
      change (live_pend (setHS s _ _)) with (live_pend s). change (live_reads (setHS s _ _)) with (live_reads s).
      apply Permutation_sym. rewrite !app_assoc. apply Permutation_cons_app. rewrite <- !app_assoc. apply Permutation_refl.
    + apply Li.
    + apply Li.
    + intros _. cbn. auto.
    + rewrite Hq. cbn. discriminate.
  - (* ReqLQ *)
    destruct (lq_outcome s =? 0) eqn:Eo; [|intros; apply (LX_refl _ Li)].
    rewrite new_obj_eq.
    pose proof (alloc_ok (N.of_nat (length (h_pool (H s)))) false 0 0 0 0 (H s)) as Ha.
    destruct (get_obj _ false (h_nreq (H s)) 0 0 0 0 (H s)) as [h1 ob] eqn:Eg.
    cbn [fst snd] in Ha. intros _ _.
    specialize (Ha (mkReq 4 ob 0 0 0 0 false 1 false [] [] []) (li_h s Li) eq_refl eq_refl eq_refl).
    destruct Ha as (Hi' & Hnew & Hold & _ & _ & _ & Hnq & Hq & Hrq & _).
    assert (Ex : lq_pend s = None).
    { unfold lq_outcome in Eo. destruct (_ && _); [discriminate|]. destruct (lq_pend s); [discriminate | reflexivity]. }
    apply (LI_heap s _ [mkSlot ob (h_nreq (H s))] Li); cbn [H setHL]; auto.
    + cbn. constructor; [intros [] | constructor].
    + intros y [<-|[]]. cbn. lia.
    + unfold live. cbn [C S setHL lq_pend olist]. rewrite Ex. cbn [olist app].
      change (live_pend (setHL s _ _ _)) with (live_pend s). change (live_reads (setHL s _ _ _)) with (live_reads s).
      rewrite !app_nil_r. apply Permutation_sym. rewrite !app_assoc. apply Permutation_cons_append.
    + apply Li.
    + apply Li.
    + intros _. cbn. auto.
    + rewrite Hq. cbn. discriminate.
  - (* Drain *)
    destruct (_ && _); [|intros; apply (LX_refl _ Li)]. intros _ _. destruct (_ =? i).
    + destruct (HI_drain (H s) (r_obj (h_reqs (H s) i)) (li_h s Li)) as [Hi' Hold].
      apply (LI_weaken s _ [] Li); [exact Hi' | exact Hold | apply Permutation_refl | apply Li | apply Li | reflexivity | auto | auto | intros y []].
    + destruct (HI_updR_same (H s) i (fun q => r_set_left q [] []) ltac:(intros; cbn; auto) (li_h s Li)) as [Hi' Hold].
      apply (LI_weaken s _ [] Li); [exact Hi' | exact Hold | apply Permutation_refl | apply Li | apply Li | reflexivity | | | intros y []].
      * intros r. cbn [H setH]. rewrite hgot_updR. destruct (r =? i) eqn:E; [apply N.eqb_eq in E; subst r; cbn|]; auto.
      * intros r. cbn [H setH updR set_reqs h_reqs]. destruct (r =? i) eqn:E; [apply N.eqb_eq in E; subst r; cbn|]; auto.
  - (* Release *)
    destruct (_ && _) eqn:Ec; [|intros; apply (LX_refl _ Li)]. intros _ _.
    apply andb_true_iff in Ec. destruct Ec as [Ec Ertr]. apply andb_true_iff in Ec. destruct Ec as [Ec Erel].
    apply andb_true_iff in Ec. destruct Ec as [Ec _]. apply andb_true_iff in Ec. destruct Ec as [Elt _].
    apply N.ltb_lt in Elt. apply negb_true_iff in Erel.
    destruct (HI_release (H s) i (li_h s Li) Elt Erel Ertr) as [Hi' Hold].
    apply (LI_weaken s _ [] Li); [exact Hi' | exact Hold | apply Permutation_refl | apply Li | apply Li | reflexivity | | | intros y []].
    + intros r. cbn [H setH]. unfold hgot. cbn. destruct (r =? i) eqn:E; [apply N.eqb_eq in E; subst r; cbn|]; auto.
    + intros r. cbn [H setH]. cbn. destruct (r =? i) eqn:E; [apply N.eqb_eq in E; subst r; cbn|]; auto.
  - (* TakeProps *) intros _ _. same_live Li.
  - (* TakeReads *)
    intros _ _. destruct (taken (R s)) eqn:Et; [|apply (LX_refl _ Li)].
    apply (LI_same_heap _ _ Li); [reflexivity | | apply Li | apply Li].
    unfold live, live_reads. cbn. rewrite Et. cbn. apply Permutation_refl.
  - (* AddReads *)
    destruct (taken (R s)) as [|t0 tk] eqn:Et; [intros; apply (LX_refl _ Li)|].
    destruct (rd_stop (R s)) eqn:Est.
    + cbn [read_add_terminates_when_stopped]. intros _ _.
      unfold notify_all, notify. fold (notifyf_all (fun _ => SClose) (fun _ => terminated) (H s) (t0 :: tk)).
      apply (LX_finish s _ (map (fun x => (fun _ : obj => SClose, fun _ : obj => terminated, x)) (t0 :: tk)) Li He).
      * apply Forall_triples. apply terminal_const. reflexivity.
      * rewrite map_snd_triples. unfold live, live_reads. cbn [R setHR r_set_tb rq taken batches rd_stop P C S lq_pend app].
        rewrite Et, Est. change (live_pend (setHR s _ _)) with (live_pend s).
        apply (perm_mid _ (live_pend s) _ _ _ (t0 :: tk) []). cbn [app]. rewrite !app_nil_r.
        apply (Permutation_app_comm (rq (R s)) (t0 :: tk)).
      * cbn [H setHR]. apply notifyf_all_nseq.
      * apply Li.
      * apply Li.
    + destruct (existsb _ _); [cbn; intros X; discriminate|]. intros _ _.
      apply (LI_same_heap _ _ Li); [reflexivity | | apply Li | apply Li].
      unfold live, live_reads. cbn. rewrite Et, Est. cbn. unfold batch_slots. cbn. rewrite <- !app_assoc.
      apply Permutation_refl.
  - (* AddReady *)
    intros _ _. apply (LI_same_heap _ _ Li); [reflexivity | | apply Li | apply Li].
    unfold live, live_reads. cbn [R setHR r_set_b rq taken batches rd_stop P C S lq_pend].
    change (live_pend (setHR s _ _)) with (live_pend s).
    rewrite batch_slots_map_idx; [apply Permutation_refl|]. intros b. destruct (ctx_eqb _ _); reflexivity.
  - (* ReadsApplied *) intros _ _. apply readsApplied_LI; assumption.
  - (* ReadsDropped *)
    destruct (rd_stop (R s)) eqn:Est; [intros; apply (LX_refl _ Li)|]. intros _ _.
    set (hit := fun b : (N * N) * (N * list slot) => ctx_eqb (fst b) (lo, hi)).
    unfold notify_all, notify.
    fold (notifyf_all (fun _ => SDrop) (fun _ => mkRes cDropped 0 0) (H s) (batch_slots (filter hit (batches (R s))))).
    apply (LX_finish s _ (map (fun x => (fun _ : obj => SDrop, fun _ : obj => mkRes cDropped 0 0, x)) (batch_slots (filter hit (batches (R s))))) Li He).
    + apply Forall_triples. apply terminal_const. reflexivity.
    + rewrite map_snd_triples. unfold live, live_reads. cbn [R setHR r_set_b rq taken batches rd_stop P C S lq_pend app].
      rewrite Est. change (live_pend (setHR s _ _)) with (live_pend s).
      apply (perm_mid _ (live_pend s) _ _ _ _ []). apply perm_tail3. apply (batch_split hit).
    + cbn [H setHR]. apply notifyf_all_nseq.
    + apply Li.
    + apply Li.
  - (* Tick *)
    intros _ _. apply (LI_weaken s _ [] Li); [| | apply Permutation_refl | apply Li | apply Li | reflexivity | auto | auto | intros y []].
    + apply (HI_ext (H s)); try reflexivity. apply Li.
    + intros y Hy. apply (ok_slot_ext (H s)); try reflexivity. exact Hy.
  - (* GcP *) intros _ _. apply gc_at_LI; assumption.
  - (* GcC *) intros _ _. apply x_gc_LI_C; assumption.
  - (* GcS *) intros _ _. apply x_gc_LI_S; assumption.
  - (* DropP *)
    destruct (take s cid sid key (h_clock (H s))) as [sl|] eqn:Et; [|intros; apply (LX_refl _ Li)]. intros _ _.
    destruct (take_some s _ _ _ _ _ Li Et) as (Est & Ef & Hf & Hin).
    apply (LI_notify_pend s _ SDrop (mkRes cDropped 0 0) key sl Li He); auto.
    + cbn. apply NoDup_remove_key. apply Li.
    + apply Li.
  - (* DropC *)
    destruct (x_match (H s) (C s) key) as [sl|] eqn:Em; [|intros; apply (LX_refl _ Li)]. intros _ _.
    apply x_match_some in Em.
    apply (LI_x_notify s _ (fun _ => SDrop) (fun _ => mkRes cDropped 0 0) sl (live_pend s ++ live_reads s) (olist (x_pend (S s)) ++ olist (lq_pend s)) Li He).
    + apply terminal_const. reflexivity.
    + unfold live. rewrite Em. cbn [olist]. rewrite <- !app_assoc. reflexivity.
    + unfold live. cbn. rewrite <- !app_assoc. reflexivity.
    + reflexivity.
    + apply Li.
    + apply Li.
  - (* TakeCC *) intros _ _. same_live Li.
  - (* TakeSS *) intros _ _. same_live Li.
  - (* LQReturned *)
    destruct (lq_pend s) as [sl|] eqn:El.
    + intros _ _.
      apply (LI_x_notify s _ (fun _ => SOther) (fun _ => mkRes (if oor then cOutOfRange else cCompleted) a b) sl
               (live_pend s ++ live_reads s ++ olist (x_pend (C s)) ++ olist (x_pend (S s))) [] Li He).
      * intros o. cbn. destruct oor; reflexivity.
      * unfold live. rewrite El. cbn [olist]. rewrite <- !app_assoc. reflexivity.
      * unfold live. cbn. rewrite <- !app_assoc. reflexivity.
      * reflexivity.
      * apply Li.
      * apply Li.
    + destruct (_ && _); [intros; apply (LX_refl _ Li) | cbn; intros X; discriminate].
  - (* AppliedTake *)
    destruct (take s cid sid key (h_clock (H s))) as [sl|] eqn:Et; intros _ _.
    + destruct (take_some s _ _ _ _ _ Li Et) as (Est & Ef & Hf & Hin).
      apply (LI_notify_pend s _ (SApplied cid sid key v rej) (mkRes (if rej then cRejected else cCompleted) v 0) key sl Li He); auto.
      * cbn. destruct rej; reflexivity.
      * cbn. apply NoDup_remove_key. apply Li.
      * apply Li.
    + same_live Li.
  - (* AppliedGc *)
    destruct (ap_now (P s)) as [[k now]|]; [|intros; apply (LX_refl _ Li)]. intros _ _.
    assert (Lx1 : LX s (setHP s (H s) (p_set_ap (P s) None))) by (same_live Li).
    destruct (now =? _); [exact Lx1|].
    destruct (gc_at_LI _ k now (proj1 Lx1) He) as [[Li2 Ef2] _].
    split.
    + refine (proj1 (LI_same_heap _ _ Li2 _ _ _ _)); [reflexivity | apply Permutation_refl | apply Li2 | apply Li2].
    + refine (EF_ext _ _ _ _ _ _ _ _ _ _ Ef2); reflexivity.
  - (* CCApply *)
    destruct (x_match (H s) (C s) key) as [sl|] eqn:Em; [|intros; apply (LX_refl _ Li)]. intros _ _.
    apply x_match_some in Em.
    apply (LI_x_notify s _ (fun _ => SOther) (fun _ => mkRes (if rej then cRejected else cCompleted) 0 0) sl (live_pend s ++ live_reads s) (olist (x_pend (S s)) ++ olist (lq_pend s)) Li He).
    + intros o. cbn. destruct rej; reflexivity.
    + unfold live. rewrite Em. cbn [olist]. rewrite <- !app_assoc. reflexivity.
    + unfold live. cbn. rewrite <- !app_assoc. reflexivity.
    + reflexivity.
    + apply Li.
    + apply Li.
  - (* SSApply *)
    destruct (ign && abo); [cbn; intros X; discriminate|].
    destruct (x_match (H s) (S s) key) as [sl|] eqn:Em; [|intros; apply (LX_refl _ Li)]. intros _ _.
    apply x_match_some in Em.
    apply (LI_x_notify s _ (fun _ => SOther)
             (fun _ => if ign then mkRes cRejected 0 0 else if abo then mkRes cAborted 0 0 else mkRes cCompleted idx 0) sl
             (live_pend s ++ live_reads s ++ olist (x_pend (C s))) (olist (lq_pend s)) Li He).
    + intros o. destruct ign; [reflexivity|]. destruct abo; reflexivity.
    + unfold live. rewrite Em. cbn [olist]. rewrite <- !app_assoc. reflexivity.
    + unfold live. cbn. rewrite <- !app_assoc. reflexivity.
    + reflexivity.
    + apply Li.
    + apply Li.
  - (* CommitP *)
    destruct (take s cid sid key (h_clock (H s))) as [sl|] eqn:Et; [|intros; apply (LX_refl _ Li)]. intros He' Hb'.
    destruct (take_some s _ _ _ _ _ Li Et) as (Est & Ef & Hf & Hin).
    destruct (notify_commit_ok (H s) sl (li_h s Li) He (ok_of_live s sl Li Hin) He' Hb') as (Hi' & Hfr & Hold).
    destruct Hfr as (_ & _ & _ & Fq & _ & _ & Fst & _).
    apply (LI_weaken s _ [] Li); [exact Hi' | exact Hold | apply Permutation_refl | apply Li | apply Li | exact Fq | | | intros y []].
    + intros r. cbn [H setH]. rewrite notify_commit_nterm. auto.
    + intros r. cbn [H setH]. destruct (Fst r) as (X1 & _ & X3). auto.
  - (* CommitBorrow *) cbn [proposal_committed_under_lock]. intros; apply (LX_refl _ Li).
  - (* CommitFire *) cbn [proposal_committed_under_lock]. intros; apply (LX_refl _ Li).
  - (* CommitC *)
    destruct (x_match (H s) (C s) key) as [sl|] eqn:Em; [|intros; apply (LX_refl _ Li)]. intros He' Hb'.
    apply x_match_some in Em.
    assert (Hin : In sl (live s)) by (unfold live; rewrite Em; cbn; apply in_or_app; right; apply in_or_app; right; left; reflexivity).
    destruct (notify_commit_ok (H s) sl (li_h s Li) He (ok_of_live s sl Li Hin) He' Hb') as (Hi' & Hfr & Hold).
    destruct Hfr as (_ & _ & _ & Fq & _ & _ & Fst & _).
    apply (LI_weaken s _ [] Li); [exact Hi' | exact Hold | apply Permutation_refl | apply Li | apply Li | exact Fq | | | intros y []].
    + intros r. cbn [H setH]. rewrite notify_commit_nterm. auto.
    + intros r. cbn [H setH]. destruct (Fst r) as (X1 & _ & X3). auto.
  - (* CloseR *) intros _ Hb. apply closeR_LI; assumption.
  - (* CloseP *) intros _ Hb. apply closeP_LI; assumption.
  - (* CloseC *)
    destruct (x_open (C s)); [|intros; apply (LX_refl _ Li)]. unfold x_close.
    destruct (x_pend (C s)) as [sl|] eqn:Em; intros _ _.
    + apply (LI_x_notify s _ (fun _ => SClose) (fun _ => terminated) sl (live_pend s ++ live_reads s) (olist (x_pend (S s)) ++ olist (lq_pend s)) Li He).
      * apply terminal_const. reflexivity.
      * unfold live. rewrite Em. cbn [olist]. rewrite <- !app_assoc. reflexivity.
      * unfold live. cbn. rewrite <- !app_assoc. reflexivity.
      * reflexivity.
      * apply Li.
      * apply Li.
    + apply (LI_same_heap _ _ Li); [reflexivity | | apply Li | apply Li]. unfold live. cbn. rewrite Em. apply Permutation_refl.
  - (* CloseS *)
    unfold x_close. destruct (x_pend (S s)) as [sl|] eqn:Em; intros _ _.
    + apply (LI_x_notify s _ (fun _ => SClose) (fun _ => terminated) sl (live_pend s ++ live_reads s ++ olist (x_pend (C s))) (olist (lq_pend s)) Li He).
      * apply terminal_const. reflexivity.
      * unfold live. rewrite Em. cbn [olist]. rewrite <- !app_assoc. reflexivity.
      * unfold live. cbn. rewrite <- !app_assoc. reflexivity.
      * reflexivity.
      * apply Li.
      * apply Li.
    + apply (LI_same_heap _ _ Li); [reflexivity | | apply Li | apply Li]. unfold live. cbn. rewrite Em. apply Permutation_refl.
  - (* CloseL *)
    destruct (lq_pend s) as [sl|] eqn:Em; intros _ _.
    + apply (LI_x_notify s _ (fun _ => SClose) (fun _ => terminated) sl (live_pend s ++ live_reads s ++ olist (x_pend (C s)) ++ olist (x_pend (S s))) [] Li He).
      * apply terminal_const. reflexivity.
      * unfold live. rewrite Em. cbn [olist]. rewrite <- !app_assoc. reflexivity.
      * unfold live. cbn. rewrite <- !app_assoc. reflexivity.
      * reflexivity.
      * apply Li.
      * apply Li.
    + apply (LI_same_heap _ _ Li); [reflexivity | | apply Li | apply Li]. unfold live. cbn. rewrite Em. apply Permutation_refl.
Qed.

(* ================================================================== *)
(* one step of the machine (with the rollback of a panicking step) *)
Lemma step_LX : forall s o, LI s -> stop_closed s -> inflight_keys s ->
  h_broken (H (step s o)) = false -> LX s (step s o).
Proof.
  intros s o Li Hsc Hif. unfold step. destruct (h_err (H s) =? 0) eqn:E0; cbn [negb]; [|intros; apply (LX_refl _ Li)].
  apply N.eqb_eq in E0. destruct (h_err (H (step0 s o)) =? 0) eqn:E1.
  - apply N.eqb_eq in E1. intros Hb. apply step0_LI; assumption.
  - intros _. apply (LI_weaken s _ [] Li); [| | apply Permutation_refl | apply Li | apply Li | reflexivity | auto | auto | intros y []].
    + apply (HI_ext (H s)); try reflexivity. apply Li.
    + intros y Hy. apply (ok_slot_ext (H s)); try reflexivity. exact Hy.
Qed.
