(* L2 support: list facts (prefix agreement, term_at, getConflictIndex/tryAppend
   characterisation) and quorum intersection. *)
From DB Require Import Model.RaftNet.

(* ---------------------------------------------------------------- *)
(* agree k a b: a and b have the same first k entries *)

Definition agree (k : nat) (a b : list entry) : Prop := firstn k a = firstn k b.

Lemma agree_refl k a : agree k a a.
Proof. reflexivity. Qed.

Lemma agree_sym k a b : agree k a b -> agree k b a.
Proof. unfold agree; congruence. Qed.

Lemma agree_trans k a b c : agree k a b -> agree k b c -> agree k a c.
Proof. unfold agree; congruence. Qed.

Lemma agree_le k j a b : agree k a b -> j <= k -> agree j a b.
Proof.
  unfold agree; intros H Hj.
  replace j with (Nat.min j k) by lia.
  rewrite <- !firstn_firstn. now rewrite H.
Qed.

Lemma agree_0 a b : agree 0 a b.
Proof. reflexivity. Qed.

Lemma agree_app_l k a c : k <= length a -> agree k (a ++ c) a.
Proof.
  unfold agree; intros H. rewrite firstn_app.
  replace (k - length a) with 0 by lia. simpl. now rewrite app_nil_r.
Qed.

Lemma agree_app_r k a c : k <= length a -> agree k a (a ++ c).
Proof. intros; apply agree_sym, agree_app_l; assumption. Qed.

Lemma agree_len k a b : agree k a b -> k <= length a -> k <= length b.
Proof.
  unfold agree; intros H Hk. apply (f_equal (@length _)) in H.
  rewrite !firstn_length in H. lia.
Qed.

Lemma agree_firstn k m l : k <= m -> agree k (firstn m l) l.
Proof.
  unfold agree; intros. rewrite firstn_firstn. now replace (Nat.min k m) with k by lia.
Qed.

Lemma agree_all a b : agree (length a) a b -> length a = length b -> a = b.
Proof.
  unfold agree; intros H Hl. rewrite firstn_all in H. rewrite Hl, firstn_all in H. exact H.
Qed.

Lemma agree_prefix_eq k a b : agree k a b -> k = length a -> a = firstn k b.
Proof. unfold agree; intros H ->. now rewrite firstn_all in H. Qed.

Lemma agree_dec k (a b : list entry) : {agree k a b} + {~ agree k a b}.
Proof.
  unfold agree. apply list_eq_dec. intros [t1 p1] [t2 p2].
  destruct (Nat.eq_dec t1 t2), (Nat.eq_dec p1 p2); subst; (now left) || (right; congruence).
Qed.

(* agreement survives appending to either side as long as k stays in range *)
Lemma agree_ext_r k a b c : agree k a b -> k <= length b -> agree k a (b ++ c).
Proof. intros H Hk. eapply agree_trans; [exact H|]. now apply agree_app_r. Qed.

Lemma agree_ext_l k a b c : agree k a b -> k <= length a -> agree k (a ++ c) b.
Proof. intros H Hk. eapply agree_trans; [|exact H]. now apply agree_app_l. Qed.

(* ---------------------------------------------------------------- *)
(* term_at *)

Lemma term_at_0 l : term_at l 0 = 0.
Proof. reflexivity. Qed.

Lemma term_at_out l k : length l < k -> term_at l k = 0.
Proof.
  destruct k; [reflexivity|]. intros H. simpl.
  destruct (nth_error l k) eqn:E; [|reflexivity].
  apply nth_error_Some_lt in E || (assert (k < length l) by (apply nth_error_Some; congruence)); lia.
Qed.

Lemma term_at_in_range l k : term_at l k <> 0 -> 1 <= k <= length l.
Proof.
  intros H. destruct (Nat.eq_dec k 0) as [->|]; [now rewrite term_at_0 in H|].
  destruct (Nat.le_gt_cases k (length l)); [lia|].
  now rewrite term_at_out in H.
Qed.

Lemma term_at_firstn l m k : k <= m -> term_at (firstn m l) k = term_at l k.
Proof.
  destruct k; [reflexivity|]. intros H. simpl.
  replace (nth_error (firstn m l) k) with (nth_error l k); [reflexivity|].
  revert l k H. induction m; intros l k H; [lia|].
  destruct l; [now destruct k|]. destruct k; [reflexivity|]. simpl. apply IHm. lia.
Qed.

Lemma agree_term_at k j a b : agree k a b -> j <= k -> term_at a j = term_at b j.
Proof.
  intros H Hj. rewrite <- (term_at_firstn a k j Hj), <- (term_at_firstn b k j Hj).
  unfold agree in H. now rewrite H.
Qed.

Lemma term_at_app_l a c k : k <= length a -> term_at (a ++ c) k = term_at a k.
Proof. intros H. apply (agree_term_at k k); [now apply agree_app_l | lia]. Qed.

Lemma term_at_app_r a e c : term_at (a ++ e :: c) (S (length a)) = eterm e.
Proof.
  simpl. rewrite nth_error_app2 by lia. now rewrite Nat.sub_diag.
Qed.

Lemma term_at_In l k : 1 <= k <= length l -> exists e, In e l /\ term_at l k = eterm e.
Proof.
  intros [H1 H2]. destruct k; [lia|]. simpl.
  destruct (nth_error l k) eqn:E.
  - exists e. split; [eapply nth_error_In; eauto | reflexivity].
  - apply nth_error_None in E. lia.
Qed.

Lemma In_term_at l e : In e l -> exists k, 1 <= k <= length l /\ term_at l k = eterm e.
Proof.
  intros H. apply In_nth_error in H. destruct H as [k Hk].
  exists (S k). split.
  - assert (k < length l) by (apply nth_error_Some; congruence). lia.
  - simpl. now rewrite Hk.
Qed.

Lemma last_term_snoc a e : last_term (a ++ [e]) = eterm e.
Proof.
  unfold last_term. rewrite app_length. simpl.
  replace (length a + 1) with (S (length a)) by lia. apply term_at_app_r.
Qed.

(* ---------------------------------------------------------------- *)
(* getConflictIndex *)

Lemma first_conflict_spec ents : forall pre l,
  (forall e, In e ents -> 1 <= eterm e) ->
  match first_conflict l (S (length pre)) ents with
  | None => forall j, length pre < j <= length pre + length ents ->
                      term_at l j = term_at (pre ++ ents) j
  | Some ci => length pre < ci <= length pre + length ents /\
               term_at l ci <> term_at (pre ++ ents) ci /\
               forall j, length pre < j < ci -> term_at l j = term_at (pre ++ ents) j
  end.
Proof.
  induction ents as [|e r IH]; intros pre l Hpos; cbn [first_conflict length].
  - intros j Hj. lia.
  - destruct (Nat.eqb_spec (term_at l (S (length pre))) (eterm e)) as [Heq|Hne].
    + specialize (IH (pre ++ [e]) l).
      rewrite app_length in IH. simpl in IH.
      replace (length pre + 1) with (S (length pre)) in IH by lia.
      rewrite <- app_assoc in IH. simpl in IH.
      assert (Hr : forall e0, In e0 r -> 1 <= eterm e0) by (intros; apply Hpos; now right).
      specialize (IH Hr).
      destruct (first_conflict l (S (S (length pre))) r) as [ci|].
      * destruct IH as (Hci & Hne & Hlt). split; [lia|]. split; [exact Hne|].
        intros j Hj. destruct (Nat.eq_dec j (S (length pre))) as [->|].
        -- rewrite Heq. symmetry. apply term_at_app_r.
        -- apply Hlt. lia.
      * intros j Hj. destruct (Nat.eq_dec j (S (length pre))) as [->|].
        -- rewrite Heq. symmetry. apply term_at_app_r.
        -- apply IH. lia.
    + split; [lia|]. split.
      * rewrite term_at_app_r. exact Hne.
      * intros j Hj. lia.
Qed.

(* log matching between two concrete lists *)
Definition lmatch (l A : list entry) : Prop :=
  forall j, 1 <= j -> j <= length l -> j <= length A ->
            term_at l j = term_at A j -> agree j l A.

Lemma skipn_app_ge {A} n (l1 l2 : list A) :
  length l1 <= n -> skipn n (l1 ++ l2) = skipn (n - length l1) l2.
Proof.
  intros H. rewrite skipn_app. rewrite (skipn_all2 l1) by lia. reflexivity.
Qed.

Lemma term_at_app_in_r pre ents j :
  length pre < j <= length pre + length ents ->
  exists e, In e ents /\ term_at (pre ++ ents) j = eterm e.
Proof.
  intros H. destruct j; [lia|]. simpl.
  rewrite nth_error_app2 by lia.
  destruct (nth_error ents (j - length pre)) eqn:E.
  - exists e. split; [eapply nth_error_In; eauto | reflexivity].
  - apply nth_error_None in E. lia.
Qed.

(* what a conflict means, independent of the committed check *)
Lemma first_conflict_some l prev ents ci :
  prev <= length l ->
  (forall e, In e ents -> 1 <= eterm e) ->
  lmatch l (firstn prev l ++ ents) ->
  first_conflict l (S prev) ents = Some ci ->
  prev < ci <= prev + length ents /\ agree (ci - 1) l (firstn prev l ++ ents) /\
  term_at l ci <> term_at (firstn prev l ++ ents) ci /\
  firstn (ci - 1) l ++ skipn (ci - prev - 1) ents = firstn prev l ++ ents.
Proof.
  intros Hprev Hpos LM Hfc.
  assert (Hlp : length (firstn prev l) = prev) by (rewrite firstn_length; lia).
  pose proof (first_conflict_spec ents (firstn prev l) l Hpos) as S.
  rewrite Hlp in S. rewrite Hfc in S. destruct S as (Hci & Hne & Hlt).
  set (A := firstn prev l ++ ents) in *.
  assert (HlenA : length A = prev + length ents) by (unfold A; rewrite app_length; lia).
  assert (Hag : agree (ci - 1) l A).
  { destruct (Nat.eq_dec (ci - 1) prev) as [E|E].
    - rewrite E. unfold A. apply agree_sym.
      eapply agree_trans; [apply agree_app_l; lia|]. apply agree_firstn. lia.
    - assert (Hj : prev < ci - 1 < ci) by lia.
      pose proof (Hlt _ Hj) as Ht.
      destruct (term_at_app_in_r (firstn prev l) ents (ci - 1)) as (e & He & Hte); [lia|].
      fold A in Hte. pose proof (Hpos _ He) as Hge.
      assert (Hr : 1 <= ci - 1 <= length l) by (apply term_at_in_range; lia).
      apply LM; lia. }
  repeat split; try lia; try assumption.
  unfold agree in Hag. rewrite Hag.
  replace (ci - prev - 1) with (ci - 1 - length (firstn prev l)) by lia.
  rewrite <- (skipn_app_ge (ci - 1) (firstn prev l) ents) by lia.
  fold A. apply firstn_skipn.
Qed.

Lemma first_conflict_none l prev ents :
  prev <= length l ->
  (forall e, In e ents -> 1 <= eterm e) ->
  lmatch l (firstn prev l ++ ents) ->
  first_conflict l (S prev) ents = None ->
  agree (prev + length ents) l (firstn prev l ++ ents).
Proof.
  intros Hprev Hpos LM Hfc.
  assert (Hlp : length (firstn prev l) = prev) by (rewrite firstn_length; lia).
  pose proof (first_conflict_spec ents (firstn prev l) l Hpos) as S.
  rewrite Hlp in S. rewrite Hfc in S.
  set (A := firstn prev l ++ ents) in *.
  assert (HlenA : length A = prev + length ents) by (unfold A; rewrite app_length; lia).
  destruct (Nat.eq_dec (length ents) 0) as [E|E].
  - rewrite E, Nat.add_0_r. unfold A. apply agree_sym.
    eapply agree_trans; [apply agree_app_l; lia|]. apply agree_firstn. lia.
  - assert (Hj : prev < prev + length ents <= prev + length ents) by lia.
    pose proof (S _ Hj) as Ht.
    destruct (term_at_app_in_r (firstn prev l) ents (prev + length ents)) as (e & He & Hte); [lia|].
    fold A in Hte. pose proof (Hpos _ He) as Hge.
    assert (Hr : 1 <= prev + length ents <= length l) by (apply term_at_in_range; lia).
    apply LM; lia.
Qed.

(* tryAppend: either nothing changes (everything was there) or the log becomes
   exactly the sender's view [firstn prev l ++ ents], cut at a conflict above cmt *)
Lemma try_append_spec l cmt prev ents l' :
  prev <= length l ->
  (forall e, In e ents -> 1 <= eterm e) ->
  lmatch l (firstn prev l ++ ents) ->
  try_append l cmt prev ents = Some l' ->
  (l' = l /\ agree (prev + length ents) l (firstn prev l ++ ents)) \/
  (exists ci, prev < ci <= prev + length ents /\ cmt < ci /\
              l' = firstn prev l ++ ents /\
              agree (ci - 1) l (firstn prev l ++ ents) /\
              term_at l ci <> term_at (firstn prev l ++ ents) ci).
Proof.
  intros Hprev Hpos LM Hta. unfold try_append in Hta.
  destruct (first_conflict l (S prev) ents) as [ci|] eqn:Hfc.
  - destruct (Nat.ltb_spec cmt ci) as [Hc|Hc]; [|discriminate].
    injection Hta as <-.
    destruct (first_conflict_some l prev ents ci Hprev Hpos LM Hfc) as (H1 & H2 & H3 & H4).
    right. exists ci. repeat split; try lia; assumption.
  - injection Hta as <-. left. split; [reflexivity|].
    now apply first_conflict_none.
Qed.

(* a list that agrees with B beyond the sender's view is left alone by tryAppend
   when the sender's view is a prefix of B *)
Lemma try_append_keeps_agree l cmt prev ents l' B k :
  prev <= length l ->
  (forall e, In e ents -> 1 <= eterm e) ->
  lmatch l (firstn prev l ++ ents) ->
  try_append l cmt prev ents = Some l' ->
  agree (prev + length ents) (firstn prev l ++ ents) B ->
  agree k l B -> k <= length B ->
  agree k l' B.
Proof.
  intros Hprev Hpos LM Hta HAB HlB Hk.
  assert (Hlp : length (firstn prev l) = prev) by (rewrite firstn_length; lia).
  destruct (try_append_spec l cmt prev ents l' Hprev Hpos LM Hta)
    as [[-> _]|(ci & Hci & _ & -> & Hag & Hne)]; [assumption|].
  set (A := firstn prev l ++ ents) in *.
  assert (HlenA : length A = prev + length ents) by (unfold A; rewrite app_length; lia).
  destruct (Nat.le_gt_cases k (prev + length ents)) as [Hle|Hgt].
  - eapply agree_le; eauto.
  - exfalso. apply Hne.
    rewrite (agree_term_at k ci l B HlB) by lia.
    symmetry. apply (agree_term_at (prev + length ents) ci A B HAB). lia.
Qed.

(* ---------------------------------------------------------------- *)
(* quorums *)

Lemma NoDup_app_disjoint {A} (l1 l2 : list A) :
  NoDup l1 -> NoDup l2 -> (forall x, In x l1 -> ~ In x l2) -> NoDup (l1 ++ l2).
Proof.
  induction l1 as [|a l1 IH]; intros H1 H2 Hd; simpl; [assumption|].
  inversion H1; subst. constructor.
  - intros Hin. apply in_app_or in Hin. destruct Hin as [Hin|Hin]; [contradiction|].
    apply (Hd a); [now left | assumption].
  - apply IH; try assumption. intros x Hx. apply Hd. now right.
Qed.

Lemma common_or_disjoint (l1 l2 : list nat) :
  (exists x, In x l1 /\ In x l2) \/ (forall x, In x l1 -> ~ In x l2).
Proof.
  induction l1 as [|a l1 IH].
  - right. intros x [].
  - destruct (in_dec Nat.eq_dec a l2) as [Hin|Hnin].
    + left. exists a. split; [now left | assumption].
    + destruct IH as [(x & H1 & H2)|Hd].
      * left. exists x. split; [now right | assumption].
      * right. intros x [<-|Hx]; [assumption | now apply Hd].
Qed.

(* two quorums of V share a member *)
Theorem quorum_intersect (V Q1 Q2 : list id) :
  incl Q1 V -> incl Q2 V -> NoDup Q1 -> NoDup Q2 ->
  quorum V <= length Q1 -> quorum V <= length Q2 ->
  exists x, In x Q1 /\ In x Q2.
Proof.
  intros I1 I2 N1 N2 L1 L2.
  destruct (common_or_disjoint Q1 Q2) as [H|Hd]; [exact H|].
  exfalso.
  assert (HN : NoDup (Q1 ++ Q2)) by (now apply NoDup_app_disjoint).
  assert (HI : incl (Q1 ++ Q2) V) by (now apply incl_app).
  pose proof (NoDup_incl_length HN HI) as Hlen.
  rewrite app_length in Hlen. unfold quorum in *.
  pose proof (Nat.div_mod (length V) 2 ltac:(lia)) as Hdm.
  pose proof (Nat.mod_upper_bound (length V) 2 ltac:(lia)). lia.
Qed.

Definition is_quorum (V Q : list id) : Prop :=
  incl Q V /\ NoDup Q /\ quorum V <= length Q.

Lemma filter_quorum (V : list id) (f : id -> bool) :
  NoDup V -> quorum V <= length (filter f V) ->
  exists Q, is_quorum V Q /\ forall w, In w Q -> f w = true.
Proof.
  intros HN HL. exists (filter f V). split; [split; [|split]|].
  - intros x Hx. apply filter_In in Hx. tauto.
  - now apply NoDup_filter.
  - exact HL.
  - intros w Hw. apply filter_In in Hw. tauto.
Qed.
