(* L2 stage 3, part a: the invariant of the model with membership change and what follows
   from it in one state: leader completeness across configurations, and that a term
   never gets a second leader although candidates may count votes in different
   configurations. *)
From DB Require Import Model.RaftNet Model.RaftNetCfg Proofs.RaftNetLists Proofs.RaftNetElection
  Proofs.RaftNetLog Proofs.RaftNetCommitDefs Proofs.RaftNetCommit Proofs.RaftNetCfgLemmas.

Section CfgInv.
  Variable cfg_of : list entry -> list id.
  Variable is_cc : entry -> bool.
  Hypothesis cfg_noncc : forall l e, is_cc e = false -> cfg_of (l ++ [e]) = cfg_of l.
  Hypothesis cfg_step_near : forall l e, qnear (cfg_of l) (cfg_of (l ++ [e])).
  Hypothesis cfg_nodup : forall l, NoDup (cfg_of l).
  Hypothesis noop_noncc : forall t, is_cc (noop t) = false.

  Notation ccs := (ccs is_cc).
  Notation cfg := (cfg cfg_of).

  Definition event := (nat * nat * nat)%type.

  (* (t, k, a): the leader of term t, having applied a entries, advanced its commit index
     to k because a quorum of the configuration of its first a entries acknowledged k *)
  Definition ev_ok (n : net) (e : event) : Prop :=
    let '(t, k, a) := e in
    lead n t <> None /\ a < k /\ k <= length (llog n t) /\ term_at (llog n t) k = t /\
    ccs (firstn k (llog n t)) a <= 1 /\
    exists Q, is_quorum (cfg_of (firstn a (llog n t))) Q /\ forall w, In w Q -> acked n t w k.

  (* the first c entries of l are covered by an event of evs of a term <= tmax *)
  Definition cprefix3 (n : net) (evs : list event) tmax c (l : list entry) : Prop :=
    c = 0 \/ exists t k a, In (t, k, a) evs /\ t <= tmax /\ c <= k /\ agree c l (llog n t).

  Section OneState.
    Variable s : net3.
    Notation n := (base3 s).

    Definition S_app := forall i, applied s i <= commit (nodes n i).
    Definition S_cand := forall i, role (nodes n i) = Candidate ->
      applied s i = commit (nodes n i) /\
      last_term (log (nodes n i)) < term (nodes n i) /\
      cprefix3 n (cevents s) (term (nodes n i) - 1) (commit (nodes n i)) (log (nodes n i)).
    Definition S_b := forall i, ccs (log (nodes n i)) (commit (nodes n i)) <= 1.
    Definition S_lead := forall i, role (nodes n i) = Leader ->
      ccs (log (nodes n i)) (applied s i) <= 1 /\
      (ccs (log (nodes n i)) (applied s i) = 1 -> pending s i = true).
    Definition S_ae := forall t ldr prev pt ents lc,
      In (AE t ldr prev pt ents lc) (msgs n) ->
      ccs (firstn (prev + length ents) (llog n t)) lc <= 1.
    Definition S_ev := forall e, In e (cevents s) -> ev_ok n e.
    Definition S_chain := forall pre t k a post,
      cevents s = pre ++ (t, k, a) :: post -> cprefix3 n post t a (llog n t).
    Definition S_lcfg := forall T c, lead n T = Some c ->
      lapp s T <= length (llog0 n T) /\
      lcfg s T = cfg_of (firstn (lapp s T) (llog0 n T)) /\
      ccs (llog0 n T) (lapp s T) <= 1 /\
      cprefix3 n (cevents s) (T - 1) (lapp s T) (llog0 n T).
    Definition S_elected := forall T c, lead n T = Some c ->
      exists Q, is_quorum (lcfg s T) Q /\ forall w, In w Q ->
        voted_msg n T w c /\
        forall t k, t < T -> 1 <= k -> acked n t w k -> term_at (llog n t) k = t ->
                    agree k (llog0 n T) (llog n t) \/ blamed n t k (T - 1).
    Definition S_hc := forall i,
      cprefix3 n (cevents s) (term (nodes n i)) (hcommit (nodes n i)) (log (nodes n i)).
    Definition S_aec := forall t ldr prev pt ents lc,
      In (AE t ldr prev pt ents lc) (msgs n) -> cprefix3 n (cevents s) t lc (llog n t).
    Definition S_hb := forall t ldr to c,
      In (HB t ldr to c) (msgs n) ->
      c = 0 \/ (acked n t to c /\ cprefix3 n (cevents s) t c (llog n t)).

    Record inv4 : Prop := {
      s_1 : inv1 n;
      s_2 : inv2 n;
      s_3a : inv3a n;
      s_app : S_app;
      s_cand : S_cand;
      s_b : S_b;
      s_lead : S_lead;
      s_ae : S_ae;
      s_ev : S_ev;
      s_chain : S_chain;
      s_lcfg : S_lcfg;
      s_elected : S_elected;
      s_hc : S_hc;
      s_aec : S_aec;
      s_hb : S_hb
    }.
  End OneState.

  (* ---- cprefix3 ---- *)

  Lemma cprefix3_le n evs tmax c c' l : cprefix3 n evs tmax c l -> c' <= c -> cprefix3 n evs tmax c' l.
  Proof.
    intros [->|(t & k & a & Hin & Ht & Hc & Hag)] Hle; [left; lia|].
    right. exists t, k, a. repeat split; auto; try lia. eapply agree_le; eauto.
  Qed.

  Lemma cprefix3_tmax n evs tmax tmax' c l :
    cprefix3 n evs tmax c l -> tmax <= tmax' -> cprefix3 n evs tmax' c l.
  Proof.
    intros [->|(t & k & a & Hin & Ht & Hc & Hag)] Hle; [now left|].
    right. exists t, k, a. repeat split; auto; lia.
  Qed.

  Lemma cprefix3_agree n evs tmax c l l' :
    cprefix3 n evs tmax c l -> agree c l' l -> cprefix3 n evs tmax c l'.
  Proof.
    intros [->|(t & k & a & Hin & Ht & Hc & Hag)] Hl; [now left|].
    right. exists t, k, a. repeat split; auto. eapply agree_trans; eauto.
  Qed.

  Lemma cprefix3_evs n evs evs' tmax c l :
    cprefix3 n evs tmax c l -> incl evs evs' -> cprefix3 n evs' tmax c l.
  Proof.
    intros [->|(t & k & a & Hin & Ht & Hc & Hag)] Hi; [now left|].
    right. exists t, k, a. repeat split; auto.
  Qed.

  (* ---- descent along the chain of events ---- *)

  Lemma descent s :
    S_ev s -> S_chain s ->
    forall post pre, cevents s = pre ++ post ->
    forall tmax c l p, 1 <= p <= c -> cprefix3 (base3 s) post tmax c l ->
    exists t k a, In (t, k, a) (cevents s) /\ t <= tmax /\ a < p <= k /\
                  agree p l (llog (base3 s) t).
  Proof.
    intros Hev Hch. induction post as [|e0 post IH]; intros pre Hsplit tmax c l p Hp Hcp.
    - destruct Hcp as [->|(t & k & a & [] & _)]. lia.
    - destruct Hcp as [->|(t & k & a & Hin & Ht & Hc & Hag)]; [lia|].
      assert (Hsplit' : cevents s = (pre ++ [e0]) ++ post) by (now rewrite <- app_assoc).
      destruct Hin as [->|Hin].
      + destruct (Nat.lt_ge_cases a p) as [Hap|Hpa].
        * exists t, k, a. split; [rewrite Hsplit; apply in_or_app; right; now left|].
          split; [exact Ht|]. split; [lia|]. eapply agree_le; eauto. lia.
        * pose proof (Hch pre t k a post Hsplit) as Hcp1.
          destruct (IH _ Hsplit' t a (llog (base3 s) t) p ltac:(lia) Hcp1)
            as (t1 & k1 & a1 & Hin1 & Ht1 & Hp1 & Hag1).
          exists t1, k1, a1. split; [exact Hin1|]. split; [lia|]. split; [exact Hp1|].
          eapply agree_trans; [eapply agree_le; [exact Hag | lia] | exact Hag1].
      + apply (IH _ Hsplit' tmax c l p Hp). right. exists t, k, a. auto.
  Qed.

  (* ---- leader completeness across configurations ---- *)

  Section LC.
    Variable s : net3.
    Hypothesis Hinv : inv4 s.
    Notation n := (base3 s).

    Let H2 := s_2 s Hinv.

    Lemma ev_len t k a : In (t, k, a) (cevents s) -> k <= length (llog n t).
    Proof. intros H. apply (s_ev s Hinv) in H. simpl in H. tauto. Qed.

    Lemma llog0_agree T k l :
      k <= length l -> agree k (llog0 n T) l -> agree k (llog n T) l.
    Proof.
      intros Hk Hag. destruct (i_llog0 n H2 T) as (ext & ->).
      apply agree_ext_l; [exact Hag|]. apply agree_sym in Hag. eapply agree_len; eauto.
    Qed.

    Theorem LC3 : forall T c, lead n T = Some c ->
      forall t k a, In (t, k, a) (cevents s) -> t < T -> agree k (llog0 n T) (llog n t).
    Proof.
      induction T as [T IH] using lt_wf_ind. intros c Hl.
      (* leaders below T hold every earlier event *)
      assert (LCle : forall U, U < T -> lead n U <> None ->
                forall t k a, In (t, k, a) (cevents s) -> t < U -> agree k (llog n U) (llog n t)).
      { intros U HU HlU t k a Hin Hlt. destruct (lead n U) as [cU|] eqn:E; [|congruence].
        apply llog0_agree; [eapply ev_len; eauto|]. eapply (IH U HU cU E); eauto. }
      (* two events of terms below T are comparable *)
      assert (Hcmp : forall t1 k1 a1 t2 k2 a2,
                In (t1, k1, a1) (cevents s) -> In (t2, k2, a2) (cevents s) -> t1 < T -> t2 < T ->
                agree (Nat.min k1 k2) (llog n t1) (llog n t2)).
      { intros t1 k1 a1 t2 k2 a2 Hi1 Hi2 Ht1 Ht2.
        pose proof (s_ev s Hinv _ Hi1) as (Hl1 & _). pose proof (s_ev s Hinv _ Hi2) as (Hl2 & _).
        destruct (Nat.lt_trichotomy t1 t2) as [Hlt|[->|Hlt]].
        - apply agree_sym. eapply agree_le; [apply (LCle t2 Ht2 Hl2 t1 k1 a1 Hi1 Hlt)|lia].
        - apply agree_refl.
        - eapply agree_le; [apply (LCle t1 Ht1 Hl1 t2 k2 a2 Hi2 Hlt)|lia]. }
      destruct (s_lcfg s Hinv T c Hl) as (HaTlen & Hlcfg & HccsT & HcpT).
      set (aT := lapp s T) in *.
      (* the near case *)
      assert (Hnear : forall t k a, In (t, k, a) (cevents s) -> t < T ->
                qnear (lcfg s T) (cfg_of (firstn a (llog n t))) ->
                agree k (llog0 n T) (llog n t)).
      { intros t k a Hin Hlt Hq.
        pose proof (s_ev s Hinv _ Hin) as (Hlt_lead & Hak & Hklen & Hterm & _ & (Qe & HQe & HQew)).
        destruct (s_elected s Hinv T c Hl) as (QT & HQT & HQTw).
        destruct (Hq QT Qe HQT HQe) as (w & Hw1 & Hw2).
        destruct (HQTw w Hw1) as (_ & Hpair).
        destruct (Hpair t k Hlt ltac:(lia) (HQew w Hw2) Hterm) as [Hag|(U & HU & HlU & Hna)];
          [exact Hag|].
        exfalso. apply Hna. destruct (lead n U) as [cU|] eqn:E; [|congruence].
        eapply (IH U ltac:(lia) cU E); eauto. lia. }
      intros t k a Hin Hlt.
      pose proof (s_ev s Hinv _ Hin) as (Hlt_lead & Hak & Hklen & Hterm & Hccs & _).
      (* the leader's applied prefix agrees with llog t as far as both go *)
      assert (Hmin : agree (Nat.min aT k) (llog0 n T) (llog n t)).
      { destruct HcpT as [E|(t' & k' & a' & Hin' & Ht' & Hk' & Hag')].
        - rewrite E. apply agree_0.
        - eapply agree_trans; [eapply agree_le; [exact Hag'|lia]|].
          eapply agree_le; [apply (Hcmp t' k' a' t k a Hin' Hin); lia | lia]. }
      destruct (Nat.le_gt_cases k aT) as [HkaT|HaTk].
      { replace (Nat.min aT k) with k in Hmin by lia. exact Hmin. }
      replace (Nat.min aT k) with aT in Hmin by lia.
      assert (Elcfg : lcfg s T = cfg_of (firstn aT (llog n t))).
      { rewrite Hlcfg. unfold agree in Hmin. now rewrite Hmin. }
      destruct (Nat.le_gt_cases a aT) as [HaaT|HaTa].
      { apply (Hnear t k a Hin Hlt). rewrite Elcfg. apply qnear_sym.
        apply (cfg_near is_cc cfg_of cfg_noncc cfg_step_near (llog n t) a aT HaaT).
        pose proof (ccs_firstn_mono is_cc (llog n t) aT k a ltac:(lia)). lia. }
      destruct (Nat.le_gt_cases (ccs (firstn a (llog n t)) aT) 1) as [Hle1|Hge2].
      { apply (Hnear t k a Hin Hlt). rewrite Elcfg.
        apply (cfg_near is_cc cfg_of cfg_noncc cfg_step_near (llog n t) aT a); [lia | exact Hle1]. }
      (* two config changes between the leader's applied prefix and the event's: impossible *)
      exfalso.
      destruct (second_cc is_cc (llog n t) aT a Hge2) as (p & Hp & Hp2 & Hp1).
      destruct (in_split _ _ Hin) as (pre & post & Hsplit).
      pose proof (s_chain s Hinv pre t k a post Hsplit) as Hcp.
      assert (Hsplit' : cevents s = (pre ++ [(t, k, a)]) ++ post) by (now rewrite <- app_assoc).
      destruct (descent s (s_ev s Hinv) (s_chain s Hinv) post _ Hsplit' t a (llog n t) p
                        ltac:(lia) Hcp) as (t1 & k1 & a1 & Hin1 & Ht1 & Hp1' & Hag1).
      pose proof (s_ev s Hinv _ Hin1) as (_ & _ & Hk1len & _ & Hccs1 & _).
      assert (Hq1 : qnear (lcfg s T) (cfg_of (firstn a1 (llog n t1)))).
      { assert (E1 : firstn a1 (llog n t1) = firstn a1 (llog n t)).
        { symmetry. apply (agree_le p); [exact Hag1 | lia]. }
        rewrite E1, Elcfg.
        destruct (Nat.le_gt_cases a1 aT) as [Hle|Hgt].
        - apply qnear_sym.
          apply (cfg_near is_cc cfg_of cfg_noncc cfg_step_near (llog n t) a1 aT Hle).
          rewrite (ccs_agree is_cc (llog n t) (llog n t1) aT a1) by (eapply agree_le; [exact Hag1|lia]).
          pose proof (ccs_firstn_mono is_cc (llog n t1) aT k1 a1 ltac:(lia)). lia.
        - apply (cfg_near is_cc cfg_of cfg_noncc cfg_step_near (llog n t) aT a1); [lia|].
          pose proof (ccs_firstn_mono is_cc (llog n t) a1 (p - 1) aT ltac:(lia)). lia. }
      pose proof (Hnear t1 k1 a1 Hin1 ltac:(lia) Hq1) as HagT.
      assert (HagTp : agree p (llog0 n T) (llog n t)).
      { eapply agree_trans; [eapply agree_le; [exact HagT|lia]|]. now apply agree_sym. }
      pose proof (ccs_firstn_le is_cc (llog0 n T) p aT) as Hc1.
      rewrite (ccs_agree is_cc _ _ p aT HagTp) in Hc1. lia.
    Qed.

    (* a committed prefix agrees with the log of every leader of its term bound *)
    Lemma cprefix3_llog T c l :
      cprefix3 n (cevents s) T c l -> lead n T <> None -> agree c l (llog n T).
    Proof.
      intros [->|(t & k & a & Hin & Ht & Hc & Hag)] Hl; [apply agree_0|].
      destruct (Nat.eq_dec t T) as [->|Hne]; [exact Hag|].
      eapply agree_trans; [exact Hag|]. apply agree_sym. eapply agree_le; [|exact Hc].
      destruct (lead n T) as [cT|] eqn:E; [|congruence].
      apply llog0_agree; [eapply ev_len; eauto|]. eapply (LC3 T cT E); eauto. lia.
    Qed.

    Lemma agl3 : agl n.
    Proof.
      intros w T HT Hl. pose proof (s_hc s Hinv w) as Hc. rewrite HT in Hc.
      pose proof (cprefix3_llog T _ _ Hc Hl) as Hag. split; [exact Hag|].
      eapply agree_len; [exact Hag|]. apply (i_commit_bounds n (s_3a s Hinv) w).
    Qed.

    (* two committed prefixes agree *)
    Lemma cprefix3_agree2 T1 T2 c1 c2 l1 l2 k :
      cprefix3 n (cevents s) T1 c1 l1 -> cprefix3 n (cevents s) T2 c2 l2 ->
      k <= c1 -> k <= c2 -> agree k l1 l2.
    Proof.
      intros [->|(t1 & k1 & a1 & Hi1 & Ht1 & Hc1 & Hag1)] P2 Hk1 Hk2.
      { replace k with 0 by lia. apply agree_0. }
      destruct P2 as [->|(t2 & k2 & a2 & Hi2 & Ht2 & Hc2 & Hag2)].
      { replace k with 0 by lia. apply agree_0. }
      pose proof (s_ev s Hinv _ Hi1) as (Hl1 & _ & Hlen1 & _).
      pose proof (s_ev s Hinv _ Hi2) as (Hl2 & _ & Hlen2 & _).
      apply (agree_le _ k) in Hag1; [|lia]. apply (agree_le _ k) in Hag2; [|lia].
      eapply agree_trans; [exact Hag1|]. eapply agree_trans; [|apply agree_sym; exact Hag2].
      destruct (Nat.lt_trichotomy t1 t2) as [Hlt|[->|Hlt]].
      - apply agree_sym. destruct (lead n t2) as [c2'|] eqn:E; [|congruence].
        eapply agree_le; [apply llog0_agree; [exact Hlen1|]; eapply (LC3 t2 c2' E); eauto | lia].
      - apply agree_refl.
      - destruct (lead n t1) as [c1'|] eqn:E; [|congruence].
        eapply agree_le; [apply llog0_agree; [exact Hlen2|]; eapply (LC3 t1 c1' E); eauto | lia].
    Qed.

    (* a candidate that owns a quorum of votes of its own configuration is in a term
       without leader *)
    Lemma fresh3 i :
      role (nodes n i) = Candidate ->
      quorum (cfg s i) <= vote_count (cfg s i) (msgs n) (term (nodes n i)) i ->
      lead n (term (nodes n i)) = None.
    Proof.
      intros Hrole Hq. set (T0 := term (nodes n i)) in *.
      destruct (lead n T0) as [c|] eqn:Hl; [|reflexivity]. exfalso.
      pose proof (s_1 s Hinv) as H1. pose proof (s_3a s Hinv) as H3a.
      destruct (s_cand s Hinv i Hrole) as (Happ & HUT & Hcpi). fold T0 in Hcpi, HUT.
      set (ai := commit (nodes n i)) in *. set (L := log (nodes n i)) in *.
      assert (Ecfg : cfg s i = cfg_of (firstn ai L)) by (unfold RaftNetCfg.cfg; now rewrite Happ).
      destruct (count_vote_quorum (cfg s i) (cfg_nodup _) n T0 i Hq) as (Qi & HQi & HQiw).
      destruct (s_lcfg s Hinv T0 c Hl) as (HaTlen & Hlcfg & HccsT & HcpT).
      set (aT := lapp s T0) in *.
      destruct (s_elected s Hinv T0 c Hl) as (QT & HQT & HQTw).
      (* if the two configurations are near, the quorums share a voter: c = i *)
      assert (Hnearcase : qnear (cfg s i) (lcfg s T0) -> False).
      { intros Hqn. destruct (Hqn Qi QT HQi HQT) as (w & Hw1 & Hw2).
        destruct (HQiw w Hw1) as (vl1 & Hv1). destruct (HQTw w Hw2) as ((vl2 & Hv2) & _).
        assert (i = c) by (eapply (i_one_vote n H1); eauto). subst c.
        eapply (i_lead_cand n H1); eauto. }
      (* both applied prefixes are committed below T0: they agree as far as both go *)
      assert (Hmin : agree (Nat.min aT ai) (llog0 n T0) L).
      { apply (cprefix3_agree2 (T0 - 1) (T0 - 1) aT ai); auto; lia. }
      pose proof (s_b s Hinv i) as Hb. fold L ai in Hb.
      destruct (Nat.le_gt_cases aT ai) as [Hle|Hgt].
      - replace (Nat.min aT ai) with aT in Hmin by lia.
        assert (Elcfg : lcfg s T0 = cfg_of (firstn aT L)).
        { rewrite Hlcfg. unfold agree in Hmin. now rewrite Hmin. }
        destruct (Nat.le_gt_cases (ccs (firstn ai L) aT) 1) as [Hle1|Hge2].
        { apply Hnearcase. rewrite Ecfg, Elcfg. apply qnear_sym.
          now apply (cfg_near is_cc cfg_of cfg_noncc cfg_step_near L aT ai). }
        destruct (second_cc is_cc L aT ai Hge2) as (p & Hp & Hp2 & Hp1).
        destruct (descent s (s_ev s Hinv) (s_chain s Hinv) (cevents s) [] eq_refl (T0 - 1) ai L p
                          ltac:(lia) Hcpi) as (t1 & k1 & a1 & Hin1 & Ht1 & Hp1' & Hag1).
        pose proof (LC3 T0 c Hl t1 k1 a1 Hin1 ltac:(lia)) as HagT.
        assert (HagTp : agree p (llog0 n T0) L).
        { eapply agree_trans; [eapply agree_le; [exact HagT|lia]|]. now apply agree_sym. }
        pose proof (ccs_firstn_le is_cc (llog0 n T0) p aT) as Hc1.
        rewrite (ccs_agree is_cc _ _ p aT HagTp) in Hc1. lia.
      - replace (Nat.min aT ai) with ai in Hmin by lia.
        assert (Ecfg' : cfg s i = cfg_of (firstn ai (llog0 n T0))).
        { rewrite Ecfg. unfold agree in Hmin. now rewrite Hmin. }
        destruct (Nat.le_gt_cases (ccs (firstn aT (llog0 n T0)) ai) 1) as [Hle1|Hge2].
        { apply Hnearcase. rewrite Ecfg', Hlcfg.
          apply (cfg_near is_cc cfg_of cfg_noncc cfg_step_near (llog0 n T0) ai aT); [lia|exact Hle1]. }
        destruct (second_cc is_cc (llog0 n T0) ai aT Hge2) as (p & Hp & Hp2 & Hp1).
        destruct (descent s (s_ev s Hinv) (s_chain s Hinv) (cevents s) [] eq_refl (T0 - 1) aT
                          (llog0 n T0) p ltac:(lia) HcpT)
          as (t1 & k1 & a1 & Hin1 & Ht1 & Hp1' & Hag1).
        pose proof (s_ev s Hinv _ Hin1) as (Hl1 & Hak1 & Hk1len & Hterm1 & Hccs1 & (Q1 & HQ1 & HQ1w)).
        assert (Hq1 : qnear (cfg s i) (cfg_of (firstn a1 (llog n t1)))).
        { assert (E1 : firstn a1 (llog n t1) = firstn a1 (llog0 n T0)).
          { symmetry. apply (agree_le p); [exact Hag1 | lia]. }
          rewrite E1, Ecfg'.
          destruct (Nat.le_gt_cases a1 ai) as [Hle'|Hgt'].
          - apply qnear_sym.
            apply (cfg_near is_cc cfg_of cfg_noncc cfg_step_near (llog0 n T0) a1 ai Hle').
            rewrite (ccs_agree is_cc (llog0 n T0) (llog n t1) ai a1)
              by (eapply agree_le; [exact Hag1|lia]).
            pose proof (ccs_firstn_mono is_cc (llog n t1) ai k1 a1 ltac:(lia)). lia.
          - apply (cfg_near is_cc cfg_of cfg_noncc cfg_step_near (llog0 n T0) ai a1); [lia|].
            pose proof (ccs_firstn_mono is_cc (llog0 n T0) a1 (p - 1) ai ltac:(lia)). lia. }
        destruct (Hq1 Qi Q1 HQi HQ1) as (w & Hw1 & Hw2).
        destruct (HQiw w Hw1) as (vl & Hv).
        destruct (elect_core n i w vl t1 k1 H2 H3a Hrole HUT Hv ltac:(fold T0; lia) ltac:(lia)
                             (HQ1w w Hw2) Hterm1) as [(Hag & HkL)|(U & HU & HlU & Hna)].
        + assert (HagLp : agree p L (llog0 n T0)).
          { eapply agree_trans; [eapply agree_le; [exact Hag|lia]|]. now apply agree_sym. }
          pose proof (ccs_firstn_le is_cc L p ai) as Hc1.
          rewrite (ccs_agree is_cc _ _ p ai HagLp) in Hc1. lia.
        + apply Hna. destruct (lead n U) as [cU|] eqn:E; [|congruence].
          eapply (LC3 U cU E); eauto. lia.
    Qed.

  End LC.

End CfgInv.
