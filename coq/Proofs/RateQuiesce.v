(* The in-memory rate limiter cannot stay "limited" once memory has drained, never limits when
   disabled, ignores stale follower reports; the quiesce state machine never quiesces a
   disabled replica, wakes on any activity and on heartbeats after the grace period. *)
From DB Require Import Model.RateQuiesce.
From Coq Require Import Arith ZifyN ZifyNat ZifyBool Lia.
Open Scope N_scope.

(* ---------------- rate limiter ---------------- *)
Definition rl_inv (r : rlim) : Prop := rl_tick_limited r <= rl_tick r.

Lemma rl_step_max r o : rl_max (fst (rl_step r o)) = rl_max r.
Proof.
  destruct o; cbn [rl_step fst rl_max]; try reflexivity.
  destruct (limited_by_size r) as [lim fs]. destruct (Bool.eqb lim (rl_limited r)); [reflexivity|].
  destruct (_ || _); reflexivity.
Qed.

Lemma rl_step_inv r o : rl_inv r -> rl_inv (fst (rl_step r o)).
Proof.
  unfold rl_inv. intros H. destruct o; cbn [rl_step fst rl_tick rl_tick_limited]; try lia.
  destruct (limited_by_size r) as [lim fs]. destruct (Bool.eqb lim (rl_limited r)); cbn [fst rl_tick rl_tick_limited]; [lia|].
  destruct (_ || _); cbn [fst rl_tick rl_tick_limited]; lia.
Qed.

Lemma rl_new_inv max : rl_inv (rl_new max).
Proof. unfold rl_inv, rl_new. cbn. lia. Qed.

Lemma rl_enabled_step r o : rl_enabled (fst (rl_step r o)) = rl_enabled r.
Proof. unfold rl_enabled. rewrite rl_step_max. reflexivity. Qed.

(* a disabled limiter (MaxInMemLogSize 0 or MaxUint64) never limits *)
Lemma disabled_step r o :
  rl_enabled r = false -> rl_limited r = false ->
  rl_limited (fst (rl_step r o)) = false /\ (forall b, snd (rl_step r o) = Some b -> b = false).
Proof.
  intros He Hl. destruct o; cbn [rl_step fst snd rl_limited]; try (split; [exact Hl|intros b Hb; discriminate]).
  unfold limited_by_size. rewrite He. cbn [negb]. rewrite Hl. cbn [Bool.eqb fst snd rl_limited].
  split; [reflexivity|intros b Hb; injection Hb as <-; reflexivity].
Qed.

Theorem disabled_never_limited_proved : forall ops r,
  rl_enabled r = false -> rl_limited r = false ->
  forall b, In (Some b) (snd (rl_run r ops)) -> b = false.
Proof.
  induction ops as [|o ops IH]; intros r He Hl b Hin; cbn [rl_run] in Hin.
  - destruct Hin.
  - destruct (disabled_step r o He Hl) as [Hl1 Ha].
    pose proof (rl_enabled_step r o) as He1. rewrite He in He1.
    destruct (rl_step r o) as [r1 a] eqn:E1. cbn [fst snd] in *.
    specialize (IH r1 He1 Hl1 b). destruct (rl_run r1 ops) as [r2 l]. cbn [snd] in *.
    destruct Hin as [Hin|Hin]; [apply Ha; exact Hin|apply IH; exact Hin].
Qed.

(* a change of the verdict is taken only at the first change or more than
   ChangeTickThreashold ticks after the previous one, and is stamped with the current tick *)
Theorem limited_changes_are_spaced_proved r :
  rl_limited (fst (rl_step r RLimited)) <> rl_limited r ->
  (rl_tick_limited r = 0 \/ change_tick_threshold < rl_tick r - rl_tick_limited r) /\
  rl_tick_limited (fst (rl_step r RLimited)) = rl_tick r.
Proof.
  cbn [rl_step]. destruct (limited_by_size r) as [lim fs].
  destruct (Bool.eqb lim (rl_limited r)) eqn:Eb; cbn [fst rl_limited]; [congruence|].
  destruct (rl_tick_limited r =? 0) eqn:E0; cbn [orb fst rl_limited rl_tick_limited].
  - intros _. split; [left; lia|reflexivity].
  - destruct (change_tick_threshold <? rl_tick r - rl_tick_limited r) eqn:E1; cbn [fst rl_limited rl_tick_limited].
    + intros _. split; [right; lia|reflexivity].
    + congruence.
Qed.

(* stale follower reports (older than gcTick ticks) have no influence *)
Lemma filter_filter_same {A} (f : A -> bool) l : filter f (filter f l) = filter f l.
Proof.
  induction l as [|a l IH]; [reflexivity|]. cbn [filter]. destruct (f a) eqn:E; [|exact IH].
  cbn [filter]. rewrite E, IH. reflexivity.
Qed.

Theorem stale_follower_ignored_proved r :
  max_inmem (mkRL (rl_size r) (rl_max r) (rl_gc r) (rl_tick r) (rl_tick_limited r) (rl_limited r)) = max_inmem r.
Proof. unfold max_inmem, rl_gc. cbn [rl_followers rl_tick rl_size]. rewrite filter_filter_same. reflexivity. Qed.

(* once what is held in memory (own and fresh follower reports) is below the 70% mark and
   the hold-off has passed, the next poll says "not limited" *)
Theorem unlimit_when_drained_proved r :
  rl_enabled r = true -> rl_limited r = true ->
  max_inmem r < (rl_max r * 7) mod w64 / 10 ->
  (rl_tick_limited r = 0 \/ change_tick_threshold < rl_tick r - rl_tick_limited r) ->
  snd (rl_step r RLimited) = Some false.
Proof.
  intros He Hl Hm Ht. cbn [rl_step]. unfold limited_by_size. rewrite He, Hl. cbn [negb].
  destruct ((rl_max r * 7) mod w64 / 10 <=? max_inmem r) eqn:E; [lia|]. cbn [Bool.eqb].
  destruct Ht as [Ht|Ht].
  - rewrite Ht. cbn [N.eqb orb snd]. reflexivity.
  - destruct (rl_tick_limited r =? 0); cbn [orb]; [reflexivity|].
    destruct (change_tick_threshold <? rl_tick r - rl_tick_limited r) eqn:E1; [reflexivity|lia].
Qed.

Theorem limit_when_over_proved r :
  rl_enabled r = true -> rl_limited r = false -> rl_max r < max_inmem r ->
  (rl_tick_limited r = 0 \/ change_tick_threshold < rl_tick r - rl_tick_limited r) ->
  snd (rl_step r RLimited) = Some true.
Proof.
  intros He Hl Hm Ht. cbn [rl_step]. unfold limited_by_size. rewrite He, Hl. cbn [negb].
  destruct (rl_max r <? max_inmem r) eqn:E; [|lia]. cbn [Bool.eqb].
  destruct Ht as [Ht|Ht].
  - rewrite Ht. cbn [N.eqb orb snd]. reflexivity.
  - destruct (rl_tick_limited r =? 0); cbn [orb]; [reflexivity|].
    destruct (change_tick_threshold <? rl_tick r - rl_tick_limited r) eqn:E1; [reflexivity|lia].
Qed.

(* run level: whatever happened before, after the in-memory log is emptied and the follower
   reports are reset, the poll after eleven ticks answers "not limited" *)
Lemma rl_ticks r n :
  fst (rl_run r (repeat RTick n)) =
  mkRL (rl_size r) (rl_max r) (rl_followers r) (rl_tick r + N.of_nat n) (rl_tick_limited r) (rl_limited r).
Proof.
  revert r. induction n as [|n IH]; intros r; cbn [repeat rl_run].
  - cbn [fst]. rewrite N.add_0_r. destruct r; reflexivity.
  - cbn [rl_step]. specialize (IH (mkRL (rl_size r) (rl_max r) (rl_followers r) (rl_tick r + 1) (rl_tick_limited r) (rl_limited r))).
    destruct (rl_run _ (repeat RTick n)) as [r2 l]. cbn [fst] in *. rewrite IH. cbn [rl_size rl_max rl_followers rl_tick rl_tick_limited rl_limited].
    f_equal. lia.
Qed.

Theorem drained_limiter_unlimits_proved r :
  rl_inv r -> 2 <= rl_max r -> rl_max r * 7 < w64 ->
  snd (rl_step (fst (rl_run (fst (rl_step (fst (rl_step r RReset)) (RSet 0))) (repeat RTick 11))) RLimited) = Some false.
Proof.
  intros Hi H2 Hw. rewrite rl_ticks. cbn [rl_step fst rl_size rl_max rl_followers rl_tick rl_tick_limited rl_limited].
  unfold rl_inv in Hi.
  set (r' := mkRL 0 (rl_max r) [] (rl_tick r + N.of_nat 11) (rl_tick_limited r) (rl_limited r)).
  assert (Hen : rl_enabled r' = true).
  { unfold rl_enabled, r'. cbn [rl_max]. unfold w64 in *. lia. }
  assert (Hmax : max_inmem r' = 0) by reflexivity.
  destruct (rl_limited r) eqn:Hl.
  - apply unlimit_when_drained_proved; [exact Hen|reflexivity| |].
    + rewrite Hmax. unfold r'. cbn [rl_max]. rewrite N.mod_small by exact Hw.
      apply N.div_str_pos. lia.
    + unfold r'. cbn [rl_tick rl_tick_limited]. unfold change_tick_threshold.
      change (N.of_nat 11) with 11. lia.
  - cbn [rl_step]. unfold limited_by_size. rewrite Hen. cbn [negb].
    change (rl_limited r') with false. cbn [negb].
    rewrite Hmax. destruct (rl_max r' <? 0) eqn:E; [lia|]. cbn [Bool.eqb snd]. reflexivity.
Qed.

(* the uint64 product maxSize*7 wraps for huge limits: with such a limit the 70% mark is 0 and
   a limiter that once said "limited" never recovers, even with nothing in memory *)
Theorem huge_limit_never_recovers_refuted :
  exists max, 0 < max /\ max <> w64 - 1 /\
    forall n, snd (rl_step (fst (rl_run (mkRL 0 max [] 1 1 true) (repeat RTick n))) RLimited) = Some true.
Proof.
  exists 2635249153387078803. split; [reflexivity|]. split; [discriminate|]. intros n.
  rewrite rl_ticks. cbn [rl_step rl_size rl_max rl_followers rl_tick rl_tick_limited rl_limited].
  unfold limited_by_size, rl_enabled. cbn [rl_max rl_limited negb].
  change ((0 <? 2635249153387078803) && negb (2635249153387078803 =? w64 - 1)) with true. cbn [negb].
  unfold max_inmem. cbn [rl_followers filter map fold_left rl_size rl_max].
  change ((2635249153387078803 * 7) mod w64 / 10 <=? 0) with true. cbn [Bool.eqb snd]. reflexivity.
Qed.

(* ---------------- quiesce ---------------- *)
Lemma q_step_enabled q o : q_enabled (fst (q_step q o)) = q_enabled q.
Proof.
  destruct o as [|hb| |]; cbn [q_step].
  - destruct (negb (q_enabled q)); [reflexivity|]. cbn zeta.
    match goal with |- context [if ?c then _ else _] => destruct c end; reflexivity.
  - destruct (negb (q_enabled q)); [reflexivity|].
    destruct (hb && _); [reflexivity|]. cbn zeta.
    match goal with |- context [if ?c then _ else _] => destruct c end; reflexivity.
  - destruct (q_just_exited q); [reflexivity|]. destruct (negb (q_quiesced q)); reflexivity.
  - reflexivity.
Qed.

Theorem disabled_tick_never_quiesced_proved q :
  q_enabled q = false -> snd (q_step q QTick) = Some false /\ q_quiesced (fst (q_step q QTick)) = false.
Proof.
  intros He. cbn [q_step]. rewrite He. cbn [negb fst snd]. split; [reflexivity|].
  unfold q_quiesced. rewrite He. reflexivity.
Qed.

(* any activity other than a heartbeat wakes the replica *)
Theorem activity_wakes_proved q :
  q_quiesced (fst (q_step q (QRecord false))) = false.
Proof.
  cbn [q_step]. destruct (q_enabled q) eqn:He; cbn [negb andb].
  - cbn zeta. match goal with |- context [if ?c then _ else _] => destruct c eqn:Ec end; cbn [fst].
    + unfold q_quiesced, q_exit_quiesce. cbn [q_enabled q_since]. change (0 <? 0) with false. apply andb_false_r.
    + exact Ec.
  - cbn [fst]. unfold q_quiesced. rewrite He. reflexivity.
Qed.

(* a heartbeat wakes a quiesced replica once the grace period (one election timeout) is over *)
Theorem heartbeat_wakes_after_grace_proved q :
  q_quiesced q = true -> q_new_to_quiesce q = false ->
  q_quiesced (fst (q_step q (QRecord true))) = false.
Proof.
  intros Hq Hn. cbn [q_step]. assert (He : q_enabled q = true).
  { unfold q_quiesced in Hq. apply andb_true_iff in Hq. tauto. }
  rewrite He, Hq, Hn. cbn [negb orb andb]. cbn zeta.
  match goal with |- context [if ?c then _ else _] => destruct c eqn:Ec end; cbn [fst].
  - unfold q_quiesced, q_exit_quiesce. cbn [q_enabled q_since]. change (0 <? 0) with false. apply andb_false_r.
  - exact Ec.
Qed.

(* heartbeats alone do not keep an active replica awake, and do not wake one that has just
   quiesced: quiesce is entered by idleness measured without heartbeats *)
Theorem heartbeat_ignored_when_awake_or_new_proved q :
  q_enabled q = true -> (q_quiesced q = false \/ q_new_to_quiesce q = true) ->
  fst (q_step q (QRecord true)) = q.
Proof.
  intros He H. cbn [q_step]. rewrite He. cbn [negb andb].
  destruct H as [H|H]; rewrite H; cbn [negb orb]; [reflexivity|].
  rewrite orb_true_r. reflexivity.
Qed.

(* an idle replica quiesces exactly when more than ten election timeouts have passed *)
Theorem idle_enters_proved q :
  q_enabled q = true -> q_quiesced q = false ->
  let q' := fst (q_step q QTick) in
  (q_threshold q < q_now q + 1 - q_idle q -> q_quiesced q' = true /\ q_flag q' = true /\ snd (q_step q QTick) = Some true) /\
  (q_now q + 1 - q_idle q <= q_threshold q -> q_quiesced q' = false /\ snd (q_step q QTick) = Some false).
Proof.
  intros He Hq. cbv zeta. cbn [q_step]. rewrite He. cbn [negb]. cbv zeta.
  set (q1 := mkQ true (q_election q) (q_now q + 1) (q_since q) (q_idle q) (q_exit q) (q_flag q)).
  assert (Hq1 : q_quiesced q1 = false).
  { unfold q_quiesced in *. rewrite He in Hq. exact Hq. }
  rewrite Hq1. cbn [negb andb].
  change (q_threshold q1) with (q_threshold q).
  change (q_now q1) with (q_now q + 1). change (q_idle q1) with (q_idle q).
  split; intros H.
  - destruct (q_threshold q <? q_now q + 1 - q_idle q) eqn:E; [|lia]. cbn [fst snd].
    assert (Hqe : q_quiesced (q_enter q1) = true).
    { unfold q_quiesced, q_enter, q1. cbn [q_enabled q_since q_now andb]. apply N.ltb_lt. lia. }
    rewrite Hqe. repeat split; reflexivity.
  - destruct (q_threshold q <? q_now q + 1 - q_idle q) eqn:E; [lia|]. cbn [fst snd]. rewrite Hq1. split; reflexivity.
Qed.
