(* C04 — lemmas about Model/Engine.v *)
From Coq Require Import List NArith Bool Lia.
From Coq Require Import ZifyN ZifyNat ZifyBool.
From DB Require Import Model.Engine.
Import ListNotations.
Open Scope N_scope.

(* ------------------------------------------------------------------ *)
(* the shape of one step, from the GENERATED stage list: this is the lemma that stops
   holding when a call of engine.processSteps / node.processRaftUpdate is moved *)

Definition fast_part (us : list update) := flat_map (apply_effects true) us.
Definition free_part (us : list update) :=
  flat_map (fun u => map (Send (ukey u)) (filter is_free (u_msgs u))) us.
Definition save_part (us : list update) := map Persist us.
Definition flag_part (us : list update) :=
  flat_map (fun u => if u_snap_index u =? 0 then [] else [RemoveFlag (ukey u) (u_snap_index u)]) us.
Definition slow_part (us : list update) := flat_map (apply_effects false) us.
Definition node_effects (u : update) : list effect :=
  LogAppend (ukey u) (u_save u) ::
  map (Send (ukey u)) (filter (fun m => negb (is_free m)) (u_msgs u)) ++ [CommitBack u].
Definition node_part (us : list update) := flat_map node_effects us.

Lemma flat_map_ext' : forall {A B} (f g : A -> list B) l,
  (forall x, f x = g x) -> flat_map f l = flat_map g l.
Proof. intros; induction l; simpl; congruence. Qed.

Lemma process_step_shape : forall us,
  process_step us =
  StepNodes :: fast_part us ++ free_part us ++ save_part us ++ flag_part us ++ slow_part us ++ node_part us.
Proof.
  intros us. unfold process_step, process_step_with, process_steps_stages.
  cbn [flat_map stage_effects app snapshot_saved_removes_flag].
  rewrite app_nil_r.
  rewrite (flat_map_ext' (fun u : update => uact_effects u UaSendFree ++ [])
             (fun u => map (Send (ukey u)) (filter is_free (u_msgs u)))).
  2:{ intros u. rewrite app_nil_r. reflexivity. }
  rewrite (flat_map_ext' (fun u : update => uact_effects u UaLogAppend ++
             uact_effects u UaSendRest ++ uact_effects u UaCommitBack ++ []) node_effects).
  2:{ intros u. rewrite app_nil_r. reflexivity. }
  reflexivity.
Qed.

(* ------------------------------------------------------------------ *)
(* list helpers *)

Lemma split_not_in_prefix : forall {A} (x : A) X Y l1 l2,
  l1 ++ x :: l2 = X ++ Y -> ~ In x X -> exists l1', l1 = X ++ l1' /\ Y = l1' ++ x :: l2.
Proof.
  intros A x X. induction X as [|a X IH]; intros Y l1 l2 H Hn.
  - exists l1. simpl in *. auto.
  - destruct l1 as [|b l1].
    + simpl in H. inversion H; subst. exfalso. apply Hn. left; reflexivity.
    + simpl in H. inversion H; subst.
      destruct (IH Y l1 l2 H2) as [l1' [E1 E2]].
      * intros Hin. apply Hn. right; exact Hin.
      * exists l1'. subst. auto.
Qed.

Lemma firstn_split_full : forall {A} n (L : list A) l1 x l2,
  firstn n L = l1 ++ x :: l2 -> L = l1 ++ x :: (l2 ++ skipn n L).
Proof.
  intros. rewrite <- (firstn_skipn n L) at 1. rewrite H. rewrite <- app_assoc. reflexivity.
Qed.

(* ------------------------------------------------------------------ *)
(* which effects occur in which part *)

Lemma in_apply_effects : forall b u e, In e (apply_effects b u) ->
  u_fast u = b /\
  ((e = PushSnapshot (ukey u) (u_snap_index u) /\ u_snap_index u <> 0) \/
   (e = PushApply (ukey u) (u_committed u) /\ u_committed u <> [])).
Proof.
  intros b u e H. unfold apply_effects in H.
  destruct (Bool.eqb (u_fast u) b) eqn:E; [|destruct H].
  apply eqb_prop in E. split; [exact E|].
  unfold apply_stage_acts in H. cbn [flat_map aact_effects] in H.
  rewrite app_nil_r in H. apply in_app_or in H. destruct H as [H|H].
  - destruct (u_snap_index u =? 0) eqn:Z; [destruct H|].
    destruct H as [H|[]]. left. split; [auto|]. apply N.eqb_neq in Z. exact Z.
  - destruct (u_committed u) eqn:C; [destruct H|].
    destruct H as [H|[]]. right. split; [auto|discriminate].
Qed.

Lemma in_fast_part : forall us e, In e (fast_part us) ->
  exists u, In u us /\ In e (apply_effects true u).
Proof. intros us e H. apply in_flat_map in H. exact H. Qed.
Lemma in_slow_part : forall us e, In e (slow_part us) ->
  exists u, In u us /\ In e (apply_effects false u).
Proof. intros us e H. apply in_flat_map in H. exact H. Qed.

Lemma in_free_part : forall us e, In e (free_part us) ->
  exists u m, In u us /\ In m (u_msgs u) /\ is_free m = true /\ e = Send (ukey u) m.
Proof.
  intros us e H. apply in_flat_map in H. destruct H as [u [Hu H]].
  apply in_map_iff in H. destruct H as [m [E H]]. apply filter_In in H.
  exists u, m. intuition.
Qed.

Lemma in_flag_part : forall us e, In e (flag_part us) ->
  exists u, In u us /\ e = RemoveFlag (ukey u) (u_snap_index u).
Proof.
  intros us e H. apply in_flat_map in H. destruct H as [u [Hu H]].
  destruct (u_snap_index u =? 0); [destruct H|]. destruct H as [H|[]]. eauto.
Qed.

Lemma in_node_effects : forall u e, In e (node_effects u) ->
  e = LogAppend (ukey u) (u_save u) \/ e = CommitBack u \/
  exists m, In m (u_msgs u) /\ is_free m = false /\ e = Send (ukey u) m.
Proof.
  intros u e H. unfold node_effects in H. destruct H as [H|H]; [left; auto|].
  apply in_app_or in H. destruct H as [H|H].
  - right. right. apply in_map_iff in H. destruct H as [m [E H]]. apply filter_In in H.
    destruct H as [H1 H2]. apply negb_true_iff in H2. eauto.
  - destruct H as [H|[]]. right. left. auto.
Qed.

Lemma in_node_part : forall us e, In e (node_part us) -> exists u, In u us /\ In e (node_effects u).
Proof. intros us e H. apply in_flat_map in H. exact H. Qed.

(* the five parts before the per-node part contain no Send of a non-free-order message *)
Definition before_node (us : list update) :=
  StepNodes :: fast_part us ++ free_part us ++ save_part us ++ flag_part us ++ slow_part us.

Lemma process_step_split : forall us, process_step us = before_node us ++ node_part us.
Proof.
  intros. rewrite process_step_shape. unfold before_node. simpl.
  rewrite <- !app_assoc. reflexivity.
Qed.

Lemma in_before_node : forall us e, In e (before_node us) ->
  e = StepNodes \/ In e (fast_part us) \/ In e (free_part us) \/ In e (save_part us) \/
  In e (flag_part us) \/ In e (slow_part us).
Proof.
  intros us e H. unfold before_node in H. destruct H as [H|H]; [left; auto|].
  repeat (apply in_app_or in H; destruct H as [H|H]; [tauto|]). tauto.
Qed.

Lemma nonfree_send_not_before_node : forall us k m,
  is_free m = false -> ~ In (Send k m) (before_node us).
Proof.
  intros us k m Hf H. apply in_before_node in H.
  destruct H as [H|[H|[H|[H|[H|H]]]]].
  - discriminate.
  - apply in_fast_part in H. destruct H as [u [_ H]]. apply in_apply_effects in H.
    destruct H as [_ [[H _]|[H _]]]; discriminate.
  - apply in_free_part in H. destruct H as [u [m' [_ [_ [F E]]]]]. inversion E; subst. congruence.
  - apply in_map_iff in H. destruct H as [u [E _]]. discriminate.
  - apply in_flag_part in H. destruct H as [u [_ E]]. discriminate.
  - apply in_slow_part in H. destruct H as [u [_ H]]. apply in_apply_effects in H.
    destruct H as [_ [[H _]|[H _]]]; discriminate.
Qed.

Lemma persist_in_before_node : forall us u, In u us -> In (Persist u) (before_node us).
Proof.
  intros. unfold before_node. right. apply in_or_app. right. apply in_or_app. right.
  apply in_or_app. left. apply in_map. assumption.
Qed.

(* ------------------------------------------------------------------ *)
(* persist_before_send *)

Lemma persist_before_send_proved : forall us n l1 k m l2,
  firstn n (process_step us) = l1 ++ Send k m :: l2 ->
  is_free_order_message (m_type m) = false ->
  exists u, In u us /\ ukey u = k /\ In m (u_msgs u) /\ In (Persist u) l1.
Proof.
  intros us n l1 k m l2 H Hf.
  apply firstn_split_full in H. remember (skipn n (process_step us)) as tl eqn:Etl. clear Etl.
  rewrite process_step_split in H. symmetry in H.
  destruct (split_not_in_prefix _ _ _ _ _ H (nonfree_send_not_before_node us k m Hf)) as [l1' [E1 E2]].
  assert (Hin : In (Send k m) (node_part us)) by (rewrite E2; apply in_or_app; right; left; reflexivity).
  apply in_node_part in Hin. destruct Hin as [u [Hu Hin]].
  apply in_node_effects in Hin. destruct Hin as [Hin|[Hin|[m' [Hm [_ E]]]]]; try discriminate.
  inversion E; subst m' k.
  exists u. repeat split; auto.
  rewrite E1. apply in_or_app. left. apply persist_in_before_node. exact Hu.
Qed.

(* free-order messages are the only ones that can leave before the save *)
Lemma send_before_persist_is_free_proved : forall us l1 k m l2 u,
  process_step us = l1 ++ Send k m :: l2 -> In u us -> ukey u = k -> In m (u_msgs u) ->
  ~ In (Persist u) l1 -> is_free_order_message (m_type m) = true.
Proof.
  intros us l1 k m l2 u H Hu Hk Hm Hn.
  destruct (is_free_order_message (m_type m)) eqn:F; [reflexivity|exfalso].
  assert (H' : firstn (length (process_step us)) (process_step us) = l1 ++ Send k m :: l2)
    by (rewrite firstn_all; exact H).
  rewrite process_step_split in H. symmetry in H.
  destruct (split_not_in_prefix _ _ _ _ _ H (nonfree_send_not_before_node us k m F)) as [l1' [E1 _]].
  apply Hn. rewrite E1. apply in_or_app. left. apply persist_in_before_node. exact Hu.
Qed.

(* ------------------------------------------------------------------ *)
(* setFastApply: false exactly when the update carries a snapshot or the committed range
   overlaps the range still to be saved *)

Lemma contig_from_bounds : forall es i e,
  contig_from i es = true -> In e es -> i <= e_index e /\ e_index e < i + N.of_nat (length es).
Proof.
  induction es as [|a es IH]; intros i e H Hin; [destruct Hin|].
  simpl in H. apply andb_true_iff in H. destruct H as [H1 H2]. apply N.eqb_eq in H1.
  destruct Hin as [Hin|Hin].
  - subst. cbn [length]. lia.
  - destruct (IH _ _ H2 Hin). cbn [length]. lia.
Qed.

Lemma contig_from_has : forall es i x,
  contig_from i es = true -> i <= x -> x < i + N.of_nat (length es) ->
  exists e, In e es /\ e_index e = x.
Proof.
  induction es as [|a es IH]; intros i x H Hl Hu.
  - cbn [length] in Hu. lia.
  - simpl in H. apply andb_true_iff in H. destruct H as [H1 H2]. apply N.eqb_eq in H1.
    destruct (N.eq_dec x i) as [E|E].
    + exists a. split; [left; reflexivity|]. congruence.
    + destruct (IH (i + 1) x H2) as [e [He1 He2]]; [lia| cbn [length] in Hu; lia|].
      exists e. split; [right; exact He1|exact He2].
Qed.

Lemma last_in : forall (es : list ent) d, es <> [] -> In (last es d) es.
Proof.
  induction es as [|a es IH]; intros d H; [congruence|].
  destruct es as [|b es]; [left; reflexivity|].
  right. apply IH. discriminate.
Qed.

Lemma contig_from_last : forall es i,
  es <> [] -> contig_from i es = true -> last_index es = i + N.of_nat (length es) - 1.
Proof.
  induction es as [|a es IH]; intros i Hne H; [congruence|].
  simpl in H. apply andb_true_iff in H. destruct H as [H1 H2]. apply N.eqb_eq in H1.
  destruct es as [|b es].
  - unfold last_index. cbn. lia.
  - unfold last_index in *. change (last (a :: b :: es) ent0) with (last (b :: es) ent0).
    rewrite (IH (i + 1)); [|discriminate|exact H2]. cbn [length]. lia.
Qed.

Lemma existsb_false_r : forall {A B} (l : list A) (f : A -> B -> bool),
  existsb (fun x => existsb (f x) []) l = false.
Proof. induction l; simpl; auto. Qed.

Lemma ranges_overlap_iff : forall a b,
  ranges_overlap a b = true <-> exists x y, In x a /\ In y b /\ e_index x = e_index y.
Proof.
  intros a b. unfold ranges_overlap. rewrite existsb_exists. split.
  - intros [x [Hx H]]. apply existsb_exists in H. destruct H as [y [Hy E]].
    apply N.eqb_eq in E. eauto.
  - intros [x [y [Hx [Hy E]]]]. exists x. split; [exact Hx|].
    apply existsb_exists. exists y. split; [exact Hy|]. apply N.eqb_eq. exact E.
Qed.

Lemma set_fast_apply_false_iff_proved : forall snap commit committed save,
  contig committed = true -> contig save = true ->
  validate_update commit committed save = true ->
  (set_fast_apply snap committed save = false <->
   snap <> 0 \/ ranges_overlap committed save = true).
Proof.
  intros snap commit committed save Hc Hs Hv.
  unfold set_fast_apply.
  destruct (snap =? 0) eqn:Z; cbn [negb].
  2:{ apply N.eqb_neq in Z. split; [intros _; left; exact Z|reflexivity]. }
  apply N.eqb_eq in Z.
  destruct committed as [|c cs].
  { split; [discriminate|]. intros [H|H]; [congruence|]. cbn in H. discriminate. }
  destruct save as [|f ss].
  { split; [discriminate|]. intros [H|H]; [congruence|].
    unfold ranges_overlap in H. rewrite existsb_false_r in H. discriminate. }
  unfold validate_update in Hv. apply andb_true_iff in Hv. destruct Hv as [_ Hv].
  apply negb_true_iff in Hv. apply N.ltb_ge in Hv.
  unfold contig, first_index in Hc, Hs. cbn [hd] in Hc, Hs.
  assert (Hla := contig_from_last (c :: cs) (e_index c) ltac:(discriminate) Hc).
  assert (Hls := contig_from_last (f :: ss) (e_index f) ltac:(discriminate) Hs).
  unfold first_index. cbn [hd].
  rewrite ranges_overlap_iff.
  split.
  - intros H. apply negb_false_iff in H. apply andb_true_iff in H. destruct H as [H1 H2].
    apply N.leb_le in H1. apply N.leb_le in H2. right.
    exists (last (c :: cs) ent0).
    destruct (contig_from_has (f :: ss) (e_index f) (last_index (c :: cs)) Hs) as [y [Hy Ey]].
    + exact H1.
    + rewrite Hls in H2. cbn [length] in *. lia.
    + exists y. split; [apply last_in; discriminate|]. split; [exact Hy|].
      unfold last_index in Ey. congruence.
  - intros [H|[x [y [Hx [Hy E]]]]]; [congruence|].
    apply negb_false_iff. apply andb_true_iff.
    destruct (contig_from_bounds _ _ _ Hc Hx) as [Bx1 Bx2].
    destruct (contig_from_bounds _ _ _ Hs Hy) as [By1 By2].
    split; [apply N.leb_le|apply N.leb_le; exact Hv].
    rewrite Hla. unfold first_index in *. cbn [hd length] in *. lia.
Qed.

(* ------------------------------------------------------------------ *)
(* apply_not_before_persist *)

Lemma wf_update_parts : forall u, wf_update u = true ->
  contig (u_save u) = true /\ contig (u_committed u) = true /\
  validate_update (hs_commit (u_state u)) (u_committed u) (u_save u) = true /\
  u_fast u = set_fast_apply (u_snap_index u) (u_committed u) (u_save u).
Proof.
  intros u H. unfold wf_update in H.
  repeat (apply andb_true_iff in H; destruct H as [H ?]).
  repeat split; auto. apply eqb_prop. assumption.
Qed.

Lemma push_apply_not_elsewhere : forall us k es,
  ~ In (PushApply k es) (StepNodes :: []) /\
  ~ In (PushApply k es) (free_part us) /\ ~ In (PushApply k es) (save_part us) /\
  ~ In (PushApply k es) (flag_part us) /\ ~ In (PushApply k es) (node_part us).
Proof.
  intros. repeat split; intros H.
  - destruct H as [H|[]]. discriminate.
  - apply in_free_part in H. destruct H as [u [m [_ [_ [_ E]]]]]. discriminate.
  - apply in_map_iff in H. destruct H as [u [E _]]. discriminate.
  - apply in_flag_part in H. destruct H as [u [_ E]]. discriminate.
  - apply in_node_part in H. destruct H as [u [_ H]]. apply in_node_effects in H.
    destruct H as [H|[H|[m [_ [_ H]]]]]; discriminate.
Qed.

Lemma apply_not_before_persist_proved : forall us n l1 k es l2,
  (forall u, In u us -> wf_update u = true) ->
  firstn n (process_step us) = l1 ++ PushApply k es :: l2 ->
  exists u, In u us /\ ukey u = k /\ es = u_committed u /\
    (ranges_overlap es (u_save u) = true -> In (Persist u) l1).
Proof.
  intros us n l1 k es l2 Hwf H.
  apply firstn_split_full in H. remember (l2 ++ skipn n (process_step us)) as tl eqn:Etl. clear Etl.
  rewrite process_step_shape in H.
  destruct (push_apply_not_elsewhere us k es) as [N0 [N1 [N2 [N3 N4]]]].
  (* StepNodes *)
  destruct l1 as [|e0 l1]; [simpl in H; discriminate|].
  simpl in H. injection H as He0 H. subst e0.
  (* either in the fast part or after it *)
  apply app_eq_app in H. destruct H as [l [[E1 E2]|[E1 E2]]].
  - (* inside the fast part: fast_part = l1 ++ l, l ++ rest = PushApply :: tl *)
    destruct l as [|e l].
    + (* boundary case: the fast part ends exactly before it; then it is not in the fast part *)
      simpl in E2. rewrite app_nil_r in E1. subst l1.
      destruct (split_not_in_prefix _ _ _ [] _ E2 N1) as [la [Ea Eb]].
      symmetry in Ea. apply app_eq_nil in Ea. destruct Ea as [Ea1 Ea2]. subst la.
      simpl in Eb.
      destruct (split_not_in_prefix _ _ _ [] _ (eq_sym Eb) N2) as [lb [Ec Ed]].
      symmetry in Ec. apply app_eq_nil in Ec. destruct Ec as [Ec1 Ec2]. subst lb. simpl in Ed.
      destruct (split_not_in_prefix _ _ _ [] _ (eq_sym Ed) N3) as [lc [Ee Ef]].
      symmetry in Ee. apply app_eq_nil in Ee. destruct Ee as [Ee1 Ee2]. subst lc. simpl in Ef.
      assert (Hin : In (PushApply k es) (slow_part us)).
      { assert (Hin' : In (PushApply k es) (slow_part us ++ node_part us))
          by (rewrite Ef; left; reflexivity).
        apply in_app_or in Hin'. destruct Hin' as [?|?]; [assumption|contradiction]. }
      apply in_slow_part in Hin. destruct Hin as [u [Hu Hin]].
      apply in_apply_effects in Hin. destruct Hin as [_ [[Hx _]|[Hx _]]]; [discriminate|].
      injection Hx as Hk He. exists u. repeat split; auto.
      intros _. exfalso.
      unfold save_part in Ec1. apply map_eq_nil in Ec1. subst us. destruct Hu.
    + simpl in E2. injection E2 as Ee E2. subst e.
      assert (Hin : In (PushApply k es) (fast_part us))
        by (rewrite E1; apply in_or_app; right; left; reflexivity).
      apply in_fast_part in Hin. destruct Hin as [u [Hu Hin]].
      apply in_apply_effects in Hin. destruct Hin as [Hfast [[Hx _]|[Hx _]]]; [discriminate|].
      injection Hx as Hk He. exists u. repeat split; auto.
      intros Hov. exfalso.
      destruct (wf_update_parts u (Hwf u Hu)) as [Hs [Hc [Hv Hf]]].
      rewrite Hfast in Hf. symmetry in Hf.
      assert (Hfalse : set_fast_apply (u_snap_index u) (u_committed u) (u_save u) = false).
      { apply (set_fast_apply_false_iff_proved _ _ _ _ Hc Hs Hv). right. subst es. exact Hov. }
      congruence.
  - (* l1 extends beyond the fast part: fast_part ++ l = l1 *)
    subst l1.
    assert (Hrest : free_part us ++ save_part us ++ flag_part us ++ slow_part us ++ node_part us =
                    l ++ PushApply k es :: tl) by exact E2.
    destruct (split_not_in_prefix _ _ _ _ _ (eq_sym Hrest) N1) as [la [Ea Eb]].
    destruct (split_not_in_prefix _ _ _ _ _ (eq_sym Eb) N2) as [lb [Ec Ed]].
    destruct (split_not_in_prefix _ _ _ _ _ (eq_sym Ed) N3) as [lc [Ee Ef]].
    (* now in slow_part ++ node_part *)
    assert (Hin : In (PushApply k es) (slow_part us)).
    { assert (Hin' : In (PushApply k es) (slow_part us ++ node_part us))
        by (rewrite Ef; apply in_or_app; right; left; reflexivity).
      apply in_app_or in Hin'. destruct Hin' as [?|?]; [assumption|contradiction]. }
    apply in_slow_part in Hin. destruct Hin as [u [Hu Hin]].
    apply in_apply_effects in Hin. destruct Hin as [_ [[Hx _]|[Hx _]]]; [discriminate|].
    injection Hx as Hk He. exists u. repeat split; auto.
    intros _. right. apply in_or_app. right. subst l la lb.
    apply in_or_app. right. apply in_or_app. left. apply in_map. exact Hu.
Qed.

(* ------------------------------------------------------------------ *)
(* crash cuts of one step *)

Lemma key_eqb_eq : forall a b, key_eqb a b = true <-> a = b.
Proof.
  intros [a1 a2] [b1 b2]. unfold key_eqb. cbn [fst snd]. rewrite andb_true_iff, !N.eqb_eq.
  split; [intros [-> ->]; reflexivity|intros E; inversion E; auto].
Qed.

Definition persisted (k : key) (effs : list effect) : list update :=
  flat_map (fun e => match e with
                     | Persist u => if key_eqb (ukey u) k then [u] else []
                     | _ => [] end) effs.

Lemma persisted_app : forall k a b, persisted k (a ++ b) = persisted k a ++ persisted k b.
Proof. intros. unfold persisted. apply flat_map_app. Qed.

Lemma durable_persisted : forall k effs img,
  durable k effs img = fold_left persist_update (persisted k effs) img.
Proof.
  intros k effs. unfold durable. induction effs as [|e effs IH]; intros img; [reflexivity|].
  cbn [fold_left]. rewrite IH. unfold persisted. cbn [flat_map].
  destruct e; cbn [apply_effect app]; try reflexivity.
  destruct (key_eqb (ukey u) k); reflexivity.
Qed.

Lemma persisted_none : forall k l, (forall u, ~ In (Persist u) l) -> persisted k l = [].
Proof.
  intros k l H. induction l as [|e l IH]; [reflexivity|].
  unfold persisted. cbn [flat_map]. fold (persisted k l).
  rewrite IH by (intros u Hu; apply (H u); right; exact Hu).
  destruct e; try reflexivity. exfalso. apply (H u). left. reflexivity.
Qed.

Lemma persisted_save_part : forall k us,
  persisted k (save_part us) = filter (fun u => key_eqb (ukey u) k) us.
Proof.
  intros k us. induction us as [|u us IH]; [reflexivity|].
  unfold save_part, persisted in *. cbn [map flat_map filter]. rewrite IH.
  destruct (key_eqb (ukey u) k); reflexivity.
Qed.

Lemma in_persisted : forall k l u, In (Persist u) l -> ukey u = k -> In u (persisted k l).
Proof.
  intros k l u H E. unfold persisted. apply in_flat_map. exists (Persist u). split; [exact H|].
  apply key_eqb_eq in E. rewrite E. left. reflexivity.
Qed.

Lemma persisted_process_step : forall k us,
  persisted k (process_step us) = filter (fun u => key_eqb (ukey u) k) us.
Proof.
  intros k us. rewrite process_step_shape.
  change (StepNodes :: fast_part us ++ free_part us ++ save_part us ++ flag_part us ++ slow_part us ++ node_part us)
    with ([StepNodes] ++ fast_part us ++ free_part us ++ save_part us ++ flag_part us ++ slow_part us ++ node_part us).
  rewrite !persisted_app, persisted_save_part.
  rewrite (persisted_none k [StepNodes]) by (intros u [H|[]]; discriminate).
  rewrite (persisted_none k (fast_part us)).
  2:{ intros u H. apply in_fast_part in H. destruct H as [u' [_ H]]. apply in_apply_effects in H.
      destruct H as [_ [[H _]|[H _]]]; discriminate. }
  rewrite (persisted_none k (free_part us)).
  2:{ intros u H. apply in_free_part in H. destruct H as [u' [m [_ [_ [_ E]]]]]. discriminate. }
  rewrite (persisted_none k (flag_part us)).
  2:{ intros u H. apply in_flag_part in H. destruct H as [u' [_ E]]. discriminate. }
  rewrite (persisted_none k (slow_part us)).
  2:{ intros u H. apply in_slow_part in H. destruct H as [u' [_ H]]. apply in_apply_effects in H.
      destruct H as [_ [[H _]|[H _]]]; discriminate. }
  rewrite (persisted_none k (node_part us)).
  2:{ intros u H. apply in_node_part in H. destruct H as [u' [_ H]]. apply in_node_effects in H.
      destruct H as [H|[H|[m [_ [_ H]]]]]; discriminate. }
  cbn [app]. rewrite app_nil_r. reflexivity.
Qed.

Lemma filter_key_nodup : forall us u,
  NoDup (map ukey us) -> In u us -> filter (fun x => key_eqb (ukey x) (ukey u)) us = [u].
Proof.
  induction us as [|a us IH]; intros u Hnd Hin; [destruct Hin|].
  cbn [map] in Hnd. inversion Hnd as [|? ? Hn Hnd']; subst.
  cbn [filter]. destruct Hin as [Hin|Hin].
  - subst a. replace (key_eqb (ukey u) (ukey u)) with true by (symmetry; apply key_eqb_eq; reflexivity).
    f_equal. clear IH Hnd Hnd'. induction us as [|x us IHus]; [reflexivity|].
    cbn [filter]. destruct (key_eqb (ukey x) (ukey u)) eqn:E.
    + exfalso. apply key_eqb_eq in E. apply Hn. rewrite <- E. left. reflexivity.
    + apply IHus. intros Hx. apply Hn. right. exact Hx.
  - destruct (key_eqb (ukey a) (ukey u)) eqn:E.
    + exfalso. apply key_eqb_eq in E. apply Hn. rewrite E. apply in_map. exact Hin.
    + apply IH; assumption.
Qed.

Lemma app_singleton_in : forall {A} (a b : list A) (x : A), a ++ b = [x] -> In x a -> a = [x] /\ b = [].
Proof.
  intros A a b x H Hin. destruct a as [|y a]; [destruct Hin|].
  simpl in H. inversion H as [[E1 E2]]. apply app_eq_nil in E2. destruct E2; subst. auto.
Qed.

Lemma covers_free : forall img m, is_free_order_message (m_type m) = true -> covers img m = true.
Proof.
  intros img m H. unfold covers, covers_code, claims_term, is_free. rewrite H. reflexivity.
Qed.

Lemma crash_cut_safe_proved : forall us (imgs : key -> image) n k m,
  NoDup (map ukey us) ->
  (forall u, In u us -> update_covers (imgs (ukey u)) u = true) ->
  In (Send k m) (firstn n (process_step us)) ->
  covers (crash n (process_step us) k (imgs k)) m = true.
Proof.
  intros us imgs n k m Hnd Hcov Hin.
  destruct (is_free_order_message (m_type m)) eqn:F; [apply covers_free; exact F|].
  apply in_split in Hin. destruct Hin as [l1 [l2 Hsplit]].
  destruct (persist_before_send_proved us n l1 k m l2 Hsplit F) as [u [Hu [Hk [Hm Hp]]]].
  unfold crash. rewrite durable_persisted.
  assert (Hall : persisted k (firstn n (process_step us)) ++ persisted k (skipn n (process_step us)) = [u]).
  { rewrite <- persisted_app, firstn_skipn, persisted_process_step. rewrite <- Hk.
    apply filter_key_nodup; assumption. }
  assert (Hinp : In u (persisted k (firstn n (process_step us)))).
  { apply in_persisted; [|exact Hk]. rewrite Hsplit. apply in_or_app. left. exact Hp. }
  destruct (app_singleton_in _ _ _ Hall Hinp) as [E _]. rewrite E. cbn [fold_left].
  specialize (Hcov u Hu). unfold update_covers in Hcov. rewrite forallb_forall in Hcov.
  rewrite <- Hk. apply Hcov. exact Hm.
Qed.

(* what [covers] says, spelled out *)
Lemma covers_meaning_proved : forall img m,
  covers img m = true -> claims_term m = true ->
  m_term m <= i_term img /\
  (is_vote_request m = true -> vote_ok img (m_term m) (m_from m) = true) /\
  (is_grant m = true -> vote_ok img (m_term m) (m_to m) = true) /\
  (is_ack m = true -> ack_ok img (m_term m) (m_logindex m) = true).
Proof.
  intros img m H C. unfold covers, covers_code in H. rewrite C in H. cbn [negb] in H.
  destruct (m_term m <=? i_term img) eqn:T; cbn [negb] in H; [|discriminate].
  apply N.leb_le in T. split; [exact T|].
  destruct (is_vote_request m) eqn:V; cbn [andb] in H.
  - destruct (vote_ok img (m_term m) (m_from m)) eqn:VO; cbn [negb] in H; [|discriminate].
    destruct (is_grant m) eqn:G; cbn [andb] in H.
    + destruct (vote_ok img (m_term m) (m_to m)) eqn:VG; cbn [negb] in H; [|discriminate].
      destruct (is_ack m) eqn:A; cbn [andb] in H; [|repeat split; auto; discriminate].
      destruct (ack_ok img (m_term m) (m_logindex m)); cbn [negb] in H; [|discriminate]. auto.
    + destruct (is_ack m) eqn:A; cbn [andb] in H; [|repeat split; auto; discriminate].
      destruct (ack_ok img (m_term m) (m_logindex m)); cbn [negb] in H; [|discriminate].
      repeat split; auto; discriminate.
  - destruct (is_grant m) eqn:G; cbn [andb] in H.
    + destruct (vote_ok img (m_term m) (m_to m)) eqn:VG; cbn [negb] in H; [|discriminate].
      destruct (is_ack m) eqn:A; cbn [andb] in H; [|repeat split; auto; discriminate].
      destruct (ack_ok img (m_term m) (m_logindex m)); cbn [negb] in H; [|discriminate].
      repeat split; auto; discriminate.
    + destruct (is_ack m) eqn:A; cbn [andb] in H; [|repeat split; auto; discriminate].
      destruct (ack_ok img (m_term m) (m_logindex m)); cbn [negb] in H; [|discriminate].
      repeat split; auto; discriminate.
Qed.

(* ------------------------------------------------------------------ *)
(* the step worker loop: what follows a batch follows the persist of its updates *)

Lemma worker_loop_app : forall a b, worker_loop (a ++ b) = worker_loop a ++ worker_loop b.
Proof. intros. unfold worker_loop. apply flat_map_app. Qed.

Lemma prefix_by_length : forall {A} (X Y l1 l2 : list A),
  X ++ Y = l1 ++ l2 -> (length X <= length l1)%nat -> exists l, l1 = X ++ l /\ Y = l ++ l2.
Proof.
  intros A X. induction X as [|a X IH]; intros Y l1 l2 H Hl.
  - exists l1. simpl in *. auto.
  - destruct l1 as [|b l1]; [simpl in Hl; lia|].
    simpl in H. inversion H; subst. simpl in Hl.
    destruct (IH Y l1 l2 H2 ltac:(lia)) as [l [E1 E2]]. exists l. subst. auto.
Qed.

Lemma step_nodes_only_first : forall us,
  ~ In StepNodes (fast_part us ++ free_part us ++ save_part us ++ flag_part us ++ slow_part us ++ node_part us).
Proof.
  intros us H.
  repeat (apply in_app_or in H; destruct H as [H|H]).
  - apply in_fast_part in H. destruct H as [u [_ H]]. apply in_apply_effects in H.
    destruct H as [_ [[H _]|[H _]]]; discriminate.
  - apply in_free_part in H. destruct H as [u [m [_ [_ [_ E]]]]]. discriminate.
  - apply in_map_iff in H. destruct H as [u [E _]]. discriminate.
  - apply in_flag_part in H. destruct H as [u [_ E]]. discriminate.
  - apply in_slow_part in H. destruct H as [u [_ H]]. apply in_apply_effects in H.
    destruct H as [_ [[H _]|[H _]]]; discriminate.
  - apply in_node_part in H. destruct H as [u [_ H]]. apply in_node_effects in H.
    destruct H as [H|[H|[m [_ [_ H]]]]]; discriminate.
Qed.

Lemma persist_in_process_step : forall us u, In u us -> In (Persist u) (process_step us).
Proof.
  intros. rewrite process_step_split. apply in_or_app. left. apply persist_in_before_node. assumption.
Qed.

(* any effect beyond the effects of batch b is preceded by the persist of every update of b *)
Lemma later_effects_after_persist_proved : forall pre b post u l1 l2,
  In u b ->
  worker_loop (pre ++ b :: post) = l1 ++ l2 ->
  (length (worker_loop (pre ++ [b])) <= length l1)%nat ->
  In (Persist u) l1.
Proof.
  intros pre b post u l1 l2 Hu H Hl.
  replace (pre ++ b :: post) with ((pre ++ [b]) ++ post) in H by (rewrite <- app_assoc; reflexivity).
  rewrite worker_loop_app in H.
  destruct (prefix_by_length _ _ _ _ H Hl) as [l [E _]]. rewrite E.
  apply in_or_app. left. rewrite worker_loop_app. apply in_or_app. right.
  unfold worker_loop. cbn [flat_map]. rewrite app_nil_r. apply persist_in_process_step. exact Hu.
Qed.

(* the self-acknowledgement argument: a response to anything sent in batch b (or later) can
   only be consumed by a later stepNode loop; every such loop is preceded by the persist of
   every update of b, in particular of the entries the leader counted for itself at append
   time *)
Lemma leader_self_ack_after_persist_proved : forall pre b post u l1 k m l2 l3,
  In u b ->
  worker_loop (pre ++ b :: post) = l1 ++ Send k m :: l2 ++ StepNodes :: l3 ->
  (length (worker_loop pre) <= length l1)%nat ->
  In (Persist u) (l1 ++ Send k m :: l2).
Proof.
  intros pre b post u l1 k m l2 l3 Hu H Hl.
  replace (pre ++ b :: post) with (pre ++ [b] ++ post) in H by reflexivity.
  rewrite !worker_loop_app in H.
  destruct (prefix_by_length _ _ _ _ H Hl) as [l [E1 E2]].
  unfold worker_loop at 1 in E2. cbn [flat_map] in E2. rewrite app_nil_r in E2.
  rewrite process_step_shape in E2.
  destruct l as [|e l]; [simpl in E2; discriminate|].
  simpl in E2. injection E2 as Ee E2. subst e.
  set (rest := fast_part b ++ free_part b ++ save_part b ++ flag_part b ++ slow_part b ++ node_part b) in *.
  assert (E3 : (l ++ Send k m :: l2) ++ StepNodes :: l3 = rest ++ worker_loop post).
  { rewrite <- app_assoc. simpl. symmetry. exact E2. }
  destruct (split_not_in_prefix _ _ _ _ _ E3 (step_nodes_only_first b)) as [l' [E4 _]].
  subst l1. rewrite <- app_assoc. apply in_or_app. right.
  change ((StepNodes :: l) ++ Send k m :: l2) with (StepNodes :: (l ++ Send k m :: l2)).
  rewrite E4. right. apply in_or_app. left.
  assert (Hp := persist_in_process_step b u Hu). rewrite process_step_shape in Hp.
  destruct Hp as [Hp|Hp]; [discriminate|exact Hp].
Qed.

(* within a step, Peer.Commit (which advances savedTo) follows the persist *)
Lemma commit_back_after_persist_proved : forall us n l1 u l2,
  firstn n (process_step us) = l1 ++ CommitBack u :: l2 -> In (Persist u) l1.
Proof.
  intros us n l1 u l2 H.
  apply firstn_split_full in H. remember (l2 ++ skipn n (process_step us)) as tl eqn:Etl. clear Etl.
  rewrite process_step_split in H. symmetry in H.
  assert (Hn : ~ In (CommitBack u) (before_node us)).
  { intros Hin. apply in_before_node in Hin.
    destruct Hin as [Hin|[Hin|[Hin|[Hin|[Hin|Hin]]]]].
    - discriminate.
    - apply in_fast_part in Hin. destruct Hin as [u' [_ Hin]]. apply in_apply_effects in Hin.
      destruct Hin as [_ [[Hx _]|[Hx _]]]; discriminate.
    - apply in_free_part in Hin. destruct Hin as [u' [m [_ [_ [_ E]]]]]. discriminate.
    - apply in_map_iff in Hin. destruct Hin as [u' [E _]]. discriminate.
    - apply in_flag_part in Hin. destruct Hin as [u' [_ E]]. discriminate.
    - apply in_slow_part in Hin. destruct Hin as [u' [_ Hin]]. apply in_apply_effects in Hin.
      destruct Hin as [_ [[Hx _]|[Hx _]]]; discriminate. }
  destruct (split_not_in_prefix _ _ _ _ _ H Hn) as [l1' [E1 E2]].
  assert (Hin : In (CommitBack u) (node_part us)) by (rewrite E2; apply in_or_app; right; left; reflexivity).
  apply in_node_part in Hin. destruct Hin as [u' [Hu' Hin]]. apply in_node_effects in Hin.
  destruct Hin as [Hin|[Hin|[m [_ [_ Hin]]]]]; try discriminate.
  injection Hin as ->. rewrite E1. apply in_or_app. left. apply persist_in_before_node. exact Hu'.
Qed.

(* ------------------------------------------------------------------ *)
(* soundness of the trace checker for every crash cut of a recorded trace *)

Definition sends_of (evs : list tev) : list msg :=
  flat_map (fun e => match e with TSend m => [m] | _ => [] end) evs.

Record tinv (st : tstate) (sent : list msg) : Prop := {
  inv_ack_term : ts_ack_term st <= i_term (ts_img st);
  inv_cov : forall m, In m sent -> covers (ts_img st) m = true;
  inv_acks : forall m, In m sent -> is_ack m = true -> claims_term m = true ->
             m_term m < ts_ack_term st \/ (m_term m = ts_ack_term st /\ m_logindex m <= ts_ack_index st);
  inv_ack_dur : i_term (ts_img st) = ts_ack_term st -> ts_ack_index st <= last_durable (ts_img st) }.

Lemma tinv_init : forall img, tinv (tstate0 img) [].
Proof.
  intros img. split; cbn [tstate0 ts_img ts_ack_term ts_ack_index].
  - lia.
  - intros m [].
  - intros m [].
  - intros _. lia.
Qed.

Lemma covers_intro : forall img m,
  (claims_term m = true ->
   m_term m <= i_term img /\
   (is_vote_request m = true -> vote_ok img (m_term m) (m_from m) = true) /\
   (is_grant m = true -> vote_ok img (m_term m) (m_to m) = true) /\
   (is_ack m = true -> ack_ok img (m_term m) (m_logindex m) = true)) ->
  covers img m = true.
Proof.
  intros img m H. unfold covers, covers_code.
  destruct (claims_term m); cbn [negb]; [|reflexivity].
  destruct (H eq_refl) as [T [V [G A]]].
  apply N.leb_le in T. rewrite T. cbn [negb].
  destruct (is_vote_request m); cbn [andb].
  - rewrite (V eq_refl). cbn [negb].
    destruct (is_grant m); cbn [andb].
    + rewrite (G eq_refl). cbn [negb]. destruct (is_ack m); cbn [andb]; [rewrite (A eq_refl)|]; reflexivity.
    + destruct (is_ack m); cbn [andb]; [rewrite (A eq_refl)|]; reflexivity.
  - destruct (is_grant m); cbn [andb].
    + rewrite (G eq_refl). cbn [negb]. destruct (is_ack m); cbn [andb]; [rewrite (A eq_refl)|]; reflexivity.
    + destruct (is_ack m); cbn [andb]; [rewrite (A eq_refl)|]; reflexivity.
Qed.

Lemma persist_code_zero : forall st img',
  persist_code st img' = 0 ->
  i_term (ts_img st) <= i_term img' /\
  (i_term img' = i_term (ts_img st) -> i_vote (ts_img st) <> 0 -> i_vote img' = i_vote (ts_img st)) /\
  (i_term img' = ts_ack_term st -> ts_ack_index st <= last_durable img').
Proof.
  intros st img' H. unfold persist_code in H.
  destruct (i_term img' <? i_term (ts_img st)) eqn:A; [discriminate|]. apply N.ltb_ge in A.
  destruct ((i_term img' =? i_term (ts_img st)) && negb (i_vote (ts_img st) =? 0) &&
            negb (i_vote img' =? i_vote (ts_img st))) eqn:B; [discriminate|].
  destruct ((i_term img' =? ts_ack_term st) && negb (ts_ack_index st <=? last_durable img')) eqn:C; [discriminate|].
  split; [exact A|]. split.
  - intros E V. apply N.eqb_eq in E. apply N.eqb_neq in V. rewrite E, V in B. cbn [andb negb] in B.
    apply negb_false_iff in B. apply N.eqb_eq in B. exact B.
  - intros E. apply N.eqb_eq in E. rewrite E in C. cbn [andb] in C.
    apply negb_false_iff in C. apply N.leb_le in C. exact C.
Qed.

Lemma vote_ok_true : forall img t c,
  vote_ok img t c = true <-> t < i_term img \/ (i_term img = t /\ i_vote img = c /\ c <> 0).
Proof.
  intros. unfold vote_ok. rewrite orb_true_iff, !andb_true_iff, N.ltb_lt, !N.eqb_eq, negb_true_iff, N.eqb_neq.
  tauto.
Qed.
Lemma ack_ok_true : forall img t i,
  ack_ok img t i = true <-> t < i_term img \/ i <= last_durable img.
Proof. intros. unfold ack_ok. rewrite orb_true_iff, N.ltb_lt, N.leb_le. tauto. Qed.

(* the shadow is replaced by an image that passed persist_code: everything sent stays covered *)
Lemma tinv_new_image : forall st sent img',
  tinv st sent -> persist_code st img' = 0 ->
  tinv (mkTS img' (ts_ack_term st) (ts_ack_index st)) sent.
Proof.
  intros st sent img' [I1 I2 I3 I4] H.
  destruct (persist_code_zero _ _ H) as [Hterm [Hvote Hack]].
  split; cbn [ts_img ts_ack_term ts_ack_index].
  - lia.
  - intros m Hm. apply covers_intro. intros C.
    destruct (covers_meaning_proved _ _ (I2 m Hm) C) as [T [V [G A]]].
    split; [lia|]. split; [|split].
    + intros Hv. specialize (V Hv). apply vote_ok_true in V. apply vote_ok_true.
      destruct (N.lt_ge_cases (m_term m) (i_term img')) as [L|L]; [left; exact L|right].
      assert (E : i_term img' = i_term (ts_img st)) by lia.
      destruct V as [V|[V1 [V2 V3]]]; [lia|].
      split; [lia|]. split; [|exact V3]. rewrite Hvote; [exact V2|exact E|congruence].
    + intros Hg. specialize (G Hg). apply vote_ok_true in G. apply vote_ok_true.
      destruct (N.lt_ge_cases (m_term m) (i_term img')) as [L|L]; [left; exact L|right].
      assert (E : i_term img' = i_term (ts_img st)) by lia.
      destruct G as [G|[G1 [G2 G3]]]; [lia|].
      split; [lia|]. split; [|exact G3]. rewrite Hvote; [exact G2|exact E|congruence].
    + intros Ha. apply ack_ok_true.
      destruct (N.lt_ge_cases (m_term m) (i_term img')) as [L|L]; [left; exact L|right].
      destruct (I3 m Hm Ha C) as [K|[K1 K2]]; [lia|].
      assert (E : i_term img' = ts_ack_term st) by lia.
      specialize (Hack E). lia.
  - exact I3.
  - exact Hack.
Qed.

Lemma tinv_step : forall st sent e st',
  tinv st sent -> trace_step st e = (st', 0) ->
  tinv st' (sent ++ sends_of [e]) /\ ts_img st' = tev_image (ts_img st) e.
Proof.
  intros st sent e st' I H. destruct e as [m|u|i|r|]; cbn [trace_step] in H.
  - (* TSend *)
    injection H as Hst Hc. cbn [sends_of flat_map app tev_image].
    assert (Hcov : covers (ts_img st) m = true) by (unfold covers; rewrite Hc; reflexivity).
    assert (Himg : ts_img (note_ack st m) = ts_img st).
    { unfold note_ack. destruct (is_ack m && claims_term m); [|reflexivity].
      destruct (ts_ack_term st <? m_term m); [reflexivity|].
      destruct (ts_ack_term st =? m_term m); reflexivity. }
    subst st'. split; [|exact Himg].
    destruct I as [I1 I2 I3 I4].
    unfold note_ack. destruct (is_ack m && claims_term m) eqn:AC.
    + apply andb_true_iff in AC. destruct AC as [Ha Hcl].
      destruct (covers_meaning_proved _ _ Hcov Hcl) as [T [_ [_ A]]].
      specialize (A Ha). apply ack_ok_true in A.
      destruct (ts_ack_term st <? m_term m) eqn:L1.
      * apply N.ltb_lt in L1. split; cbn [ts_img ts_ack_term ts_ack_index].
        -- exact T.
        -- intros m' Hm'. apply in_app_or in Hm'. destruct Hm' as [Hm'|[<-|[]]]; auto.
        -- intros m' Hm' Ha' Hc'. apply in_app_or in Hm'. destruct Hm' as [Hm'|[<-|[]]].
           ++ destruct (I3 m' Hm' Ha' Hc') as [K|[K _]]; left; lia.
           ++ right. split; [reflexivity|lia].
        -- intros E. lia.
      * apply N.ltb_ge in L1. destruct (ts_ack_term st =? m_term m) eqn:L2.
        -- apply N.eqb_eq in L2. split; cbn [ts_img ts_ack_term ts_ack_index].
           ++ exact I1.
           ++ intros m' Hm'. apply in_app_or in Hm'. destruct Hm' as [Hm'|[<-|[]]]; auto.
           ++ intros m' Hm' Ha' Hc'. apply in_app_or in Hm'. destruct Hm' as [Hm'|[<-|[]]].
              ** destruct (I3 m' Hm' Ha' Hc') as [K|[K1 K2]]; [left; exact K|right; split; [exact K1|lia]].
              ** right. split; [lia|lia].
           ++ intros E. specialize (I4 E). lia.
        -- apply N.eqb_neq in L2. split.
           ++ exact I1.
           ++ intros m' Hm'. apply in_app_or in Hm'. destruct Hm' as [Hm'|[<-|[]]]; auto.
           ++ intros m' Hm' Ha' Hc'. apply in_app_or in Hm'. destruct Hm' as [Hm'|[<-|[]]]; auto.
              left. lia.
           ++ exact I4.
    + split.
      * exact I1.
      * intros m' Hm'. apply in_app_or in Hm'. destruct Hm' as [Hm'|[<-|[]]]; auto.
      * intros m' Hm' Ha' Hc'. apply in_app_or in Hm'. destruct Hm' as [Hm'|[<-|[]]]; auto.
        rewrite Ha', Hc' in AC. discriminate.
      * exact I4.
  - (* TPersist *)
    injection H as Hst Hc. subst st'. cbn [sends_of flat_map app tev_image ts_img]. rewrite app_nil_r.
    split; [|reflexivity]. apply tinv_new_image; assumption.
  - (* TApply *)
    injection H as Hst Hc. subst st'. cbn [sends_of flat_map app tev_image]. rewrite app_nil_r.
    split; [exact I|reflexivity].
  - (* TRecover *)
    injection H as Hst Hc. subst st'. cbn [sends_of flat_map app tev_image ts_img]. rewrite app_nil_r.
    split; [|reflexivity]. apply tinv_new_image; [assumption|].
    unfold recover_code in Hc. destruct (persist_code st r =? 0) eqn:P; cbn [negb] in Hc.
    + apply N.eqb_eq in P. exact P.
    + apply N.eqb_neq in P. congruence.
  - (* TLost *)
    discriminate.
Qed.

Lemma sends_of_app : forall a b, sends_of (a ++ b) = sends_of a ++ sends_of b.
Proof. intros. unfold sends_of. apply flat_map_app. Qed.

Lemma trace_run_sound : forall evs st pos sent stf p,
  tinv st sent -> trace_run st pos evs = (stf, p, 0) ->
  forall n m, In m (sent ++ sends_of (firstn n evs)) ->
  covers (trace_image (ts_img st) (firstn n evs)) m = true.
Proof.
  induction evs as [|e evs IH]; intros st pos sent stf p I H n m Hm.
  - rewrite firstn_nil in *. cbn [sends_of flat_map trace_image fold_left] in *. rewrite app_nil_r in Hm.
    apply (inv_cov _ _ I). exact Hm.
  - destruct n as [|n].
    + cbn [firstn sends_of flat_map trace_image fold_left] in *. rewrite app_nil_r in Hm.
      apply (inv_cov _ _ I). exact Hm.
    + cbn [trace_run] in H. destruct (trace_step st e) as [st' c] eqn:S.
      destruct (c =? 0) eqn:C.
      * apply N.eqb_eq in C. subst c.
        destruct (tinv_step _ _ _ _ I S) as [I' Himg].
        cbn [firstn]. unfold trace_image. cbn [fold_left]. rewrite <- Himg.
        apply (IH st' (pos + 1) (sent ++ sends_of [e]) stf p I' H n m).
        cbn [firstn] in Hm. change (e :: firstn n evs) with ([e] ++ firstn n evs) in Hm.
        rewrite sends_of_app, app_assoc in Hm. exact Hm.
      * injection H as _ _ Hc. apply N.eqb_neq in C. congruence.
Qed.

Lemma trace_ok_crash_safe_proved : forall img evs,
  trace_ok img evs = true ->
  forall n m, In (TSend m) (firstn n evs) ->
  covers (trace_image img (firstn n evs)) m = true.
Proof.
  intros img evs H n m Hin. unfold trace_ok in H.
  destruct (trace_run (tstate0 img) 0 evs) as [[stf p] c] eqn:R.
  apply N.eqb_eq in H. subst c.
  apply (trace_run_sound evs (tstate0 img) 0 [] stf p (tinv_init img) R n m).
  cbn [app]. unfold sends_of. apply in_flat_map. exists (TSend m). split; [exact Hin|left; reflexivity].
Qed.

(* along an accepted trace the durable term never decreases, the vote of a term never
   changes once cast, and nothing is handed to the state machine before it is durable *)
Lemma trace_ok_apply_durable_proved : forall img evs,
  trace_ok img evs = true ->
  forall l1 i l2, evs = l1 ++ TApply i :: l2 -> i <= last_durable (trace_image img l1).
Proof.
  intros img evs H l1 i l2 E. unfold trace_ok in H.
  destruct (trace_run (tstate0 img) 0 evs) as [[stf p] c] eqn:R.
  apply N.eqb_eq in H. subst c evs.
  assert (G : forall l st pos, trace_run st pos (l ++ TApply i :: l2) = (stf, p, 0) ->
              i <= last_durable (trace_image (ts_img st) l)).
  { induction l as [|e l IH]; intros st pos Hr.
    - cbn [app trace_run trace_step] in Hr.
      destruct (i <=? last_durable (ts_img st)) eqn:L.
      + apply N.leb_le in L. exact L.
      + cbn in Hr. injection Hr as _ _ Hc. discriminate.
    - cbn [app trace_run] in Hr. destruct (trace_step st e) as [st' c] eqn:S.
      destruct (c =? 0) eqn:C.
      + unfold trace_image. cbn [fold_left].
        assert (Himg : ts_img st' = tev_image (ts_img st) e).
        { destruct e; cbn [trace_step] in S; injection S as <- _; cbn [tev_image ts_img]; try reflexivity.
          unfold note_ack. destruct (is_ack m && claims_term m); [|reflexivity].
          destruct (ts_ack_term st <? m_term m); [reflexivity|].
          destruct (ts_ack_term st =? m_term m); reflexivity. }
        rewrite <- Himg. apply (IH st' (pos + 1) Hr).
      + injection Hr as _ _ Hc. apply N.eqb_neq in C. congruence. }
  apply (G l1 (tstate0 img) 0 R).
Qed.

(* ------------------------------------------------------------------ *)
(* the free-order set (GENERATED from node.go isFreeOrderMessage) contains no message that
   tells the outside world about a vote, a term won or entries held *)
Lemma free_order_excludes_claims_proved : forall m,
  is_free_order_message (m_type m) = true ->
  is_ack m = false /\ is_grant m = false /\ is_vote_request m = false /\
  (m_type m =? mt_HeartbeatResp) = false /\ (m_type m =? mt_RequestVoteResp) = false /\
  (m_type m =? mt_ReplicateResp) = false.
Proof.
  intros m H.
  assert (A : (m_type m =? mt_ReplicateResp) = false).
  { destruct (m_type m =? mt_ReplicateResp) eqn:E; [|reflexivity].
    apply N.eqb_eq in E. rewrite E in H. vm_compute in H. discriminate. }
  assert (B : (m_type m =? mt_RequestVoteResp) = false).
  { destruct (m_type m =? mt_RequestVoteResp) eqn:E; [|reflexivity].
    apply N.eqb_eq in E. rewrite E in H. vm_compute in H. discriminate. }
  assert (C : (m_type m =? mt_RequestVote) = false).
  { destruct (m_type m =? mt_RequestVote) eqn:E; [|reflexivity].
    apply N.eqb_eq in E. rewrite E in H. vm_compute in H. discriminate. }
  assert (D : (m_type m =? mt_HeartbeatResp) = false).
  { destruct (m_type m =? mt_HeartbeatResp) eqn:E; [|reflexivity].
    apply N.eqb_eq in E. rewrite E in H. vm_compute in H. discriminate. }
  unfold is_ack, is_grant, is_vote_request. rewrite A, B, C. cbn [andb]. repeat split; assumption || reflexivity.
Qed.

(* the only free-order messages are leader-to-follower traffic: Replicate and Ping *)
Lemma free_order_set_proved : forall t,
  is_free_order_message t = true -> t = mt_Replicate \/ t = mt_Ping.
Proof.
  intros t H. unfold is_free_order_message in H. apply orb_true_iff in H.
  destruct H as [H|H]; apply N.eqb_eq in H; auto.
Qed.

(* ------------------------------------------------------------------ *)
(* what SaveRaftState must fsync: Tan's decision (fields GENERATED from stateSyncChange) *)

Definition tan_inv (d : tan_db) : Prop :=
  same_claims (td_synced d) (td_written d) /\
  (is_empty_state (td_cache d) = false ->
   hs_term (td_cache d) = i_term (td_written d) /\ hs_vote (td_cache d) = i_vote (td_written d)).

Lemma tan_open_inv : forall img, tan_inv (tan_open img).
Proof.
  intros img. unfold tan_inv, tan_open, same_claims. cbn. repeat split; reflexivity.
Qed.

Lemma sync_fields_term_vote : In SfTerm tan_sync_fields /\ In SfVote tan_sync_fields.
Proof. unfold tan_sync_fields. split; simpl; tauto. Qed.

Lemma state_sync_change_false : forall fields a b f,
  state_sync_change fields a b = false -> In f fields -> sfield_get f a = sfield_get f b.
Proof.
  intros fields a b f H Hin. unfold state_sync_change in H.
  destruct (N.eq_dec (sfield_get f a) (sfield_get f b)) as [E|E]; [exact E|exfalso].
  assert (T : existsb (fun f => negb (sfield_get f a =? sfield_get f b)) fields = true).
  { apply existsb_exists. exists f. split; [exact Hin|]. apply negb_true_iff. apply N.eqb_neq. exact E. }
  congruence.
Qed.

Lemma tan_unsynced_write_proved : forall d u d',
  tan_inv d -> state_wf u = true -> tan_write d u = (d', false) ->
  same_claims (td_written d') (td_written d) /\ td_synced d' = td_synced d /\ tan_inv d'.
Proof.
  intros d u d' [Hs Hc] Hwf H. unfold tan_write in H.
  destruct (hstate_eqb (u_state u) (td_cache d) && (u_snap_index u =? 0) &&
            match u_save u with [] => true | _ => false end) eqn:Skip.
  { injection H as <-. split; [unfold same_claims; repeat split; reflexivity|]. split; [reflexivity|]. split; assumption. }
  destruct (tan_sync_needed (td_cache d) u) eqn:S; [injection H as _ H; discriminate|].
  injection H as <-. cbn [td_written td_synced td_cache].
  unfold tan_sync_needed, tan_sync_on_snapshot, tan_sync_on_entries, tan_sync_on_state_change in S.
  cbn [andb] in S. apply orb_false_iff in S. destruct S as [S S3].
  apply orb_false_iff in S. destruct S as [S1 S2].
  apply negb_false_iff in S1. apply N.eqb_eq in S1.
  destruct (u_save u) eqn:Sv; [|discriminate].
  destruct sync_fields_term_vote as [FT FV].
  assert (ET := state_sync_change_false _ _ _ _ S3 FT). assert (EV := state_sync_change_false _ _ _ _ S3 FV).
  cbn [sfield_get] in ET, EV.
  assert (W : same_claims (persist_update (td_written d) u) (td_written d)).
  { unfold same_claims, persist_update. rewrite Sv, S1. cbn [i_term i_vote i_log i_snap_index i_snap_term].
    replace (i_snap_index (td_written d) <? 0) with false by (symmetry; apply N.ltb_ge; lia).
    destruct (is_empty_state (u_state u)) eqn:Em; [repeat split; reflexivity|].
    unfold state_wf in Hwf. rewrite Em in Hwf. cbn [orb] in Hwf. apply negb_true_iff in Hwf. apply N.eqb_neq in Hwf.
    assert (Ne : is_empty_state (td_cache d) = false).
    { unfold is_empty_state. destruct (hs_term (td_cache d) =? 0) eqn:Z; [|reflexivity].
      apply N.eqb_eq in Z. congruence. }
    destruct (Hc Ne) as [C1 C2]. repeat split; congruence. }
  split; [exact W|]. split; [reflexivity|].
  split.
  - destruct Hs as [A1 [A2 [A3 [A4 A5]]]]. destruct W as [B1 [B2 [B3 [B4 B5]]]].
    unfold same_claims. cbn [td_synced td_written]. repeat split; congruence.
  - cbn [td_cache td_written]. intros Ne. unfold persist_update. rewrite Ne. cbn. split; reflexivity.
Qed.

Lemma tan_write_inv : forall d u d' s,
  tan_inv d -> state_wf u = true -> tan_write d u = (d', s) -> tan_inv d'.
Proof.
  intros d u d' s I Hwf H. destruct s.
  - unfold tan_write in H.
    destruct (hstate_eqb (u_state u) (td_cache d) && (u_snap_index u =? 0) &&
              match u_save u with [] => true | _ => false end); [injection H as _ H; discriminate|].
    destruct (tan_sync_needed (td_cache d) u); [|injection H as _ H; discriminate].
    injection H as <-. split; cbn [td_written td_synced td_cache].
    + unfold same_claims. repeat split; reflexivity.
    + intros Ne. unfold persist_update. rewrite Ne. cbn. split; reflexivity.
  - apply (tan_unsynced_write_proved d u d' I Hwf H).
Qed.

(* a write that changes the term, the vote, the entries or the snapshot record is fsynced
   before SaveRaftState returns *)
Lemma tan_claim_change_requires_sync_proved : forall d u d' s,
  tan_inv d -> state_wf u = true -> tan_write d u = (d', s) ->
  ~ same_claims (td_written d') (td_written d) -> s = true.
Proof.
  intros d u d' s I Hwf H Hn. destruct s; [reflexivity|exfalso].
  apply Hn. apply (tan_unsynced_write_proved d u d' I Hwf H).
Qed.

Lemma covers_same_claims : forall a b m, same_claims a b -> covers a m = covers b m.
Proof.
  intros a b m [E1 [E2 [E3 [E4 E5]]]].
  unfold covers, covers_code, vote_ok, ack_ok, last_durable. rewrite E1, E2, E3, E4. reflexivity.
Qed.

Lemma tan_run_inv : forall us d, tan_inv d -> forallb state_wf us = true -> tan_inv (tan_run d us).
Proof.
  induction us as [|u us IH]; intros d I H; [exact I|].
  cbn [forallb] in H. apply andb_true_iff in H. destruct H as [H1 H2].
  unfold tan_run. cbn [fold_left]. apply IH; [|exact H2].
  destruct (tan_write d u) as [d' s] eqn:W. cbn [fst]. apply (tan_write_inv d u d' s I H1 W).
Qed.

(* power loss after any sequence of acknowledged saves on a Tan store: what survives makes
   good every claim that the written state makes good *)
Lemma tan_power_loss_keeps_claims_proved : forall img us m,
  forallb state_wf us = true ->
  covers (td_synced (tan_run (tan_open img) us)) m = covers (td_written (tan_run (tan_open img) us)) m.
Proof.
  intros img us m H. apply covers_same_claims.
  apply (proj1 (tan_run_inv us (tan_open img) (tan_open_inv img) H)).
Qed.

(* faithful: a commit-only State change is written but not fsynced by Tan (the commit index
   is not something a message of C04 makes a claim about) *)
Lemma tan_commit_only_not_synced_proved :
  exists d u d', tan_inv d /\ state_wf u = true /\ tan_write d u = (d', false) /\
                 i_commit (td_written d') <> i_commit (td_written d).
Proof.
  exists (tan_open (mkImg 3 2 5 0 0 [])), (mkUpd 1 1 (mkHS 3 2 6) [] [] 0 0 [] true).
  eexists. split; [apply tan_open_inv|]. split; [reflexivity|]. split; [vm_compute; reflexivity|].
  vm_compute. discriminate.
Qed.

(* ------------------------------------------------------------------ *)
(* SaveRaftState of Tan over a batch of updates sharing one log file *)

Definition cache_inv (d : tan_db) : Prop :=
  is_empty_state (td_cache d) = false ->
  hs_term (td_cache d) = i_term (td_written d) /\ hs_vote (td_cache d) = i_vote (td_written d).

Lemma same_claims_refl : forall a, same_claims a a.
Proof. intros. unfold same_claims. repeat split; reflexivity. Qed.
Lemma same_claims_trans : forall a b c, same_claims a b -> same_claims b c -> same_claims a c.
Proof.
  intros a b c [A1 [A2 [A3 [A4 A5]]]] [B1 [B2 [B3 [B4 B5]]]]. unfold same_claims. repeat split; congruence.
Qed.
Lemma same_claims_sym : forall a b, same_claims a b -> same_claims b a.
Proof. intros a b [A1 [A2 [A3 [A4 A5]]]]. unfold same_claims. repeat split; congruence. Qed.

Lemma tan_append_props : forall d u d' s,
  cache_inv d -> state_wf u = true -> tan_append d u = (d', s) ->
  cache_inv d' /\ td_synced d' = td_synced d /\
  (s = false -> same_claims (td_written d') (td_written d)).
Proof.
  intros d u d' s Hc Hwf H. unfold tan_append in H.
  destruct (hstate_eqb (u_state u) (td_cache d) && (u_snap_index u =? 0) &&
            match u_save u with [] => true | _ => false end) eqn:Skip.
  { injection H as <- <-. split; [exact Hc|]. split; [reflexivity|]. intros _. apply same_claims_refl. }
  injection H as <- <-. cbn [td_written td_synced td_cache].
  split.
  { unfold cache_inv. cbn [td_cache td_written]. intros Ne. unfold persist_update. rewrite Ne. cbn. split; reflexivity. }
  split; [reflexivity|].
  intros S.
  unfold tan_sync_needed, tan_sync_on_snapshot, tan_sync_on_entries, tan_sync_on_state_change in S.
  cbn [andb] in S. apply orb_false_iff in S. destruct S as [S S3].
  apply orb_false_iff in S. destruct S as [S1 S2].
  apply negb_false_iff in S1. apply N.eqb_eq in S1.
  destruct (u_save u) eqn:Sv; [|discriminate].
  destruct sync_fields_term_vote as [FT FV].
  assert (ET := state_sync_change_false _ _ _ _ S3 FT). assert (EV := state_sync_change_false _ _ _ _ S3 FV).
  cbn [sfield_get] in ET, EV.
  unfold same_claims, persist_update. rewrite Sv, S1. cbn [i_term i_vote i_log i_snap_index i_snap_term].
  replace (i_snap_index (td_written d) <? 0) with false by (symmetry; apply N.ltb_ge; lia).
  destruct (is_empty_state (u_state u)) eqn:Em; [repeat split; reflexivity|].
  unfold state_wf in Hwf. rewrite Em in Hwf. cbn [orb] in Hwf. apply negb_true_iff in Hwf. apply N.eqb_neq in Hwf.
  assert (Ne : is_empty_state (td_cache d) = false).
  { unfold is_empty_state. destruct (hs_term (td_cache d) =? 0) eqn:Z; [|reflexivity].
    apply N.eqb_eq in Z. congruence. }
  destruct (Hc Ne) as [C1 C2]. repeat split; congruence.
Qed.

Definition minv (m : mdb) : Prop := forall k, tan_inv (m k).

Lemma tan_inv_cache : forall d, tan_inv d -> cache_inv d.
Proof. intros d [_ H]. exact H. Qed.

Lemma mupd_same : forall m k d, mupd m k d k = d.
Proof. intros. unfold mupd. replace (key_eqb k k) with true by (symmetry; apply key_eqb_eq; reflexivity). reflexivity. Qed.
Lemma mupd_other : forall m k d k', k' <> k -> mupd m k d k' = m k'.
Proof.
  intros. unfold mupd. destruct (key_eqb k' k) eqn:E; [|reflexivity].
  apply key_eqb_eq in E. congruence.
Qed.

Lemma key_dec : forall a b : key, a = b \/ a <> b.
Proof.
  intros a b. destruct (key_eqb a b) eqn:E.
  - left. apply key_eqb_eq. exact E.
  - right. intros ->. assert (T : key_eqb b b = true) by (apply key_eqb_eq; reflexivity). congruence.
Qed.

Lemma tan_mux_appends_props : forall us m f m' f',
  (forall k, cache_inv (m k)) -> forallb state_wf us = true ->
  tan_mux_appends m f us = (m', f') ->
  (forall k, cache_inv (m' k)) /\ (forall k, td_synced (m' k) = td_synced (m k)) /\
  (f' = false -> f = false /\ forall k, same_claims (td_written (m' k)) (td_written (m k))).
Proof.
  induction us as [|u us IH]; intros m f m' f' Hc Hwf H.
  - cbn in H. injection H as <- <-. split; [exact Hc|]. split; [reflexivity|].
    intros E. split; [exact E|]. intros k. apply same_claims_refl.
  - cbn [tan_mux_appends] in H. cbn [forallb] in Hwf. apply andb_true_iff in Hwf. destruct Hwf as [W1 W2].
    destruct (tan_append (m (ukey u)) u) as [d' s] eqn:A.
    destruct (tan_append_props _ _ _ _ (Hc (ukey u)) W1 A) as [P1 [P2 P3]].
    assert (Hc' : forall k, cache_inv (mupd m (ukey u) d' k)).
    { intros k. destruct (key_dec k (ukey u)) as [->|Ne]; [rewrite mupd_same; exact P1|rewrite mupd_other by exact Ne; apply Hc]. }
    destruct (IH _ _ _ _ Hc' W2 H) as [Q1 [Q2 Q3]].
    split; [exact Q1|]. split.
    + intros k. rewrite Q2. destruct (key_dec k (ukey u)) as [->|Ne]; [rewrite mupd_same; exact P2|rewrite mupd_other by exact Ne; reflexivity].
    + intros E. destruct (Q3 E) as [Ef Qk].
      unfold sync_combine, tan_mux_sync_accumulates in Ef. apply orb_false_iff in Ef. destruct Ef as [Ef Es].
      split; [exact Ef|]. intros k. apply (same_claims_trans _ _ _ (Qk k)).
      destruct (key_dec k (ukey u)) as [->|Ne]; [rewrite mupd_same; apply P3; exact Es|rewrite mupd_other by exact Ne; apply same_claims_refl].
Qed.

Lemma tan_fsync_inv : forall d, cache_inv d -> tan_inv (tan_fsync d).
Proof. intros d H. split; [apply same_claims_refl|exact H]. Qed.

Lemma tan_mux_save_props : forall m us m' s,
  minv m -> forallb state_wf us = true -> tan_mux_save m us = (m', s) ->
  minv m' /\ (s = false -> forall k, same_claims (td_written (m' k)) (td_written (m k))).
Proof.
  intros m us m' s I Hwf H. unfold tan_mux_save in H.
  destruct (tan_mux_appends m false us) as [m1 flag] eqn:A.
  destruct (tan_mux_appends_props us m false m1 flag (fun k => tan_inv_cache _ (I k)) Hwf A) as [Q1 [Q2 Q3]].
  unfold tan_mux_sync_after_batch in H. rewrite andb_true_r in H.
  destruct flag; injection H as <- <-.
  - split; [|discriminate]. intros k. apply tan_fsync_inv. apply Q1.
  - destruct (Q3 eq_refl) as [_ Qk]. split; [|intros _; exact Qk].
    intros k. split; [|apply Q1].
    rewrite Q2. apply (same_claims_trans _ (td_written (m k))); [apply (proj1 (I k))|apply same_claims_sym; apply Qk].
Qed.

(* the batch form: if ANY update of one SaveRaftState call changes something a message of its
   replica can make a claim about, the call fsyncs the log before it returns *)
Lemma tan_batch_claim_change_requires_sync_proved : forall m us m' s,
  minv m -> forallb state_wf us = true -> tan_mux_save m us = (m', s) ->
  (exists k, ~ same_claims (td_written (m' k)) (td_written (m k))) -> s = true.
Proof.
  intros m us m' s I Hwf H [k Hk]. destruct s; [reflexivity|exfalso].
  apply Hk. apply (proj2 (tan_mux_save_props m us m' false I Hwf H) eq_refl).
Qed.

Lemma tan_mux_run_inv : forall batches m,
  minv m -> forallb (forallb state_wf) batches = true -> minv (tan_mux_run m batches).
Proof.
  induction batches as [|us r IH]; intros m I H; [exact I|].
  cbn [forallb] in H. apply andb_true_iff in H. destruct H as [H1 H2].
  unfold tan_mux_run. cbn [fold_left]. apply IH; [|exact H2].
  destruct (tan_mux_save m us) as [m' s] eqn:S. cbn [fst].
  apply (proj1 (tan_mux_save_props m us m' s I H1 S)).
Qed.

Lemma tan_seq_save_inv : forall us m,
  minv m -> forallb state_wf us = true -> minv (tan_seq_save m us).
Proof.
  induction us as [|u us IH]; intros m I H; [exact I|].
  cbn [forallb] in H. apply andb_true_iff in H. destruct H as [H1 H2].
  cbn [tan_seq_save]. apply IH; [|exact H2].
  unfold tan_seq_sync_each. intros k.
  destruct (key_dec k (ukey u)) as [->|Ne]; [rewrite mupd_same|rewrite mupd_other by exact Ne; apply I].
  destruct (tan_write (m (ukey u)) u) as [d' s] eqn:W. cbn [fst].
  apply (tan_write_inv _ _ _ _ (I (ukey u)) H1 W).
Qed.

Lemma tan_seq_run_inv : forall batches m,
  minv m -> forallb (forallb state_wf) batches = true -> minv (tan_seq_run m batches).
Proof.
  induction batches as [|us r IH]; intros m I H; [exact I|].
  cbn [forallb] in H. apply andb_true_iff in H. destruct H as [H1 H2].
  unfold tan_seq_run. cbn [fold_left]. apply IH; [|exact H2]. apply tan_seq_save_inv; assumption.
Qed.

Lemma minv_open : forall imgs : key -> image, minv (fun k => tan_open (imgs k)).
Proof. intros imgs k. apply tan_open_inv. Qed.

(* power loss after any sequence of acknowledged SaveRaftState BATCHES, both Tan modes: what
   survives covers, for every replica, exactly what the written state covers *)
Lemma tan_batches_power_loss_keeps_claims_proved : forall (imgs : key -> image) batches k msg,
  forallb (forallb state_wf) batches = true ->
  covers (td_synced (tan_mux_run (fun k => tan_open (imgs k)) batches k)) msg =
  covers (td_written (tan_mux_run (fun k => tan_open (imgs k)) batches k)) msg /\
  covers (td_synced (tan_seq_run (fun k => tan_open (imgs k)) batches k)) msg =
  covers (td_written (tan_seq_run (fun k => tan_open (imgs k)) batches k)) msg.
Proof.
  intros imgs batches k msg H. split; apply covers_same_claims.
  - apply (proj1 (tan_mux_run_inv batches _ (minv_open imgs) H k)).
  - apply (proj1 (tan_seq_run_inv batches _ (minv_open imgs) H k)).
Qed.

(* rebuildLog: at every instant of the GENERATED epilogue a power cut keeps the acknowledged
   records: the replacement is fsynced before it can take the place of the log *)
Lemma rebuild_every_cut_safe_proved : forall n,
  rebuild_safe (rebuild_run (firstn n tan_rebuild_log_steps)) = true.
Proof.
  intros n. do 6 (destruct n as [|n]; [vm_compute; reflexivity|]). vm_compute. reflexivity.
Qed.

(* ------------------------------------------------------------------ *)
(* restart through replayLog keeps the durable term, vote, commit, entries and snapshot *)
Lemma restart_keeps_durable_state_proved : forall img,
  same_claims (restart_image img) img /\ i_commit (restart_image img) = i_commit img.
Proof.
  intros img. unfold restart_image, replay_log_guards. cbn [existsb guard_fires orb].
  rewrite orb_false_r.
  destruct (store_empty img) eqn:E; [|split; [apply same_claims_refl|reflexivity]].
  unfold store_empty in E.
  repeat (apply andb_true_iff in E; destruct E as [E ?]).
  destruct (i_log img) eqn:L; [|discriminate].
  repeat match goal with H : (_ =? _) = true |- _ => apply N.eqb_eq in H end.
  unfold same_claims, image0. cbn. repeat split; congruence.
Qed.

Lemma restart_covers_proved : forall img m, covers (restart_image img) m = covers img m.
Proof. intros. apply covers_same_claims. apply restart_keeps_durable_state_proved. Qed.

(* ------------------------------------------------------------------ *)
(* the file holding a replica's latest state / snapshot record or any of its entries is never
   obsolete, whatever the other replicas of the same db do *)
Lemma tan_needed_file_not_obsolete_proved : forall nodes nf fn,
  In nf nodes ->
  (nf_state nf = fn \/ nf_snapshot nf = fn \/ In fn (nf_entries nf)) ->
  file_obsolete nodes fn = false.
Proof.
  intros nodes nf fn Hin H. unfold file_obsolete. apply negb_false_iff.
  apply existsb_exists. exists nf. split; [exact Hin|].
  unfold file_in_use, tan_file_in_use_fields. cbn [existsb fuse_holds].
  destruct H as [H|[H|H]].
  - subst fn. rewrite N.eqb_refl. rewrite orb_true_r. reflexivity.
  - subst fn. rewrite N.eqb_refl. reflexivity.
  - assert (E : existsb (N.eqb fn) (nf_entries nf) = true).
    { apply existsb_exists. exists fn. split; [exact H|apply N.eqb_refl]. }
    rewrite E. rewrite !orb_true_r. reflexivity.
Qed.

(* doSave schedules log compaction only after the snapshot was recorded for the replica; an
   exported snapshot records nothing and schedules nothing *)
Lemma compaction_after_record_sound : forall effs recorded l1 l2,
  compaction_after_record recorded effs = true ->
  effs = l1 ++ EfCompactionScheduled :: l2 -> recorded = true \/ In EfRecorded l1.
Proof.
  induction effs as [|e effs IH]; intros recorded l1 l2 H E.
  - destruct l1; discriminate.
  - destruct l1 as [|x l1].
    + simpl in E. injection E as -> _. cbn in H. apply andb_true_iff in H. left. tauto.
    + simpl in E. injection E as -> E.
      destruct x; cbn [compaction_after_record] in H.
      * destruct (IH _ _ _ H E); [left; assumption|right; right; assumption].
      * destruct (IH _ _ _ H E); [left; assumption|right; right; assumption].
      * right. left. reflexivity.
      * apply andb_true_iff in H. left. tauto.
Qed.

Lemma do_save_compacts_only_recorded_proved : forall exported l1 l2,
  do_save_run exported do_save_steps = l1 ++ EfCompactionScheduled :: l2 -> In EfRecorded l1.
Proof.
  intros exported l1 l2 E.
  assert (H : compaction_after_record false (do_save_run exported do_save_steps) = true)
    by (destruct exported; vm_compute; reflexivity).
  destruct (compaction_after_record_sound _ _ _ _ H E) as [F|F]; [discriminate|exact F].
Qed.

Lemma do_save_exported_no_compaction_proved :
  ~ In EfCompactionScheduled (do_save_run true do_save_steps) /\
  ~ In EfRecorded (do_save_run true do_save_steps).
Proof. vm_compute. split; intros H; repeat (destruct H as [H|H]; [discriminate|]); exact H. Qed.

(* ------------------------------------------------------------------ *)
(* on-disk state machines *)

(* concurrentSave records a snapshot only at an index the user state machine is synced up to *)
Lemma concurrent_save_synced_covers_snapshot_proved : forall ip isy synced,
  ip <= isy ->
  match concurrent_save rsm_concurrent_save_steps ip isy synced None None with
  | (sy, Some i) => i <= sy
  | (_, None) => True
  end.
Proof.
  intros ip isy synced H. unfold rsm_concurrent_save_steps. cbn [concurrent_save].
  unfold rsm_sync, rsm_sync_guards. cbn [existsb sguard_fires orb]. lia.
Qed.

Definition oinv (st : ostate) : Prop := os_snap st <= os_synced st.

Lemma odsm_step_inv : forall st e st', oinv st -> odsm_step st e = (st', 0) -> oinv st'.
Proof.
  intros st e st' I H. unfold oinv in *. destruct e; cbn [odsm_step] in H.
  - injection H as <-. exact I.
  - injection H as <-. cbn. lia.
  - destruct (os_synced st <? i) eqn:L; [injection H as _ H; discriminate|].
    apply N.ltb_ge in L. injection H as <-. cbn. lia.
  - destruct (r <? os_snap st) eqn:L; [injection H as _ H; discriminate|].
    apply N.ltb_ge in L. injection H as <-. cbn. lia.
  - injection H as _ H. discriminate.
Qed.

(* an accepted run: at every instant (every prefix) the recorded snapshot index is at most
   the synced index, so a power cut at that instant reopens the state machine at or above
   every recorded snapshot: nothing that was reported applied and is covered by a snapshot
   (hence possibly compacted away) is lost *)
Lemma odsm_run_prefix_inv : forall evs st pos stf p,
  oinv st -> odsm_run st pos evs = (stf, p, 0) ->
  forall n, exists stn pn, odsm_run st pos (firstn n evs) = (stn, pn, 0) /\ oinv stn.
Proof.
  induction evs as [|e evs IH]; intros st pos stf p I H n.
  - rewrite firstn_nil. exists st, pos. split; [reflexivity|exact I].
  - destruct n as [|n]; [exists st, pos; split; [reflexivity|exact I]|].
    cbn [odsm_run] in H. cbn [firstn odsm_run].
    destruct (odsm_step st e) as [st' c] eqn:S.
    destruct (c =? 0) eqn:C.
    + apply N.eqb_eq in C. subst c.
      apply (IH st' (pos + 1) stf p (odsm_step_inv _ _ _ I S) H n).
    + injection H as _ _ Hc. apply N.eqb_neq in C. congruence.
Qed.

Lemma odsm_ok_snapshot_covered_proved : forall evs,
  odsm_ok evs = true ->
  forall n, exists stn pn, odsm_run (mkOS 0 0) 0 (firstn n evs) = (stn, pn, 0) /\
                           os_snap stn <= os_synced stn.
Proof.
  intros evs H n. unfold odsm_ok in H.
  destruct (odsm_run (mkOS 0 0) 0 evs) as [[stf p] c] eqn:R.
  apply N.eqb_eq in H. subst c.
  apply (odsm_run_prefix_inv evs (mkOS 0 0) 0 stf p); [unfold oinv; cbn; lia|exact R].
Qed.
