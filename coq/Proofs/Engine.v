(* C04 — lemmas about Model/Engine.v *)
From Coq Require Import List NArith Bool Lia.
From Coq Require Import ZifyN ZifyNat ZifyBool.
From DB Require Import Model.Engine.
Import ListNotations.
Open Scope N_scope.

(* ------------------------------------------------------------------ *)
(* the shape of one step, from the GENERATED stage list: this is the lemma that stops
   holding when a call of engine.processSteps / node.processRaftUpdate is moved *)

Definition fast_part (us : list update) := flat_map (apply_effects true) us.
Definition free_part (us : list update) :=
  flat_map (fun u => map (Send (ukey u)) (filter is_free (u_msgs u))) us.
Definition save_part (us : list update) := map Persist us.
Definition flag_part (us : list update) :=
  flat_map (fun u => if u_snap_index u =? 0 then [] else [RemoveFlag (ukey u) (u_snap_index u)]) us.
Definition slow_part (us : list update) := flat_map (apply_effects false) us.
Definition node_effects (u : update) : list effect :=
  LogAppend (ukey u) (u_save u) ::
  map (Send (ukey u)) (filter (fun m => negb (is_free m)) (u_msgs u)) ++ [CommitBack u].
Definition node_part (us : list update) := flat_map node_effects us.

Lemma flat_map_ext' : forall {A B} (f g : A -> list B) l,
  (forall x, f x = g x) -> flat_map f l = flat_map g l.
Proof. intros; induction l; simpl; congruence. Qed.

Lemma process_step_shape : forall us,
  process_step us =
  StepNodes :: fast_part us ++ free_part us ++ save_part us ++ flag_part us ++ slow_part us ++ node_part us.
Proof.
  intros us. unfold process_step, process_step_with, process_steps_stages.
  cbn [flat_map stage_effects app snapshot_saved_removes_flag].
  rewrite app_nil_r.
  rewrite (flat_map_ext' (fun u : update => uact_effects u UaSendFree ++ [])
             (fun u => map (Send (ukey u)) (filter is_free (u_msgs u)))).
  2:{ intros u. rewrite app_nil_r. reflexivity. }
  rewrite (flat_map_ext' (fun u : update => uact_effects u UaLogAppend ++
             uact_effects u UaSendRest ++ uact_effects u UaCommitBack ++ []) node_effects).
  2:{ intros u. rewrite app_nil_r. reflexivity. }
  reflexivity.
Qed.

(* ------------------------------------------------------------------ *)
(* list helpers *)

Lemma split_not_in_prefix : forall {A} (x : A) X Y l1 l2,
  l1 ++ x :: l2 = X ++ Y -> ~ In x X -> exists l1', l1 = X ++ l1' /\ Y = l1' ++ x :: l2.
Proof.
  intros A x X. induction X as [|a X IH]; intros Y l1 l2 H Hn.
  - exists l1. simpl in *. auto.
  - destruct l1 as [|b l1].
    + simpl in H. inversion H; subst. exfalso. apply Hn. left; reflexivity.
    + simpl in H. inversion H; subst.
      destruct (IH Y l1 l2 H2) as [l1' [E1 E2]].
      * intros Hin. apply Hn. right; exact Hin.
      * exists l1'. subst. auto.
Qed.

Lemma firstn_split_full : forall {A} n (L : list A) l1 x l2,
  firstn n L = l1 ++ x :: l2 -> L = l1 ++ x :: (l2 ++ skipn n L).
Proof.
  intros. rewrite <- (firstn_skipn n L) at 1. rewrite H. rewrite <- app_assoc. reflexivity.
Qed.

(* ------------------------------------------------------------------ *)
(* which effects occur in which part *)

Lemma in_apply_effects : forall b u e, In e (apply_effects b u) ->
  u_fast u = b /\
  ((e = PushSnapshot (ukey u) (u_snap_index u) /\ u_snap_index u <> 0) \/
   (e = PushApply (ukey u) (u_committed u) /\ u_committed u <> [])).
Proof.
  intros b u e H. unfold apply_effects in H.
  destruct (Bool.eqb (u_fast u) b) eqn:E; [|destruct H].
  apply eqb_prop in E. split; [exact E|].
  unfold apply_stage_acts in H. cbn [flat_map aact_effects] in H.
  rewrite app_nil_r in H. apply in_app_or in H. destruct H as [H|H].
  - destruct (u_snap_index u =? 0) eqn:Z; [destruct H|].
    destruct H as [H|[]]. left. split; [auto|]. apply N.eqb_neq in Z. exact Z.
  - destruct (u_committed u) eqn:C; [destruct H|].
    destruct H as [H|[]]. right. split; [auto|discriminate].
Qed.

Lemma in_fast_part : forall us e, In e (fast_part us) ->
  exists u, In u us /\ In e (apply_effects true u).
Proof. intros us e H. apply in_flat_map in H. exact H. Qed.
Lemma in_slow_part : forall us e, In e (slow_part us) ->
  exists u, In u us /\ In e (apply_effects false u).
Proof. intros us e H. apply in_flat_map in H. exact H. Qed.

Lemma in_free_part : forall us e, In e (free_part us) ->
  exists u m, In u us /\ In m (u_msgs u) /\ is_free m = true /\ e = Send (ukey u) m.
Proof.
  intros us e H. apply in_flat_map in H. destruct H as [u [Hu H]].
  apply in_map_iff in H. destruct H as [m [E H]]. apply filter_In in H.
  exists u, m. intuition.
Qed.

Lemma in_flag_part : forall us e, In e (flag_part us) ->
  exists u, In u us /\ e = RemoveFlag (ukey u) (u_snap_index u).
Proof.
  intros us e H. apply in_flat_map in H. destruct H as [u [Hu H]].
  destruct (u_snap_index u =? 0); [destruct H|]. destruct H as [H|[]]. eauto.
Qed.

Lemma in_node_effects : forall u e, In e (node_effects u) ->
  e = LogAppend (ukey u) (u_save u) \/ e = CommitBack u \/
  exists m, In m (u_msgs u) /\ is_free m = false /\ e = Send (ukey u) m.
Proof.
  intros u e H. unfold node_effects in H. destruct H as [H|H]; [left; auto|].
  apply in_app_or in H. destruct H as [H|H].
  - right. right. apply in_map_iff in H. destruct H as [m [E H]]. apply filter_In in H.
    destruct H as [H1 H2]. apply negb_true_iff in H2. eauto.
  - destruct H as [H|[]]. right. left. auto.
Qed.

Lemma in_node_part : forall us e, In e (node_part us) -> exists u, In u us /\ In e (node_effects u).
Proof. intros us e H. apply in_flat_map in H. exact H. Qed.

(* the five parts before the per-node part contain no Send of a non-free-order message *)
Definition before_node (us : list update) :=
  StepNodes :: fast_part us ++ free_part us ++ save_part us ++ flag_part us ++ slow_part us.

Lemma process_step_split : forall us, process_step us = before_node us ++ node_part us.
Proof.
  intros. rewrite process_step_shape. unfold before_node. simpl.
  rewrite <- !app_assoc. reflexivity.
Qed.

Lemma in_before_node : forall us e, In e (before_node us) ->
  e = StepNodes \/ In e (fast_part us) \/ In e (free_part us) \/ In e (save_part us) \/
  In e (flag_part us) \/ In e (slow_part us).
Proof.
  intros us e H. unfold before_node in H. destruct H as [H|H]; [left; auto|].
  repeat (apply in_app_or in H; destruct H as [H|H]; [tauto|]). tauto.
Qed.

Lemma nonfree_send_not_before_node : forall us k m,
  is_free m = false -> ~ In (Send k m) (before_node us).
Proof.
  intros us k m Hf H. apply in_before_node in H.
  destruct H as [H|[H|[H|[H|[H|H]]]]].
  - discriminate.
  - apply in_fast_part in H. destruct H as [u [_ H]]. apply in_apply_effects in H.
    destruct H as [_ [[H _]|[H _]]]; discriminate.
  - apply in_free_part in H. destruct H as [u [m' [_ [_ [F E]]]]]. inversion E; subst. congruence.
  - apply in_map_iff in H. destruct H as [u [E _]]. discriminate.
  - apply in_flag_part in H. destruct H as [u [_ E]]. discriminate.
  - apply in_slow_part in H. destruct H as [u [_ H]]. apply in_apply_effects in H.
    destruct H as [_ [[H _]|[H _]]]; discriminate.
Qed.

Lemma persist_in_before_node : forall us u, In u us -> In (Persist u) (before_node us).
Proof.
  intros. unfold before_node. right. apply in_or_app. right. apply in_or_app. right.
  apply in_or_app. left. apply in_map. assumption.
Qed.

(* ------------------------------------------------------------------ *)
(* persist_before_send *)

Lemma persist_before_send_proved : forall us n l1 k m l2,
  firstn n (process_step us) = l1 ++ Send k m :: l2 ->
  is_free_order_message (m_type m) = false ->
  exists u, In u us /\ ukey u = k /\ In m (u_msgs u) /\ In (Persist u) l1.
Proof.
  intros us n l1 k m l2 H Hf.
  apply firstn_split_full in H. remember (skipn n (process_step us)) as tl eqn:Etl. clear Etl.
  rewrite process_step_split in H. symmetry in H.
  destruct (split_not_in_prefix _ _ _ _ _ H (nonfree_send_not_before_node us k m Hf)) as [l1' [E1 E2]].
  assert (Hin : In (Send k m) (node_part us)) by (rewrite E2; apply in_or_app; right; left; reflexivity).
  apply in_node_part in Hin. destruct Hin as [u [Hu Hin]].
  apply in_node_effects in Hin. destruct Hin as [Hin|[Hin|[m' [Hm [_ E]]]]]; try discriminate.
  inversion E; subst m' k.
  exists u. repeat split; auto.
  rewrite E1. apply in_or_app. left. apply persist_in_before_node. exact Hu.
Qed.

(* free-order messages are the only ones that can leave before the save *)
Lemma send_before_persist_is_free_proved : forall us l1 k m l2 u,
  process_step us = l1 ++ Send k m :: l2 -> In u us -> ukey u = k -> In m (u_msgs u) ->
  ~ In (Persist u) l1 -> is_free_order_message (m_type m) = true.
Proof.
  intros us l1 k m l2 u H Hu Hk Hm Hn.
  destruct (is_free_order_message (m_type m)) eqn:F; [reflexivity|exfalso].
  assert (H' : firstn (length (process_step us)) (process_step us) = l1 ++ Send k m :: l2)
    by (rewrite firstn_all; exact H).
  rewrite process_step_split in H. symmetry in H.
  destruct (split_not_in_prefix _ _ _ _ _ H (nonfree_send_not_before_node us k m F)) as [l1' [E1 _]].
  apply Hn. rewrite E1. apply in_or_app. left. apply persist_in_before_node. exact Hu.
Qed.
