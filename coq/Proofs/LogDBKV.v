(* Lemmas about the base KV model (Model/KV.v): the key order, point operations,
   range deletion, range scans and atomic write batches on strictly sorted lists. *)
From Coq Require Import List NArith Bool Lia.
From DB Require Import Base.Bytes Gen.GenC09 Model.LogStoreSpec Model.KV.
Import ListNotations.
Open Scope N_scope.

(* ---------- key order ---------- *)

Lemma key_cmp_refl : forall a, key_cmp a a = Eq.
Proof. intros [t s r i]. unfold key_cmp; cbn. now rewrite !N.compare_refl. Qed.

Lemma key_cmp_eq : forall a b, key_cmp a b = Eq -> a = b.
Proof.
  intros [t s r i] [t' s' r' i']. unfold key_cmp, lex; cbn.
  destruct (t ?= t') eqn:E1; try discriminate.
  destruct (s ?= s') eqn:E2; try discriminate.
  destruct (r ?= r') eqn:E3; try discriminate.
  intros E4. apply N.compare_eq_iff in E1, E2, E3, E4. now subst.
Qed.

(* a measure-free characterisation through a lexicographic Prop *)
Definition klt (a b : key) : Prop :=
  k_tag a < k_tag b \/ (k_tag a = k_tag b /\ (k_shard a < k_shard b \/ (k_shard a = k_shard b /\
   (k_replica a < k_replica b \/ (k_replica a = k_replica b /\ k_index a < k_index b))))).

Lemma key_cmp_lt : forall a b, key_cmp a b = Lt <-> klt a b.
Proof.
  intros [t s r i] [t' s' r' i']. unfold key_cmp, lex, klt; cbn.
  destruct (N.compare_spec t t'); [|split; [auto|intros _; reflexivity]|split; [discriminate|lia]].
  destruct (N.compare_spec s s'); [|split; [auto|intros _; reflexivity]|split; [discriminate|lia]].
  destruct (N.compare_spec r r'); [|split; [auto 10|intros _; reflexivity]|split; [discriminate|lia]].
  destruct (N.compare_spec i i'); split; try discriminate; try lia; auto 10.
Qed.

Lemma key_cmp_gt : forall a b, key_cmp a b = Gt <-> klt b a.
Proof.
  intros [t s r i] [t' s' r' i']. unfold key_cmp, lex, klt; cbn.
  destruct (N.compare_spec t t'); [|split; [discriminate|lia]|split; [auto|intros _; reflexivity]].
  destruct (N.compare_spec s s'); [|split; [discriminate|lia]|split; [auto 10|intros _; reflexivity]].
  destruct (N.compare_spec r r'); [|split; [discriminate|lia]|split; [auto 10|intros _; reflexivity]].
  destruct (N.compare_spec i i'); split; try discriminate; try lia; auto 10.
Qed.

Lemma klt_trans : forall a b c, klt a b -> klt b c -> klt a c.
Proof. unfold klt. intros a b c H1 H2. lia. Qed.
Lemma klt_irrefl : forall a, ~ klt a a.
Proof. unfold klt. intros a H. lia. Qed.
Lemma klt_total : forall a b, klt a b \/ a = b \/ klt b a.
Proof.
  intros a b. destruct (key_cmp a b) eqn:E.
  - right; left. now apply key_cmp_eq.
  - left. now apply key_cmp_lt.
  - right; right. now apply key_cmp_gt.
Qed.

Definition kle (a b : key) : Prop := klt a b \/ a = b.

Lemma kle_trans : forall a b c, kle a b -> kle b c -> kle a c.
Proof.
  intros a b c [H1|H1] [H2|H2]; subst; try (left; auto; fail); [left; eapply klt_trans; eauto | right; auto].
Qed.

Lemma key_ltb_spec : forall a b, key_ltb a b = true <-> klt a b.
Proof.
  intros a b. unfold key_ltb. rewrite <- key_cmp_lt. destruct (key_cmp a b); split; congruence.
Qed.
Lemma key_leb_spec : forall a b, key_leb a b = true <-> kle a b.
Proof.
  intros a b. unfold key_leb, kle. destruct (key_cmp a b) eqn:E.
  - apply key_cmp_eq in E. split; auto.
  - apply key_cmp_lt in E. split; auto.
  - apply key_cmp_gt in E. split; [discriminate|].
    intros [H|H]; [exfalso; eapply klt_irrefl, klt_trans; eauto | subst; exfalso; eapply klt_irrefl; eauto].
Qed.

(* ---------- sorted lists ---------- *)

Fixpoint lb (k : key) (m : kv) : Prop :=   (* k is below every key of m *)
  match m with [] => True | (k', _) :: t => klt k k' /\ lb k t end.
Fixpoint sorted (m : kv) : Prop :=
  match m with [] => True | (k, _) :: t => lb k t /\ sorted t end.

Lemma lb_trans : forall m a b, klt a b -> lb b m -> lb a m.
Proof.
  induction m as [|[k v] t IH]; cbn; intros a b H1 H2; auto.
  destruct H2 as [H2 H3]. split; [eapply klt_trans; eauto | eapply IH; eauto].
Qed.

Lemma get_lb_none : forall m k, lb k m -> kv_get m k = None.
Proof.
  destruct m as [|[k' v] t]; cbn; intros k H; auto.
  destruct H as [H _]. apply key_cmp_lt in H. now rewrite H.
Qed.

Lemma lb_in : forall m k k' v, lb k m -> In (k', v) m -> klt k k'.
Proof.
  induction m as [|[k0 v0] t IH]; cbn; intros k k' v H HI; [contradiction|].
  destruct H as [H1 H2]. destruct HI as [HI|HI]; [inversion HI; subst; auto | eapply IH; eauto].
Qed.

Lemma get_in : forall m k v, sorted m -> (kv_get m k = Some v <-> In (k, v) m).
Proof.
  induction m as [|[k0 v0] t IH]; cbn; intros k v HS.
  - split; [discriminate|contradiction].
  - destruct HS as [HL HS]. destruct (key_cmp k k0) eqn:E.
    + apply key_cmp_eq in E. subst k0. split.
      * intros H; inversion H; auto.
      * intros [H|H]; [inversion H; auto|]. exfalso. eapply klt_irrefl, lb_in; eauto.
    + apply key_cmp_lt in E. split; [discriminate|].
      intros [H|H]; [inversion H; subst; exfalso; eapply klt_irrefl; eauto|].
      exfalso. eapply klt_irrefl, klt_trans; [exact E | eapply lb_in; eauto].
    + apply key_cmp_gt in E. rewrite IH by auto. split; auto.
      intros [H|H]; auto. inversion H; subst. exfalso; eapply klt_irrefl; eauto.
Qed.

(* ---------- put / del ---------- *)

Lemma lb_put : forall m a k v, lb a m -> klt a k -> lb a (kv_put m k v).
Proof.
  induction m as [|[k0 v0] t IH]; cbn; intros a k v H1 H2; auto.
  destruct H1 as [H1 H3]. destruct (key_cmp k k0) eqn:E; cbn; auto.
Qed.

Lemma sorted_put : forall m k v, sorted m -> sorted (kv_put m k v).
Proof.
  induction m as [|[k0 v0] t IH]; cbn; intros k v HS; auto.
  destruct HS as [HL HS]. destruct (key_cmp k k0) eqn:E; cbn.
  - apply key_cmp_eq in E. subst. auto.
  - apply key_cmp_lt in E. repeat split; auto. eapply lb_trans; eauto.
  - apply key_cmp_gt in E. split; auto. apply lb_put; auto.
Qed.

Lemma get_put : forall m k v k', sorted m ->
  kv_get (kv_put m k v) k' = if key_eqb k' k then Some v else kv_get m k'.
Proof.
  induction m as [|[k0 v0] t IH]; cbn; intros k v k' HS.
  - unfold key_eqb. destruct (key_cmp k' k); auto.
  - destruct HS as [HL HS]. unfold key_eqb. destruct (key_cmp k k0) eqn:E; cbn.
    + apply key_cmp_eq in E. subst k0. destruct (key_cmp k' k); auto.
    + apply key_cmp_lt in E. destruct (key_cmp k' k) eqn:E2; auto.
      apply key_cmp_lt in E2. assert (klt k' k0) by (eapply klt_trans; eauto).
      apply key_cmp_lt in H. now rewrite H.
    + apply key_cmp_gt in E. destruct (key_cmp k' k0) eqn:E3.
      * apply key_cmp_eq in E3. subst k0. apply key_cmp_lt in E. now rewrite E.
      * apply key_cmp_lt in E3. assert (klt k' k) by (eapply klt_trans; eauto).
        apply key_cmp_lt in H. now rewrite H.
      * rewrite IH by auto. reflexivity.
Qed.

Lemma lb_del : forall m a k, lb a m -> lb a (kv_del m k).
Proof.
  induction m as [|[k0 v0] t IH]; cbn; intros a k H; auto.
  destruct H as [H1 H2]. destruct (key_cmp k k0); cbn; auto.
Qed.

Lemma sorted_del : forall m k, sorted m -> sorted (kv_del m k).
Proof.
  induction m as [|[k0 v0] t IH]; cbn; intros k HS; auto.
  destruct HS as [HL HS]. destruct (key_cmp k k0); cbn; auto. split; auto. now apply lb_del.
Qed.

Lemma get_del : forall m k k', sorted m ->
  kv_get (kv_del m k) k' = if key_eqb k' k then None else kv_get m k'.
Proof.
  induction m as [|[k0 v0] t IH]; cbn; intros k k' HS.
  - now destruct (key_eqb k' k).
  - destruct HS as [HL HS]. unfold key_eqb. destruct (key_cmp k k0) eqn:E; cbn.
    + apply key_cmp_eq in E. subst k0. destruct (key_cmp k' k) eqn:E2; auto.
      * apply key_cmp_eq in E2. subst. now apply get_lb_none.
      * apply key_cmp_lt in E2. apply get_lb_none. eapply lb_trans; eauto.
    + apply key_cmp_lt in E. destruct (key_cmp k' k) eqn:E2; auto.
      apply key_cmp_eq in E2. subst. apply key_cmp_lt in E. now rewrite E.
    + apply key_cmp_gt in E. destruct (key_cmp k' k0) eqn:E3.
      * apply key_cmp_eq in E3. subst k0. apply key_cmp_lt in E. now rewrite E.
      * apply key_cmp_lt in E3. assert (klt k' k) by (eapply klt_trans; eauto).
        apply key_cmp_lt in H. now rewrite H.
      * rewrite IH by auto. reflexivity.
Qed.

(* ---------- filters: range deletion and range scan ---------- *)

Lemma lb_filter : forall (f : key * value -> bool) m a, lb a m -> lb a (filter f m).
Proof.
  induction m as [|[k0 v0] t IH]; cbn; intros a H; auto.
  destruct H as [H1 H2]. destruct (f (k0, v0)); cbn; auto.
Qed.
Lemma sorted_filter : forall (f : key * value -> bool) m, sorted m -> sorted (filter f m).
Proof.
  induction m as [|[k0 v0] t IH]; cbn; intros HS; auto.
  destruct HS as [HL HS]. destruct (f (k0, v0)); cbn; auto. split; auto. now apply lb_filter.
Qed.

Lemma get_filter : forall (p : key -> bool) m k, sorted m ->
  kv_get (filter (fun kv => p (fst kv)) m) k = if p k then kv_get m k else None.
Proof.
  intros p m k HS.
  destruct (kv_get (filter (fun kv => p (fst kv)) m) k) eqn:E.
  - apply get_in in E; [|now apply sorted_filter]. apply filter_In in E. destruct E as [E1 E2].
    cbn in E2. rewrite E2. symmetry. now apply get_in.
  - destruct (p k) eqn:P; auto. destruct (kv_get m k) eqn:E2; auto.
    apply get_in in E2; auto.
    assert (In (k, v) (filter (fun kv => p (fst kv)) m)) by (apply filter_In; split; auto).
    apply get_in in H; [|now apply sorted_filter]. congruence.
Qed.

Lemma sorted_del_range : forall m fk lk, sorted m -> sorted (kv_del_range m fk lk).
Proof. intros. now apply sorted_filter. Qed.
Lemma get_del_range : forall m fk lk k, sorted m ->
  kv_get (kv_del_range m fk lk) k = if in_rangeb fk lk false k then None else kv_get m k.
Proof.
  intros. unfold kv_del_range.
  rewrite (get_filter (fun k => negb (in_rangeb fk lk false k))) by auto.
  now destruct (in_rangeb fk lk false k).
Qed.

(* ---------- write batches ---------- *)

Definition wkey (w : wop) : key := match w with WPut k _ => k | WDel k => k end.
(* the effect of a batch on one key: None = untouched *)
Fixpoint wb_last (b : wb) (k : key) : option (option value) :=
  match b with
  | [] => None
  | w :: t =>
    match wb_last t k with
    | Some r => Some r
    | None => if key_eqb k (wkey w) then Some (match w with WPut _ v => Some v | WDel _ => None end) else None
    end
  end.

Lemma sorted_commit : forall b m, sorted m -> sorted (kv_commit m b).
Proof.
  induction b as [|w t IH]; intros m HS; [exact HS|].
  change (kv_commit m (w :: t)) with (kv_commit (kv_apply m w) t).
  apply IH. destruct w; cbn; [now apply sorted_put | now apply sorted_del].
Qed.

Lemma get_commit : forall b m k, sorted m ->
  kv_get (kv_commit m b) k = match wb_last b k with Some r => r | None => kv_get m k end.
Proof.
  induction b as [|w t IH]; intros m k HS; [reflexivity|].
  change (kv_commit m (w :: t)) with (kv_commit (kv_apply m w) t). cbn [wb_last].
  rewrite IH by (destruct w; cbn; [now apply sorted_put | now apply sorted_del]).
  destruct (wb_last t k); auto.
  destruct w; cbn [kv_apply wkey]; [rewrite get_put by auto | rewrite get_del by auto];
    now destruct (key_eqb k k0).
Qed.

Lemma wb_last_app : forall b1 b2 k,
  wb_last (b1 ++ b2) k = match wb_last b2 k with Some r => Some r | None => wb_last b1 k end.
Proof.
  induction b1 as [|w t IH]; cbn; intros b2 k.
  - now destruct (wb_last b2 k).
  - rewrite IH. destruct (wb_last b2 k); auto.
Qed.

Lemma wb_last_none : forall b k, (forall w, In w b -> wkey w <> k) -> wb_last b k = None.
Proof.
  induction b as [|w t IH]; cbn; intros k H; auto.
  rewrite IH by auto. unfold key_eqb. destruct (key_cmp k (wkey w)) eqn:E; auto.
  apply key_cmp_eq in E. exfalso. eapply H; eauto.
Qed.

Lemma key_eqb_eq : forall a b, key_eqb a b = true <-> a = b.
Proof.
  intros a b. unfold key_eqb. destruct (key_cmp a b) eqn:E; split; try discriminate; auto.
  - intros _. now apply key_cmp_eq.
  - intros ->. rewrite key_cmp_refl in E. discriminate.
  - intros ->. rewrite key_cmp_refl in E. discriminate.
Qed.
Lemma key_eqb_refl : forall a, key_eqb a a = true.
Proof. intros. now apply key_eqb_eq. Qed.
Lemma key_eqb_neq : forall a b, a <> b -> key_eqb a b = false.
Proof. intros a b H. destruct (key_eqb a b) eqn:E; auto. apply key_eqb_eq in E. contradiction. Qed.

(* ---------- range scans ---------- *)

Lemma range_lb_nil : forall m fk lk inc a, lb a m -> (inc = false -> kle lk a) -> (inc = true -> klt lk a) ->
  kv_range m fk lk inc = [].
Proof.
  induction m as [|[k0 v0] t IH]; cbn; intros fk lk inc a HL H1 H2; auto.
  destruct HL as [HL1 HL2]. unfold kv_range in *. cbn.
  assert (in_rangeb fk lk inc k0 = false) as ->.
  { unfold in_rangeb. apply andb_false_iff. right. destruct inc.
    - apply not_true_is_false. rewrite key_leb_spec. intros [H|H].
      + eapply klt_irrefl, klt_trans; [exact H|]. eapply klt_trans; [apply H2; auto | exact HL1].
      + subst. eapply klt_irrefl, klt_trans; [apply H2; auto | exact HL1].
    - apply not_true_is_false. rewrite key_ltb_spec. intros H. destruct (H1 eq_refl) as [H3|H3].
      + eapply klt_irrefl, klt_trans; [exact H|]. eapply klt_trans; eauto.
      + subst. eapply klt_irrefl, klt_trans; eauto. }
  eapply IH; eauto.
Qed.

(* splitting a half-open scan at an intermediate key *)
Lemma range_split : forall m a b c, sorted m -> kle a b -> kle b c ->
  kv_range m a c false = kv_range m a b false ++ kv_range m b c false.
Proof.
  induction m as [|[k0 v0] t IH]; intros a b c HS Hab Hbc; auto.
  destruct HS as [HL HS]. unfold kv_range in *. cbn [filter fst].
  specialize (IH a b c HS Hab Hbc).
  destruct (klt_total k0 b) as [Hb|Hb].
  - (* k0 < b: not in [b,c) *)
    assert (in_rangeb b c false k0 = false) as E2.
    { unfold in_rangeb. apply andb_false_iff. left. apply not_true_is_false. rewrite key_leb_spec.
      intros [H|H]; [eapply klt_irrefl, klt_trans; eauto | subst; eapply klt_irrefl; eauto]. }
    rewrite E2.
    assert (in_rangeb a c false k0 = in_rangeb a b false k0) as E1.
    { unfold in_rangeb. f_equal.
      assert (key_ltb k0 b = true) as -> by now apply key_ltb_spec.
      apply key_ltb_spec. destruct Hbc as [H|H]; [eapply klt_trans; eauto | now subst]. }
    rewrite E1. destruct (in_rangeb a b false k0); cbn; now rewrite IH.
  - (* b <= k0: not in [a,b), and nothing of t is in [a,b) *)
    assert (kle b k0) as Hbk by (destruct Hb as [H|H]; [right; auto | left; auto]).
    assert (in_rangeb a b false k0 = false) as E1.
    { unfold in_rangeb. apply andb_false_iff. right. apply not_true_is_false. rewrite key_ltb_spec.
      intros H. destruct Hbk as [H1|H1]; [eapply klt_irrefl, klt_trans; eauto | subst; eapply klt_irrefl; eauto]. }
    rewrite E1.
    assert (filter (fun kv => in_rangeb a b false (fst kv)) t = []) as E3.
    { apply (range_lb_nil t a b false k0); [exact HL | intros _; exact Hbk | discriminate]. }
    rewrite E3 in *. cbn [app] in *.
    assert (in_rangeb a c false k0 = in_rangeb b c false k0) as E4.
    { unfold in_rangeb. f_equal.
      assert (key_leb b k0 = true) as -> by now apply key_leb_spec.
      apply key_leb_spec. eapply kle_trans; eauto. }
    rewrite E4. destruct (in_rangeb b c false k0); cbn; now rewrite IH.
Qed.

Lemma filter_nil : forall {A} (f : A -> bool) l, (forall x, In x l -> f x = false) -> filter f l = [].
Proof. induction l as [|a l IH]; cbn; intros H; auto. rewrite (H a) by auto. apply IH. auto. Qed.

(* a scan that can only contain the key k *)
Lemma range_single : forall m a c k, sorted m ->
  (forall k', kle a k' -> klt k' c -> k' = k) -> kle a k -> klt k c ->
  kv_range m a c false = match kv_get m k with Some v => [(k, v)] | None => [] end.
Proof.
  induction m as [|[k0 v0] t IH]; intros a c k HS Honly Hak Hkc; auto.
  destruct HS as [HL HS].
  assert (Hne : forall k', k' <> k -> in_rangeb a c false k' = false).
  { intros k' Hn. destruct (in_rangeb a c false k') eqn:R; auto. unfold in_rangeb in R.
    apply andb_true_iff in R. destruct R as [R1 R2]. apply key_leb_spec in R1. apply key_ltb_spec in R2.
    exfalso. apply Hn. now apply Honly. }
  assert (Hgt : forall k', klt k k' -> in_rangeb a c false k' = false).
  { intros k' Hlt. apply Hne. intros ->. eapply klt_irrefl; eauto. }
  unfold kv_range in *. cbn [filter fst kv_get].
  destruct (key_cmp k k0) eqn:E.
  - apply key_cmp_eq in E. subst k0.
    assert (in_rangeb a c false k = true) as ->.
    { unfold in_rangeb. apply andb_true_iff. split; [now apply key_leb_spec | now apply key_ltb_spec]. }
    f_equal. apply filter_nil. intros [k' v'] HI. cbn. apply Hgt. eapply lb_in; eauto.
  - apply key_cmp_lt in E. rewrite Hgt by auto.
    apply filter_nil. intros [k' v'] HI. cbn. apply Hgt. eapply klt_trans; [exact E | eapply lb_in; eauto].
  - apply key_cmp_gt in E. rewrite Hne by (intros ->; eapply klt_irrefl; eauto). now apply IH.
Qed.
