(* Lemmas about the bit-serial CRC-32 model of Base/CRC32.v.
   Stable names (imported by other properties):
     crc_step_lin crc_step_0 crc_step_lt crc_step_bit31 crc_step_inj crc_step_nonzero
     crc_byte_lin crc_byte_lt crc_byte_inj crc_update_lt crc_update_inj crc_update_app
     crc_update_as_iter crc32_lt crc32_inj_update
     crc32_single_byte_detected crc32_single_bit_detected crc32_burst_le_32_detected
     crc32_app_inj_prefix *)
From DB Require Import Base.Bytes Base.CRC32.
From Coq Require Import ZifyN ZifyNat ZifyBool.
Open Scope N_scope.

(* ------------------------------------------------------------------ *)
(* the shift register step: GF(2)-linear, injective on 32-bit states   *)

Lemma crc_step_lin a b : crc_step (N.lxor a b) = N.lxor (crc_step a) (crc_step b).
Proof.
  unfold crc_step. rewrite N.lxor_spec.
  apply N.bits_inj; intro n.
  destruct (N.testbit a 0) eqn:Ha, (N.testbit b 0) eqn:Hb; cbn [xorb];
    repeat rewrite ?N.lxor_spec, ?N.shiftr_spec';
    destruct (N.testbit a (n + 1)), (N.testbit b (n + 1)), (N.testbit crc_poly n); reflexivity.
Qed.

Lemma crc_step_0 : crc_step 0 = 0.
Proof. reflexivity. Qed.

Lemma lt_pow2_bits_above x k : x < 2 ^ k -> forall n, k <= n -> N.testbit x n = false.
Proof.
  intros Hx n Hn. destruct (N.eq_dec x 0) as [->|Hne]; [apply N.bits_0|].
  apply N.bits_above_log2. apply N.lt_le_trans with k; [|exact Hn].
  apply N.log2_lt_pow2; lia.
Qed.

Lemma bits_above_lt_pow2 x k : (forall n, k <= n -> N.testbit x n = false) -> x < 2 ^ k.
Proof.
  intros H. destruct (N.eq_dec x 0) as [->|Hne]; [apply N.neq_0_lt_0, N.pow_nonzero; lia|].
  apply N.log2_lt_pow2; [lia|].
  destruct (N.lt_ge_cases (N.log2 x) k) as [Hlt|Hge]; [exact Hlt|].
  pose proof (N.bit_log2 x Hne) as Hb. rewrite (H _ Hge) in Hb. discriminate.
Qed.

Lemma crc_poly_lt : crc_poly < 2 ^ 32.
Proof. vm_compute. reflexivity. Qed.

Lemma lxor_lt_pow2 a b k : a < 2 ^ k -> b < 2 ^ k -> N.lxor a b < 2 ^ k.
Proof.
  intros Ha Hb. apply bits_above_lt_pow2; intros n Hn.
  rewrite N.lxor_spec, (lt_pow2_bits_above a k Ha n Hn), (lt_pow2_bits_above b k Hb n Hn).
  reflexivity.
Qed.

Lemma shiftr1_lt_pow2 s k : s < 2 ^ k -> N.shiftr s 1 < 2 ^ k.
Proof.
  intros Hs. apply bits_above_lt_pow2; intros n Hn. rewrite N.shiftr_spec'.
  apply (lt_pow2_bits_above s k Hs). lia.
Qed.

Lemma crc_step_lt s : s < 2 ^ 32 -> crc_step s < 2 ^ 32.
Proof.
  intros Hs. unfold crc_step. destruct (N.testbit s 0).
  - apply lxor_lt_pow2; [apply shiftr1_lt_pow2; exact Hs|exact crc_poly_lt].
  - apply shiftr1_lt_pow2; exact Hs.
Qed.

Lemma crc_step_bit31 s : s < 2 ^ 32 -> N.testbit (crc_step s) 31 = N.testbit s 0.
Proof.
  intros Hs. unfold crc_step.
  assert (Hz : N.testbit (N.shiftr s 1) 31 = false).
  { rewrite N.shiftr_spec'. apply (lt_pow2_bits_above s 32 Hs). lia. }
  destruct (N.testbit s 0) eqn:H0.
  - rewrite N.lxor_spec, Hz. vm_compute. reflexivity.
  - exact Hz.
Qed.

Lemma lxor_cancel_r a b c : N.lxor a c = N.lxor b c -> a = b.
Proof.
  intros H. rewrite <- (N.lxor_0_r a), <- (N.lxor_0_r b), <- (N.lxor_nilpotent c).
  rewrite <- !N.lxor_assoc, H. reflexivity.
Qed.

Lemma crc_step_inj a b : a < 2 ^ 32 -> b < 2 ^ 32 -> crc_step a = crc_step b -> a = b.
Proof.
  intros Ha Hb H.
  assert (H0 : N.testbit a 0 = N.testbit b 0).
  { rewrite <- (crc_step_bit31 a Ha), <- (crc_step_bit31 b Hb), H. reflexivity. }
  assert (Hs : N.shiftr a 1 = N.shiftr b 1).
  { unfold crc_step in H. rewrite <- H0 in H. destruct (N.testbit a 0).
    - apply lxor_cancel_r in H. exact H.
    - exact H. }
  apply N.bits_inj; intro n. destruct (N.eq_dec n 0) as [->|Hn]; [exact H0|].
  replace n with (N.pred n + 1) by lia. rewrite <- !N.shiftr_spec', Hs. reflexivity.
Qed.

Lemma crc_step_nonzero s : s < 2 ^ 32 -> s <> 0 -> crc_step s <> 0.
Proof.
  intros Hs Hne H. apply Hne. apply crc_step_inj; [exact Hs|vm_compute; reflexivity|].
  rewrite H. reflexivity.
Qed.

(* ------------------------------------------------------------------ *)
(* iterating the step                                                   *)

Lemma iter_S_r {A} n (f : A -> A) x : iter (S n) f x = f (iter n f x).
Proof. revert x; induction n as [|n IH]; intros x; [reflexivity|]. cbn [iter] in *. apply IH. Qed.

Lemma iter_add {A} n m (f : A -> A) x : iter (n + m) f x = iter m f (iter n f x).
Proof. revert x; induction n as [|n IH]; intros x; [reflexivity|]. cbn [iter Nat.add]. apply IH. Qed.

Lemma iter_step_lin n a b :
  iter n crc_step (N.lxor a b) = N.lxor (iter n crc_step a) (iter n crc_step b).
Proof.
  revert a b; induction n as [|n IH]; intros a b; [reflexivity|].
  cbn [iter]. rewrite crc_step_lin. apply IH.
Qed.

Lemma iter_step_0 n : iter n crc_step 0 = 0.
Proof. induction n as [|n IH]; [reflexivity|]. cbn [iter]. rewrite crc_step_0. exact IH. Qed.

Lemma iter_step_lt n s : s < 2 ^ 32 -> iter n crc_step s < 2 ^ 32.
Proof.
  revert s; induction n as [|n IH]; intros s Hs; [exact Hs|].
  cbn [iter]. apply IH, crc_step_lt, Hs.
Qed.

Lemma iter_step_inj n a b :
  a < 2 ^ 32 -> b < 2 ^ 32 -> iter n crc_step a = iter n crc_step b -> a = b.
Proof.
  revert a b; induction n as [|n IH]; intros a b Ha Hb H; [exact H|].
  cbn [iter] in H. apply IH in H; [|apply crc_step_lt; assumption..].
  apply crc_step_inj; assumption.
Qed.

Lemma iter_step_nonzero n s : s < 2 ^ 32 -> s <> 0 -> iter n crc_step s <> 0.
Proof.
  intros Hs Hne H. apply Hne. apply (iter_step_inj n); [exact Hs|vm_compute; reflexivity|].
  rewrite H, iter_step_0. reflexivity.
Qed.

(* ------------------------------------------------------------------ *)
(* one byte                                                             *)

Lemma byte_lt_32 b : b < 256 -> b < 2 ^ 32.
Proof. intros H. apply N.lt_trans with 256; [exact H|vm_compute; reflexivity]. Qed.

Lemma crc_byte_lin s1 s2 b1 b2 :
  crc_byte (N.lxor s1 s2) (N.lxor b1 b2) = N.lxor (crc_byte s1 b1) (crc_byte s2 b2).
Proof.
  unfold crc_byte. rewrite <- iter_step_lin. f_equal.
  rewrite !N.lxor_assoc. f_equal. rewrite <- !N.lxor_assoc. f_equal. apply N.lxor_comm.
Qed.

Lemma crc_byte_lt s b : s < 2 ^ 32 -> b < 256 -> crc_byte s b < 2 ^ 32.
Proof.
  intros Hs Hb. unfold crc_byte. apply iter_step_lt, lxor_lt_pow2; [exact Hs|apply byte_lt_32, Hb].
Qed.

(* injective in the state and in the byte *)
Lemma crc_byte_inj s1 s2 b1 b2 :
  s1 < 2 ^ 32 -> s2 < 2 ^ 32 -> b1 < 256 -> b2 < 256 ->
  crc_byte s1 b1 = crc_byte s2 b2 -> N.lxor s1 b1 = N.lxor s2 b2.
Proof.
  intros H1 H2 Hb1 Hb2 H. unfold crc_byte in H.
  apply iter_step_inj in H; [exact H| |]; apply lxor_lt_pow2; auto using byte_lt_32.
Qed.

Lemma lxor_cancel_l a b c : N.lxor c a = N.lxor c b -> a = b.
Proof. rewrite !(N.lxor_comm c). apply lxor_cancel_r. Qed.

(* ------------------------------------------------------------------ *)
(* byte strings                                                         *)

Lemma crc_update_app s l1 l2 : crc_update s (l1 ++ l2) = crc_update (crc_update s l1) l2.
Proof. unfold crc_update. apply fold_left_app. Qed.

Lemma crc_update_lt l : forall s, s < 2 ^ 32 -> wf_bytes l -> crc_update s l < 2 ^ 32.
Proof.
  induction l as [|b l IH]; intros s Hs Hw; [exact Hs|].
  inversion Hw as [|? ? Hb Hl]; subst. cbn [crc_update fold_left].
  apply IH; [apply crc_byte_lt; assumption|exact Hl].
Qed.

Lemma crc_update_inj l : forall s1 s2, s1 < 2 ^ 32 -> s2 < 2 ^ 32 -> wf_bytes l ->
  crc_update s1 l = crc_update s2 l -> s1 = s2.
Proof.
  induction l as [|b l IH]; intros s1 s2 H1 H2 Hw H; [exact H|].
  inversion Hw as [|? ? Hb Hl]; subst. cbn [crc_update fold_left] in H.
  apply IH in H; [|apply crc_byte_lt; assumption..|exact Hl].
  apply crc_byte_inj in H; try assumption. apply lxor_cancel_r in H. exact H.
Qed.

Lemma crc_mask_lt : crc_mask < 2 ^ 32.
Proof. vm_compute. reflexivity. Qed.

Lemma crc32_lt l : wf_bytes l -> crc32 l < 2 ^ 32.
Proof.
  intros Hw. unfold crc32. apply lxor_lt_pow2; [|exact crc_mask_lt].
  apply crc_update_lt; [exact crc_mask_lt|exact Hw].
Qed.

Lemma crc32_inj_update l1 l2 :
  crc32 l1 = crc32 l2 -> crc_update crc_mask l1 = crc_update crc_mask l2.
Proof. unfold crc32. apply lxor_cancel_r. Qed.

(* Any change confined to ONE byte is detected (in particular any single bit). *)
Lemma crc32_single_byte_detected pre post b1 b2 :
  wf_bytes pre -> wf_bytes post -> b1 < 256 -> b2 < 256 -> b1 <> b2 ->
  crc32 (pre ++ b1 :: post) <> crc32 (pre ++ b2 :: post).
Proof.
  intros Hpre Hpost Hb1 Hb2 Hne H. apply crc32_inj_update in H.
  rewrite !crc_update_app in H. cbn [crc_update fold_left] in H.
  fold (crc_update (crc_byte (crc_update crc_mask pre) b1) post) in H.
  fold (crc_update (crc_byte (crc_update crc_mask pre) b2) post) in H.
  pose proof (crc_update_lt pre crc_mask crc_mask_lt Hpre) as Hs.
  apply crc_update_inj in H; [|apply crc_byte_lt; assumption..|exact Hpost].
  apply crc_byte_inj in H; try assumption.
  apply lxor_cancel_l in H. exact (Hne H).
Qed.

(* two equal-length byte strings that differ in exactly one bit *)
Definition differ_one_bit (l1 l2 : bytes) : Prop :=
  exists pre post b k, l1 = pre ++ b :: post /\ l2 = pre ++ N.lxor b (2 ^ k) :: post /\ k < 8.

Lemma lxor_pow2_neq b k : N.lxor b (2 ^ k) <> b.
Proof.
  intros H. assert (Hb : N.testbit (N.lxor b (2 ^ k)) k = N.testbit b k) by (rewrite H; reflexivity).
  rewrite N.lxor_spec, N.pow2_bits_true in Hb. destruct (N.testbit b k); discriminate.
Qed.

Lemma lxor_pow2_byte b k : b < 256 -> k < 8 -> N.lxor b (2 ^ k) < 256.
Proof.
  intros Hb Hk. change 256 with (2 ^ 8). apply lxor_lt_pow2; [exact Hb|].
  apply N.pow_lt_mono_r; lia.
Qed.

Theorem crc32_single_bit_detected l1 l2 :
  wf_bytes l1 -> differ_one_bit l1 l2 -> crc32 l1 <> crc32 l2.
Proof.
  intros Hw (pre & post & b & k & -> & -> & Hk).
  apply Forall_app in Hw as [Hpre Hw]. inversion Hw as [|? ? Hb Hpost]; subst.
  apply crc32_single_byte_detected; auto using lxor_pow2_byte.
  intros H. symmetry in H. exact (lxor_pow2_neq b k H).
Qed.

(* appending a fixed suffix keeps different checksums different: used for
   "prefix differs => whole differs" arguments *)
Lemma crc32_app_inj_prefix l1 l2 post :
  wf_bytes l1 -> wf_bytes l2 -> wf_bytes post ->
  crc32 (l1 ++ post) = crc32 (l2 ++ post) -> crc32 l1 = crc32 l2.
Proof.
  intros H1 H2 Hp H. apply crc32_inj_update in H. rewrite !crc_update_app in H.
  apply crc_update_inj in H; [|apply crc_update_lt; auto using crc_mask_lt..|exact Hp].
  unfold crc32. rewrite H. reflexivity.
Qed.

(* ------------------------------------------------------------------ *)
(* the whole register update as ONE iteration over the little-endian
   number of the string: crc_update s l = step^(8|l|) (s xor le_dec l)   *)

Lemma testbit_mul_pow2_low x k n : n < k -> N.testbit (x * 2 ^ k) n = false.
Proof. intros H. apply N.mul_pow2_bits_low. exact H. Qed.

Lemma crc_step_shl x : crc_step (2 * x) = x.
Proof.
  unfold crc_step. rewrite N.testbit_even_0.
  rewrite N.shiftr_div_pow2. change (2 ^ 1) with 2. rewrite N.mul_comm. apply N.div_mul. lia.
Qed.

Lemma iter_step_shl k x : iter k crc_step (2 ^ N.of_nat k * x) = x.
Proof.
  revert x; induction k as [|k IH]; intros x.
  - cbn [iter]. change (2 ^ N.of_nat 0) with 1. lia.
  - cbn [iter]. rewrite Nat2N.inj_succ, N.pow_succ_r', <- N.mul_assoc, crc_step_shl. apply IH.
Qed.

Lemma byte_add_is_lxor b r : b < 256 -> b + 256 * r = N.lxor b (256 * r).
Proof.
  intros Hb. apply N.add_nocarry_lxor. apply N.bits_inj; intro n.
  rewrite N.land_spec, N.bits_0. change 256 with (2 ^ 8) in *.
  destruct (N.lt_ge_cases n 8) as [Hn|Hn].
  - rewrite (N.mul_comm (2 ^ 8) r), N.mul_pow2_bits_low by exact Hn. apply andb_false_r.
  - rewrite (lt_pow2_bits_above b 8 Hb n Hn). reflexivity.
Qed.

Lemma le_dec_lt l : wf_bytes l -> le_dec l < 2 ^ N.of_nat (8 * length l).
Proof.
  induction l as [|b l IH]; intros Hw.
  - cbn. lia.
  - inversion Hw as [|? ? Hb Hl]; subst. specialize (IH Hl).
    cbn [le_dec length]. replace (8 * S (length l))%nat with (8 + 8 * length l)%nat by lia.
    rewrite Nat2N.inj_add, N.pow_add_r. change (2 ^ N.of_nat 8) with 256. nia.
Qed.

Theorem crc_update_as_iter l : forall s, wf_bytes l ->
  crc_update s l = iter (8 * length l) crc_step (N.lxor s (le_dec l)).
Proof.
  induction l as [|b l IH]; intros s Hw.
  - cbn. rewrite N.lxor_0_r. reflexivity.
  - inversion Hw as [|? ? Hb Hl]; subst.
    cbn [crc_update fold_left]. fold (crc_update (crc_byte s b) l).
    rewrite (IH _ Hl). cbn [le_dec length].
    replace (8 * S (length l))%nat with (8 + 8 * length l)%nat by lia.
    rewrite iter_add. f_equal.
    rewrite (byte_add_is_lxor b (le_dec l) Hb), <- N.lxor_assoc, iter_step_lin.
    change 256 with (2 ^ N.of_nat 8). rewrite iter_step_shl. reflexivity.
Qed.

Lemma lxor_lxor_same m a b : N.lxor (N.lxor m a) (N.lxor m b) = N.lxor a b.
Proof.
  apply N.bits_inj; intro n. rewrite !N.lxor_spec.
  destruct (N.testbit m n), (N.testbit a n), (N.testbit b n); reflexivity.
Qed.

(* Any difference that fits in a window of 32 consecutive bits (in processing
   order: byte i bit j is bit 8i+j of the little-endian number) is detected. *)
Theorem crc32_burst_le_32_detected l1 l2 p v :
  wf_bytes l1 -> wf_bytes l2 -> length l1 = length l2 ->
  N.lxor (le_dec l1) (le_dec l2) = 2 ^ N.of_nat p * v -> 0 < v < 2 ^ 32 ->
  crc32 l1 <> crc32 l2.
Proof.
  intros H1 H2 Hlen Hd [Hv0 Hv] H. apply crc32_inj_update in H.
  rewrite (crc_update_as_iter l1 _ H1), (crc_update_as_iter l2 _ H2), <- Hlen in H.
  assert (Hz : iter (8 * length l1) crc_step (2 ^ N.of_nat p * v) = 0).
  { rewrite <- Hd, <- (lxor_lxor_same crc_mask), iter_step_lin, H. apply N.lxor_nilpotent. }
  assert (Hp : (p < 8 * length l1)%nat).
  { pose proof (le_dec_lt l1 H1) as B1. pose proof (le_dec_lt l2 H2) as B2. rewrite <- Hlen in B2.
    pose proof (lxor_lt_pow2 _ _ _ B1 B2) as B. rewrite Hd in B.
    assert (2 ^ N.of_nat p < 2 ^ N.of_nat (8 * length l1)) as Hpow by nia.
    apply N.pow_lt_mono_r_iff in Hpow; lia. }
  replace (8 * length l1)%nat with (p + (8 * length l1 - p))%nat in Hz by lia.
  rewrite iter_add, iter_step_shl in Hz.
  apply (iter_step_nonzero _ v Hv) in Hz; [exact Hz|lia].
Qed.
