(* C06, local half: the ReadIndex bookkeeping of a leader (readindex.go and
   handleLeaderReadIndex / handleReadIndexLeaderConfirmation in raft.go). *)
From DB Require Import Model.RaftCore Proofs.RaftStep.
From Coq Require Import Arith ZifyN ZifyNat ZifyBool Lia.
Open Scope N_scope.

Lemma split_at_ctx_spec ctx : forall q acc before rs after,
  split_at_ctx ctx q acc = Some (before, rs, after) ->
  rev acc ++ q = before ++ rs :: after /\ ctx_eqb (rs_ctx rs) ctx = true /\
  (forall x, In x before -> In x acc \/ ctx_eqb (rs_ctx x) ctx = false).
Proof.
  induction q as [|x q IH]; intros acc before rs after H; cbn [split_at_ctx] in H; [discriminate|].
  destruct (ctx_eqb (rs_ctx x) ctx) eqn:E.
  - inversion H. subst. split; [reflexivity|]. split; [exact E|].
    intros y Hy. left. apply in_rev. exact Hy.
  - apply IH in H. destruct H as (H1 & H2 & H3). split; [|split; [exact H2|]].
    + cbn [rev] in H1. rewrite <- app_assoc in H1. exact H1.
    + intros y Hy. destruct (H3 y Hy) as [[Ey|Hin]|Hf]; [subst; right; exact E|left; exact Hin|right; exact Hf].
Qed.

(* confirm: what it takes to release, and what is released *)
Theorem confirm_release_sound_proved r ctx from q r' ris :
  ri_confirm r ctx from q = (r', ris) -> ris <> [] ->
  exists before rs after,
    r_reads r = before ++ rs :: after /\ ctx_eqb (rs_ctx rs) ctx = true /\
    (* distinct confirmations (a repeated responder is not counted twice), plus the leader itself *)
    q <= nlen (if mem_n from (rs_confirmed rs) then rs_confirmed rs else from :: rs_confirmed rs) + 1 /\
    (* everything queued up to and including the confirmed request is released, all with the
       confirmed request's index, which is at least each request's own recorded index *)
    map rs_ctx ris = map rs_ctx (before ++ [rs]) /\
    Forall (fun v => rs_index v = rs_index rs) ris /\
    (r_panic r' = r_panic r -> Forall (fun v => rs_index v <= rs_index rs) before) /\
    r_reads r' = after.
Proof.
  unfold ri_confirm. intros H Hne.
  destruct (split_at_ctx ctx (r_reads r) []) as [[[before rs] after]|] eqn:Es; [|inversion H; subst; contradiction].
  apply split_at_ctx_spec in Es. destruct Es as (E1 & E2 & _). cbn [rev app] in E1.
  cbv zeta in H.
  set (conf := if mem_n from (rs_confirmed rs) then rs_confirmed rs else from :: rs_confirmed rs) in *.
  destruct (N.ltb_spec (nlen conf + 1) q) as [Hlt|Hge]; [inversion H; subst; contradiction|].
  destruct (existsb (fun v => rs_index rs <? rs_index v) before) eqn:Ex; [inversion H; subst; contradiction|].
  inversion H. subst r' ris. clear H.
  exists before, rs, after. split; [exact E1|]. split; [exact E2|]. split; [exact Hge|].
  split; [|split; [|split]].
  - rewrite map_map, !map_app. cbn [map]. f_equal.
  - apply Forall_forall. intros v Hv. apply in_map_iff in Hv. destruct Hv as (w & Ew & _). subst v. reflexivity.
  - intros _. apply Forall_forall. intros v Hv.
    destruct (N.leb_spec (rs_index v) (rs_index rs)) as [Hle|Hgt]; [exact Hle|].
    assert (existsb (fun v => rs_index rs <? rs_index v) before = true).
    { apply existsb_exists. exists v. split; [exact Hv|]. apply N.ltb_lt. exact Hgt. }
    congruence.
  - reflexivity.
Qed.

(* a request is recorded only by a leader that has committed an entry of its own term, and the
   recorded index is its commit index at that moment *)
Theorem read_recorded_only_after_own_term_commit_proved r m :
  is_single_node_quorum r = false ->
  has_committed_entry_at_current_term r = false ->
  r_reads (handle_leader_read_index r m) = r_reads r /\
  r_ready (handle_leader_read_index r m) = r_ready r /\
  (forall x, In x (r_msgs (handle_leader_read_index r m)) -> In x (r_msgs r)).
Proof.
  intros Hs Hc. unfold handle_leader_read_index.
  destruct (negb (is_leader r)); [repeat split; auto|]. cbv zeta.
  destruct (amem _ _); [repeat split; auto|].
  rewrite Hs. cbn [negb]. destruct (_ =? 0); [repeat split; auto|].
  rewrite Hc. cbn [negb]. repeat split; auto.
Qed.

Theorem read_recorded_with_commit_index_proved r m :
  is_leader r = true -> is_single_node_quorum r = false -> amem (m_from m) (r_witnesses r) = false ->
  r_term r <> 0 -> has_committed_entry_at_current_term r = true ->
  existsb (fun rs => ctx_eqb (rs_ctx rs) (m_hint m, m_hinthigh m)) (r_reads r) = false ->
  (match r_reads r with [] => True | _ => rs_index (last (r_reads r) (mkRS (0,0) 0 0 [])) <= l_committed (r_log r) end) ->
  exists r1, r1 = ri_add_request r (l_committed (r_log r)) (m_hint m, m_hinthigh m) (m_from m) /\
             r_reads r1 = r_reads r ++ [mkRS (m_hint m, m_hinthigh m) (l_committed (r_log r)) (m_from m) []] /\
             handle_leader_read_index r m = broadcast_heartbeat_hint r1 (m_hint m, m_hinthigh m).
Proof.
  intros Hl Hs Hw Ht Hc Hnew Hmono. unfold handle_leader_read_index.
  rewrite Hl. cbn [negb]. cbv zeta. rewrite Hw, Hs. cbn [negb].
  destruct (N.eqb_spec (r_term r) 0); [contradiction|]. rewrite Hc. cbn [negb].
  eexists. split; [reflexivity|]. split; [|reflexivity].
  unfold ri_add_request. rewrite Hnew. destruct (r_reads r) as [|a l] eqn:E; [reflexivity|].
  destruct (N.ltb_spec (l_committed (r_log r)) (rs_index (last (a :: l) (mkRS (0, 0) 0 0 [])))) as [Hlt|Hge]; [lia|].
  reflexivity.
Qed.

(* every role or term change discards the pending reads *)
Theorem reset_discards_pending_reads_proved r t b : r_reads (reset r t b) = [].
Proof. unfold reset, reset_peers. destruct (negb _); destruct b; reflexivity. Qed.

(* a single-voter leader answers with its commit index directly *)
Theorem single_node_read_index_proved r m :
  is_leader r = true -> is_single_node_quorum r = true -> amem (m_from m) (r_witnesses r) = false ->
  exists rest, r_ready (handle_leader_read_index r m) = r_ready r ++ [(l_committed (r_log r), (m_hint m, m_hinthigh m))] /\
               r_reads (handle_leader_read_index r m) = r_reads r /\ rest = tt.
Proof.
  intros Hl Hs Hw. unfold handle_leader_read_index. rewrite Hl. cbn [negb]. cbv zeta. rewrite Hw, Hs. cbn [negb].
  exists tt. destruct (_ && _).
  - assert (Hk : forall (x : raft) mm, r_ready (send x mm) = r_ready x /\ r_reads (send x mm) = r_reads x).
    { intros x mm. unfold send. destruct (finalize_term _ _); split; reflexivity. }
    destruct (Hk (r <| r_ready := r_ready r ++ [(l_committed (r_log r), (m_hint m, m_hinthigh m))] |>)
                 (msg0 mt_ReadIndexResp <| m_to := m_from m |> <| m_logindex := l_committed (r_log r) |>
                    <| m_hint := m_hint m |> <| m_hinthigh := m_hinthigh m |> <| m_commit := m_commit m |>)) as [H1 H2].
    rewrite H1, H2. repeat split; reflexivity.
  - repeat split; reflexivity.
Qed.
