(* C19 — lemmas about Model/LogView.v and Model/LogSpec.v *)
From Coq Require Import List NArith ZArith Bool Lia.
From Coq Require Import ZifyN ZifyNat ZifyBool.
From DB Require Import Base.Bytes Gen.GenC19 Model.LogSpec Model.LogView.
Import ListNotations.
Open Scope N_scope.
Ltac Zify.zify_post_hook ::= Z.div_mod_to_equations.

(* ------------------------------------------------------------------ *)
(* step-local facts about savedTo (no invariant needed)                *)

Lemma check_marker_ok im im' : (if im_check_marker im then Ok im else Panic PMarker) = Ok im' -> im' = im.
Proof. destruct (im_check_marker im); congruence. Qed.

(* merge(): whenever the new entries start at or below the last in-memory index
   (replace / truncate-and-append), savedTo ends up strictly below the first new index *)
Lemma merge_truncation_lowers_saved_proved :
  forall im e0 rest im',
    im_merge im (e0 :: rest) = Ok im' ->
    e_index e0 <> 0 ->
    e_index e0 < im_marker im + nlen (im_ents im) ->
    im_saved im' < e_index e0.
Proof.
  intros im e0 rest im' H Hnz Hlt. unfold im_merge in H.
  destruct (e_index e0 =? im_marker im + nlen (im_ents im)) eqn:E1; [lia|].
  destruct (e_index e0 <=? im_marker im) eqn:E2.
  - cbn [bind] in H. apply check_marker_ok in H. subst im'. cbn. lia.
  - destruct (im_get_entries im (im_marker im) (e_index e0)) as [ex|?|?] eqn:E3; cbn [bind] in H; try discriminate.
    destruct (check_entries_to_append ex (e0 :: rest)); cbn [bind] in H; try discriminate.
    apply check_marker_ok in H. subst im'. cbn. lia.
Qed.

(* merge() never raises savedTo *)
Lemma merge_saved_le_proved :
  forall im ents im', im_merge im ents = Ok im' -> im_saved im' <= im_saved im \/ im_saved im' < e_index (hd dummy_entry ents).
Proof.
  intros im ents im' H. destruct ents as [|e0 rest]; [discriminate|]. unfold im_merge in H. cbn [hd].
  destruct (e_index e0 =? im_marker im + nlen (im_ents im)) eqn:E1.
  - destruct (check_entries_to_append (im_ents im) (e0 :: rest)); cbn [bind] in H; try discriminate.
    apply check_marker_ok in H. subst im'. cbn. lia.
  - destruct (e_index e0 <=? im_marker im) eqn:E2.
    + cbn [bind] in H. apply check_marker_ok in H. subst im'. cbn.
      destruct (N.eq_dec (e_index e0) 0); [left|right]; lia.
    + destruct (im_get_entries im (im_marker im) (e_index e0)) as [ex|?|?] eqn:E3; cbn [bind] in H; try discriminate.
      destruct (check_entries_to_append ex (e0 :: rest)); cbn [bind] in H; try discriminate.
      apply check_marker_ok in H. subst im'. cbn. lia.
Qed.

(* savedLogTo only advances if index and term still match an in-memory entry *)
Lemma saved_log_to_only_on_match_proved :
  forall im i t im',
    im_saved_log_to im i t = Ok im' ->
    im' = im \/
    (exists e, nth_error (im_ents im) (N.to_nat (i - im_marker im)) = Some e /\ e_term e = t
               /\ im_marker im <= i /\ im' = im_with_saved im i).
Proof.
  intros im i t im' H. unfold im_saved_log_to in H.
  destruct (i <? im_marker im) eqn:E1; [left; congruence|].
  destruct (is_nil (im_ents im)); [left; congruence|].
  destruct (e_index (last_entry (im_ents im)) <? i); [left; congruence|].
  destruct (nth_error (im_ents im) (N.to_nat (i - im_marker im))) as [e|] eqn:E2; [|discriminate].
  destruct (e_term e =? t) eqn:E3; [|left; congruence].
  right. exists e. repeat split; auto; try lia. congruence.
Qed.
