(* C19 — lemmas about Model/LogView.v and Model/LogSpec.v *)
From Coq Require Import List NArith ZArith Bool Lia.
From Coq Require Import ZifyN ZifyNat ZifyBool.
From DB Require Import Base.Bytes Gen.GenC19 Model.LogSpec Model.LogView.
Import ListNotations.
Open Scope N_scope.
Ltac Zify.zify_post_hook ::= Z.div_mod_to_equations.

(* ------------------------------------------------------------------ *)
(* step-local facts about savedTo (no invariant needed)                *)

Lemma check_marker_ok im im' : (if im_check_marker im then Ok im else Panic PMarker) = Ok im' -> im' = im.
Proof. destruct (im_check_marker im); congruence. Qed.

(* merge(): whenever the new entries start at or below the last in-memory index
   (replace / truncate-and-append), savedTo ends up strictly below the first new index *)
Lemma merge_truncation_lowers_saved_proved :
  forall im e0 rest im',
    im_merge im (e0 :: rest) = Ok im' ->
    e_index e0 <> 0 ->
    e_index e0 < im_marker im + nlen (im_ents im) ->
    im_saved im' < e_index e0.
Proof.
  intros im e0 rest im' H Hnz Hlt. unfold im_merge in H.
  destruct (e_index e0 =? im_marker im + nlen (im_ents im)) eqn:E1; [lia|].
  destruct (e_index e0 <=? im_marker im) eqn:E2.
  - cbn [bind] in H. apply check_marker_ok in H. subst im'. cbn. lia.
  - destruct (im_get_entries im (im_marker im) (e_index e0)) as [ex|?|?] eqn:E3; cbn [bind] in H; try discriminate.
    destruct (check_entries_to_append ex (e0 :: rest)); cbn [bind] in H; try discriminate.
    apply check_marker_ok in H. subst im'. cbn. lia.
Qed.

(* merge() never raises savedTo *)
Lemma merge_saved_le_proved :
  forall im ents im', im_merge im ents = Ok im' -> im_saved im' <= im_saved im \/ im_saved im' < e_index (hd dummy_entry ents).
Proof.
  intros im ents im' H. destruct ents as [|e0 rest]; [discriminate|]. unfold im_merge in H. cbn [hd].
  destruct (e_index e0 =? im_marker im + nlen (im_ents im)) eqn:E1.
  - destruct (check_entries_to_append (im_ents im) (e0 :: rest)); cbn [bind] in H; try discriminate.
    apply check_marker_ok in H. subst im'. cbn. lia.
  - destruct (e_index e0 <=? im_marker im) eqn:E2.
    + cbn [bind] in H. apply check_marker_ok in H. subst im'. cbn.
      destruct (N.eq_dec (e_index e0) 0); [left|right]; lia.
    + destruct (im_get_entries im (im_marker im) (e_index e0)) as [ex|?|?] eqn:E3; cbn [bind] in H; try discriminate.
      destruct (check_entries_to_append ex (e0 :: rest)); cbn [bind] in H; try discriminate.
      apply check_marker_ok in H. subst im'. cbn. lia.
Qed.

(* savedLogTo only advances if index and term still match an in-memory entry *)
Lemma saved_log_to_only_on_match_proved :
  forall im i t im',
    im_saved_log_to im i t = Ok im' ->
    im' = im \/
    (exists e, nth_error (im_ents im) (N.to_nat (i - im_marker im)) = Some e /\ e_term e = t
               /\ im_marker im <= i /\ im' = im_with_saved im i).
Proof.
  intros im i t im' H. unfold im_saved_log_to in H.
  destruct (i <? im_marker im) eqn:E1; [left; congruence|].
  destruct (is_nil (im_ents im)); [left; congruence|].
  destruct (e_index (last_entry (im_ents im)) <? i); [left; congruence|].
  destruct (nth_error (im_ents im) (N.to_nat (i - im_marker im))) as [e|] eqn:E2; [|discriminate].
  destruct (e_term e =? t) eqn:E3; [|left; congruence].
  right. exists e. repeat split; auto; try lia. congruence.
Qed.

(* ------------------------------------------------------------------ *)
(* lists of entries                                                    *)

Lemma esize_pos e : 0 < esize e.
Proof. unfold esize, c19_entry_non_cmd_fields_size. lia. Qed.
Opaque esize.

Lemma nlen_app {A} (a b : list A) : nlen (a ++ b) = nlen a + nlen b.
Proof. unfold nlen. rewrite app_length. lia. Qed.
Lemma nlen_nil {A} : nlen (@nil A) = 0. Proof. reflexivity. Qed.
Lemma nlen_cons {A} (x : A) l : nlen (x :: l) = 1 + nlen l.
Proof. unfold nlen. cbn [length]. lia. Qed.
Lemma nlen_firstn {A} n (l : list A) : nlen (firstn n l) = N.min (N.of_nat n) (nlen l).
Proof. unfold nlen. rewrite firstn_length. lia. Qed.
Lemma nlen_skipn {A} n (l : list A) : nlen (skipn n l) = nlen l - N.of_nat n.
Proof. unfold nlen. rewrite skipn_length. lia. Qed.

Lemma nth_error_skipn {A} n k (l : list A) : nth_error (skipn n l) k = nth_error l (n + k).
Proof.
  revert l. induction n; intros l; cbn; auto. destruct l; cbn; auto. destruct k; auto.
Qed.
Lemma nth_error_firstn_lt {A} n k (l : list A) : (k < n)%nat -> nth_error (firstn n l) k = nth_error l k.
Proof.
  revert k l. induction n; intros k l H; [lia|]. destruct l; cbn; [destruct k; auto|].
  destruct k; cbn; auto. apply IHn. lia.
Qed.
Lemma nth_error_firstn_ge {A} n k (l : list A) : (n <= k)%nat -> nth_error (firstn n l) k = None.
Proof. intros H. apply nth_error_None. rewrite firstn_length. lia. Qed.

Lemma nth_error_ext_eq {A} (a b : list A) : (forall k, nth_error a k = nth_error b k) -> a = b.
Proof.
  revert b. induction a as [|x a IH]; intros b H.
  - destruct b; auto. specialize (H 0%nat). discriminate.
  - destruct b as [|y b]; [specialize (H 0%nat); discriminate|].
    pose proof (H 0%nat) as H0. cbn in H0. inversion H0; subst. f_equal. apply IH.
    intros k. apply (H (S k)).
Qed.

Lemma last_entry_nth l : l <> [] -> nth_error l (length l - 1) = Some (last_entry l).
Proof.
  unfold last_entry. induction l as [|a l IH]; [congruence|]. intros _.
  destruct l as [|b l']; [reflexivity|].
  replace (length (a :: b :: l') - 1)%nat with (S (length (b :: l') - 1)) by (cbn; lia).
  cbn [nth_error]. rewrite IH by congruence. reflexivity.
Qed.
Lemma last_entry_app a b : b <> [] -> last_entry (a ++ b) = last_entry b.
Proof.
  intros H. unfold last_entry. induction a as [|x a IH]; [reflexivity|].
  cbn [app]. destruct (a ++ b) eqn:E; [destruct a; destruct b; cbn in E; congruence|].
  exact IH.
Qed.

(* a well-formed run of entries starting at index [base]: contiguous indexes,
   terms >= 1 and non-decreasing *)
Definition log_ok (base : N) (l : list entry) : Prop :=
  forall k e, nth_error l k = Some e ->
    e_index e = base + N.of_nat k /\ 1 <= e_term e /\
    forall k' e', (k <= k')%nat -> nth_error l k' = Some e' -> e_term e <= e_term e'.

Lemma log_ok_nil b : log_ok b []. Proof. intros k e H. destruct k; discriminate. Qed.

Lemma log_ok_firstn b n l : log_ok b l -> log_ok b (firstn n l).
Proof.
  intros H k e Hk. destruct (Nat.lt_ge_cases k n) as [Hl|Hl].
  - rewrite nth_error_firstn_lt in Hk by auto. destruct (H k e Hk) as (A & B & C). repeat split; auto.
    intros k' e' Hle Hk'. destruct (Nat.lt_ge_cases k' n) as [Hl'|Hl'].
    + rewrite nth_error_firstn_lt in Hk' by auto. eauto.
    + rewrite nth_error_firstn_ge in Hk' by auto. discriminate.
  - rewrite nth_error_firstn_ge in Hk by auto. discriminate.
Qed.

Lemma log_ok_skipn b n l : log_ok b l -> log_ok (b + N.of_nat n) (skipn n l).
Proof.
  intros H k e Hk. rewrite nth_error_skipn in Hk. destruct (H _ _ Hk) as (A & B & C).
  repeat split; auto; try lia. intros k' e' Hle Hk'. rewrite nth_error_skipn in Hk'.
  apply (C (n + k')%nat); auto. lia.
Qed.

Lemma log_ok_app b a c :
  log_ok b a -> log_ok (b + nlen a) c ->
  (a <> [] -> c <> [] -> e_term (last_entry a) <= e_term (hd dummy_entry c)) ->
  log_ok b (a ++ c).
Proof.
  intros Ha Hc Hj k e Hk. destruct (Nat.lt_ge_cases k (length a)) as [Hl|Hl].
  - rewrite nth_error_app1 in Hk by auto. destruct (Ha _ _ Hk) as (A & B & C). repeat split; auto.
    intros k' e' Hle Hk'. destruct (Nat.lt_ge_cases k' (length a)) as [Hl'|Hl'].
    + rewrite nth_error_app1 in Hk' by auto. eauto.
    + rewrite nth_error_app2 in Hk' by auto.
      assert (Hane : a <> []) by (destruct a; cbn in Hl; [lia|congruence]).
      assert (Hcne : c <> []) by (destruct c; [destruct (k' - length a)%nat; discriminate|congruence]).
      specialize (Hj Hane Hcne).
      pose proof (last_entry_nth a Hane) as Hla.
      assert (e_term e <= e_term (last_entry a)) by (apply (C (length a - 1)%nat); auto; lia).
      assert (Hc0 : nth_error c 0 = Some (hd dummy_entry c)) by (destruct c; [congruence|reflexivity]).
      destruct (Hc _ _ Hc0) as (_ & _ & C0).
      assert (e_term (hd dummy_entry c) <= e_term e') by (apply (C0 (k' - length a)%nat); auto; lia).
      lia.
  - rewrite nth_error_app2 in Hk by auto. destruct (Hc _ _ Hk) as (A & B & C). unfold nlen in A.
    repeat split; auto; try lia. intros k' e' Hle Hk'. rewrite nth_error_app2 in Hk' by lia.
    apply (C (k' - length a)%nat); auto. lia.
Qed.

Lemma log_ok_last b l : log_ok b l -> l <> [] -> e_index (last_entry l) = b + nlen l - 1.
Proof.
  intros H Hne. destruct (H _ _ (last_entry_nth l Hne)) as (A & _). rewrite A. unfold nlen.
  destruct l; [congruence|]. cbn [length]. lia.
Qed.

Lemma log_ok_hd b e l : log_ok b (e :: l) -> e_index e = b.
Proof. intros H. destruct (H 0%nat e eq_refl) as (A & _). lia. Qed.

(* from the boolean checks of wf_op *)
Lemma bool_log_ok b t l :
  contiguous_from b l = true -> terms_from t l = true -> 1 <= t ->
  log_ok b l /\ forall e, In e l -> t <= e_term e.
Proof.
  revert b t. induction l as [|x l IH]; intros b t Hc Ht H1.
  - split; [apply log_ok_nil|]. intros e [].
  - cbn in Hc, Ht. apply andb_true_iff in Hc as [Hc1 Hc2]. apply andb_true_iff in Ht as [Ht1 Ht2].
    destruct (IH (b + 1) (e_term x) Hc2 Ht2) as [IH1 IH2]; [lia|]. split.
    + intros k e Hk. destruct k as [|k].
      * cbn in Hk. inversion Hk; subst e. repeat split; try lia.
        intros k' e' _ Hk'. destruct k'; cbn in Hk'; [inversion Hk'; lia|].
        apply IH2. eapply nth_error_In; eauto.
      * cbn in Hk. destruct (IH1 _ _ Hk) as (A & B & C). repeat split; try lia.
        intros k' e' Hle Hk'. destruct k'; [lia|]. cbn in Hk'. apply (C k'); auto. lia.
    + intros e [->|Hin]; [lia|]. specialize (IH2 _ Hin). lia.
Qed.

(* ---- in-memory size accounting ---- *)
Lemma isize_app a b : isize (a ++ b) = isize a + isize b.
Proof.
  unfold isize. induction a as [|x a IH]; cbn [app fold_right]; [reflexivity|]. rewrite IH. lia.
Qed.
Lemma isize_split k l : isize l = isize (firstn k l) + isize (skipn k l).
Proof. rewrite <- isize_app, firstn_skipn. reflexivity. Qed.
Lemma two64_val : 2 ^ 64 = 18446744073709551616. Proof. reflexivity. Qed.

Lemma rl_set_ok rl sz n : rl_set rl sz = Some n -> n = sz mod 2 ^ 64.
Proof. unfold rl_set. destruct rl; intros H; inversion H. reflexivity. Qed.
Lemma rl_inc_ok rl a b : (forall n, rl = Some n -> n = isize a mod 2 ^ 64) ->
  forall n, rl_inc rl (isize b) = Some n -> n = isize (a ++ b) mod 2 ^ 64.
Proof.
  intros H n Hn. unfold rl_inc in Hn. destruct rl as [m|]; [|discriminate]. inversion Hn.
  rewrite (H m eq_refl). rewrite isize_app. rewrite N.add_mod_idemp_l by discriminate. reflexivity.
Qed.
Lemma rl_dec_ok rl k l : (forall n, rl = Some n -> n = isize l mod 2 ^ 64) ->
  forall n, rl_dec rl (isize (firstn k l)) = Some n -> n = isize (skipn k l) mod 2 ^ 64.
Proof.
  intros H n Hn. unfold rl_dec in Hn. destruct rl as [m|]; [|discriminate]. inversion Hn.
  rewrite (H m eq_refl). rewrite (isize_split k l). rewrite two64_val.
  set (a := isize (firstn k l)). set (b := isize (skipn k l)). lia.
Qed.

(* ------------------------------------------------------------------ *)
(* the invariant tying the faithful model to the logical log           *)

Record SI (sp : spec) : Prop := {
  si_log : log_ok (sp_mi sp + 1) (sp_ents sp);
  si_mp : sp_mi sp <= sp_processed sp;
  si_pc : sp_processed sp <= sp_committed sp;
  si_cl : sp_committed sp <= sp_last sp;
  si_ps : sp_processed sp <= sp_saved sp;
  si_sl : sp_saved sp <= sp_last sp;
  si_snap : sp_snap sp = true -> sp_saved sp = sp_mi sp /\ 1 <= sp_mi sp;
  si_max : sp_last sp < max_index;
  si_pers : sp_persisted sp = true -> sp_pend sp <> None }.

(* how far the store/reader are known to hold the current entries *)
Definition cover (sp : spec) : N := if sp_persisted sp then sp_last sp else sp_saved sp.
(* the reader reflects the logical marker (not between a restore and its persistence) *)
Definition rd_ok (sp : spec) : bool := negb (sp_snap sp) || sp_persisted sp.

Definition ud_rel (sp : spec) (ud : update) (p : spend) : Prop :=
  ud_save ud = sp_to_save sp /\
  match spd_save_last p with
  | Some (i, t) => uc_stable_to (ud_uc ud) = i /\ uc_stable_term (ud_uc ud) = t /\ i = sp_last sp
                   /\ t = sp_term sp i /\ sp_saved sp < sp_last sp
  | None => uc_stable_to (ud_uc ud) = 0 /\ sp_saved sp = sp_last sp
  end /\
  uc_processed (ud_uc ud) = spd_processed p /\
  (spd_processed p = 0 \/ (sp_processed sp <= spd_processed p /\ spd_processed p <= sp_committed sp)) /\
  uc_last_applied (ud_uc ud) <= sp_processed sp /\
  spd_snap p = sp_snap sp /\
  uc_stable_snap (ud_uc ud) = (if sp_snap sp then sp_mi sp else 0) /\
  ud_snap ud = (if sp_snap sp then Some (sp_mi sp, sp_mt sp) else None).

Record R (w : world) (sp : spec) : Prop := {
  r_si : SI sp;
  r_c : el_committed (w_el w) = sp_committed sp;
  r_p : el_processed (w_el w) = sp_processed sp;
  r_s : im_saved (el_im (w_el w)) = sp_saved sp;
  r_m2 : im_marker (el_im (w_el w)) <= sp_saved sp + 1;
  (* the in-memory window: a well-formed run from markerIndex to the last index that
     agrees with the logical log above its marker; it may reach below the logical
     first index after a compaction beyond the applied point, then it still knows
     the marker entry's term *)
  r_w1 : log_ok (im_marker (el_im (w_el w))) (im_ents (el_im (w_el w)));
  r_w2 : forall i, sp_mi sp < i -> im_marker (el_im (w_el w)) <= i ->
         nth_error (im_ents (el_im (w_el w))) (N.to_nat (i - im_marker (el_im (w_el w)))) = sp_get sp i;
  r_w3 : im_marker (el_im (w_el w)) + nlen (im_ents (el_im (w_el w))) = sp_last sp + 1;
  r_w4 : im_marker (el_im (w_el w)) <= sp_mi sp ->
         exists e, nth_error (im_ents (el_im (w_el w))) (N.to_nat (sp_mi sp - im_marker (el_im (w_el w)))) = Some e
                   /\ e_term e = sp_mt sp;
  r_snapm : sp_snap sp = true -> im_marker (el_im (w_el w)) = sp_mi sp + 1;
  r_snap : im_snap (el_im (w_el w)) = if sp_snap sp then Some (sp_mi sp, sp_mt sp) else None;
  r_a1 : im_aidx (el_im (w_el w)) <= sp_committed sp;
  r_a2 : im_aidx (el_im (w_el w)) <> 0 -> sp_mi sp <= im_aidx (el_im (w_el w)) ->
         im_aterm (el_im (w_el w)) = sp_term sp (im_aidx (el_im (w_el w))) /\ im_aterm (el_im (w_el w)) <> 0;
  r_lr : rd_ok sp = true ->
         lr_marker (w_lr w) = sp_mi sp /\ lr_mterm (w_lr w) = sp_mt sp /\ 1 <= lr_len (w_lr w)
         /\ cover sp <= lr_last (w_lr w) /\ (cover sp = sp_last sp -> lr_last (w_lr w) = sp_last sp);
  r_st : forall i, sp_mi sp < i -> i <= cover sp -> st_get (w_st w) i = sp_get sp i;
  r_stmax : sp_mi sp < cover sp -> cover sp <= st_max (w_st w);
  r_ss : lr_ssidx (w_lr w) <= sp_mi sp /\ (rd_ok sp = false -> lr_ssidx (w_lr w) < sp_mi sp);
  r_q : match sp_pend sp with
        | None => w_queue w = []
        | Some p => exists ud, w_queue w = [mkPend ud (sp_persisted sp)] /\ ud_rel sp ud p
        end;
  (* what the rate limiter has recorded is exactly the in-memory size of the window *)
  r_rl : forall n, im_rl (el_im (w_el w)) = Some n -> n = isize (im_ents (el_im (w_el w))) mod 2 ^ 64 }.

(* ---- consequences used everywhere ---- *)
Section Facts.
  Variables (w : world) (sp : spec).
  Hypothesis HR : R w sp.
  Local Notation im := (el_im (w_el w)).

  Lemma f_len : im_marker im + nlen (im_ents im) = sp_last sp + 1.
  Proof. apply (r_w3 _ _ HR). Qed.

  Lemma f_get i : sp_mi sp < i -> im_marker im <= i -> nth_error (im_ents im) (N.to_nat (i - im_marker im)) = sp_get sp i.
  Proof. apply (r_w2 _ _ HR). Qed.

  Lemma f_log : log_ok (im_marker im) (im_ents im).
  Proof. apply (r_w1 _ _ HR). Qed.

  Lemma f_nil : im_ents im = [] -> im_marker im = sp_last sp + 1.
  Proof. intros H. pose proof f_len as L. rewrite H in L. rewrite nlen_nil in L. lia. Qed.

  Lemma f_last_entry : im_ents im <> [] -> e_index (last_entry (im_ents im)) = sp_last sp.
  Proof. intros H. rewrite (log_ok_last _ _ f_log H). pose proof f_len. lia. Qed.

  (* the window and the logical log coincide from any index above both markers *)
  Lemma f_window lo : sp_mi sp < lo -> im_marker im <= lo ->
    skipn (N.to_nat (lo - im_marker im)) (im_ents im) = skipn (N.to_nat (lo - sp_mi sp - 1)) (sp_ents sp).
  Proof.
    intros H1 H2. apply nth_error_ext_eq. intros k. rewrite !nth_error_skipn.
    replace (N.to_nat (lo - im_marker im) + k)%nat with (N.to_nat (lo + N.of_nat k - im_marker im)) by lia.
    rewrite f_get by lia. unfold sp_get. destruct (lo + N.of_nat k <=? sp_mi sp) eqn:E; [lia|]. f_equal. lia.
  Qed.
End Facts.

Lemma sp_get_some sp i e : SI sp -> sp_get sp i = Some e ->
  e_index e = i /\ 1 <= e_term e /\ sp_mi sp < i /\ i <= sp_last sp.
Proof.
  intros HS H. unfold sp_get in H. destruct (i <=? sp_mi sp) eqn:E; [discriminate|].
  destruct (si_log _ HS _ _ H) as (A & B & _).
  assert (N.to_nat (i - sp_mi sp - 1) < length (sp_ents sp))%nat by (apply nth_error_Some; congruence).
  unfold sp_last, nlen. repeat split; lia.
Qed.

Lemma sp_get_in sp i : SI sp -> sp_mi sp < i -> i <= sp_last sp -> exists e, sp_get sp i = Some e.
Proof.
  intros HS H1 H2. unfold sp_get. destruct (i <=? sp_mi sp) eqn:E; [lia|].
  destruct (nth_error (sp_ents sp) (N.to_nat (i - sp_mi sp - 1))) eqn:E2; eauto.
  apply nth_error_None in E2. unfold sp_last, nlen in H2. lia.
Qed.

Lemma sp_get_none sp i : sp_last sp < i -> sp_get sp i = None.
Proof.
  intros H. unfold sp_get. destruct (i <=? sp_mi sp); auto. apply nth_error_None. unfold sp_last, nlen in H. lia.
Qed.

(* ------------------------------------------------------------------ *)
(* the views                                                           *)

Lemma v_first w sp : R w sp -> el_first (w_el w) (w_lr w) = sp_first sp.
Proof.
  intros HR. unfold el_first, im_snap_index, sp_first. rewrite (r_snap _ _ HR).
  destruct (sp_snap sp) eqn:E; [reflexivity|].
  destruct (r_lr _ _ HR) as (A & _); [unfold rd_ok; rewrite E; reflexivity|]. unfold lr_first. lia.
Qed.

Lemma cover_ge_saved sp : SI sp -> sp_saved sp <= cover sp.
Proof. intros HS. unfold cover. destruct (sp_persisted sp); [apply (si_sl _ HS)|lia]. Qed.
Lemma cover_le_last sp : SI sp -> cover sp <= sp_last sp.
Proof. intros HS. unfold cover. destruct (sp_persisted sp); [lia|apply (si_sl _ HS)]. Qed.

Lemma v_last w sp : R w sp -> el_last (w_el w) (w_lr w) = sp_last sp.
Proof.
  intros HR. unfold el_last, im_last_index.
  destruct (im_ents (el_im (w_el w))) eqn:E.
  - pose proof (f_nil _ _ HR E) as Hm. pose proof (r_m2 _ _ HR) as M2.
    pose proof (si_sl _ (r_si _ _ HR)) as SL.
    unfold im_snap_index. rewrite (r_snap _ _ HR). destruct (sp_snap sp) eqn:Es.
    + destruct (si_snap _ (r_si _ _ HR) Es). unfold sp_last in *. lia.
    + destruct (r_lr _ _ HR) as (_ & _ & _ & _ & A); [unfold rd_ok; rewrite Es; reflexivity|].
      apply A. pose proof (cover_ge_saved _ (r_si _ _ HR)). pose proof (cover_le_last _ (r_si _ _ HR)). lia.
  - rewrite <- E. apply (f_last_entry _ _ HR). congruence.
Qed.

Lemma sp_term_out sp i : SI sp -> (i < sp_mi sp \/ sp_last sp < i) -> sp_term sp i = 0.
Proof.
  intros HS H. unfold sp_term. destruct (i =? sp_mi sp) eqn:E.
  - destruct H; [lia|]. unfold sp_last in H. lia.
  - destruct (sp_get sp i) eqn:G; auto. apply (sp_get_some _ _ _ HS) in G. lia.
Qed.

(* reading one persisted entry through the reader *)
Lemma st_iter_one st i e m sz : st_get st i = Some e -> m < sz + esize e ->
  st_iter 1 st i sz m = ([e], sz + esize e).
Proof. intros G H. cbn [st_iter]. rewrite G. destruct (m <? sz + esize e) eqn:E; [reflexivity|lia]. Qed.

Lemma st_first_present_here fuel st i e : st_get st i = Some e -> st_first_present fuel st i = i.
Proof. intros H. destruct fuel; cbn [st_first_present]; [reflexivity|]. rewrite H. reflexivity. Qed.

(* when the first index asked for is present, a permissive store iterates like a strict one *)
Lemma st_iterate_present st low high m e : st_get st low = Some e ->
  st_iterate st low high m = st_iter (N.to_nat (N.min high (st_max st + 1) - low)) st low 0 m.
Proof.
  intros H. unfold st_iterate. destruct (st_skip st); [|reflexivity].
  rewrite (st_first_present_here _ _ _ _ H). reflexivity.
Qed.

Lemma v_lr_term w sp i : R w sp -> rd_ok sp = true -> sp_mi sp <= i -> i <= cover sp ->
  lr_term (w_lr w) (w_st w) i = Ok (sp_term sp i).
Proof.
  intros HR Hok H1 H2. destruct (r_lr _ _ HR Hok) as (A & B & C & D & _).
  unfold lr_term, sp_term. rewrite A. destruct (i =? sp_mi sp) eqn:E; [congruence|].
  assert (Hi : sp_mi sp < i) by lia.
  pose proof (cover_le_last _ (r_si _ _ HR)) as CL.
  destruct (sp_get_in sp i (r_si _ _ HR) Hi) as [e Ge]; [lia|].
  pose proof (r_st _ _ HR i Hi H2) as Gs. rewrite Ge in Gs.
  pose proof (r_stmax _ _ HR) as SM.
  unfold lr_entries_locked. rewrite A.
  destruct (i + 1 <? i) eqn:E1; [lia|]. destruct (i <=? sp_mi sp) eqn:E2; [lia|].
  destruct (lr_last (w_lr w) + 1 <? i + 1) eqn:E3; [lia|].
  rewrite (st_iterate_present _ _ _ _ _ Gs). replace (N.to_nat (N.min (i + 1) (st_max (w_st w) + 1) - i)) with 1%nat by lia.
  rewrite (st_iter_one _ _ e) by (auto; pose proof (esize_pos e); lia).
  destruct ((nlen [e] =? i + 1 - i) || (0 <? 0 + esize e)) eqn:Ec.
  2:{ unfold nlen in Ec. cbn [length] in Ec. lia. }
  cbn [bind fst]. rewrite Ge. reflexivity.
Qed.

Lemma v_term w sp i : R w sp -> el_term (w_el w) (w_lr w) (w_st w) i = Ok (sp_term sp i).
Proof.
  intros HR. pose proof (r_si _ _ HR) as HS. unfold el_term. rewrite (v_first _ _ HR), (v_last _ _ HR). unfold sp_first.
  destruct ((i <? sp_mi sp + 1 - 1) || (sp_last sp <? i)) eqn:E0.
  - rewrite sp_term_out; auto. lia.
  - assert (H1 : sp_mi sp <= i) by lia. assert (H2 : i <= sp_last sp) by lia.
    unfold im_get_term.
    destruct ((0 <? i) && (i =? im_aidx (el_im (w_el w)))) eqn:E1.
    + assert (i = im_aidx (el_im (w_el w))) by lia. subst i.
      destruct (r_a2 _ _ HR) as (A & B); [lia|auto|].
      destruct (im_aterm (el_im (w_el w)) =? 0) eqn:E2; [lia|]. cbn [bind]. congruence.
    + destruct (i <? im_marker (el_im (w_el w))) eqn:E2.
      * rewrite (r_snap _ _ HR). destruct (sp_snap sp) eqn:Es.
        -- destruct (si_snap _ HS Es). pose proof (r_m2 _ _ HR). assert (i = sp_mi sp) by lia. subst i.
           rewrite N.eqb_refl. cbn [bind]. unfold sp_term. rewrite N.eqb_refl. reflexivity.
        -- cbn [bind]. apply v_lr_term; auto. { unfold rd_ok. rewrite Es. reflexivity. }
           pose proof (r_m2 _ _ HR). pose proof (cover_ge_saved _ HS). lia.
      * assert (HM : im_marker (el_im (w_el w)) <= i) by lia.
        unfold im_last_index. destruct (im_ents (el_im (w_el w))) eqn:En.
        { pose proof (f_nil _ _ HR En). lia. }
        rewrite <- En. rewrite (f_last_entry _ _ HR) by congruence.
        destruct (i <=? sp_last sp) eqn:E3; [|lia].
        destruct (N.eq_dec i (sp_mi sp)) as [->|Hne].
        -- destruct (r_w4 _ _ HR HM) as (e' & Ge & Gt). rewrite Ge. cbn [bind].
           unfold sp_term. rewrite N.eqb_refl. congruence.
        -- rewrite (f_get _ _ HR i) by lia.
           destruct (sp_get_in sp i HS) as [e' Ge]; [lia|lia|]. rewrite Ge. cbn [bind].
           unfold sp_term. destruct (i =? sp_mi sp) eqn:E4; [lia|]. rewrite Ge. reflexivity.
Qed.

(* ---- size limits: the store's iteration + LogReader's drop rule = limitSize ---- *)
Fixpoint iter_list (A : list entry) (size m : N) : list entry * N :=
  match A with
  | [] => ([], size)
  | e :: r => let s' := size + esize e in
              if m <? s' then ([e], s') else let '(r', sz) := iter_list r s' m in (e :: r', sz)
  end.

Lemma st_iter_list A : forall st i size m,
  (forall k, (k < length A)%nat -> st_get st (i + N.of_nat k) = nth_error A k) ->
  st_iter (length A) st i size m = iter_list A size m.
Proof.
  induction A as [|e A IH]; intros st i size m H; [reflexivity|].
  cbn [length st_iter iter_list]. pose proof (H 0%nat) as H0. cbn [nth_error] in H0.
  rewrite N.add_0_r in H0. rewrite H0 by (cbn; lia).
  destruct (m <? size + esize e); [reflexivity|].
  rewrite IH; [reflexivity|]. intros k Hk. specialize (H (S k)). cbn [nth_error] in H.
  rewrite <- H by (cbn; lia). f_equal. lia.
Qed.

Lemma limit_rest_len t m A : (length (limit_rest t m A) <= length A)%nat.
Proof.
  revert t. induction A as [|e A IH]; intros t; cbn; [lia|].
  destruct (m <? t + esize e); cbn; [lia|]. specialize (IH (t + esize e)). lia.
Qed.
Lemma limit_rest_full t m A : length (limit_rest t m A) = length A -> limit_rest t m A = A.
Proof.
  revert t. induction A as [|e A IH]; intros t; cbn; auto.
  destruct (m <? t + esize e); cbn; [lia|]. intros H. f_equal. apply IH. lia.
Qed.
Lemma limit_rest_app_short t m A B : length (limit_rest t m A) <> length A ->
  limit_rest t m (A ++ B) = limit_rest t m A.
Proof.
  revert t. induction A as [|e A IH]; intros t; cbn; [congruence|].
  destruct (m <? t + esize e); cbn; auto. intros H. f_equal. apply IH. lia.
Qed.
Lemma limit_size_len A m : (length (limit_size A m) <= length A)%nat.
Proof. destruct A; cbn; [lia|]. pose proof (limit_rest_len (esize e) m A). lia. Qed.
Lemma limit_size_full A m : length (limit_size A m) = length A -> limit_size A m = A.
Proof. destruct A; cbn; auto. intros H. f_equal. apply limit_rest_full. lia. Qed.
Lemma limit_size_app_short A B m : length (limit_size A m) <> length A ->
  limit_size (A ++ B) m = limit_size A m.
Proof. destruct A; cbn; [congruence|]. intros H. f_equal. apply limit_rest_app_short. lia. Qed.

Definition lr_drop (m : N) (r : list entry * N) : list entry :=
  let '(ents, size) := r in
  if (0 <? m) && (m <? size) && (1 <? nlen ents) then removelast ents
  else if (m =? 0) && (m <? size) && (1 <? nlen ents) then firstn 1 ents
  else ents.

Lemma iter_rest r : forall total m, total <= m ->
  let '(r', sz) := iter_list r total m in
  total <= sz /\
  (m < sz -> r' <> [] /\ removelast r' = limit_rest total m r) /\
  (sz <= m -> r' = r /\ limit_rest total m r = r).
Proof.
  induction r as [|e r IH]; intros total m Hle; cbn [iter_list limit_rest].
  - repeat split; auto; lia.
  - destruct (m <? total + esize e) eqn:E.
    + repeat split; try lia; try congruence.
    + specialize (IH (total + esize e) m). destruct (iter_list r (total + esize e) m) as [r' sz].
      destruct IH as (A & B & C); [lia|]. pose proof (esize_pos e). repeat split; try lia.
      * congruence.
      * destruct (B H0) as (B1 & B2). destruct r'; [congruence|]. cbn [removelast]. f_equal. exact B2.
      * destruct (C H0). congruence.
      * destruct (C H0). congruence.
Qed.

Lemma lr_drop_single m e s : lr_drop m ([e], s) = [e].
Proof.
  unfold lr_drop, nlen. cbn [length]. change (1 <? N.of_nat 1) with false.
  rewrite !andb_false_r. reflexivity.
Qed.
Lemma lr_drop_nolimit m l s : s <= m -> lr_drop m (l, s) = l.
Proof.
  intros H. unfold lr_drop. replace (m <? s) with false by lia.
  rewrite !andb_false_r. reflexivity.
Qed.
Lemma iter_limit A m : A <> [] ->
  lr_drop m (iter_list A 0 m) = limit_size A m /\
  (length (fst (iter_list A 0 m)) = length A \/ m < snd (iter_list A 0 m)).
Proof.
  destruct A as [|e r]; [congruence|]. intros _. cbn [iter_list limit_size]. pose proof (esize_pos e) as Hp.
  rewrite N.add_0_l. destruct (m <? esize e) eqn:E.
  - rewrite lr_drop_single. cbn [fst snd length]. split; [|right; lia].
    f_equal. destruct r; cbn [limit_rest]; auto. destruct (m <? esize e + esize e0) eqn:E2; auto. pose proof (esize_pos e0). lia.
  - pose proof (iter_rest r (esize e) m) as H. destruct (iter_list r (esize e) m) as [r' sz].
    destruct H as (A & B & C); [lia|]. cbn [fst snd]. destruct (m <? sz) eqn:E3.
    + destruct B as (B1 & B2); [lia|]. split; [|right; lia].
      unfold lr_drop. assert (Hm : 0 <? m = true) by lia. rewrite Hm, E3.
      assert (Hl : 1 <? nlen (e :: r') = true) by (destruct r'; [congruence|]; rewrite !nlen_cons; lia).
      rewrite Hl. cbn [andb]. destruct r'; [congruence|]. cbn [removelast]. f_equal. exact B2.
    + destruct C as (C1 & C2); [lia|]. subst r'. split; [|left; reflexivity].
      rewrite lr_drop_nolimit by lia. f_equal. auto.
Qed.

(* ---- slices of the logical log ---- *)
Lemma skipn_skipn {A} x y (l : list A) : skipn x (skipn y l) = skipn (x + y) l.
Proof.
  revert x l. induction y; intros x l; [rewrite Nat.add_0_r; reflexivity|].
  destruct l; [rewrite !skipn_nil; reflexivity|]. rewrite Nat.add_succ_r. cbn [skipn]. apply IHy.
Qed.
Lemma firstn_add {A} a b (l : list A) : firstn (a + b) l = firstn a l ++ firstn b (skipn a l).
Proof. revert l. induction a; intros l; cbn; auto. destruct l; cbn; [destruct b; reflexivity|]. f_equal. apply IHa. Qed.

Lemma slice_len sp lo hi : sp_mi sp < lo -> lo <= hi -> hi <= sp_last sp + 1 ->
  length (sp_slice sp lo hi) = N.to_nat (hi - lo).
Proof.
  intros H1 H2 H3. unfold sp_slice. rewrite firstn_length, skipn_length. unfold sp_last, nlen in H3. lia.
Qed.

Lemma slice_nth sp lo hi k : sp_mi sp < lo -> (k < N.to_nat (hi - lo))%nat ->
  nth_error (sp_slice sp lo hi) k = sp_get sp (lo + N.of_nat k).
Proof.
  intros H1 H2. unfold sp_slice, sp_get. rewrite nth_error_firstn_lt by auto. rewrite nth_error_skipn.
  destruct (lo + N.of_nat k <=? sp_mi sp) eqn:E; [lia|]. f_equal. lia.
Qed.

Lemma slice_split sp lo up hi : sp_mi sp < lo -> lo <= up -> up <= hi ->
  sp_slice sp lo hi = sp_slice sp lo up ++ sp_slice sp up hi.
Proof.
  intros H1 H2 H3. unfold sp_slice.
  replace (N.to_nat (hi - lo)) with (N.to_nat (up - lo) + N.to_nat (hi - up))%nat by lia.
  rewrite firstn_add. f_equal. f_equal. rewrite skipn_skipn. f_equal. lia.
Qed.

Lemma slice_log sp lo hi : SI sp -> sp_mi sp < lo -> log_ok lo (sp_slice sp lo hi).
Proof.
  intros HS H1. unfold sp_slice. apply log_ok_firstn.
  replace lo with (sp_mi sp + 1 + N.of_nat (N.to_nat (lo - sp_mi sp - 1))) at 1 by lia.
  apply log_ok_skipn. apply (si_log _ HS).
Qed.

Lemma check_append_ok b A B : log_ok b (A ++ B) -> check_entries_to_append A B = None.
Proof.
  intros H. unfold check_entries_to_append. destruct A as [|a A']; [reflexivity|]. destruct B as [|x B']; [reflexivity|].
  set (A := a :: A') in *. assert (Hne : A <> []) by (subst A; congruence).
  pose proof (last_entry_nth A Hne) as HL.
  assert (H1 : nth_error (A ++ x :: B') (length A - 1) = Some (last_entry A)).
  { rewrite nth_error_app1; auto. subst A. cbn. lia. }
  assert (H2 : nth_error (A ++ x :: B') (length A) = Some x).
  { rewrite nth_error_app2 by lia. rewrite Nat.sub_diag. reflexivity. }
  destruct (H _ _ H1) as (I1 & _ & M). destruct (H _ _ H2) as (I2 & _).
  specialize (M (length A) x). assert (length A >= 1)%nat by (subst A; cbn; lia).
  destruct (e_index (last_entry A) + 1 =? e_index x) eqn:E1; cbn [negb]; [|lia].
  destruct (e_term x <? e_term (last_entry A)) eqn:E2; [|reflexivity].
  assert (e_term (last_entry A) <= e_term x) by (apply M; auto; lia). lia.
Qed.

(* entries [lo, up) served by the reader from the store *)
Lemma v_lr_entries w sp lo up m : R w sp -> rd_ok sp = true ->
  sp_mi sp < lo -> lo < up -> up <= cover sp + 1 ->
  lr_entries (w_lr w) (w_st w) lo up m = Ok (limit_size (sp_slice sp lo up) m).
Proof.
  intros HR Hok H1 H2 H3. pose proof (r_si _ _ HR) as HS.
  destruct (r_lr _ _ HR Hok) as (A & B & C & D & _).
  pose proof (cover_le_last _ HS) as CL.
  unfold lr_entries, lr_entries_locked. rewrite A.
  destruct (up <? lo) eqn:E1; [lia|]. destruct (lo <=? sp_mi sp) eqn:E2; [lia|].
  destruct (lr_last (w_lr w) + 1 <? up) eqn:E3; [lia|].
  pose proof (r_stmax _ _ HR) as SM.
  destruct (sp_get_in sp lo HS) as [e0 Ge0]; [lia|lia|].
  assert (Gs0 : st_get (w_st w) lo = Some e0) by (rewrite (r_st _ _ HR) by lia; exact Ge0).
  rewrite (st_iterate_present _ _ _ _ _ Gs0).
  replace (N.min up (st_max (w_st w) + 1)) with up by lia.
  set (S := sp_slice sp lo up).
  assert (HL : length S = N.to_nat (up - lo)) by (apply slice_len; lia).
  rewrite <- HL. rewrite (st_iter_list S).
  2:{ intros k Hk. unfold S. rewrite slice_nth by lia. apply (r_st _ _ HR); lia. }
  assert (Hne : S <> []) by (destruct S; cbn in HL; [lia|congruence]).
  destruct (iter_limit S m Hne) as (IL1 & IL2).
  destruct (iter_list S 0 m) as [B' sz] eqn:EI. cbn [fst snd] in IL2.
  assert (Hc : (nlen B' =? up - lo) || (m <? sz) = true).
  { apply orb_true_iff. destruct IL2 as [IL2|IL2]; [left; unfold nlen; lia|right; lia]. }
  rewrite Hc. cbn [bind]. unfold lr_drop in IL1. 
  destruct ((0 <? m) && (m <? sz) && (1 <? nlen B')); [congruence|].
  destruct ((m =? 0) && (m <? sz) && (1 <? nlen B')); congruence.
Qed.

(* entries [lo, hi) taken from the in-memory window *)
Lemma v_im_entries w sp lo hi : R w sp -> sp_mi sp < lo ->
  im_marker (el_im (w_el w)) <= lo -> lo <= hi -> hi <= sp_last sp + 1 ->
  im_get_entries (el_im (w_el w)) lo hi = Ok (sp_slice sp lo hi).
Proof.
  intros HR H0 H1 H2 H3. unfold im_get_entries. rewrite (f_len _ _ HR).
  destruct ((hi <? lo) || (lo <? im_marker (el_im (w_el w)))) eqn:E1; [lia|].
  destruct (sp_last sp + 1 <? hi) eqn:E2; [lia|].
  f_equal. unfold sp_slice. f_equal. apply (f_window _ _ HR); auto.
Qed.

Lemma is_nil_skipn0 {A} (l : list A) : skipn 0 l = l. Proof. reflexivity. Qed.

Theorem v_entries w sp lo hi m : R w sp ->
  el_get_entries (w_el w) (w_lr w) (w_st w) lo hi m = sp_entries sp lo hi m.
Proof.
  intros HR. pose proof (r_si _ _ HR) as HS. unfold el_get_entries, sp_entries, el_check_bound.
  destruct (hi <? lo) eqn:E0; [reflexivity|].
  rewrite (r_snap _ _ HR), (v_first _ _ HR), (v_last _ _ HR).
  assert (Hnil : sp_snap sp = true -> im_ents (el_im (w_el w)) = sp_ents sp).
  { intros Es. pose proof (r_snapm _ _ HR Es) as SM.
    pose proof (f_window _ _ HR (sp_mi sp + 1)) as FW.
    replace (N.to_nat (sp_mi sp + 1 - im_marker (el_im (w_el w)))) with 0%nat in FW by lia.
    replace (N.to_nat (sp_mi sp + 1 - sp_mi sp - 1)) with 0%nat in FW by lia.
    cbn [skipn] in FW. apply FW; lia. }
  destruct (sp_snap sp) eqn:Es.
  - rewrite (Hnil eq_refl). cbn [andb]. destruct (is_nil (sp_ents sp)) eqn:En; [reflexivity|].
    destruct (lo <? sp_first sp) eqn:E1; [reflexivity|]. destruct (sp_last sp + 1 <? hi) eqn:E2; [reflexivity|].
    cbn [bind]. destruct (lo =? hi) eqn:E3; [reflexivity|].
    destruct (si_snap _ HS Es). pose proof (r_snapm _ _ HR Es). pose proof (r_m2 _ _ HR). unfold sp_first in *.
    unfold el_from_logdb. destruct (im_marker (el_im (w_el w)) <=? lo) eqn:E4; [|lia]. cbn [bind negb].
    unfold el_from_inmem. destruct (hi <=? im_marker (el_im (w_el w))) eqn:E5; [lia|].
    replace (N.max lo (im_marker (el_im (w_el w)))) with lo by lia.
    rewrite (v_im_entries _ _ _ _ HR) by lia. cbn [bind].
    destruct (sp_slice sp lo hi); reflexivity.
  - cbn [andb]. destruct (lo <? sp_first sp) eqn:E1; [reflexivity|]. destruct (sp_last sp + 1 <? hi) eqn:E2; [reflexivity|].
    cbn [bind]. destruct (lo =? hi) eqn:E3; [reflexivity|]. unfold sp_first in *.
    pose proof (r_m2 _ _ HR) as M2.
    assert (Hok : rd_ok sp = true) by (unfold rd_ok; rewrite Es; reflexivity).
    unfold el_from_logdb. destruct (im_marker (el_im (w_el w)) <=? lo) eqn:E4.
    + cbn [bind negb]. unfold el_from_inmem. destruct (hi <=? im_marker (el_im (w_el w))) eqn:E5; [lia|].
      replace (N.max lo (im_marker (el_im (w_el w)))) with lo by lia.
      rewrite (v_im_entries _ _ _ _ HR) by lia. cbn [bind]. destruct (sp_slice sp lo hi); reflexivity.
    + set (up := N.min hi (im_marker (el_im (w_el w)))).
      pose proof (cover_ge_saved _ HS) as CG.
      rewrite (v_lr_entries _ _ lo up m HR Hok) by (unfold up; lia). cbn [bind].
      set (A := sp_slice sp lo up).
      assert (HL : length A = N.to_nat (up - lo)) by (apply slice_len; unfold up; lia).
      pose proof (limit_size_len A m) as LL.
      destruct (up - lo <? nlen (limit_size A m)) eqn:E5; [unfold nlen in E5; lia|].
      cbn [bind]. assert (Hsplit : sp_slice sp lo hi = A ++ sp_slice sp up hi) by (apply slice_split; unfold up; lia).
      destruct (nlen (limit_size A m) =? up - lo) eqn:E6; cbn [negb].
      * assert (Hfull : limit_size A m = A) by (apply limit_size_full; unfold nlen in E6; lia).
        rewrite Hfull. unfold el_from_inmem. destruct (hi <=? im_marker (el_im (w_el w))) eqn:E7.
        -- cbn [bind]. assert (up = hi) by (unfold up; lia). rewrite Hsplit. 
           replace (sp_slice sp up hi) with (@nil entry). { rewrite app_nil_r. rewrite Hfull. reflexivity. }
           unfold sp_slice. replace (N.to_nat (hi - up)) with 0%nat by lia. reflexivity.
        -- replace (N.max lo (im_marker (el_im (w_el w)))) with up by (unfold up; lia).
           rewrite (v_im_entries _ _ _ _ HR) by (unfold up; lia). cbn [bind].
           destruct (sp_slice sp up hi) as [|b B] eqn:EB.
           { cbn [bind]. rewrite Hsplit, app_nil_r. reflexivity. }
           destruct A as [|a A'] eqn:EA; [cbn in HL; unfold up in HL; lia|].
           rewrite <- EA in *. rewrite (check_append_ok lo A (b :: B)).
           2:{ rewrite <- Hsplit. apply slice_log; auto. lia. }
           rewrite Hsplit. reflexivity.
      * rewrite Hsplit. rewrite limit_size_app_short; [reflexivity|]. unfold nlen in E6. lia.
Qed.

Lemma v_to_save w sp : R w sp -> el_to_save (w_el w) = sp_to_save sp.
Proof.
  intros HR. unfold el_to_save, im_entries_to_save, sp_to_save, two64.
  pose proof (r_m2 _ _ HR) as M2. pose proof (r_s _ _ HR) as S.
  pose proof (si_mp _ (r_si _ _ HR)) as SMP. pose proof (si_ps _ (r_si _ _ HR)) as SPS.
  pose proof (si_sl _ (r_si _ _ HR)) as SL. pose proof (si_max _ (r_si _ _ HR)) as MX. unfold max_index in MX.
  pose proof (f_len _ _ HR) as FL. rewrite S.
  assert (2 ^ 62 < 2 ^ 64) by (apply N.pow_lt_mono_r; lia).
  replace ((sp_saved sp + 1 + 2 ^ 64 - im_marker (el_im (w_el w))) mod 2 ^ 64)
    with (sp_saved sp + 1 - im_marker (el_im (w_el w))).
  2:{ replace (sp_saved sp + 1 + 2 ^ 64 - im_marker (el_im (w_el w)))
        with ((sp_saved sp + 1 - im_marker (el_im (w_el w))) + 1 * 2 ^ 64) by lia.
      rewrite N.mod_add by lia. rewrite N.mod_small; lia. }
  destruct (nlen (im_ents (el_im (w_el w))) <? sp_saved sp + 1 - im_marker (el_im (w_el w))) eqn:E; [lia|].
  rewrite (f_window _ _ HR (sp_saved sp + 1)) by lia. f_equal. lia.
Qed.

Lemma v_has w sp : R w sp -> el_has_to_apply (w_el w) (w_lr w) = sp_has_to_apply sp.
Proof.
  intros HR. unfold el_has_to_apply, sp_has_to_apply, el_first_not_applied, sp_first_not_applied.
  rewrite (v_first _ _ HR), (r_p _ _ HR), (r_c _ _ HR). reflexivity.
Qed.

Lemma v_to_apply w sp limit : R w sp ->
  el_to_apply (w_el w) (w_lr w) (w_st w) limit = sp_to_apply sp limit.
Proof.
  intros HR. unfold el_to_apply, sp_to_apply. rewrite (v_has _ _ HR).
  destruct (sp_has_to_apply sp); [|reflexivity].
  unfold el_first_not_applied, sp_first_not_applied.
  rewrite (v_first _ _ HR), (r_p _ _ HR), (r_c _ _ HR). apply v_entries. exact HR.
Qed.

(* all the views at once *)
Definition views_eq (w : world) (sp : spec) : Prop :=
  el_first (w_el w) (w_lr w) = sp_first sp /\
  el_last (w_el w) (w_lr w) = sp_last sp /\
  (forall i, el_term (w_el w) (w_lr w) (w_st w) i = Ok (sp_term sp i)) /\
  (forall lo hi m, el_get_entries (w_el w) (w_lr w) (w_st w) lo hi m = sp_entries sp lo hi m) /\
  el_to_save (w_el w) = sp_to_save sp /\
  (forall limit, el_to_apply (w_el w) (w_lr w) (w_st w) limit = sp_to_apply sp limit) /\
  el_has_to_apply (w_el w) (w_lr w) = sp_has_to_apply sp /\
  el_committed (w_el w) = sp_committed sp /\ el_processed (w_el w) = sp_processed sp.

Lemma R_views w sp : R w sp -> views_eq w sp.
Proof.
  intros HR. unfold views_eq. repeat split.
  - apply v_first; auto.
  - apply v_last; auto.
  - intros; apply v_term; auto.
  - intros; apply v_entries; auto.
  - apply v_to_save; auto.
  - intros; apply v_to_apply; auto.
  - apply v_has; auto.
  - apply (r_c _ _ HR).
  - apply (r_p _ _ HR).
Qed.

(* ------------------------------------------------------------------ *)
(* every well-formed operation preserves the invariant                 *)

Lemma idle_cover sp : SI sp -> sp_pend sp = None -> sp_persisted sp = false /\ cover sp = sp_saved sp.
Proof.
  intros HS Hp. unfold cover. destruct (sp_persisted sp) eqn:E; auto.
  exfalso. apply (si_pers _ HS); auto.
Qed.

(* operations that only touch the entryLog (append, commitTo), idle phase *)
Lemma R_el_update w sp el' sp' :
  R w sp -> SI sp' -> sp_pend sp = None ->
  sp_mi sp' = sp_mi sp -> sp_mt sp' = sp_mt sp -> sp_snap sp' = sp_snap sp ->
  sp_pend sp' = None -> sp_persisted sp' = false ->
  el_committed el' = sp_committed sp' -> el_processed el' = sp_processed sp' ->
  im_saved (el_im el') = sp_saved sp' ->
  im_marker (el_im el') <= sp_saved sp' + 1 ->
  log_ok (im_marker (el_im el')) (im_ents (el_im el')) ->
  (forall i, sp_mi sp < i -> im_marker (el_im el') <= i ->
     nth_error (im_ents (el_im el')) (N.to_nat (i - im_marker (el_im el'))) = sp_get sp' i) ->
  im_marker (el_im el') + nlen (im_ents (el_im el')) = sp_last sp' + 1 ->
  (im_marker (el_im el') <= sp_mi sp ->
     exists e, nth_error (im_ents (el_im el')) (N.to_nat (sp_mi sp - im_marker (el_im el'))) = Some e /\ e_term e = sp_mt sp) ->
  (sp_snap sp = true -> im_marker (el_im el') = sp_mi sp + 1) ->
  im_snap (el_im el') = im_snap (el_im (w_el w)) ->
  im_aidx (el_im el') = im_aidx (el_im (w_el w)) -> im_aterm (el_im el') = im_aterm (el_im (w_el w)) ->
  sp_committed sp <= sp_committed sp' ->
  (forall i, sp_mi sp <= i -> i <= sp_committed sp -> sp_term sp' i = sp_term sp i) ->
  sp_saved sp' <= sp_saved sp ->
  (forall i, sp_mi sp < i -> i <= sp_saved sp' -> sp_get sp' i = sp_get sp i) ->
  (sp_saved sp' = sp_last sp' -> sp_saved sp = sp_last sp /\ sp_last sp' = sp_last sp) ->
  (forall n, im_rl (el_im el') = Some n -> n = isize (im_ents (el_im el')) mod 2 ^ 64) ->
  R (with_el w el') sp'.
Proof.
  intros HR HS' Hidle Hmi Hmt Hsn Hp' Hpers' Hc Hp Hs M2 W1 W2 W3 W4 Wsn Hsnap Ha1 Ha2 Hcc Hterm Hsv Hget Hlast Hrl.
  destruct (idle_cover _ (r_si _ _ HR) Hidle) as (Hpers & Hcov).
  assert (Hcov' : cover sp' = sp_saved sp') by (unfold cover; rewrite Hpers'; reflexivity).
  assert (Hok : rd_ok sp' = rd_ok sp) by (unfold rd_ok; rewrite Hsn, Hpers, Hpers'; reflexivity).
  constructor; cbn [with_el w_el w_lr w_st w_queue]; try rewrite Hmi; try rewrite Hmt.
  - exact HS'.
  - exact Hc.
  - exact Hp.
  - exact Hs.
  - exact M2.
  - exact W1.
  - exact W2.
  - exact W3.
  - exact W4.
  - rewrite Hsn. exact Wsn.
  - rewrite Hsnap, Hsn. apply (r_snap _ _ HR).
  - rewrite Ha1. pose proof (r_a1 _ _ HR). lia.
  - rewrite Ha1, Ha2. intros A B. destruct (r_a2 _ _ HR A B) as (C & D). split; auto.
    rewrite Hterm; auto. apply (r_a1 _ _ HR).
  - rewrite Hok. intros Ok'. destruct (r_lr _ _ HR Ok') as (A & B & C & D & E). rewrite Hcov', Hcov in *.
    repeat split; auto; try lia.
  - rewrite Hcov'. intros i H1 H2. rewrite Hget by auto. apply (r_st _ _ HR); auto. rewrite Hcov. lia.
  - rewrite Hcov'. intros H1. pose proof (r_stmax _ _ HR) as SM. rewrite Hcov in SM.
    destruct (N.lt_ge_cases (sp_mi sp) (sp_saved sp)) as [H|H]; [specialize (SM H); lia|lia].
  - rewrite Hok. apply (r_ss _ _ HR).
  - rewrite Hp'. pose proof (r_q _ _ HR) as Q. rewrite Hidle in Q. exact Q.
  - exact Hrl.
Qed.

Lemma sp_term_eq sp sp' i : sp_mi sp' = sp_mi sp -> sp_mt sp' = sp_mt sp -> sp_get sp' i = sp_get sp i ->
  sp_term sp' i = sp_term sp i.
Proof. intros A B C. unfold sp_term. rewrite A, B, C. reflexivity. Qed.

Lemma step_commit_to w sp k : R w sp -> wf_op sp (OCommitTo k) = true ->
  exists w', step w (OCommitTo k) = Ok w' /\ R w' (sp_commit_to sp k).
Proof.
  intros HR Hwf. cbn [wf_op] in Hwf. apply andb_true_iff in Hwf as [Hidle Hk].
  unfold idle in Hidle. destruct (sp_pend sp) eqn:Ep; [discriminate|].
  pose proof (r_si _ _ HR) as HS.
  cbn [step]. unfold w_commit_to, el_commit_to, sp_commit_to. rewrite (r_c _ _ HR), (v_last _ _ HR).
  destruct (k <=? sp_committed sp) eqn:E1.
  - cbn [bind]. eexists; split; [reflexivity|]. destruct w as [el lr st pv q lim]. exact HR.
  - destruct (sp_last sp <? k) eqn:E2; [lia|]. cbn [bind]. eexists; split; [reflexivity|].
    destruct (idle_cover _ HS Ep) as (Hpers & _).
    apply R_el_update with (sp := sp); auto; cbn; try reflexivity; try lia.
    + destruct HS. constructor; cbn; auto; unfold sp_last in *; cbn; try lia.
    + apply (r_p _ _ HR).
    + apply (r_s _ _ HR).
    + apply (r_m2 _ _ HR).
    + apply (r_w1 _ _ HR).
    + apply (r_w2 _ _ HR).
    + apply (r_w3 _ _ HR).
    + apply (r_w4 _ _ HR).
    + apply (r_snapm _ _ HR).
    + apply (r_rl _ _ HR).
Qed.

(* ---- append ---- *)
Lemma skipn_firstn_app {A} k n (l x : list A) : (k <= n)%nat -> (n <= length l)%nat ->
  skipn k (firstn n l ++ x) = firstn (n - k) (skipn k l) ++ x.
Proof.
  intros H1 H2. rewrite skipn_app. rewrite firstn_length. replace (k - Nat.min n (length l))%nat with 0%nat by lia.
  cbn [skipn]. f_equal. apply skipn_firstn_comm.
Qed.

Definition app_pre (sp : spec) (ents : list entry) : Prop :=
  exists e0 rest, ents = e0 :: rest /\ log_ok (e_index e0) ents /\
    sp_committed sp < e_index e0 /\ e_index e0 <= sp_last sp + 1 /\
    sp_term sp (e_index e0 - 1) <= e_term e0 /\
    e_index e0 - 1 + nlen ents < max_index.

Lemma sp_append_facts sp ents : SI sp -> app_pre sp ents ->
  let f := e_index (hd dummy_entry ents) in
  let sp' := sp_append sp ents in
  SI sp' /\ sp_last sp' = f - 1 + nlen ents /\
  sp_ents sp' = firstn (N.to_nat (f - sp_mi sp - 1)) (sp_ents sp) ++ ents /\
  (forall i, sp_mi sp < i -> i <= f - 1 -> sp_get sp' i = sp_get sp i) /\
  sp_saved sp' = N.min (sp_saved sp) (f - 1) /\ sp_committed sp' = sp_committed sp /\
  sp_processed sp' = sp_processed sp /\ sp_mi sp' = sp_mi sp /\ sp_mt sp' = sp_mt sp /\
  sp_snap sp' = sp_snap sp /\ sp_pend sp' = sp_pend sp /\ sp_persisted sp' = sp_persisted sp.
Proof.
  intros HS (e0 & rest & -> & Hlog & Hc & Hl & Hj & Hmax). cbn [hd]. cbn zeta.
  set (f := e_index e0) in *. set (ents := e0 :: rest) in *.
  pose proof (si_mp _ HS). pose proof (si_pc _ HS). pose proof (si_cl _ HS). pose proof (si_ps _ HS). pose proof (si_sl _ HS).
  assert (Hn : (N.to_nat (f - sp_mi sp - 1) <= length (sp_ents sp))%nat) by (unfold sp_last, nlen in Hl; lia).
  assert (Hfl : length (firstn (N.to_nat (f - sp_mi sp - 1)) (sp_ents sp)) = N.to_nat (f - sp_mi sp - 1))
    by (rewrite firstn_length; lia).
  assert (Hlast : sp_last (sp_append sp ents) = f - 1 + nlen ents).
  { unfold sp_append, ents, sp_last. cbn [sp_mi sp_ents]. fold f. rewrite nlen_app. unfold nlen at 1. rewrite Hfl. lia. }
  assert (Hget : forall i, sp_mi sp < i -> i <= f - 1 -> sp_get (sp_append sp ents) i = sp_get sp i).
  { intros i Hi1 Hi2. unfold sp_get, sp_append, ents. cbn [sp_mi sp_ents]. fold f.
    destruct (i <=? sp_mi sp); auto. rewrite nth_error_app1 by lia. apply nth_error_firstn_lt. lia. }
  split; [|repeat split; auto].
  constructor; unfold sp_append, ents; cbn [sp_mi sp_mt sp_ents sp_committed sp_processed sp_saved sp_snap sp_pend sp_persisted]; fold f; fold ents; try lia.
  - apply log_ok_app.
    + apply log_ok_firstn. apply (si_log _ HS).
    + unfold nlen. rewrite Hfl. replace (sp_mi sp + 1 + N.of_nat (N.to_nat (f - sp_mi sp - 1))) with f by lia. exact Hlog.
    + intros Hne _. cbn [hd ents].
      pose proof (last_entry_nth _ Hne) as HL. rewrite Hfl in HL.
      assert (N.to_nat (f - sp_mi sp - 1) >= 1)%nat by (destruct (N.to_nat (f - sp_mi sp - 1)); [cbn in Hne; congruence|lia]).
      rewrite nth_error_firstn_lt in HL by lia.
      assert (Hg : sp_get sp (f - 1) = Some (last_entry (firstn (N.to_nat (f - sp_mi sp - 1)) (sp_ents sp)))).
      { unfold sp_get. destruct (f - 1 <=? sp_mi sp) eqn:E; [lia|]. rewrite <- HL. f_equal. lia. }
      unfold sp_term in Hj. destruct (f - 1 =? sp_mi sp) eqn:E; [lia|]. rewrite Hg in Hj. exact Hj.
  - unfold sp_last; cbn [sp_mi sp_ents]; rewrite nlen_app; unfold nlen at 1; rewrite Hfl. unfold ents. rewrite nlen_cons. lia.
  - unfold sp_last; cbn [sp_mi sp_ents]; rewrite nlen_app; unfold nlen at 1; rewrite Hfl. unfold ents. rewrite nlen_cons. lia.
  - intros Es. destruct (si_snap _ HS Es). split; lia.
  - unfold sp_last; cbn [sp_mi sp_ents]; rewrite nlen_app; unfold nlen at 1; rewrite Hfl. lia.
  - apply (si_pers _ HS).
Qed.

Lemma check_marker_hd im : log_ok (im_marker im) (im_ents im) -> im_check_marker im = true.
Proof.
  intros H. unfold im_check_marker. destruct (im_ents im) eqn:E; auto.
  pose proof (log_ok_hd _ _ _ H). lia.
Qed.

Lemma sp_append_get_new sp ents i : SI sp -> app_pre sp ents ->
  e_index (hd dummy_entry ents) <= i ->
  sp_get (sp_append sp ents) i = nth_error ents (N.to_nat (i - e_index (hd dummy_entry ents))).
Proof.
  intros HS Hpre Hi. destruct (sp_append_facts sp ents HS Hpre) as (_ & _ & Hents' & _ & _ & _ & _ & Hmi' & _).
  destruct Hpre as (e0 & rest & -> & Hlog & Hc & Hl & Hj & Hmax). cbn [hd] in *.
  pose proof (si_mp _ HS). pose proof (si_pc _ HS).
  unfold sp_get. rewrite Hents', Hmi'. destruct (i <=? sp_mi sp) eqn:E; [lia|].
  assert (Hn : (N.to_nat (e_index e0 - sp_mi sp - 1) <= length (sp_ents sp))%nat) by (unfold sp_last, nlen in Hl; lia).
  rewrite nth_error_app2 by (rewrite firstn_length; lia). rewrite firstn_length. f_equal. lia.
Qed.

Lemma el_append_R w sp ents : R w sp -> sp_pend sp = None -> app_pre sp ents ->
  exists el', el_append (w_el w) ents = Ok el' /\ R (with_el w el') (sp_append sp ents).
Proof.
  intros HR Hidle Hpre. pose proof (r_si _ _ HR) as HS.
  destruct (sp_append_facts sp ents HS Hpre) as (HS' & Hlast' & Hents' & Hget' & Hsv' & Hc' & Hp' & Hmi' & Hmt' & Hsn' & Hpd' & Hps').
  pose proof (sp_append_get_new sp ents) as Hnew. specialize (fun i => Hnew i HS Hpre).
  destruct Hpre as (e0 & rest & -> & Hlog & Hc & Hl & Hj & Hmax). cbn [hd] in *.
  set (f := e_index e0) in *. set (ents := e0 :: rest) in *. set (sp' := sp_append sp ents) in *.
  pose proof (r_m2 _ _ HR) as M2. pose proof (f_len _ _ HR) as FL. pose proof (f_log _ _ HR) as FLog.
  pose proof (si_mp _ HS). pose proof (si_pc _ HS). pose proof (si_cl _ HS). pose proof (si_ps _ HS). pose proof (si_sl _ HS).
  (* the window obtained by keeping the entries below f and appending the new ones *)
  set (P := firstn (N.to_nat (f - im_marker (el_im (w_el w)))) (im_ents (el_im (w_el w)))).
  assert (HP : im_marker (el_im (w_el w)) <= f ->
     length P = N.to_nat (f - im_marker (el_im (w_el w))) /\
     log_ok (im_marker (el_im (w_el w))) (P ++ ents) /\
     (forall i, sp_mi sp < i -> im_marker (el_im (w_el w)) <= i ->
        nth_error (P ++ ents) (N.to_nat (i - im_marker (el_im (w_el w)))) = sp_get sp' i) /\
     im_marker (el_im (w_el w)) + nlen (P ++ ents) = sp_last sp' + 1 /\
     (im_marker (el_im (w_el w)) <= sp_mi sp ->
        exists e, nth_error (P ++ ents) (N.to_nat (sp_mi sp - im_marker (el_im (w_el w)))) = Some e /\ e_term e = sp_mt sp)).
  { intros Hmf.
    assert (HPl : length P = N.to_nat (f - im_marker (el_im (w_el w)))).
    { unfold P. rewrite firstn_length. unfold nlen in FL. lia. }
    split; [exact HPl|]. split; [|split; [|split]].
    - apply log_ok_app.
      + apply log_ok_firstn. exact FLog.
      + unfold nlen. rewrite HPl. replace (im_marker (el_im (w_el w)) + N.of_nat (N.to_nat (f - im_marker (el_im (w_el w))))) with f by lia. exact Hlog.
      + intros Hne _. cbn [hd ents].
        pose proof (last_entry_nth _ Hne) as HL. rewrite HPl in HL.
        assert (N.to_nat (f - im_marker (el_im (w_el w))) >= 1)%nat by (destruct (N.to_nat (f - im_marker (el_im (w_el w)))); [destruct P; cbn in HPl; [congruence|lia]|lia]).
        unfold P in HL at 1. rewrite nth_error_firstn_lt in HL by lia.
        destruct (N.eq_dec (f - 1) (sp_mi sp)) as [Heq|Hne2].
        * destruct (r_w4 _ _ HR) as (e & Ge & Gt); [lia|].
          replace (N.to_nat (f - im_marker (el_im (w_el w))) - 1)%nat with (N.to_nat (sp_mi sp - im_marker (el_im (w_el w)))) in HL by lia.
          rewrite Ge in HL. inversion HL. rewrite <- H6. rewrite Gt.
          unfold sp_term in Hj. rewrite Heq, N.eqb_refl in Hj. exact Hj.
        * pose proof (f_get _ _ HR (f - 1)) as FG.
          replace (N.to_nat (f - 1 - im_marker (el_im (w_el w)))) with (N.to_nat (f - im_marker (el_im (w_el w))) - 1)%nat in FG by lia.
          rewrite HL in FG. unfold sp_term in Hj. destruct (f - 1 =? sp_mi sp) eqn:E; [lia|].
          rewrite <- FG in Hj by lia. exact Hj.
    - intros i Hi1 Hi2. destruct (N.lt_ge_cases i f) as [Hlt|Hge].
      + rewrite nth_error_app1 by lia. unfold P. rewrite nth_error_firstn_lt by lia.
        rewrite (f_get _ _ HR) by lia. symmetry. apply Hget'; lia.
      + rewrite nth_error_app2 by lia. rewrite HPl. rewrite Hnew by lia. f_equal. lia.
    - rewrite nlen_app. unfold nlen at 1. rewrite HPl. rewrite Hlast'. lia.
    - intros Hmm. destruct (r_w4 _ _ HR Hmm) as (e & Ge & Gt). exists e. split; [|exact Gt].
      rewrite nth_error_app1 by lia. unfold P. rewrite nth_error_firstn_lt by lia. exact Ge. }
  (* the merge *)
  assert (HM : exists im', im_merge (el_im (w_el w)) ents = Ok im' /\ im_snap im' = im_snap (el_im (w_el w)) /\ im_aidx im' = im_aidx (el_im (w_el w))
            /\ im_aterm im' = im_aterm (el_im (w_el w)) /\ im_saved im' = N.min (sp_saved sp) (f - 1)
            /\ im_marker im' <= N.min (sp_saved sp) (f - 1) + 1
            /\ log_ok (im_marker im') (im_ents im')
            /\ (forall i, sp_mi sp < i -> im_marker im' <= i -> nth_error (im_ents im') (N.to_nat (i - im_marker im')) = sp_get sp' i)
            /\ im_marker im' + nlen (im_ents im') = sp_last sp' + 1
            /\ (im_marker im' <= sp_mi sp -> exists e, nth_error (im_ents im') (N.to_nat (sp_mi sp - im_marker im')) = Some e /\ e_term e = sp_mt sp)
            /\ (sp_snap sp = true -> im_marker im' = sp_mi sp + 1)
            /\ (forall n, im_rl im' = Some n -> n = isize (im_ents im') mod 2 ^ 64)).
  { unfold im_merge, ents. fold f. fold ents. rewrite FL.
    destruct (f =? sp_last sp + 1) eqn:E1.
    - (* plain append *)
      destruct HP as (HPl & W1 & W2 & W3 & W4); [lia|].
      assert (HPe : P = im_ents (el_im (w_el w))).
      { unfold P. apply firstn_all2. unfold nlen in FL. lia. }
      rewrite HPe in *.
      rewrite (check_append_ok (im_marker (el_im (w_el w)))) by exact W1. cbn [bind].
      rewrite check_marker_hd by (cbn [im_marker im_ents]; exact W1).
      eexists; split; [reflexivity|]. cbn [im_snap im_aidx im_aterm im_saved im_marker im_ents im_rl]. rewrite (r_s _ _ HR).
      split; [reflexivity|]. split; [reflexivity|]. split; [reflexivity|]. split; [lia|]. split; [lia|].
      split; [exact W1|]. split; [exact W2|]. split; [exact W3|]. split; [exact W4|]. split; [apply (r_snapm _ _ HR)|].
      apply rl_inc_ok. apply (r_rl _ _ HR).
    - destruct (f <=? im_marker (el_im (w_el w))) eqn:E2.
      + (* replace everything in memory *)
        cbn [bind]. rewrite check_marker_hd by (cbn [im_marker im_ents]; exact Hlog).
        eexists; split; [reflexivity|]. cbn [im_snap im_aidx im_aterm im_saved im_marker im_ents im_rl].
        split; [reflexivity|]. split; [reflexivity|]. split; [reflexivity|]. split; [lia|]. split; [lia|].
        split; [exact Hlog|]. split; [|split; [|split; [|split]]].
        * intros i Hi1 Hi2. rewrite Hnew by lia. reflexivity.
        * rewrite Hlast'. lia.
        * intros; lia.
        * intros Es. pose proof (r_snapm _ _ HR Es). lia.
        * intros n Hn. apply (rl_set_ok _ _ _ Hn).
      + (* truncate and append *)
        destruct HP as (HPl & W1 & W2 & W3 & W4); [lia|].
        unfold im_get_entries. rewrite FL.
        destruct ((f <? im_marker (el_im (w_el w))) || (im_marker (el_im (w_el w)) <? im_marker (el_im (w_el w)))) eqn:E3; [lia|].
        destruct (sp_last sp + 1 <? f) eqn:E4; [lia|]. cbn [bind].
        replace (N.to_nat (im_marker (el_im (w_el w)) - im_marker (el_im (w_el w)))) with 0%nat by lia. cbn [skipn]. fold P.
        rewrite (check_append_ok (im_marker (el_im (w_el w)))) by exact W1. cbn [bind].
        rewrite check_marker_hd by (cbn [im_marker im_ents]; exact W1).
        eexists; split; [reflexivity|]. cbn [im_snap im_aidx im_aterm im_saved im_marker im_ents im_rl]. rewrite (r_s _ _ HR).
        split; [reflexivity|]. split; [reflexivity|]. split; [reflexivity|]. split; [lia|]. split; [lia|].
        split; [exact W1|]. split; [exact W2|]. split; [exact W3|]. split; [exact W4|]. split; [apply (r_snapm _ _ HR)|].
        intros n Hn. rewrite (rl_set_ok _ _ _ Hn), isize_app. f_equal. lia. }
  destruct HM as (im' & Hm & I1 & I2 & I3 & I4 & I5 & I6 & I7 & I8 & I9 & I10 & I11).
  unfold el_append, ents. fold f. fold ents. rewrite (r_c _ _ HR).
  destruct (f <=? sp_committed sp) eqn:E; [lia|].  rewrite Hm. cbn [bind].
  eexists; split; [reflexivity|].
  apply R_el_update with (sp := sp); auto; cbn [el_im el_committed el_processed]; try lia.
  - rewrite Hps'. apply (idle_cover _ HS Hidle).
  - rewrite Hp'. apply (r_p _ _ HR).
  - intros i A B. apply sp_term_eq; auto. destruct (N.eq_dec i (sp_mi sp)) as [->|Hne].
    + unfold sp_get. rewrite Hmi'. destruct (sp_mi sp <=? sp_mi sp) eqn:Ex; [reflexivity|lia].
    + apply Hget'; lia.
  - rewrite Hsv'. intros i A B. apply Hget'; lia.
  - rewrite Hsv', Hlast'. unfold ents. rewrite nlen_cons. lia.
Qed.

Lemma step_append w sp ents : R w sp -> wf_op sp (OAppend ents) = true ->
  exists w', step w (OAppend ents) = Ok w' /\ R w' (sp_append sp ents).
Proof.
  intros HR Hwf. cbn [wf_op] in Hwf. destruct ents as [|e0 rest]; [discriminate|].
  repeat (apply andb_true_iff in Hwf as [Hwf ?]).
  unfold idle in Hwf. destruct (sp_pend sp) eqn:Ep; [discriminate|].
  pose proof (r_si _ _ HR) as HS.
  destruct (bool_log_ok _ _ _ H3 H0) as (Hlog & Hge); [lia|].
  destruct (el_append_R w sp (e0 :: rest) HR Ep) as (el' & He & HR').
  { exists e0, rest. split; [reflexivity|]. split; [exact Hlog|]. split; [lia|]. split; [lia|]. split; [|lia].
    specialize (Hge e0 (or_introl eq_refl)). lia. }
  cbn [step]. unfold w_append. rewrite He. cbn [bind]. eexists; split; [reflexivity|]. exact HR'.
Qed.

(* ------------------------------------------------------------------ *)
(* initial states (restart over a persisted log)                       *)

Definition wf_init (mi mt : N) (ents : list entry) (c : N) : bool :=
  contiguous_from (mi + 1) ents && terms_from 1 ents && (c <=? mi + nlen ents)
  && (mi + nlen ents <? max_index) && ((0 <? mi) || (mt =? 0)).

Lemma find_in_unique a rest e :
  In e a -> (forall x, In x a -> e_index x = e_index e -> x = e) ->
  find (fun x => e_index x =? e_index e) (a ++ rest) = Some e.
Proof.
  induction a as [|x a IH]; intros Hin Hu; [destruct Hin|]. cbn [app find].
  destruct (e_index x =? e_index e) eqn:E.
  - f_equal. apply Hu; [left; reflexivity|lia].
  - apply IH.
    + destruct Hin as [->|]; [lia|auto].
    + intros y Hy. apply Hu. right. exact Hy.
Qed.

Lemma find_not_in a rest i :
  (forall x, In x a -> e_index x <> i) ->
  find (fun x => e_index x =? i) (a ++ rest) = find (fun x => e_index x =? i) rest.
Proof.
  induction a as [|x a IH]; intros H; [reflexivity|]. cbn [app find].
  destruct (e_index x =? i) eqn:E.
  - exfalso. apply (H x); [left; reflexivity|lia].
  - apply IH. intros y Hy. apply H. right. exact Hy.
Qed.

Lemma log_ok_unique b l x y : log_ok b l -> In x l -> In y l -> e_index x = e_index y -> x = y.
Proof.
  intros H Hx Hy E. apply In_nth_error in Hx as [kx Kx]. apply In_nth_error in Hy as [ky Ky].
  destruct (H _ _ Kx) as (A & _). destruct (H _ _ Ky) as (B & _).
  assert (kx = ky) by lia. subst. congruence.
Qed.

(* the store after saving a well-formed run of entries *)
Lemma st_save_get st b l i : log_ok b l -> l <> [] ->
  st_get (st_save st l) i =
  if (b <=? i) && (i <? b + nlen l) then nth_error l (N.to_nat (i - b)) else st_get st i.
Proof.
  intros H Hne. unfold st_save, st_get. destruct l as [|x l']; [congruence|]. set (l := x :: l') in *.
  cbn [st_ents]. destruct ((b <=? i) && (i <? b + nlen l)) eqn:E.
  - destruct (nth_error l (N.to_nat (i - b))) as [e|] eqn:En.
    2:{ apply nth_error_None in En. unfold nlen in E. lia. }
    destruct (H _ _ En) as (A & _). replace i with (e_index e) by lia.
    apply find_in_unique.
    + apply in_rev. rewrite rev_involutive. eapply nth_error_In; eauto.
    + intros y Hy Ey. apply in_rev in Hy. eapply log_ok_unique; eauto. eapply nth_error_In; eauto.
  - apply find_not_in. intros y Hy. apply in_rev in Hy. apply In_nth_error in Hy as [k K].
    destruct (H _ _ K) as (A & _). assert (k < length l)%nat by (apply nth_error_Some; congruence).
    unfold nlen in E. lia.
Qed.

Lemma R_init_opt skip rlon mi mt ents c limit : wf_init mi mt ents c = true ->
  R (w_init_opt skip rlon mi mt ents c limit) (sp_init mi mt ents c).
Proof.
  intros Hwf. unfold wf_init in Hwf. repeat (apply andb_true_iff in Hwf as [Hwf ?]).
  destruct (bool_log_ok _ _ _ Hwf H2) as (Hlog & _); [lia|].
  set (n := nlen ents) in *. assert (Hn : n = nlen ents) by reflexivity. clearbody n.
  (* the reader after replay *)
  assert (HLR : exists lr, (match lr_set_range (if 0 <? mi then mkLR mi mt 1 mi else lr_new) (mi + 1) n with Ok l => l | _ => (if 0 <? mi then mkLR mi mt 1 mi else lr_new) end) = lr
                /\ lr_marker lr = mi /\ lr_mterm lr = mt /\ lr_len lr = 1 + n /\ lr_ssidx lr <= mi).
  { eexists; split; [reflexivity|]. unfold lr_set_range, lr_new, lr_first, c19_logreader_init_length.
    destruct (n =? 0) eqn:En.
    - destruct (0 <? mi) eqn:Em; cbn [lr_marker lr_len lr_mterm lr_ssidx]; repeat split; try lia.
    - destruct (0 <? mi) eqn:Em; cbn [lr_marker lr_len lr_mterm lr_ssidx].
      + destruct (mi + 1 + n - 1 <? mi + 1) eqn:E1; [lia|]. destruct (mi + 1 <? mi + 1) eqn:E2; [lia|].
        destruct (mi + 1 - mi <? 1) eqn:E3; [lia|]. destruct (1 =? mi + 1 - mi) eqn:E4; [|lia].
        cbn [lr_marker lr_len lr_mterm lr_ssidx]. repeat split; lia.
      + destruct (mi + 1 + n - 1 <? 0 + 1) eqn:E1; [lia|]. destruct (mi + 1 <? 0 + 1) eqn:E2; [lia|].
        destruct (mi + 1 - 0 <? 1) eqn:E3; [lia|]. destruct (1 =? mi + 1 - 0) eqn:E4; [|lia].
        cbn [lr_marker lr_len lr_mterm lr_ssidx]. repeat split; lia. }
  destruct HLR as (lr & Elr & L1 & L2 & L3 & L4).
  unfold w_init_opt. rewrite <- ?Hn. rewrite Elr. unfold el_new, im_new, lr_first, lr_last. rewrite L1, L3.
  assert (Hlast : sp_last (sp_init mi mt ents c) = mi + n) by (unfold sp_last; cbn; lia).
  unfold sp_init in *.
  constructor; cbn [w_el w_lr w_st w_queue el_im el_committed el_processed im_saved im_marker im_ents im_snap im_aidx im_aterm im_rl
                    sp_init sp_mi sp_mt sp_ents sp_committed sp_processed sp_saved sp_snap sp_pend sp_persisted]; rewrite <- ?Hn; try lia.
  - constructor; cbn; rewrite <- ?Hn; unfold sp_last; cbn; rewrite <- ?Hn; try lia; try congruence.
    + exact Hlog.
    + change max_index with 4611686018427387904 in H0. lia.
  - apply log_ok_nil.
  - intros i Hi1 Hi2. rewrite (proj2 (nth_error_None (@nil entry) _)) by (cbn; lia).
    symmetry; apply sp_get_none; unfold sp_last; cbn [sp_mi sp_ents]; lia.
  - unfold sp_last. cbn [sp_mi sp_ents]. rewrite nlen_nil. lia.
  - reflexivity.
  - unfold rd_ok, cover, lr_last, sp_last. cbn [sp_snap sp_persisted sp_saved sp_mi sp_mt sp_ents negb orb]. rewrite <- ?Hn.
    intros _. rewrite L1, L3. repeat split; try lia.
  - unfold cover. cbn [sp_snap sp_persisted sp_saved sp_mi sp_mt sp_ents]. rewrite <- ?Hn. intros i H3 H4.
    destruct ents as [|e0 ents'] eqn:Ee; [cbn in Hn; lia|]. rewrite <- Ee in *.
    rewrite (st_save_get _ (mi + 1)) by (auto; congruence).
    destruct ((mi + 1 <=? i) && (i <? mi + 1 + nlen ents)) eqn:E; [|lia].
    unfold sp_get. cbn [sp_mi sp_ents]. destruct (i <=? mi) eqn:E5; [lia|]. f_equal. lia.
  - unfold cover. cbn [sp_snap sp_persisted sp_saved sp_mi sp_mt sp_ents]. rewrite <- ?Hn. intros H3.
    destruct ents as [|e0 ents'] eqn:Ee; [cbn in Hn; lia|]. rewrite <- Ee in *.
    unfold st_save. rewrite Ee. rewrite <- Ee. cbn [st_max]. rewrite (log_ok_last _ _ Hlog) by congruence. rewrite <- ?Hn. lia.
  - split; [lia|]. unfold rd_ok. cbn [sp_snap sp_persisted negb orb]. congruence.
  - reflexivity.
  - destruct rlon; intros k Hk; inversion Hk. reflexivity.
Qed.

Lemma R_init_rl rlon mi mt ents c limit : wf_init mi mt ents c = true ->
  R (w_init_rl rlon mi mt ents c limit) (sp_init mi mt ents c).
Proof. apply R_init_opt. Qed.

Lemma R_init mi mt ents c limit : wf_init mi mt ents c = true ->
  R (w_init mi mt ents c limit) (sp_init mi mt ents c).
Proof. apply R_init_rl. Qed.

(* ------------------------------------------------------------------ *)
(* restore                                                             *)

Lemma describe_ok w sp : R w sp -> describe w = Ok tt.
Proof. intros HR. unfold describe. rewrite (v_term _ _ _ HR). reflexivity. Qed.

Lemma with_el_id w : with_el w (w_el w) = w.
Proof. destruct w; reflexivity. Qed.

Lemma sp_term_in sp i : SI sp -> sp_term sp i <> 0 -> sp_mi sp <= i /\ i <= sp_last sp.
Proof.
  intros HS H. destruct (N.lt_ge_cases i (sp_mi sp)) as [A|A]; [rewrite sp_term_out in H; auto; lia|].
  destruct (N.lt_ge_cases (sp_last sp) i) as [B|B]; [rewrite sp_term_out in H; auto; lia|]. lia.
Qed.

Lemma step_restore w sp i t : R w sp -> wf_op sp (ORestore i t) = true ->
  exists w', step w (ORestore i t) = Ok w' /\ R w' (sp_restore sp i t).
Proof.
  intros HR Hwf. cbn [wf_op] in Hwf. apply andb_true_iff in Hwf as [Hwf Hi]. apply andb_true_iff in Hwf as [Hidle Ht].
  pose proof (r_si _ _ HR) as HS.
  cbn [step]. unfold w_restore, sp_restore. rewrite (r_c _ _ HR).
  destruct (i <=? sp_committed sp) eqn:E1.
  - rewrite (describe_ok _ _ HR). cbn [bind]. eexists; split; [reflexivity|exact HR].
  - rewrite (v_term _ _ _ HR). cbn [bind]. destruct (sp_term sp i =? t) eqn:E2.
    + (* the snapshot's entry is in the log: only commit *)
      destruct (sp_term_in sp i HS) as (A & B); [lia|].
      apply (step_commit_to w sp i HR). cbn [wf_op]. rewrite Hidle. cbn [andb]. lia.
    + rewrite (describe_ok _ _ HR). cbn [bind]. unfold el_restore. rewrite (r_c _ _ HR).
      destruct (i <? sp_committed sp) eqn:E3; [lia|]. cbn [bind]. eexists; split; [reflexivity|].
      unfold idle in Hidle. destruct (sp_pend sp) eqn:Ep; [discriminate|].
      destruct (idle_cover _ HS Ep) as (Hpers & _). rewrite Hpers.
      pose proof (si_mp _ HS). pose proof (si_pc _ HS). pose proof (r_ss _ _ HR) as (SS1 & _).
      constructor; cbn [with_el w_el w_lr w_st w_queue el_im el_committed el_processed im_restore
                         im_saved im_marker im_ents im_snap im_aidx im_aterm
                         sp_mi sp_mt sp_ents sp_committed sp_processed sp_saved sp_snap sp_pend sp_persisted]; try lia; try reflexivity.
      * constructor; cbn [sp_mi sp_mt sp_ents sp_committed sp_processed sp_saved sp_snap sp_pend sp_persisted];
          unfold sp_last; cbn [sp_mi sp_ents]; rewrite ?nlen_nil; try lia; try discriminate.
        apply log_ok_nil.
      * apply log_ok_nil.
      * intros j Hj1 Hj2. rewrite (proj2 (nth_error_None (@nil entry) _)) by (cbn; lia).
        symmetry. apply sp_get_none. unfold sp_last. cbn [sp_mi sp_ents]. rewrite nlen_nil. lia.
      * unfold sp_last. cbn [sp_mi sp_ents]. rewrite nlen_nil. lia.
      * intros _ _. unfold sp_term. cbn [sp_mi sp_mt]. rewrite N.eqb_refl. split; [reflexivity|lia].
      * unfold rd_ok. cbn [sp_snap sp_persisted negb orb]. discriminate.
      * unfold cover. cbn [sp_persisted sp_saved sp_mi]. intros; lia.
      * unfold cover. cbn [sp_persisted sp_saved sp_mi]. intros; lia.
      * pose proof (r_q _ _ HR) as Q. rewrite Ep in Q. exact Q.
      * cbn [im_rl]. intros n Hn. rewrite (rl_set_ok _ _ _ Hn). reflexivity.
Qed.

(* ------------------------------------------------------------------ *)
(* GetUpdate                                                           *)

Lemma limit_rest_prefix t m A : exists n, limit_rest t m A = firstn n A.
Proof.
  revert t. induction A as [|e A IH]; intros t; [exists 0%nat; reflexivity|]. cbn [limit_rest].
  destruct (m <? t + esize e); [exists 0%nat; reflexivity|].
  destruct (IH (t + esize e)) as [n Hn]. exists (S n). cbn [firstn]. rewrite Hn. reflexivity.
Qed.
Lemma limit_size_prefix A m : A <> [] -> exists n, limit_size A m = firstn (S n) A.
Proof.
  destruct A as [|e A]; [congruence|]. intros _. cbn [limit_size].
  destruct (limit_rest_prefix (esize e) m A) as [n Hn]. exists n. cbn [firstn]. rewrite Hn. reflexivity.
Qed.

Lemma sp_to_apply_ok sp limit : SI sp -> exists l, sp_to_apply sp limit = Ok l /\
  (l <> [] -> sp_processed sp < e_index (last_entry l) /\ e_index (last_entry l) <= sp_committed sp).
Proof.
  intros HS. unfold sp_to_apply, sp_has_to_apply. 
  destruct (sp_first_not_applied sp <? sp_committed sp + 1) eqn:E.
  2:{ exists []. split; [reflexivity|congruence]. }
  pose proof (si_mp _ HS). pose proof (si_pc _ HS). pose proof (si_cl _ HS).
  unfold sp_first_not_applied, sp_first in *. set (lo := N.max (sp_processed sp + 1) (sp_mi sp + 1)) in *.
  unfold sp_entries, sp_first.
  destruct (sp_committed sp + 1 <? lo) eqn:E0; [lia|].
  assert (Hsn : sp_snap sp && is_nil (sp_ents sp) = false).
  { destruct (sp_snap sp) eqn:Es; [|reflexivity]. destruct (sp_ents sp) eqn:Ee; [|reflexivity].
    exfalso. unfold sp_last in *. rewrite Ee in *. rewrite nlen_nil in *. lia. }
  rewrite Hsn. destruct (lo <? sp_mi sp + 1) eqn:E1; [lia|].
  destruct (sp_last sp + 1 <? sp_committed sp + 1) eqn:E2; [lia|].
  destruct (lo =? sp_committed sp + 1) eqn:E3; [lia|].
  eexists; split; [reflexivity|]. intros Hne.
  set (A := sp_slice sp lo (sp_committed sp + 1)) in *.
  assert (HL : length A = N.to_nat (sp_committed sp + 1 - lo)) by (apply slice_len; lia).
  assert (HA : A <> []) by (destruct A; cbn in HL; [lia|congruence]).
  destruct (limit_size_prefix A limit HA) as [n Hn].
  assert (HLog : log_ok lo (limit_size A limit)).
  { rewrite Hn. apply log_ok_firstn. apply slice_log; auto. lia. }
  rewrite (log_ok_last _ _ HLog Hne). pose proof (limit_size_len A limit).
  assert (1 <= nlen (limit_size A limit)) by (destruct (limit_size A limit); [congruence|rewrite nlen_cons; lia]).
  unfold nlen in *. lia.
Qed.

Lemma to_save_facts sp : SI sp ->
  let S := sp_to_save sp in
  log_ok (sp_saved sp + 1) S /\ nlen S = sp_last sp - sp_saved sp /\
  (S <> [] -> e_index (last_entry S) = sp_last sp /\ e_term (last_entry S) = sp_term sp (sp_last sp)
              /\ 1 <= e_term (last_entry S)).
Proof.
  intros HS S. pose proof (si_mp _ HS). pose proof (si_ps _ HS). pose proof (si_sl _ HS).
  assert (HL : log_ok (sp_saved sp + 1) S).
  { unfold S, sp_to_save. replace (sp_saved sp + 1) with (sp_mi sp + 1 + N.of_nat (N.to_nat (sp_saved sp - sp_mi sp))) by lia.
    apply log_ok_skipn. apply (si_log _ HS). }
  assert (HN : nlen S = sp_last sp - sp_saved sp).
  { unfold S, sp_to_save. rewrite nlen_skipn. unfold sp_last in *. lia. }
  split; [exact HL|]. split; [exact HN|]. intros Hne.
  pose proof (log_ok_last _ _ HL Hne) as HI.
  assert (1 <= nlen S) by (destruct S; [congruence|rewrite nlen_cons; lia]).
  split; [lia|].
  pose proof (last_entry_nth S Hne) as HLn. unfold S at 1, sp_to_save in HLn. rewrite nth_error_skipn in HLn.
  assert (HG : sp_get sp (sp_last sp) = Some (last_entry S)).
  { unfold sp_get. destruct (sp_last sp <=? sp_mi sp) eqn:E; [lia|]. rewrite <- HLn. f_equal. unfold nlen in *. lia. }
  unfold sp_term. destruct (sp_last sp =? sp_mi sp) eqn:E; [lia|]. rewrite HG.
  split; [reflexivity|]. apply (sp_get_some _ _ _ HS HG).
Qed.

Lemma step_get_update limit w sp more la : R w sp -> w_limit w = limit ->
  wf_op sp (OGetUpdate more la) = true ->
  exists w', step w (OGetUpdate more la) = Ok w' /\ R w' (sp_get_update sp more limit) /\ w_limit w' = limit.
Proof.
  intros HR Hlim Hwf. cbn [wf_op] in Hwf. apply andb_true_iff in Hwf as [Hidle Hla].
  unfold idle in Hidle. destruct (sp_pend sp) eqn:Ep; [discriminate|]. clear Hidle.
  pose proof (r_si _ _ HR) as HS. destruct (idle_cover _ HS Ep) as (Hpers & Hcov).
  pose proof (si_mp _ HS). pose proof (si_pc _ HS). pose proof (si_cl _ HS). pose proof (si_ps _ HS). pose proof (si_sl _ HS).
  destruct (sp_to_apply_ok sp limit HS) as (l & Hl & Hlp).
  destruct (to_save_facts sp HS) as (SL & SN & SF).
  remember (if more then l else []) as apl eqn:Eapl.
  assert (Happ : (if more then el_to_apply (w_el w) (w_lr w) (w_st w) (w_limit w) else Ok []) = Ok apl).
  { subst apl. destruct more; [|reflexivity]. rewrite Hlim, (v_to_apply _ _ _ HR). exact Hl. }
  assert (Happ2 : (if more then match sp_to_apply sp limit with Ok l0 => l0 | _ => [] end else []) = apl).
  { subst apl. destruct more; [|reflexivity]. rewrite Hl. reflexivity. }
  assert (Hap : apl <> [] -> sp_processed sp < e_index (last_entry apl) /\ e_index (last_entry apl) <= sp_committed sp).
  { subst apl. destruct more; [exact Hlp|congruence]. }
  cbn [step]. unfold w_get_update, get_update. cbv zeta.
  rewrite Happ, (v_to_save _ _ HR), (r_c _ _ HR). cbn [bind].
  (* validateUpdate never fires *)
  assert (HV : forall cm, (cm = 0 \/ cm = sp_committed sp) -> validate_update cm apl (sp_to_save sp) = None).
  { intros cm Hcm. unfold validate_update.
    destruct apl as [|a apl'] eqn:Ea; [cbn [is_nil negb]; rewrite !andb_false_r; reflexivity|]. rewrite <- Ea in *.
    destruct Hap as (A1 & A2); [congruence|].
    assert (Hn1 : is_nil apl = false) by (rewrite Ea; reflexivity). rewrite Hn1. cbn [negb].
    destruct ((0 <? cm) && true && (cm <? e_index (last_entry apl))) eqn:C1; [lia|].
    destruct (sp_to_save sp) as [|s0 S'] eqn:Es; [reflexivity|]. rewrite <- Es in *.
    destruct SF as (F1 & _); [congruence|]. rewrite F1.
    assert (Hn2 : is_nil (sp_to_save sp) = false) by (rewrite Es; reflexivity). rewrite Hn2. cbn [negb andb].
    destruct (sp_last sp <? e_index (last_entry apl)) eqn:C2; [lia|]. reflexivity. }
  rewrite HV by (destruct (sp_committed sp =? w_prev w); auto).
  eexists; split; [reflexivity|]. split; [|exact Hlim].
  assert (Hq : w_queue w = []) by (pose proof (r_q _ _ HR) as Q; rewrite Ep in Q; exact Q).
  rewrite Hq. cbn [app].
  unfold sp_get_update. cbv zeta. rewrite Happ2.
  (* the snapshot handed out *)
  assert (Hsnapv : match im_snap (el_im (w_el w)) with Some (0, _) => None | s => s end
                   = if sp_snap sp then Some (sp_mi sp, sp_mt sp) else None).
  { rewrite (r_snap _ _ HR). destruct (sp_snap sp) eqn:Es; [|reflexivity].
    destruct (si_snap _ HS Es) as (_ & X). destruct (sp_mi sp); [lia|reflexivity]. }
  rewrite Hsnapv.
  constructor; cbn [w_el w_lr w_st w_queue sp_mi sp_mt sp_ents sp_committed sp_processed sp_saved sp_snap sp_pend sp_persisted].
  - destruct HS. constructor; cbn [sp_mi sp_mt sp_ents sp_committed sp_processed sp_saved sp_snap sp_pend sp_persisted]; auto; discriminate.
  - apply (r_c _ _ HR).
  - apply (r_p _ _ HR).
  - apply (r_s _ _ HR).
  - apply (r_m2 _ _ HR).
  - apply (r_w1 _ _ HR).
  - apply (r_w2 _ _ HR).
  - apply (r_w3 _ _ HR).
  - apply (r_w4 _ _ HR).
  - apply (r_snapm _ _ HR).
  - apply (r_snap _ _ HR).
  - apply (r_a1 _ _ HR).
  - apply (r_a2 _ _ HR).
  - pose proof (r_lr _ _ HR) as X. unfold rd_ok, cover, sp_last in *. rewrite Hpers in X.
    cbn [sp_snap sp_persisted sp_saved sp_mi sp_mt sp_ents]. cbv beta iota in X. cbv beta iota. exact X.
  - pose proof (r_st _ _ HR) as X. unfold cover, sp_get in *. rewrite Hpers in X.
    cbn [sp_snap sp_persisted sp_saved sp_mi sp_mt sp_ents]. cbv beta iota in X. cbv beta iota. exact X.
  - pose proof (r_stmax _ _ HR) as X. unfold cover in *. rewrite Hpers in X.
    cbn [sp_snap sp_persisted sp_saved sp_mi sp_mt sp_ents]. cbv beta iota in X. cbv beta iota. exact X.
  - pose proof (r_ss _ _ HR) as X. unfold rd_ok in *. rewrite Hpers in X.
    cbn [sp_snap sp_persisted sp_saved sp_mi sp_mt sp_ents]. exact X.
  - eexists; split; [reflexivity|].
    unfold ud_rel. cbn [ud_save ud_uc ud_snap spd_save_last spd_processed spd_snap
                        sp_mi sp_mt sp_ents sp_committed sp_processed sp_saved sp_snap].
    split; [reflexivity|].
    split.
    { unfold update_commit. destruct (sp_to_save sp) as [|s0 S'] eqn:Es.
      - rewrite nlen_nil in SN. destruct (sp_snap sp); cbn [uc_stable_to]; split; try reflexivity; unfold sp_last in *; cbn [sp_mi sp_ents]; lia.
      - rewrite <- Es in *. destruct SF as (F1 & F2 & F3); [congruence|].
        assert (sp_saved sp < sp_last sp) by (rewrite Es, nlen_cons in SN; lia).
        destruct (sp_snap sp); cbn [uc_stable_to uc_stable_term]; (split; [reflexivity|]); (split; [reflexivity|]);
          (split; [exact F1|]); (split; [|exact H4]); rewrite F2, F1; reflexivity. }
    split.
    { unfold update_commit. destruct (sp_to_save sp); destruct (sp_snap sp); destruct apl; reflexivity. }
    split.
    { destruct (sp_snap sp) eqn:Es.
      - destruct (si_snap _ HS Es) as (X1 & X2). right. destruct apl as [|a apl'] eqn:Ea.
        + lia.
        + rewrite <- Ea in *. destruct Hap; [congruence|]. lia.
      - destruct apl as [|a apl'] eqn:Ea; [left; reflexivity|]. right. rewrite <- Ea in *. destruct Hap; [congruence|]. lia. }
    split.
    { unfold update_commit. destruct (sp_to_save sp); destruct (sp_snap sp); destruct apl; cbn [uc_last_applied]; lia. }
    split; [reflexivity|]. split.
    { unfold update_commit. destruct (sp_to_save sp); destruct (sp_snap sp); destruct apl; reflexivity. }
    reflexivity.
  - apply (r_rl _ _ HR).
Qed.

(* ------------------------------------------------------------------ *)
(* Persist                                                             *)

Lemma lr_append_ok lr sp : SI sp ->
  lr_marker lr = sp_mi sp -> 1 <= lr_len lr -> sp_saved sp <= lr_last lr ->
  (sp_saved sp = sp_last sp -> lr_last lr = sp_last sp) ->
  exists lr2, lr_append lr (sp_to_save sp) = Ok lr2 /\ lr_marker lr2 = sp_mi sp /\ lr_mterm lr2 = lr_mterm lr
     /\ lr_ssidx lr2 = lr_ssidx lr /\ 1 <= lr_len lr2 /\ lr_last lr2 = sp_last sp.
Proof.
  intros HS Hm Hl Hc He. destruct (to_save_facts sp HS) as (SL & SN & SF).
  pose proof (si_mp _ HS). pose proof (si_ps _ HS). pose proof (si_sl _ HS).
  destruct (sp_to_save sp) as [|s0 S'] eqn:Es.
  - rewrite nlen_nil in SN. exists lr. cbn [lr_append]. repeat split; auto. apply He. lia.
  - rewrite <- Es in *. destruct SF as (F1 & _ & _); [congruence|].
    assert (H0i : e_index s0 = sp_saved sp + 1) by (rewrite Es in SL; apply (log_ok_hd _ _ _ SL)).
    assert (HN : 1 <= nlen (sp_to_save sp)) by (rewrite Es, nlen_cons; lia).
    unfold lr_append. rewrite Es. rewrite <- Es. rewrite H0i, F1.
    destruct (negb (sp_saved sp + 1 + nlen (sp_to_save sp) - 1 =? sp_last sp)) eqn:E0; [lia|].
    unfold lr_set_range, lr_first, lr_last in *. rewrite Hm in *.
    destruct (nlen (sp_to_save sp) =? 0) eqn:E1; [lia|].
    destruct (sp_saved sp + 1 + nlen (sp_to_save sp) - 1 <? sp_mi sp + 1) eqn:E2; [lia|].
    destruct (sp_saved sp + 1 <? sp_mi sp + 1) eqn:E3; [lia|].
    destruct (sp_saved sp + 1 - sp_mi sp <? lr_len lr) eqn:E4.
    + eexists; split; [reflexivity|]. cbn [lr_marker lr_mterm lr_len lr_ssidx]. repeat split; auto; lia.
    + destruct (lr_len lr =? sp_saved sp + 1 - sp_mi sp) eqn:E5; [|lia].
      eexists; split; [reflexivity|]. cbn [lr_marker lr_mterm lr_len lr_ssidx]. repeat split; auto; lia.
Qed.

Lemma step_persist w sp : R w sp -> wf_op sp OPersist = true ->
  exists w', step w OPersist = Ok w' /\ R w' (sp_persist sp) /\ w_limit w' = w_limit w.
Proof.
  intros HR Hwf. cbn [wf_op] in Hwf. apply andb_true_iff in Hwf as [Hidle Hnp].
  unfold idle in Hidle. destruct (sp_pend sp) as [p|] eqn:Ep; [|discriminate]. clear Hidle.
  assert (Hpers : sp_persisted sp = false) by (destruct (sp_persisted sp); [discriminate|reflexivity]). clear Hnp.
  pose proof (r_si _ _ HR) as HS.
  pose proof (si_mp _ HS). pose proof (si_pc _ HS). pose proof (si_cl _ HS). pose proof (si_ps _ HS). pose proof (si_sl _ HS).
  pose proof (r_q _ _ HR) as Q. rewrite Ep, Hpers in Q. destruct Q as (ud & Hq & Hud).
  pose proof Hud as Hud0. destruct Hud0 as (U1 & _ & _ & _ & _ & _ & _ & U8).
  assert (Hcov : cover sp = sp_saved sp) by (unfold cover; rewrite Hpers; reflexivity).
  (* the reader after the snapshot (if any) has been applied *)
  assert (HL1 : exists lr1,
     (match ud_snap ud with
      | Some (i, t) => match lr_apply_snapshot (w_lr w) i t with Ok l => l | _ => w_lr w end
      | None => w_lr w end) = lr1 /\
     lr_marker lr1 = sp_mi sp /\ lr_mterm lr1 = sp_mt sp /\ 1 <= lr_len lr1 /\ sp_saved sp <= lr_last lr1 /\
     (sp_saved sp = sp_last sp -> lr_last lr1 = sp_last sp) /\ lr_ssidx lr1 <= sp_mi sp).
  { rewrite U8. destruct (sp_snap sp) eqn:Es.
    - destruct (si_snap _ HS Es) as (X1 & X2).
      destruct (r_ss _ _ HR) as (_ & S2). specialize (S2 ltac:(unfold rd_ok; rewrite Es, Hpers; reflexivity)).
      unfold lr_apply_snapshot. destruct (sp_mi sp <=? lr_ssidx (w_lr w)) eqn:E; [lia|].
      eexists; split; [reflexivity|]. unfold lr_last. cbn [lr_marker lr_mterm lr_len lr_ssidx]. repeat split; lia.
    - destruct (r_lr _ _ HR) as (A & B & C & D & E); [unfold rd_ok; rewrite Es; reflexivity|].
      rewrite Hcov in *. eexists; split; [reflexivity|]. repeat split; auto. apply (r_ss _ _ HR). }
  destruct HL1 as (lr1 & El1 & A1 & A2 & A3 & A4 & A5 & A6).
  destruct (lr_append_ok lr1 sp HS A1 A3 A4 A5) as (lr2 & Hap & B1 & B2 & B3 & B4 & B5).
  cbn [step]. unfold w_persist. rewrite Hq. cbn [persist_first p_persisted p_ud]. unfold persist_update.
  rewrite El1, U1, Hap. cbn [bind].
  eexists; split; [reflexivity|]. split; [|reflexivity].
  destruct (to_save_facts sp HS) as (SL & SN & SF).
  unfold sp_persist. rewrite Ep.
  constructor; cbn [w_el w_lr w_st w_queue sp_mi sp_mt sp_ents sp_committed sp_processed sp_saved sp_snap sp_pend sp_persisted].
  - destruct HS. constructor; cbn [sp_mi sp_mt sp_ents sp_committed sp_processed sp_saved sp_snap sp_pend sp_persisted]; auto. intros _. congruence.
  - apply (r_c _ _ HR).
  - apply (r_p _ _ HR).
  - apply (r_s _ _ HR).
  - apply (r_m2 _ _ HR).
  - apply (r_w1 _ _ HR).
  - apply (r_w2 _ _ HR).
  - apply (r_w3 _ _ HR).
  - apply (r_w4 _ _ HR).
  - apply (r_snapm _ _ HR).
  - apply (r_snap _ _ HR).
  - apply (r_a1 _ _ HR).
  - apply (r_a2 _ _ HR).
  - intros _. unfold cover, sp_last. cbn [sp_persisted sp_mi sp_ents]. fold (sp_last sp).
    rewrite B1, B2, A2, B5. repeat split; auto; lia.
  - unfold cover, sp_last, sp_get. cbn [sp_persisted sp_mi sp_ents]. fold (sp_last sp). fold (sp_get sp).
    intros i Hi1 Hi2. destruct (sp_to_save sp) as [|s0 S'] eqn:Es.
    + rewrite nlen_nil in SN. cbn [st_save]. apply (r_st _ _ HR); auto. rewrite Hcov. lia.
    + rewrite <- Es in *. rewrite (st_save_get _ (sp_saved sp + 1)) by (auto; congruence).
      destruct ((sp_saved sp + 1 <=? i) && (i <? sp_saved sp + 1 + nlen (sp_to_save sp))) eqn:E.
      * unfold sp_to_save. rewrite nth_error_skipn. unfold sp_get. destruct (i <=? sp_mi sp) eqn:E2; [lia|]. f_equal. lia.
      * apply (r_st _ _ HR); auto. rewrite Hcov. lia.
  - unfold cover, sp_last. cbn [sp_persisted sp_mi sp_ents]. fold (sp_last sp). intros Hlt.
    destruct (sp_to_save sp) as [|s0 S'] eqn:Es.
    + rewrite nlen_nil in SN. cbn [st_save]. pose proof (r_stmax _ _ HR) as X. rewrite Hcov in X. assert (sp_saved sp = sp_last sp) by lia. lia.
    + rewrite <- Es in *. destruct SF as (F1 & _); [congruence|]. unfold st_save. rewrite Es. rewrite <- Es. cbn [st_max]. lia.
  - rewrite B3. split; [exact A6|]. unfold rd_ok. cbn [sp_persisted sp_snap]. rewrite orb_true_r. discriminate.
  - eexists; split; [reflexivity|]. exact Hud.
  - apply (r_rl _ _ HR).
Qed.

(* ------------------------------------------------------------------ *)
(* Commit                                                              *)

Lemma step_commit w sp : R w sp -> wf_op sp OCommit = true ->
  exists w', step w OCommit = Ok w' /\ R w' (sp_commit sp) /\ w_limit w' = w_limit w.
Proof.
  intros HR Hwf. cbn [wf_op] in Hwf. apply andb_true_iff in Hwf as [Hidle Hpers].
  unfold idle in Hidle. destruct (sp_pend sp) as [p|] eqn:Ep; [|discriminate]. clear Hidle.
  pose proof (r_si _ _ HR) as HS.
  pose proof (si_mp _ HS) as S1. pose proof (si_pc _ HS) as S2. pose proof (si_cl _ HS) as S3.
  pose proof (si_ps _ HS) as S4. pose proof (si_sl _ HS) as S5.
  pose proof (r_q _ _ HR) as Q. rewrite Ep, Hpers in Q. destruct Q as (ud & Hq & Hud).
  destruct Hud as (U1 & U2 & U3 & U4 & U5 & U6 & U7 & U8).
  assert (Hcov : cover sp = sp_last sp) by (unfold cover; rewrite Hpers; reflexivity).
  assert (Hok : rd_ok sp = true) by (unfold rd_ok; rewrite Hpers; apply orb_true_r).
  pose proof (r_m2 _ _ HR) as M2. pose proof (f_len _ _ HR) as FL. pose proof (f_log _ _ HR) as FLog.
  set (pr' := if 0 <? spd_processed p then spd_processed p else sp_processed sp).
  assert (Hpr : sp_processed sp <= pr' /\ pr' <= sp_committed sp) by (unfold pr'; destruct (0 <? spd_processed p) eqn:E; lia).
  (* the spec after the commit *)
  assert (Hsp' : sp_commit sp = mkSpec (sp_mi sp) (sp_mt sp) (sp_ents sp) (sp_committed sp) pr' (sp_last sp) false None false).
  { unfold sp_commit. rewrite Ep, Hpers. fold pr'. f_equal.
    - destruct (spd_save_last p) as [[i t]|].
      + destruct U2 as (_ & _ & -> & -> & X). 
        replace ((sp_mi sp <? sp_last sp) && (sp_last sp <=? sp_last sp)) with true by lia.
        rewrite N.eqb_refl. reflexivity.
      + destruct U2 as (_ & X). exact X.
    - rewrite U6. destruct (sp_snap sp); reflexivity. }
  (* savedLogTo + savedSnapshotTo *)
  assert (HA : exists im1, im_commit_update (el_im (w_el w)) (uc_stable_to (ud_uc ud)) (uc_stable_term (ud_uc ud)) (uc_stable_snap (ud_uc ud)) = Ok im1
              /\ im_saved im1 = sp_last sp /\ im_snap im1 = None /\ im_ents im1 = im_ents (el_im (w_el w)) /\ im_marker im1 = im_marker (el_im (w_el w))
              /\ im_aidx im1 = im_aidx (el_im (w_el w)) /\ im_aterm im1 = im_aterm (el_im (w_el w)) /\ im_rl im1 = im_rl (el_im (w_el w))).
  { unfold im_commit_update.
    assert (HB : exists im0, (if 0 <? uc_stable_to (ud_uc ud) then im_saved_log_to (el_im (w_el w)) (uc_stable_to (ud_uc ud)) (uc_stable_term (ud_uc ud)) else Ok (el_im (w_el w))) = Ok im0
               /\ im_saved im0 = sp_last sp /\ im_snap im0 = im_snap (el_im (w_el w)) /\ im_ents im0 = im_ents (el_im (w_el w)) /\ im_marker im0 = im_marker (el_im (w_el w))
               /\ im_aidx im0 = im_aidx (el_im (w_el w)) /\ im_aterm im0 = im_aterm (el_im (w_el w)) /\ im_rl im0 = im_rl (el_im (w_el w))).
    { destruct (spd_save_last p) as [[i t]|].
      - destruct U2 as (-> & -> & -> & -> & X).
        destruct (0 <? sp_last sp) eqn:E0; [|lia]. unfold im_saved_log_to.
        destruct (sp_last sp <? im_marker (el_im (w_el w))) eqn:E1; [lia|].
        destruct (im_ents (el_im (w_el w))) as [|x0 xs] eqn:Ee; [rewrite nlen_nil in FL; lia|]. rewrite <- Ee in *. cbn [is_nil].
        replace (is_nil (im_ents (el_im (w_el w)))) with false by (rewrite Ee; reflexivity).
        rewrite (f_last_entry _ _ HR) by congruence.
        destruct (sp_last sp <? sp_last sp) eqn:E2; [lia|].
        rewrite (f_get _ _ HR) by lia.
        destruct (sp_get_in sp (sp_last sp) HS) as [e Ge]; [lia|lia|]. rewrite Ge.
        assert (sp_term sp (sp_last sp) = e_term e).
        { unfold sp_term. destruct (sp_last sp =? sp_mi sp) eqn:E3; [lia|]. rewrite Ge. reflexivity. }
        rewrite H, N.eqb_refl. eexists; split; [reflexivity|]. cbn. repeat split; reflexivity.
      - destruct U2 as (-> & X). cbn [N.ltb]. replace (0 <? 0) with false by reflexivity.
        eexists; split; [reflexivity|]. repeat split; auto. rewrite (r_s _ _ HR). exact X. }
    destruct HB as (im0 & -> & B1 & B2 & B3 & B4 & B5 & B6 & B7). cbn [bind].
    rewrite U7. destruct (sp_snap sp) eqn:Es.
    - destruct (si_snap _ HS Es) as (_ & X). destruct (0 <? sp_mi sp) eqn:E; [|lia].
      unfold im_saved_snapshot_to. rewrite B2. rewrite (r_snap _ _ HR), Es, N.eqb_refl.
      eexists; split; [reflexivity|]. cbn. repeat split; auto.
    - replace (0 <? 0) with false by reflexivity. eexists; split; [reflexivity|].
      repeat split; auto. rewrite B2. rewrite (r_snap _ _ HR), Es. reflexivity. }
  destruct HA as (im1 & HA & A1 & A2 & A3 & A4 & A5 & A6 & A7).
  (* appliedLogTo *)
  set (la := uc_last_applied (ud_uc ud)) in *.
  assert (HC : exists im2, (if 0 <? la then
                 if sp_committed sp <? la then Panic PLastAppliedCommitted
                 else if pr' <? la then Panic PLastAppliedProcessed
                 else do im2 <- im_applied_log_to im1 la ;; Ok (mkEL im2 (sp_committed sp) pr')
               else Ok (mkEL im1 (sp_committed sp) pr')) = Ok (mkEL im2 (sp_committed sp) pr')
            /\ im_saved im2 = sp_last sp /\ im_snap im2 = None /\ im_marker im2 <= sp_last sp + 1
            /\ log_ok (im_marker im2) (im_ents im2)
            /\ (forall i, sp_mi sp < i -> im_marker im2 <= i -> nth_error (im_ents im2) (N.to_nat (i - im_marker im2)) = sp_get sp i)
            /\ im_marker im2 + nlen (im_ents im2) = sp_last sp + 1
            /\ (im_marker im2 <= sp_mi sp -> exists e, nth_error (im_ents im2) (N.to_nat (sp_mi sp - im_marker im2)) = Some e /\ e_term e = sp_mt sp)
            /\ im_aidx im2 <= sp_committed sp
            /\ (im_aidx im2 <> 0 -> sp_mi sp <= im_aidx im2 -> im_aterm im2 = sp_term sp (im_aidx im2) /\ im_aterm im2 <> 0)
            /\ (forall n, im_rl im2 = Some n -> n = isize (im_ents im2) mod 2 ^ 64)).
  { assert (Hkeep : im_saved im1 = sp_last sp /\ im_snap im1 = None /\ im_marker im1 <= sp_last sp + 1
            /\ log_ok (im_marker im1) (im_ents im1)
            /\ (forall i, sp_mi sp < i -> im_marker im1 <= i -> nth_error (im_ents im1) (N.to_nat (i - im_marker im1)) = sp_get sp i)
            /\ im_marker im1 + nlen (im_ents im1) = sp_last sp + 1
            /\ (im_marker im1 <= sp_mi sp -> exists e, nth_error (im_ents im1) (N.to_nat (sp_mi sp - im_marker im1)) = Some e /\ e_term e = sp_mt sp)
            /\ im_aidx im1 <= sp_committed sp
            /\ (im_aidx im1 <> 0 -> sp_mi sp <= im_aidx im1 -> im_aterm im1 = sp_term sp (im_aidx im1) /\ im_aterm im1 <> 0)
            /\ (forall n, im_rl im1 = Some n -> n = isize (im_ents im1) mod 2 ^ 64)).
    { rewrite A3, A4, A5, A6, A7. split; [exact A1|]. split; [exact A2|]. split; [lia|]. split; [exact FLog|].
      split; [apply (r_w2 _ _ HR)|]. split; [exact FL|]. split; [apply (r_w4 _ _ HR)|]. split; [apply (r_a1 _ _ HR)|]. split; [apply (r_a2 _ _ HR)|apply (r_rl _ _ HR)]. }
    destruct (0 <? la) eqn:E0; [|exists im1; split; [reflexivity|exact Hkeep]].
    destruct (sp_committed sp <? la) eqn:E1; [lia|]. destruct (pr' <? la) eqn:E2; [lia|].
    unfold im_applied_log_to. rewrite A4, A3, A7.
    destruct (la <? im_marker (el_im (w_el w))) eqn:E3; [exists im1; split; [reflexivity|exact Hkeep]|].
    destruct (im_ents (el_im (w_el w))) as [|x0 xs] eqn:Ee; [rewrite nlen_nil in FL; lia|]. rewrite <- Ee in *.
    replace (is_nil (im_ents (el_im (w_el w)))) with false by (rewrite Ee; reflexivity).
    rewrite (f_last_entry _ _ HR) by congruence.
    destruct (sp_last sp <? la) eqn:E4; [lia|].
    destruct (nth_error (im_ents (el_im (w_el w))) (N.to_nat (la - im_marker (el_im (w_el w))))) as [e|] eqn:En.
    2:{ apply nth_error_None in En. unfold nlen in FL. lia. }
    destruct (FLog _ _ En) as (I1 & I2 & _).
    destruct (negb (e_index e =? la)) eqn:E5; [lia|].
    set (k := N.to_nat (la + 1 - im_marker (el_im (w_el w)))).
    assert (W1' : log_ok (la + 1) (skipn k (im_ents (el_im (w_el w))))).
    { replace (la + 1) with (im_marker (el_im (w_el w)) + N.of_nat k) by (unfold k; lia). apply log_ok_skipn. exact FLog. }
    rewrite check_marker_hd by (cbn [im_marker im_ents]; exact W1'). cbn [bind].
    eexists; split; [reflexivity|]. cbn [im_saved im_snap im_marker im_ents im_aidx im_aterm im_rl].
    split; [exact A1|]. split; [exact A2|]. split; [lia|]. split; [exact W1'|]. split; [|split; [|split; [|split; [|split]]]].
    - intros i Hi1 Hi2. rewrite nth_error_skipn. rewrite <- (r_w2 _ _ HR i Hi1) by lia.  f_equal. unfold k. lia.
    - rewrite nlen_skipn. unfold k. unfold nlen in *. lia.
    - intros Hm. destruct (r_w4 _ _ HR) as (e' & Ge' & Gt'); [lia|]. exists e'. split; [|exact Gt'].
      rewrite nth_error_skipn. rewrite <- Ge'.  f_equal. unfold k. lia.
    - lia.
    - intros _ Hmi. split; [|lia]. rewrite I1. replace (im_marker (el_im (w_el w)) + N.of_nat (N.to_nat (la - im_marker (el_im (w_el w))))) with la by lia.
      destruct (N.eq_dec la (sp_mi sp)) as [Heq|Hne].
      + destruct (r_w4 _ _ HR) as (e' & Ge' & Gt'); [lia|].  rewrite <- Heq in Ge'. rewrite En in Ge'.
        inversion Ge'; subst e'. unfold sp_term. rewrite Heq, N.eqb_refl. exact Gt'.
      + pose proof (r_w2 _ _ HR la) as X.  rewrite En in X. unfold sp_term.
        destruct (la =? sp_mi sp) eqn:E6; [lia|]. rewrite <- X by lia. reflexivity.
    - apply rl_dec_ok. apply (r_rl _ _ HR). }
  destruct HC as (im2 & HC & C1 & C2 & C3 & C4 & C5 & C6 & C7 & C8 & C9 & C10).
  cbn [step]. unfold w_commit. rewrite Hq. cbn [p_persisted p_ud]. unfold el_commit_update.  rewrite HA. cbn [bind].
  rewrite (r_p _ _ HR), (r_c _ _ HR), U3.
  assert (HP : (if 0 <? spd_processed p
                then if (spd_processed p <? sp_processed sp) || (sp_committed sp <? spd_processed p) then Panic PProcessed else Ok (spd_processed p)
                else Ok (sp_processed sp)) = Ok pr').
  { unfold pr'. destruct (0 <? spd_processed p) eqn:E; [|reflexivity].
    destruct ((spd_processed p <? sp_processed sp) || (sp_committed sp <? spd_processed p)) eqn:E2; [lia|reflexivity]. }
  rewrite HP. cbn [bind]. fold la. rewrite HC. cbn [bind].
  eexists; split; [reflexivity|]. split; [|reflexivity]. rewrite Hsp'.
  constructor; cbn [w_el w_lr w_st w_queue el_im el_committed el_processed
                    sp_mi sp_mt sp_ents sp_committed sp_processed sp_saved sp_snap sp_pend sp_persisted]; auto; try discriminate.
  - constructor; cbn [sp_mi sp_mt sp_ents sp_committed sp_processed sp_saved sp_snap sp_pend sp_persisted];
      unfold sp_last; cbn [sp_mi sp_ents]; fold (sp_last sp); try lia; try discriminate.
    + apply (si_log _ HS).
    + apply (si_max _ HS).
  - intros _. unfold cover, sp_last. cbn [sp_persisted sp_saved sp_mi sp_ents]. fold (sp_last sp).
    destruct (r_lr _ _ HR Hok) as (D1 & D2 & D3 & D4 & D5). rewrite Hcov in *. repeat split; auto.
  - unfold cover, sp_get. cbn [sp_persisted sp_saved sp_mi sp_ents]. fold (sp_get sp).
    intros i Hi1 Hi2. apply (r_st _ _ HR); auto. rewrite Hcov. exact Hi2.
  - unfold cover. cbn [sp_persisted sp_saved]. pose proof (r_stmax _ _ HR) as X. rewrite Hcov in X. exact X.
  - split; [apply (r_ss _ _ HR)|]. unfold rd_ok. cbn [sp_snap sp_persisted negb orb]. discriminate.
Qed.

(* ------------------------------------------------------------------ *)
(* Compact                                                             *)

Lemma st_remove_get st k i : k < i -> st_get (st_remove_to st k) i = st_get st i.
Proof.
  intros H. unfold st_get, st_remove_to. cbn [st_ents]. induction (st_ents st) as [|x l IH]; [reflexivity|].
  cbn [filter find]. destruct (k <? e_index x) eqn:E.
  - cbn [find]. destruct (e_index x =? i); [reflexivity|exact IH].
  - destruct (e_index x =? i) eqn:E2; [lia|exact IH].
Qed.

(* the reader is replaced by one with the same fields, the store by one that agrees above the marker *)
Lemma R_rd_update w sp lr' st' :
  R w sp -> lr_marker lr' = lr_marker (w_lr w) -> lr_mterm lr' = lr_mterm (w_lr w) ->
  lr_len lr' = lr_len (w_lr w) -> lr_ssidx lr' = lr_ssidx (w_lr w) ->
  (forall i, sp_mi sp < i -> st_get st' i = st_get (w_st w) i) -> st_max st' = st_max (w_st w) ->
  R (mkW (w_el w) lr' st' (w_prev w) (w_queue w) (w_limit w)) sp.
Proof.
  intros HR L1 L2 L3 L4 S1 S2.
  constructor; cbn [w_el w_lr w_st w_queue]; try apply HR.
  - unfold lr_last. rewrite L1, L2, L3. apply (r_lr _ _ HR).
  - intros i Hi1 Hi2. rewrite S1 by auto. apply (r_st _ _ HR); auto.
  - rewrite S2. apply (r_stmax _ _ HR).
  - rewrite L4. apply (r_ss _ _ HR).
Qed.

Lemma step_compact w sp k : R w sp -> wf_op sp (OCompact k) = true ->
  exists w', step w (OCompact k) = Ok w' /\ R w' (sp_compact sp k) /\ w_limit w' = w_limit w.
Proof.
  intros HR Hwf. cbn [wf_op] in Hwf. apply andb_true_iff in Hwf as [Hk Hok]. fold (rd_ok sp) in Hok.
  pose proof (r_si _ _ HR) as HS.
  pose proof (si_mp _ HS) as S1. pose proof (si_pc _ HS) as S2. pose proof (si_cl _ HS) as S3.
  pose proof (si_ps _ HS) as S4. pose proof (si_sl _ HS) as S5.
  pose proof (cover_ge_saved _ HS) as CG. pose proof (cover_le_last _ HS) as CL.
  destruct (r_lr _ _ HR Hok) as (A & B & C & D & E).
  cbn [step]. unfold w_compact, lr_compact. rewrite A.
  destruct (k <? sp_mi sp) eqn:E1.
  - (* already compacted further: only the store removal happens *)
    eexists; split; [reflexivity|]. split; [|reflexivity].
    unfold sp_compact. destruct ((sp_mi sp <? k) && (k <=? sp_last sp)) eqn:E2; [lia|].
    apply (R_rd_update w sp (w_lr w)); auto. intros i Hi. apply st_remove_get. lia.
  - destruct (lr_last (w_lr w) <? k) eqn:E2; [lia|].
    rewrite (v_lr_term _ _ _ HR Hok) by lia. cbn [bind].
    eexists; split; [reflexivity|]. split; [|reflexivity].
    unfold sp_compact. destruct ((sp_mi sp <? k) && (k <=? sp_last sp)) eqn:E3.
    2:{ (* k is the marker itself *)
      assert (k = sp_mi sp) by lia. subst k.
      apply (R_rd_update w sp); cbn [lr_marker lr_mterm lr_len lr_ssidx]; auto; try lia.
      - unfold sp_term. rewrite N.eqb_refl. congruence.
      - intros i Hi. apply st_remove_get. lia. }
    assert (Hmk : sp_mi sp < k) by lia.
    assert (Es : sp_snap sp = false).
    { destruct (sp_snap sp) eqn:Es; [|reflexivity]. destruct (si_snap _ HS Es). lia. }
    set (sp' := mkSpec k (sp_term sp k) (skipn (N.to_nat (k - sp_mi sp)) (sp_ents sp))
                  (sp_committed sp) (sp_processed sp) (sp_saved sp) (sp_snap sp) (sp_pend sp) (sp_persisted sp)).
    assert (Hlast : sp_last sp' = sp_last sp).
    { unfold sp_last, sp'. cbn [sp_mi sp_ents]. rewrite nlen_skipn. unfold sp_last in *. lia. }
    assert (Hget : forall i, k < i -> sp_get sp' i = sp_get sp i).
    { intros i Hi. unfold sp_get, sp'. cbn [sp_mi sp_ents]. destruct (i <=? k) eqn:X1; [lia|]. destruct (i <=? sp_mi sp) eqn:X2; [lia|].
      rewrite nth_error_skipn. f_equal. lia. }
    assert (Hterm : forall i, k <= i -> sp_term sp' i = sp_term sp i).
    { intros i Hi. unfold sp_term at 1. unfold sp' at 1 2. cbn [sp_mi sp_mt]. destruct (i =? k) eqn:X1.
      - f_equal. lia.
      - rewrite Hget by lia. unfold sp_term. destruct (i =? sp_mi sp) eqn:X2; [lia|]. reflexivity. }
    assert (Hcov : cover sp' = cover sp) by (unfold cover; rewrite Hlast; reflexivity).
    assert (Hrd : rd_ok sp' = rd_ok sp) by reflexivity.
    assert (Hsave : sp_to_save sp' = sp_to_save sp).
    { unfold sp_to_save, sp'. cbn [sp_mi sp_ents sp_saved]. rewrite skipn_skipn. f_equal. lia. }
    constructor; cbn [w_el w_lr w_st w_queue]; try rewrite Hcov; try rewrite Hrd; try rewrite Hlast.
    + constructor; try rewrite Hlast; unfold sp'; cbn [sp_mi sp_mt sp_ents sp_committed sp_processed sp_saved sp_snap sp_pend sp_persisted]; try lia.
      * replace (k + 1) with (sp_mi sp + 1 + N.of_nat (N.to_nat (k - sp_mi sp))) by lia. apply log_ok_skipn. apply (si_log _ HS).
      * rewrite Es. discriminate.
      * apply (si_max _ HS).
      * apply (si_pers _ HS).
    + apply (r_c _ _ HR).
    + apply (r_p _ _ HR).
    + apply (r_s _ _ HR).
    + apply (r_m2 _ _ HR).
    + apply (r_w1 _ _ HR).
    + intros i Hi1 Hi2. cbn [sp' sp_mi] in Hi1. rewrite Hget by exact Hi1. apply (r_w2 _ _ HR); lia.
    + apply (r_w3 _ _ HR).
    + cbn [sp' sp_mi sp_mt]. intros Hm. destruct (sp_get_in sp k HS) as [e Ge]; [lia|lia|].
      exists e. split; [rewrite (r_w2 _ _ HR) by lia; exact Ge|].
      unfold sp_term. destruct (k =? sp_mi sp) eqn:X; [lia|]. rewrite Ge. reflexivity.
    + cbn [sp' sp_snap]. rewrite Es. discriminate.
    + cbn [sp' sp_snap sp_mi sp_mt]. rewrite Es. pose proof (r_snap _ _ HR) as X. rewrite Es in X. exact X.
    + apply (r_a1 _ _ HR).
    + cbn [sp' sp_mi]. intros Ha Hka. rewrite Hterm by exact Hka. apply (r_a2 _ _ HR); auto. lia.
    + intros _. unfold lr_last. cbn [lr_marker lr_mterm lr_len sp' sp_mi sp_mt]. unfold lr_last in *.
      split; [reflexivity|]. split; [reflexivity|]. split; [lia|]. split; [lia|]. intros X. specialize (E X). lia.
    + cbn [sp' sp_mi]. intros i Hi1 Hi2. rewrite st_remove_get by exact Hi1. rewrite Hget by exact Hi1. apply (r_st _ _ HR); lia.
    + cbn [sp' sp_mi st_remove_to st_max]. intros X. apply (r_stmax _ _ HR). lia.
    + cbn [lr_ssidx sp' sp_mi]. destruct (r_ss _ _ HR) as (X & _). split; [lia|]. rewrite Hok. discriminate.
    + cbn [sp' sp_pend]. pose proof (r_q _ _ HR) as Q. destruct (sp_pend sp) as [p|]; [|exact Q].
      destruct Q as (ud & Hq & U1 & U2 & U3 & U4 & U5 & U6 & U7 & U8). exists ud. split; [exact Hq|].
      unfold ud_rel. rewrite Hsave, Hlast. split; [exact U1|]. split.
      { destruct (spd_save_last p) as [[i t]|]; [|exact U2]. destruct U2 as (X1 & X2 & X3 & X4 & X5).
        repeat split; auto. rewrite Hterm by lia. exact X4. }
      cbn [sp' sp_committed sp_processed sp_saved sp_snap sp_mi sp_mt]. rewrite Es in *. repeat split; auto.
    + apply (r_rl _ _ HR).
Qed.

(* ------------------------------------------------------------------ *)
(* Replicate (follower append with a conflict at any position)         *)

Lemma el_conflict_eq w sp l : R w sp ->
  el_conflict_index (w_el w) (w_lr w) (w_st w) l = Ok (sp_conflict sp l).
Proof.
  intros HR. induction l as [|e r IH]; [reflexivity|]. cbn [el_conflict_index sp_conflict].
  rewrite (v_term _ _ _ HR). cbn [bind]. destruct (sp_term sp (e_index e) =? e_term e); [exact IH|reflexivity].
Qed.

Lemma conflict_props sp l : (forall e, In e l -> e_index e <> 0) ->
  (sp_conflict sp l = 0 -> forall e, In e l -> sp_term sp (e_index e) = e_term e) /\
  (sp_conflict sp l <> 0 -> exists k e, nth_error l k = Some e /\ e_index e = sp_conflict sp l
       /\ sp_term sp (e_index e) <> e_term e
       /\ forall k' e', (k' < k)%nat -> nth_error l k' = Some e' -> sp_term sp (e_index e') = e_term e').
Proof.
  induction l as [|x r IH]; intros Hnz.
  - split; [intros _ e []|]. cbn. congruence.
  - cbn [sp_conflict]. destruct (sp_term sp (e_index x) =? e_term x) eqn:E.
    + destruct IH as (IH1 & IH2); [intros e He; apply Hnz; right; exact He|]. split.
      * intros H0 e [->|He]; [lia|]. apply IH1; auto.
      * intros Hc. destruct (IH2 Hc) as (k & e & K1 & K2 & K3 & K4). exists (S k), e. repeat split; auto.
        intros k' e' Hk' Hn. destruct k'; [cbn in Hn; inversion Hn; subst; lia|]. cbn in Hn. apply (K4 k'); auto. lia.
    + split.
      * intros H0. exfalso. apply (Hnz x); [left; reflexivity|exact H0].
      * intros _. exists 0%nat, x. repeat split; auto; try lia.
Qed.

Lemma skipn_nth {A} k (l : list A) e : nth_error l k = Some e -> skipn k l = e :: skipn (S k) l.
Proof.
  revert l. induction k; intros l H; destruct l; try discriminate.
  - cbn in H. inversion H. reflexivity.
  - cbn in H. cbn [skipn]. rewrite (IHk _ H). reflexivity.
Qed.

Lemma step_replicate w sp li lt commit ents : R w sp -> wf_op sp (OReplicate li lt commit ents) = true ->
  exists w', step w (OReplicate li lt commit ents) = Ok w' /\ R w' (sp_replicate sp li lt commit ents) /\ w_limit w' = w_limit w.
Proof.
  intros HR Hwf. cbn [wf_op] in Hwf. cbv zeta in Hwf.
  apply andb_true_iff in Hwf as [Hwf Hconf]. apply andb_true_iff in Hwf as [Hwf Hmax].
  apply andb_true_iff in Hwf as [Hwf Hlt]. apply andb_true_iff in Hwf as [Hwf Hterms].
  apply andb_true_iff in Hwf as [Hidle Hcont].
  pose proof (r_si _ _ HR) as HS.
  pose proof (si_mp _ HS) as S1. pose proof (si_pc _ HS) as S2. pose proof (si_cl _ HS) as S3.
  cbn [step]. unfold w_replicate, sp_replicate. rewrite (r_c _ _ HR).
  destruct (li <? sp_committed sp) eqn:E1.
  { eexists; split; [reflexivity|]. split; [exact HR|reflexivity]. }
  rewrite (v_term _ _ _ HR). cbn [bind].
  destruct (sp_term sp li =? lt) eqn:E2.
  2:{ rewrite (describe_ok _ _ HR). cbn [bind]. eexists; split; [reflexivity|]. split; [exact HR|reflexivity]. }
  assert (Eidle : sp_pend sp = None) by (unfold idle in Hidle; destruct (sp_pend sp); [discriminate|reflexivity]).
  destruct (bool_log_ok _ _ _ Hcont Hterms) as (Hlog & Hge); [lia|].
  (* li is inside the log *)
  assert (Hli : sp_mi sp <= li /\ li <= sp_last sp).
  { destruct (N.eq_dec lt 0) as [Hz|Hnz].
    - assert (li = 0) by lia. subst li. lia.
    - apply sp_term_in; auto. lia. }
  assert (Hnz : forall e, In e ents -> e_index e <> 0).
  { intros e He. apply In_nth_error in He as [k K]. destruct (Hlog _ _ K) as (X & _). lia. }
  destruct (conflict_props sp ents Hnz) as (CP0 & CP1).
  unfold el_try_append. rewrite (el_conflict_eq _ _ _ HR), ?(r_c _ _ HR). cbn [bind].
  set (c := sp_conflict sp ents) in *.
  set (k := N.min (li + nlen ents) commit).
  destruct (c =? 0) eqn:Ec.
  - (* everything matches: only the commit index moves *)
    cbn [bind].
    assert (Hk : k <= sp_last sp).
    { assert (li + nlen ents <= sp_last sp); [|unfold k; lia].
      destruct ents as [|x r] eqn:Ee; [rewrite nlen_nil; lia|]. rewrite <- Ee in *.
      assert (Hne : ents <> []) by congruence.
      pose proof (log_ok_last _ _ Hlog Hne) as HL.
      assert (In (last_entry ents) ents) by (eapply nth_error_In; apply last_entry_nth; auto).
      pose proof (CP0 ltac:(lia) _ H) as HT. pose proof (Hge _ H).
      destruct (sp_term_in sp (e_index (last_entry ents)) HS) as (_ & X); [lia|]. rewrite HL in X.
      assert (1 <= nlen ents) by (rewrite Ee, nlen_cons; lia). lia. }
    destruct (step_commit_to w sp k HR) as (w' & Hs & HR').
    { cbn [wf_op]. rewrite Hidle. cbn [andb]. lia. }
    cbn [step] in Hs. unfold w_commit_to in Hs.
    destruct (el_commit_to (w_el w) (w_lr w) k) as [el2|?|?] eqn:Ecm; cbn [bind] in Hs; try discriminate.
    inversion Hs; subst w'. eexists; split; [reflexivity|]. split; [exact HR'|reflexivity].
  - (* a conflict above committed: truncate and append, then commit *)
    destruct CP1 as (k0 & e0 & K1 & K2 & K3 & K4); [lia|]. fold c in K2.
    destruct (Hlog _ _ K1) as (I1 & I2 & I3).
    assert (Hk0 : (k0 < length ents)%nat) by (apply nth_error_Some; congruence).
    assert (Hcc : sp_committed sp < c) by lia.
    destruct (c <=? sp_committed sp) eqn:E3; [lia|].
    destruct ((c <=? li) || (nlen ents <? c - li - 1)) eqn:E4; [unfold nlen in E4; lia|].
    replace (N.to_nat (c - li - 1)) with k0 by lia.
    rewrite (skipn_nth _ _ _ K1).
    set (suf := e0 :: skipn (S k0) ents).
    assert (Hsuf : suf = skipn k0 ents) by (unfold suf; symmetry; apply skipn_nth; exact K1).
    assert (Hpre : app_pre sp suf).
    { exists e0, (skipn (S k0) ents). split; [reflexivity|]. fold suf.
      split. { rewrite Hsuf. replace (e_index e0) with (li + 1 + N.of_nat k0) by lia. apply log_ok_skipn. exact Hlog. }
      split; [lia|].
      assert (Hprev : e_index e0 - 1 <= sp_last sp /\ sp_term sp (e_index e0 - 1) <= e_term e0).
      { destruct k0 as [|k1].
        - replace (e_index e0 - 1) with li by lia. split; [lia|].
          pose proof (Hge e0 ltac:(eapply nth_error_In; eauto)). lia.
        - destruct (nth_error ents k1) as [e1|] eqn:K5.
          2:{ apply nth_error_None in K5. lia. }
          destruct (Hlog _ _ K5) as (J1 & J2 & J3).
          pose proof (K4 k1 e1 ltac:(lia) K5) as HT.
          replace (e_index e0 - 1) with (e_index e1) by lia.
          destruct (sp_term_in sp (e_index e1) HS) as (_ & X); [lia|]. split; [exact X|].
          rewrite HT. apply (J3 (S k1)); auto. }
      split; [lia|]. split; [apply Hprev|].
      rewrite Hsuf, nlen_skipn. unfold nlen in *. lia. }
    destruct (el_append_R w sp suf HR Eidle Hpre) as (el1 & Ha & HR1).
    rewrite Ha. cbn [bind].
    destruct (sp_append_facts sp suf HS Hpre) as (_ & Hl1 & _ & _ & _ & _ & _ & _ & _ & _ & Hp1 & _). cbn [hd suf] in Hl1.
    destruct (step_commit_to (with_el w el1) (sp_append sp suf) k HR1) as (w' & Hs & HR').
    { cbn [wf_op]. unfold idle. rewrite Hp1, Eidle. cbn [andb]. fold suf in Hl1. rewrite Hl1.
      rewrite Hsuf, nlen_skipn. unfold k, nlen in *. lia. }
    cbn [step] in Hs. unfold w_commit_to in Hs. cbn [with_el w_el w_lr] in Hs.
    destruct (el_commit_to el1 (w_lr w) k) as [el2|?|?] eqn:Ecm; cbn [bind] in Hs; try discriminate.
    inversion Hs; subst w'. eexists; split; [reflexivity|]. split; [exact HR'|reflexivity].
Qed.

(* ------------------------------------------------------------------ *)
(* no operation touches the apply-size limit                           *)

Lemma bind_ok {A B} (r : res A) (f : A -> res B) b : bind r f = Ok b -> exists a, r = Ok a /\ f a = Ok b.
Proof. destruct r; cbn; intros H; try discriminate. eauto. Qed.

Ltac ok_inv :=
  repeat match goal with
  | H : bind _ _ = Ok _ |- _ => apply bind_ok in H as (? & ? & H)
  | H : Ok _ = Ok _ |- _ => inversion H; clear H; subst
  | H : (if ?c then _ else _) = Ok _ |- _ => destruct c
  | H : Fail _ = Ok _ |- _ => discriminate H
  | H : Panic _ = Ok _ |- _ => discriminate H
  | H : (let '(_, _) := ?x in _) = Ok _ |- _ => destruct x
  | H : match ?x with _ => _ end = Ok _ |- _ => destruct x
  end.

Lemma step_limit w o w' : step w o = Ok w' -> w_limit w' = w_limit w.
Proof.
  intros H. destruct o; cbn [step] in H.
  - unfold w_append in H. ok_inv. reflexivity.
  - unfold w_replicate in H. ok_inv; reflexivity.
  - unfold w_commit_to in H. ok_inv. reflexivity.
  - unfold w_get_update in H. ok_inv. reflexivity.
  - unfold w_persist in H. ok_inv. reflexivity.
  - unfold w_commit in H. ok_inv; reflexivity.
  - unfold w_restore in H. ok_inv; reflexivity.
  - unfold w_compact in H. ok_inv; reflexivity.
Qed.

(* ------------------------------------------------------------------ *)
(* induction over operation sequences                                  *)

(* every constructor of [op] has its step lemma *)
Lemma step_all limit w sp o : R w sp -> w_limit w = limit -> wf_op sp o = true ->
  exists w', step w o = Ok w' /\ R w' (sp_step limit sp o) /\ w_limit w' = limit.
Proof.
  intros HR Hl Hwf.
  assert (G : (exists w', step w o = Ok w' /\ R w' (sp_step limit sp o)) ->
              exists w', step w o = Ok w' /\ R w' (sp_step limit sp o) /\ w_limit w' = limit).
  { intros (w' & Hs & HR'). exists w'. split; [exact Hs|]. split; [exact HR'|].
    rewrite (step_limit _ _ _ Hs). exact Hl. }
  destruct o; cbn [sp_step].
  - apply G. apply step_append; auto.
  - apply G. destruct (step_replicate w sp li lt commit ents HR Hwf) as (w' & A & B & _). eauto.
  - apply G. apply step_commit_to; auto.
  - apply step_get_update; auto.
  - apply G. destruct (step_persist w sp HR Hwf) as (w' & A & B & _). eauto.
  - apply G. destruct (step_commit w sp HR Hwf) as (w' & A & B & _). eauto.
  - apply G. apply step_restore; auto.
  - apply G. destruct (step_compact w sp k HR Hwf) as (w' & A & B & _). eauto.
Qed.

Lemma run_all limit ops : forall w sp, R w sp -> w_limit w = limit ->
  wf_ops limit sp ops = true ->
  exists w', run w ops = Ok w' /\ R w' (sp_run limit sp ops) /\ w_limit w' = limit.
Proof.
  induction ops as [|o ops IH]; intros w sp HR Hl Hwf.
  - exists w. split; [reflexivity|]. split; [exact HR|exact Hl].
  - cbn [wf_ops] in Hwf. apply andb_true_iff in Hwf as [Hw1 Hw2].
    destruct (step_all limit w sp o HR Hl Hw1) as (w1 & Hs & HR1 & Hl1).
    destruct (IH w1 _ HR1 Hl1 Hw2) as (w' & Hr & HR' & Hl').
    exists w'. split; [|split; [exact HR'|exact Hl']]. cbn [run]. rewrite Hs. cbn [bind]. exact Hr.
Qed.

Lemma run_init skip rlon limit mi mt ents c ops :
  wf_init mi mt ents c = true -> wf_ops limit (sp_init mi mt ents c) ops = true ->
  exists w', run (w_init_opt skip rlon mi mt ents c limit) ops = Ok w' /\ R w' (sp_run limit (sp_init mi mt ents c) ops)
             /\ w_limit w' = limit.
Proof. intros Hi Hwf. apply run_all; auto. apply R_init_opt; auto. Qed.

(* for ALL well-formed operation sequences (every constructor of op), from every
   well-formed restart state: the run succeeds and all views equal the logical log's *)
Theorem logview_refines_proved : forall skip rlon mi mt ents c limit ops,
  wf_init mi mt ents c = true ->
  wf_ops limit (sp_init mi mt ents c) ops = true ->
  exists w', run (w_init_opt skip rlon mi mt ents c limit) ops = Ok w' /\
             views_eq w' (sp_run limit (sp_init mi mt ents c) ops).
Proof.
  intros skip rlon mi mt ents c limit ops Hi Hwf.
  destruct (run_init skip rlon limit mi mt ents c ops Hi Hwf) as (w' & Hr & HR & _).
  exists w'. split; [exact Hr|apply R_views; exact HR].
Qed.

Theorem err_unreachable_under_wf_proved : forall skip rlon mi mt ents c limit ops,
  wf_init mi mt ents c = true ->
  wf_ops limit (sp_init mi mt ents c) ops = true ->
  (forall t, run (w_init_opt skip rlon mi mt ents c limit) ops <> Panic t) /\
  (forall e, run (w_init_opt skip rlon mi mt ents c limit) ops <> Fail e).
Proof.
  intros skip rlon mi mt ents c limit ops Hi Hwf.
  destruct (run_init skip rlon limit mi mt ents c ops Hi Hwf) as (w' & Hr & _).
  rewrite Hr. split; intros; discriminate.
Qed.

(* whatever counts as saved is in the store in its current version *)
Theorem saved_entries_persisted_proved : forall skip rlon mi mt ents c limit ops w',
  wf_init mi mt ents c = true ->
  wf_ops limit (sp_init mi mt ents c) ops = true ->
  run (w_init_opt skip rlon mi mt ents c limit) ops = Ok w' ->
  let sp' := sp_run limit (sp_init mi mt ents c) ops in
  forall i, sp_mi sp' < i -> i <= im_saved (el_im (w_el w')) ->
    exists e, st_get (w_st w') i = Some e /\ sp_get sp' i = Some e /\ e_index e = i.
Proof.
  intros skip rlon mi mt ents c limit ops w' Hi Hwf Hrun sp' i H1 H2.
  destruct (run_init skip rlon limit mi mt ents c ops Hi Hwf) as (w'' & Hr & HR & _).
  rewrite Hrun in Hr. inversion Hr; subst w''. fold sp' in HR.
  pose proof (r_si _ _ HR) as HS. rewrite (r_s _ _ HR) in H2.
  pose proof (cover_ge_saved _ HS). pose proof (si_sl _ HS).
  destruct (sp_get_in sp' i HS) as [e Ge]; [lia|lia|].
  exists e. rewrite (r_st _ _ HR) by lia. repeat split; auto.
  apply (sp_get_some _ _ _ HS Ge).
Qed.

(* ---- what GetUpdate hands out, in every reachable state ---- *)
Lemma in_firstn_nth {A} n (l : list A) e : In e (firstn n l) -> exists k, (k < n)%nat /\ nth_error l k = Some e.
Proof.
  intros H. apply In_nth_error in H as [k K]. destruct (Nat.lt_ge_cases k n) as [Hl|Hl].
  - exists k. split; auto. rewrite nth_error_firstn_lt in K; auto.
  - rewrite nth_error_firstn_ge in K by auto. discriminate.
Qed.

Lemma sp_to_apply_mem sp limit l : SI sp -> sp_to_apply sp limit = Ok l ->
  log_ok (sp_first_not_applied sp) l /\
  forall e, In e l -> sp_get sp (e_index e) = Some e /\ sp_processed sp < e_index e /\ e_index e <= sp_committed sp.
Proof.
  intros HS. unfold sp_to_apply, sp_has_to_apply.
  destruct (sp_first_not_applied sp <? sp_committed sp + 1) eqn:E.
  2:{ intros H. inversion H. split; [apply log_ok_nil|]. intros e []. }
  pose proof (si_mp _ HS). pose proof (si_pc _ HS). pose proof (si_cl _ HS).
  unfold sp_first_not_applied, sp_first in *. set (lo := N.max (sp_processed sp + 1) (sp_mi sp + 1)) in *.
  unfold sp_entries, sp_first.
  destruct (sp_committed sp + 1 <? lo) eqn:E0; [lia|].
  destruct (sp_snap sp && is_nil (sp_ents sp)); [discriminate|].
  destruct (lo <? sp_mi sp + 1) eqn:E1; [lia|].
  destruct (sp_last sp + 1 <? sp_committed sp + 1) eqn:E2; [lia|].
  destruct (lo =? sp_committed sp + 1) eqn:E3; [lia|].
  intros Hx. inversion Hx; clear Hx.
  set (A := sp_slice sp lo (sp_committed sp + 1)) in *.
  assert (HL : length A = N.to_nat (sp_committed sp + 1 - lo)) by (apply slice_len; lia).
  assert (HA : A <> []) by (destruct A; cbn in HL; [lia|congruence]).
  destruct (limit_size_prefix A limit HA) as [n Hn]. rewrite Hn. split.
  - apply log_ok_firstn. apply slice_log; auto. lia.
  - intros e He. apply in_firstn_nth in He as (k & Hk & K).
    assert (k < length A)%nat by (apply nth_error_Some; congruence).
    unfold A in K. rewrite slice_nth in K by lia.
    destruct (sp_get_some _ _ _ HS K) as (X & _). rewrite X. split; [exact K|]. lia.
Qed.

Lemma get_update_props limit w sp more la : R w sp -> w_limit w = limit ->
  exists ud, get_update w more la = Ok ud /\ ud_save ud = sp_to_save sp /\
    (forall e, In e (ud_apply ud) ->
       sp_get sp (e_index e) = Some e /\ sp_processed sp < e_index e /\ e_index e <= sp_committed sp
       /\ (e_index e <= sp_saved sp \/ In e (ud_save ud))) /\
    (ud_fast ud = true -> forall e, In e (ud_apply ud) -> e_index e <= sp_saved sp).
Proof.
  intros HR Hlim. pose proof (r_si _ _ HR) as HS.
  pose proof (si_mp _ HS). pose proof (si_pc _ HS). pose proof (si_cl _ HS). pose proof (si_ps _ HS). pose proof (si_sl _ HS).
  destruct (sp_to_apply_ok sp limit HS) as (l & Hl & Hlp).
  destruct (sp_to_apply_mem sp limit l HS Hl) as (Llog & Lmem).
  destruct (to_save_facts sp HS) as (SL & SN & SF).
  remember (if more then l else []) as apl eqn:Eapl.
  assert (Happ : (if more then el_to_apply (w_el w) (w_lr w) (w_st w) (w_limit w) else Ok []) = Ok apl).
  { subst apl. destruct more; [|reflexivity]. rewrite Hlim, (v_to_apply _ _ _ HR). exact Hl. }
  assert (Hap : apl <> [] -> sp_processed sp < e_index (last_entry apl) /\ e_index (last_entry apl) <= sp_committed sp).
  { subst apl. destruct more; [exact Hlp|congruence]. }
  assert (Alog : log_ok (sp_first_not_applied sp) apl) by (subst apl; destruct more; [exact Llog|apply log_ok_nil]).
  assert (Amem : forall e, In e apl -> sp_get sp (e_index e) = Some e /\ sp_processed sp < e_index e /\ e_index e <= sp_committed sp).
  { subst apl. destruct more; [exact Lmem|intros e []]. }
  unfold get_update. cbv zeta. rewrite Happ, (v_to_save _ _ HR), (r_c _ _ HR). cbn [bind].
  assert (HV : forall cm, (cm = 0 \/ cm = sp_committed sp) -> validate_update cm apl (sp_to_save sp) = None).
  { intros cm Hcm. unfold validate_update.
    destruct apl as [|a apl'] eqn:Ea; [cbn [is_nil negb]; rewrite !andb_false_r; reflexivity|]. rewrite <- Ea in *.
    destruct Hap as (A1 & A2); [congruence|].
    assert (Hn1 : is_nil apl = false) by (rewrite Ea; reflexivity). rewrite Hn1. cbn [negb].
    destruct ((0 <? cm) && true && (cm <? e_index (last_entry apl))) eqn:C1; [lia|].
    destruct (sp_to_save sp) as [|s0 S'] eqn:Es; [reflexivity|]. rewrite <- Es in *.
    destruct SF as (F1 & _); [congruence|]. rewrite F1.
    assert (Hn2 : is_nil (sp_to_save sp) = false) by (rewrite Es; reflexivity). rewrite Hn2. cbn [negb andb].
    destruct (sp_last sp <? e_index (last_entry apl)) eqn:C2; [lia|]. reflexivity. }
  rewrite HV by (destruct (sp_committed sp =? w_prev w); auto).
  eexists; split; [reflexivity|]. cbn [ud_save ud_apply ud_fast]. split; [reflexivity|]. split.
  - intros e He. destruct (Amem e He) as (G1 & G2 & G3). repeat split; auto.
    destruct (N.le_gt_cases (e_index e) (sp_saved sp)) as [X|X]; [left; exact X|right].
    unfold sp_to_save. unfold sp_get in G1. destruct (e_index e <=? sp_mi sp) eqn:E; [discriminate|].
    apply (nth_error_In _ (N.to_nat (e_index e - sp_mi sp - 1) - N.to_nat (sp_saved sp - sp_mi sp))%nat).
    rewrite nth_error_skipn. rewrite <- G1. f_equal. lia.
  - assert (Hsnapv : match im_snap (el_im (w_el w)) with Some (0, _) => None | s => s end
                     = if sp_snap sp then Some (sp_mi sp, sp_mt sp) else None).
    { rewrite (r_snap _ _ HR). destruct (sp_snap sp) eqn:Es; [|reflexivity].
      destruct (si_snap _ HS Es) as (_ & X). destruct (sp_mi sp); [lia|reflexivity]. }
    rewrite Hsnapv. unfold fast_apply. destruct (sp_snap sp); [discriminate|].
    destruct apl as [|a apl'] eqn:Ea; [intros _ e []|]. rewrite <- Ea in *.
    assert (Hne : apl <> []) by congruence. destruct (Hap Hne) as (A1 & A2).
    assert (Hle : forall e, In e apl -> e_index e <= e_index (last_entry apl)).
    { intros e He. apply In_nth_error in He as [k K]. destruct (Alog _ _ K) as (X & _).
      assert (k < length apl)%nat by (apply nth_error_Some; congruence).
      rewrite (log_ok_last _ _ Alog Hne). unfold nlen. lia. }
    destruct (sp_to_save sp) as [|s0 S'] eqn:Es.
    + rewrite nlen_nil in SN. intros _ e He. specialize (Hle e He). lia.
    + rewrite <- Es in *. destruct SF as (F1 & _); [congruence|].
      assert (H0i : e_index s0 = sp_saved sp + 1) by (rewrite Es in SL; apply (log_ok_hd _ _ _ SL)).
      rewrite Ea. rewrite <- Ea. rewrite H0i, F1. intros Hf e He. specialize (Hle e He).
      destruct ((sp_saved sp + 1 <=? e_index (last_entry apl)) && (e_index (last_entry apl) <=? sp_last sp)) eqn:C; [discriminate|]. lia.
Qed.

(* an entry is never handed out for apply before it is committed and handed out
   for persistence (or already saved); FastApply updates apply saved entries only;
   validateUpdate never fires: GetUpdate succeeds in every reachable state *)
Theorem apply_only_committed_and_handed_to_persist_proved : forall skip rlon mi mt ents c limit ops w',
  wf_init mi mt ents c = true ->
  wf_ops limit (sp_init mi mt ents c) ops = true ->
  run (w_init_opt skip rlon mi mt ents c limit) ops = Ok w' ->
  let sp' := sp_run limit (sp_init mi mt ents c) ops in
  forall more la, exists ud, get_update w' more la = Ok ud /\
    (forall e, In e (ud_apply ud) ->
       e_index e <= el_committed (w_el w') /\ sp_get sp' (e_index e) = Some e /\
       (e_index e <= im_saved (el_im (w_el w')) \/ In e (ud_save ud))) /\
    (ud_fast ud = true -> forall e, In e (ud_apply ud) -> e_index e <= im_saved (el_im (w_el w'))).
Proof.
  intros skip rlon mi mt ents c limit ops w' Hi Hwf Hrun sp' more la.
  destruct (run_init skip rlon limit mi mt ents c ops Hi Hwf) as (w'' & Hr & HR & Hl).
  rewrite Hrun in Hr. inversion Hr; subst w''. fold sp' in HR.
  destruct (get_update_props limit w' sp' more la HR Hl) as (ud & G1 & G2 & G3 & G4).
  exists ud. split; [exact G1|]. rewrite (r_c _ _ HR), (r_s _ _ HR). split.
  - intros e He. destruct (G3 e He) as (X1 & X2 & X3 & X4). repeat split; auto.
  - exact G4.
Qed.

(* with a real rate limiter under inMemory (MaxInMemLogSize set): what it has recorded
   is, in every reachable state, exactly pb.GetEntrySliceInMemSize of the in-memory
   entries (Increase / Set / Decrease in merge, appliedLogTo and restore never drift) *)
Theorem rate_limiter_accounting_exact_proved : forall skip rlon mi mt ents c limit ops w',
  wf_init mi mt ents c = true ->
  wf_ops limit (sp_init mi mt ents c) ops = true ->
  run (w_init_opt skip rlon mi mt ents c limit) ops = Ok w' ->
  forall n, im_rl (el_im (w_el w')) = Some n -> n = isize (im_ents (el_im (w_el w'))) mod 2 ^ 64.
Proof.
  intros skip rlon mi mt ents c limit ops w' Hi Hwf Hrun.
  destruct (run_init skip rlon limit mi mt ents c ops Hi Hwf) as (w'' & Hr & HR & _).
  rewrite Hrun in Hr. inversion Hr; subst w''. apply (r_rl _ _ HR).
Qed.

(* the earlier, weaker statements (appends and commitTo only) stay visible: they are
   now corollaries *)
Definition core_op (o : op) : bool :=
  match o with OAppend _ | OCommitTo _ => true | _ => false end.

Theorem logview_refines_partial_proved : forall mi mt ents c limit ops,
  wf_init mi mt ents c = true -> forallb core_op ops = true ->
  wf_ops limit (sp_init mi mt ents c) ops = true ->
  exists w', run (w_init mi mt ents c limit) ops = Ok w' /\
             views_eq w' (sp_run limit (sp_init mi mt ents c) ops).
Proof. intros; apply (logview_refines_proved false false); auto. Qed.

Theorem err_unreachable_under_wf_partial_proved : forall mi mt ents c limit ops,
  wf_init mi mt ents c = true -> forallb core_op ops = true ->
  wf_ops limit (sp_init mi mt ents c) ops = true ->
  (forall t, run (w_init mi mt ents c limit) ops <> Panic t) /\
  (forall e, run (w_init mi mt ents c limit) ops <> Fail e).
Proof. intros; apply (err_unreachable_under_wf_proved false false); auto. Qed.

Theorem saved_entries_persisted_partial_proved : forall mi mt ents c limit ops w',
  wf_init mi mt ents c = true -> forallb core_op ops = true ->
  wf_ops limit (sp_init mi mt ents c) ops = true ->
  run (w_init mi mt ents c limit) ops = Ok w' ->
  let sp' := sp_run limit (sp_init mi mt ents c) ops in
  forall i, sp_mi sp' < i -> i <= im_saved (el_im (w_el w')) ->
    exists e, st_get (w_st w') i = Some e /\ sp_get sp' i = Some e /\ e_index e = i.
Proof. intros mi mt ents c limit ops w' Hi _ Hwf Hrun. apply (saved_entries_persisted_proved false false); auto. Qed.
