From DB Require Import Base.Bytes.
From Coq Require Import ZifyN ZifyNat ZifyBool.
Ltac Zify.zify_post_hook ::= Z.div_mod_to_equations.
Open Scope N_scope.

Lemma be_length k x : length (be k x) = k.
Proof. revert x; induction k as [|k IH]; intros x; cbn [be]; [reflexivity|].
  rewrite app_length, IH; simpl; lia. Qed.

Lemma be_dec_acc_app acc l1 l2 :
  be_dec_acc acc (l1 ++ l2) = be_dec_acc (be_dec_acc acc l1) l2.
Proof. revert acc; induction l1 as [|a l1 IH]; intros acc; simpl; [reflexivity|apply IH]. Qed.

Lemma be_dec_acc_be k : forall x acc, x < 256 ^ N.of_nat k ->
  be_dec_acc acc (be k x) = acc * 256 ^ N.of_nat k + x.
Proof.
  induction k as [|k IH]; intros x acc Hx.
  - simpl in *. lia.
  - cbn [be]. rewrite be_dec_acc_app. rewrite IH.
    + simpl be_dec_acc. rewrite Nat2N.inj_succ, N.pow_succ_r'.
      pose proof (N.div_mod x 256). lia.
    + rewrite Nat2N.inj_succ, N.pow_succ_r' in Hx.
      apply N.div_lt_upper_bound; lia.
Qed.

Lemma be_dec_be k x : x < 256 ^ N.of_nat k -> be_dec (be k x) = x.
Proof. intros H. unfold be_dec. rewrite be_dec_acc_be by exact H. lia. Qed.

Lemma be_wf k : forall x, wf_bytes (be k x).
Proof. induction k as [|k IH]; intros x; cbn [be]; [constructor|].
  apply Forall_app; split; [apply IH|]. constructor; [|constructor].
  apply N.mod_lt; lia. Qed.

Lemma le_length k x : length (le k x) = k.
Proof. revert x; induction k as [|k IH]; intros x; cbn [le]; [reflexivity|].
  simpl; rewrite IH; reflexivity. Qed.

Lemma le_dec_le k : forall x, x < 256 ^ N.of_nat k -> le_dec (le k x) = x.
Proof.
  induction k as [|k IH]; intros x Hx.
  - simpl in *. lia.
  - cbn [le le_dec]. rewrite IH.
    + pose proof (N.div_mod x 256). lia.
    + rewrite Nat2N.inj_succ, N.pow_succ_r' in Hx. apply N.div_lt_upper_bound; lia.
Qed.

Lemma le_wf k : forall x, wf_bytes (le k x).
Proof. induction k as [|k IH]; intros x; cbn [le]; [constructor|].
  constructor; [apply N.mod_lt; lia|apply IH]. Qed.

(* varint *)
Lemma uvarint_fuel_nonempty f x : uvarint_fuel f x <> [].
Proof. destruct f; simpl; [discriminate|]. destruct (x <? 128); discriminate. Qed.

Lemma uvarint_fuel_wf f : forall x, wf_bytes (uvarint_fuel f x).
Proof.
  induction f as [|f IH]; intros x; cbn [uvarint_fuel].
  - constructor; [apply N.mod_lt; lia|constructor].
  - destruct (N.ltb_spec x 128).
    + constructor; [lia|constructor].
    + constructor; [|apply IH]. pose proof (N.mod_lt x 128). lia.
Qed.

(* number of bytes beyond the first *)
Fixpoint varint_extra' (fuel : nat) (x : N) : nat :=
  match fuel with O => O | S f => if x <? 128 then O else S (varint_extra' f (x / 128)) end.

Lemma uvarint_fuel_length f : forall x,
  length (uvarint_fuel f x) = S (varint_extra' f x).
Proof.
  induction f as [|f IH]; intros x; cbn [uvarint_fuel varint_extra']; [reflexivity|].
  destruct (x <? 128); [reflexivity|]. simpl. rewrite IH. reflexivity.
Qed.

Lemma varint_extra'_bound f : forall x k, x < 128 ^ N.of_nat (S k) -> (varint_extra' f x <= k)%nat.
Proof.
  induction f as [|f IH]; intros x k Hx; cbn [varint_extra']; [lia|].
  destruct (N.ltb_spec x 128); [lia|].
  destruct k as [|k].
  - simpl in Hx. lia.
  - apply le_n_S. apply IH.
    rewrite Nat2N.inj_succ, N.pow_succ_r' in Hx.
    apply N.div_lt_upper_bound; lia.
Qed.
