(* L2, part 3b: preservation of inv3 and the commitment theorems. *)
From DB Require Import Model.RaftNet Proofs.RaftNetLists Proofs.RaftNetElection Proofs.RaftNetLog
  Proofs.RaftNetCommitDefs.

Section Commit.
  Variable V : list id.
  Hypothesis V_nodup : NoDup V.

  Notation inv3b := (inv3b V).
  Notation step := (step V).

  (* ---- handling an AE in state n (no reference to n') ---- *)

  (* prefixes shared with the sender's leader log survive tryAppend *)
  Lemma handle_ae_keeps n t ldr prev pt ents lc l cmt l' k :
    inv2 n -> In (AE t ldr prev pt ents lc) (msgs n) ->
    log_ok (llog n) l -> term_at l prev = pt ->
    try_append l cmt prev ents = Some l' ->
    agree k l (llog n t) -> k <= length (llog n t) ->
    agree k l' (llog n t).
  Proof.
    intros H2 Hin Hok Hpt Hta Hag Hk.
    destruct (ae_view n t ldr prev pt ents lc l H2 Hin Hok Hpt) as (Hprev & Hview & Hents).
    assert (Hpos : forall e, In e ents -> 1 <= eterm e) by (intros e He; apply Hents; exact He).
    assert (LM : lmatch l (firstn prev l ++ ents)).
    { rewrite Hview. eapply log_ok_lmatch; [exact Hok|].
      apply log_ok_firstn. apply (i_llog_ok n H2). }
    eapply try_append_keeps_agree; eauto.
    rewrite Hview. apply agree_firstn. lia.
  Qed.

  (* an acknowledged prefix survives an AE of the node's term, or the AE's leader is to blame *)
  Lemma ae_overwrite n w T ldr prev pt ents lc l' t k :
    inv2 n -> inv3a n ->
    In (AE T ldr prev pt ents lc) (msgs n) -> term (nodes n w) = T ->
    term_at (log (nodes n w)) prev = pt ->
    try_append (log (nodes n w)) (commit (nodes n w)) prev ents = Some l' ->
    acked n t w k ->
    agree k l' (llog n t) \/ blamed n t k T.
  Proof.
    intros H2 H3 Hin HT Hpt Hta Hack.
    pose proof (acked_len n t w k (i_ack_le n H3) Hack) as Hk.
    pose proof (acked_term n t w k (i_ack_le n H3) Hack) as Hle. rewrite HT in Hle.
    destruct (i_ae n H2 _ _ _ _ _ _ Hin) as (Hlead & _).
    destruct (i_ack_node n H3 t w k Hack) as [Hag|Hb]; [|right; now rewrite <- HT].
    destruct (Nat.eq_dec t T) as [->|Hne].
    - left. apply (handle_ae_keeps n T ldr prev pt ents lc _ _ l' k H2 Hin (i_log_ok n H2 w) Hpt Hta);
        assumption.
    - destruct (agree_dec k (llog0 n T) (llog n t)) as [Hy|Hn].
      + left.
        assert (HagT : agree k (llog n T) (llog n t)).
        { destruct (i_llog0 n H2 T) as (ext & ->). apply agree_ext_l; [exact Hy|].
          apply agree_sym in Hy. eapply agree_len; eauto. }
        eapply agree_trans; [|exact HagT].
        apply (handle_ae_keeps n T ldr prev pt ents lc _ _ l' k H2 Hin (i_log_ok n H2 w) Hpt Hta).
        * eapply agree_trans; [exact Hag|]. now apply agree_sym.
        * apply agree_sym in HagT. eapply agree_len; eauto.
      + right. exists T. split; [lia|]. split; assumption.
  Qed.

  (* ---- which acknowledgements are new, and why they are sound ---- *)

  Lemma new_ack_sound n l n' t w ldr m :
    inv2 n -> inv3a n -> agl n -> step n l n' ->
    In (Ack t w ldr m) (msgs n') ->
    In (Ack t w ldr m) (msgs n) \/
    (term (nodes n w) = t /\ term (nodes n' w) = t /\ m <= length (llog n' t) /\
     agree m (log (nodes n' w)) (llog n' t)).
  Proof.
    intros H2 H3 Hagl Hstep Hin.
    inv_step Hstep; msg_cases Hin; auto; right; rewrite ?upd_eq; cbn [term log].
    - (* stale AE: answer with commit *)
      match goal with Hae : In (AE _ _ _ _ _ _) _ |- _ =>
        destruct (i_ae n H2 _ _ _ _ _ _ Hae) as (Hlead & _) end.
      destruct (Hagl w _ eq_refl Hlead) as (Hag & Hlen).
      destruct (i_commit_bounds n H3 w) as (Hc & _).
      repeat split; auto; [lia|]. eapply agree_le; eauto.
    - (* AE handled *)
      match goal with Hae : In (AE _ _ _ _ _ _) _, Hta : try_append _ _ _ _ = _ |- _ =>
        destruct (i_ae n H2 _ _ _ _ _ _ Hae) as (Hlead & Hlen & _);
        destruct (handle_ae_log n _ _ _ _ _ _ _ _ _ H2 Hae (i_log_ok n H2 w) eq_refl Hta)
          as (_ & Hag) end.
      repeat split; auto.
    - (* SelfAck *)
      match goal with Hr : role (nodes n ?k) = Leader |- _ => rewrite (i_leader_log n H2 k Hr) end.
      repeat split; auto.
  Qed.

  (* ---- which votes are new ---- *)

  Lemma new_vote_sound n l n' T w c vl :
    step n l n' -> In (Vote T w c vl) (msgs n') ->
    In (Vote T w c vl) (msgs n) \/
    (vl = log (nodes n w) /\ term (nodes n w) <= T /\
     (forall t w' k, acked n' t w' k -> acked n t w' k) /\
     exists li lt, In (RV T c li lt) (msgs n') /\ up_to_date li lt vl = true).
  Proof.
    intros Hstep Hin.
    inv_step Hstep; msg_cases Hin; auto; right.
    - split; [reflexivity|]. split; [lia|]. split.
      + intros t w' k (ldr & m & Hk & Ha). msg_cases Ha. now exists ldr, m.
      + do 2 eexists. split.
        * right. left. reflexivity.
        * unfold up_to_date. rewrite Nat.eqb_refl, Nat.leb_refl. simpl. apply orb_true_r.
    - split; [reflexivity|]. split; [lia|]. split.
      + intros t w' k (ldr & m & Hk & Ha). msg_cases Ha. now exists ldr, m.
      + exists li, lt. split; [now right | assumption].
  Qed.

  (* ---- how the log of a node changes in one step ---- *)

  Lemma acks_le_spec ms i m t ldr k :
    acks_le ms i m = true -> In (Ack t i ldr k) ms -> k <= m.
  Proof.
    unfold acks_le. intros H Hin. rewrite forallb_forall in H. specialize (H _ Hin).
    simpl in H. rewrite Nat.eqb_refl in H. simpl in H. now apply Nat.leb_le.
  Qed.

  Lemma step_log_cases n l n' w :
    step n l n' ->
    (exists e, log (nodes n' w) = log (nodes n w) ++ e) \/
    (exists T ldr prev pt ents lc,
       In (AE T ldr prev pt ents lc) (msgs n) /\ term (nodes n w) = T /\ term (nodes n' w) = T /\
       term_at (log (nodes n w)) prev = pt /\
       try_append (log (nodes n w)) (commit (nodes n w)) prev ents = Some (log (nodes n' w))) \/
    (exists m, log (nodes n' w) = firstn m (log (nodes n w)) /\ hcommit (nodes n w) <= m /\
               acks_le (msgs n) w m = true).
  Proof.
    intros Hstep.
    inv_step Hstep; simp_upd;
      try (left; exists []; now rewrite app_nil_r);
      try (left; eexists; reflexivity).
    - right. left. do 6 eexists. repeat split; eauto.
    - right. right. eexists. repeat split; eauto.
  Qed.

  (* ---- the election argument, in state n ---- *)

  Lemma elect_core n i w vl t k :
    inv2 n -> inv3a n ->
    role (nodes n i) = Candidate -> last_term (log (nodes n i)) < term (nodes n i) ->
    In (Vote (term (nodes n i)) w i vl) (msgs n) ->
    t < term (nodes n i) -> 1 <= k -> acked n t w k -> term_at (llog n t) k = t ->
    (agree k (log (nodes n i)) (llog n t) /\ k <= length (log (nodes n i))) \/
    blamed n t k (term (nodes n i)).
  Proof.
    intros H2 H3a Hrole HUT Hvote Hlt Hk Hack Hterm.
    set (L := log (nodes n i)) in *. set (T0 := term (nodes n i)) in *.
    pose proof (acked_len n t w k (i_ack_le n H3a) Hack) as Hklen.
    destruct (i_vote_pair n H3a T0 w i vl t k Hvote Hack Hlt) as [Hag|Hb]; [|now right].
    assert (Hkvl : k <= length vl).
    { apply agree_sym in Hag. eapply agree_len; eauto. }
    assert (Htvl : term_at vl k = t).
    { rewrite (agree_term_at k k _ _ Hag); auto. }
    assert (Ht1 : 1 <= t).
    { destruct (term_at_In (llog n t) k) as (e & He & Hte); [lia|].
      pose proof (i_llog_terms n H2 t e He). lia. }
    destruct (i_vote_utd n H3a _ _ _ _ Hvote) as (li & lt & Hrv & Hutd).
    destruct (i_rv n H3a _ _ _ _ Hrv) as (_ & Hrv2).
    destruct (Hrv2 eq_refl Hrole) as (-> & ->). fold L in Hutd.
    pose proof (i_vote_log_ok n H2 _ _ _ _ Hvote) as Hvok.
    pose proof (log_ok_sorted n vl (i_llog_sorted n H2) Hvok) as Hvs.
    assert (Hlv : t <= last_term vl).
    { unfold last_term. rewrite <- Htvl. apply Hvs; lia. }
    set (U := last_term L) in *.
    assert (HU : last_term vl < U \/ (U = last_term vl /\ length vl <= length L)).
    { unfold up_to_date in Hutd. apply orb_true_iff in Hutd. destruct Hutd as [H|H].
      - left. now apply Nat.ltb_lt in H.
      - right. apply andb_prop in H. destruct H as [Ha Hb].
        apply Nat.eqb_eq in Ha. apply Nat.leb_le in Hb. split; assumption. }
    assert (HUge : t <= U) by (destruct HU; lia).
    assert (HLr : 1 <= length L <= length L).
    { apply term_at_in_range. fold (last_term L). fold U. lia. }
    pose proof (i_log_ok n H2 i (length L) HLr) as HagL. fold L in HagL.
    fold (last_term L) in HagL. fold U in HagL.
    destruct HU as [HltU|(HeqU & Hlen)].
    - assert (HlU : lead n U <> None).
      { intros E. destruct (i_lead_none n H2 U E) as (El & _).
        rewrite El in HagL. apply agree_len in HagL; simpl in *; lia. }
      destruct (agree_dec k (llog0 n U) (llog n t)) as [Hy|Hn].
      + left.
        assert (HagU : agree k (llog n U) (llog n t)).
        { destruct (i_llog0 n H2 U) as (ext & ->). apply agree_ext_l; [exact Hy|].
          apply agree_sym in Hy. eapply agree_len; eauto. }
        assert (HkU : k <= length (llog n U)).
        { apply agree_sym in HagU. eapply agree_len; eauto. }
        assert (HkL : k <= length L).
        { destruct (Nat.le_gt_cases k (length L)) as [|Hgt]; [assumption|]. exfalso.
          assert (E1 : term_at (llog n U) (length L) = U).
          { rewrite <- (agree_term_at (length L) (length L) _ _ HagL); auto. }
          assert (E2 : term_at (llog n U) k = t).
          { rewrite (agree_term_at k k _ _ HagU); auto. }
          pose proof (i_llog_sorted n H2 U (length L) k ltac:(lia) HkU). lia. }
        split; [|exact HkL].
        eapply agree_trans; [|exact HagU]. eapply agree_le; [exact HagL | exact HkL].
      + right. exists U. split; [lia|]. split; assumption.
    - left.
      assert (Hvr : 1 <= length vl <= length vl) by lia.
      pose proof (Hvok (length vl) Hvr) as Hagv. fold (last_term vl) in Hagv.
      rewrite <- HeqU in Hagv.
      assert (HLv : agree (length vl) L vl).
      { eapply agree_trans; [eapply agree_le; [exact HagL | exact Hlen]|]. now apply agree_sym. }
      split; [|lia].
      eapply agree_trans; [eapply agree_le; [exact HLv | exact Hkvl]|]. exact Hag.
  Qed.

  (* a node in a term without leader has no entry of that term *)
  Lemma no_leader_last_term n i :
    inv2 n -> 1 <= term (nodes n i) -> lead n (term (nodes n i)) = None ->
    last_term (log (nodes n i)) < term (nodes n i).
  Proof.
    intros H2 H1 Hnone. set (L := log (nodes n i)). set (T0 := term (nodes n i)) in *.
    destruct (Nat.eq_dec (last_term L) 0) as [E|E]; [lia|].
    assert (HLr : 1 <= length L <= length L) by (apply term_at_in_range; exact E).
    pose proof (i_log_ok n H2 i (length L) HLr) as HagL. fold L in HagL.
    fold (last_term L) in HagL.
    destruct (term_at_In L (length L) HLr) as (e & He & Hte).
    pose proof (i_log_terms n H2 i e He) as Hle. fold T0 in Hle.
    unfold last_term in *. rewrite Hte in *.
    destruct (Nat.eq_dec (eterm e) T0) as [E0|]; [|lia]. exfalso.
    rewrite E0 in HagL. destruct (i_lead_none n H2 T0 Hnone) as (El & _).
    rewrite El in HagL. apply agree_len in HagL; simpl in *; lia.
  Qed.

  (* ---- preservation: the quorum-free part ---- *)

  Lemma I_ack_le_step n l n' :
    inv1 n -> inv2 n -> inv3a n -> agl n -> fresh n l -> step n l n' -> I_ack_le n'.
  Proof.
    intros H1 H2 H3a Hagl Hf Hstep t w ldr m Hin.
    pose proof (step_gext V n l n' H1 H2 Hf Hstep) as Hg.
    destruct (new_ack_sound n l n' t w ldr m H2 H3a Hagl Hstep Hin) as [Hold|(_ & Ht & Hm & _)].
    - destruct (i_ack_le n H3a _ _ _ _ Hold) as (Ha & Hb).
      pose proof (step_term_mono V n l n' w Hstep). pose proof (llog_len_gext n n' t Hg). lia.
    - lia.
  Qed.

  Lemma I_ack_node_step n l n' :
    inv1 n -> inv2 n -> inv3a n -> agl n -> fresh n l -> step n l n' -> I_ack_node n'.
  Proof.
    intros H1 H2 H3a Hagl Hf Hstep t w k (ldr & m & Hkm & Hin).
    pose proof (step_gext V n l n' H1 H2 Hf Hstep) as Hg.
    destruct (new_ack_sound n l n' t w ldr m H2 H3a Hagl Hstep Hin) as [Hold|(_ & _ & _ & Hag)].
    2:{ left. eapply agree_le; eauto. }
    assert (Hack : acked n t w k) by (exists ldr, m; auto).
    pose proof (acked_len n t w k (i_ack_le n H3a) Hack) as Hklen.
    pose proof (step_term_mono V n l n' w Hstep) as Hmono.
    assert (Hblame : forall T, blamed n t k T -> T <= term (nodes n' w) ->
                               blamed n' t k (term (nodes n' w))).
    { intros T Hb HT. eapply blamed_mono; [eapply blamed_gext; eauto | exact HT]. }
    destruct (step_log_cases n l n' w Hstep)
      as [(e & He)|[(T & ldr' & prev & pt & ents & lc & Hae & HT & HT' & Hpt & Hta)
                   |(m0 & Hm0 & _ & Hacks)]].
    - destruct (i_ack_node n H3a t w k Hack) as [Hag|Hb]; [left | right; eauto].
      rewrite He. apply (agree_gext_r n n' k _ t Hg Hklen).
      apply agree_ext_l; [exact Hag|]. apply agree_sym in Hag. eapply agree_len; eauto.
    - destruct (ae_overwrite n w T ldr' prev pt ents lc _ t k H2 H3a Hae HT Hpt Hta Hack)
        as [Hag|Hb].
      + left. now apply (agree_gext_r n n' k _ t Hg Hklen).
      + right. apply (Hblame T Hb). lia.
    - destruct (i_ack_node n H3a t w k Hack) as [Hag|Hb]; [left | right; eauto].
      rewrite Hm0. apply (agree_gext_r n n' k _ t Hg Hklen).
      eapply agree_trans; [|exact Hag]. apply agree_firstn.
      pose proof (acks_le_spec _ _ _ _ _ _ Hacks Hold). lia.
  Qed.

  (* what handling a matching AE does to the log, relative to hcommit *)
  Lemma handle_ae_hcommit n w ldr prev ents lc l' :
    inv2 n -> agl n ->
    In (AE (term (nodes n w)) ldr prev (term_at (log (nodes n w)) prev) ents lc) (msgs n) ->
    try_append (log (nodes n w)) (commit (nodes n w)) prev ents = Some l' ->
    let T := term (nodes n w) in
    agree (hcommit (nodes n w)) l' (log (nodes n w)) /\
    hcommit (nodes n w) <= length l' /\
    agree (prev + length ents) l' (llog n T) /\
    prev + length ents <= length l' /\ prev + length ents <= length (llog n T).
  Proof.
    intros H2 Hagl Hae Hta T.
    destruct (i_ae n H2 _ _ _ _ _ _ Hae) as (Hlead & Hlen & _).
    destruct (Hagl w T eq_refl Hlead) as (Hag & Hhl).
    pose proof (handle_ae_keeps n T ldr prev _ ents lc _ _ l' _ H2 Hae (i_log_ok n H2 w) eq_refl
                                Hta Hag Hhl) as Hk.
    destruct (handle_ae_log n _ _ _ _ _ _ _ _ _ H2 Hae (i_log_ok n H2 w) eq_refl Hta) as (_ & Hm).
    fold T in Hm.
    repeat split; try assumption.
    - eapply agree_trans; [exact Hk|]. now apply agree_sym.
    - apply agree_sym in Hk. eapply agree_len; eauto.
    - apply agree_sym in Hm. eapply agree_len; eauto.
  Qed.

  Lemma I_commit_bounds_step n l n' :
    inv1 n -> inv2 n -> inv3a n -> agl n -> step n l n' -> I_commit_bounds n'.
  Proof.
    intros H1 H2 H3a Hagl Hstep w.
    pose proof (i_commit_bounds n H3a w) as Hold.
    pose proof (i_role_term n H1) as Hrt.
    inv_step Hstep; simp_upd; auto; try lia.
    - rewrite app_length. simpl. lia.
    - rewrite app_length. simpl. lia.
    - match goal with Hae : In (AE _ _ _ _ _ _) _, Hta : try_append _ _ _ _ = _ |- _ =>
        destruct (handle_ae_hcommit n _ _ _ _ _ _ H2 Hagl Hae Hta) as (_ & Ha & _ & Hb & _) end.
      lia.
    - match goal with Ht : term_at _ _ = term (nodes n ?i), Hr : role _ = Leader |- _ =>
        assert (1 <= term (nodes n i)) by (apply Hrt; congruence);
        assert (1 <= k <= length (log (nodes n i))) by (apply term_at_in_range; lia) end.
      lia.
    - rewrite firstn_length. lia.
  Qed.

  Lemma I_vote_pair_step n l n' :
    inv1 n -> inv2 n -> inv3a n -> agl n -> fresh n l -> step n l n' -> I_vote_pair n'.
  Proof.
    intros H1 H2 H3a Hagl Hf Hstep T w c vl t k Hvote Hack Hlt.
    pose proof (step_gext V n l n' H1 H2 Hf Hstep) as Hg.
    assert (Hn : acked n t w k /\ (agree k vl (llog n t) \/ blamed n t k T)).
    { destruct (new_vote_sound n l n' T w c vl Hstep Hvote) as [Hvold|(-> & HT & Hacks & _)].
      - destruct Hack as (ldr & m & Hkm & Hin).
        destruct (new_ack_sound n l n' t w ldr m H2 H3a Hagl Hstep Hin) as [Hold|(Ht & _)].
        + assert (Hack : acked n t w k) by (exists ldr, m; auto).
          split; [exact Hack|]. eapply (i_vote_pair n H3a); eauto.
        + pose proof (i_vote_le n H1 _ _ _ _ Hvold). lia.
      - pose proof (Hacks _ _ _ Hack) as Hack'. split; [exact Hack'|].
        destruct (i_ack_node n H3a t w k Hack') as [Hag|Hb]; [now left|].
        right. eapply blamed_mono; eauto. }
    destruct Hn as (Hack' & Hn).
    pose proof (acked_len n t w k (i_ack_le n H3a) Hack') as Hklen.
    destruct Hn as [Hag|Hb].
    - left. now apply (agree_gext_r n n' k _ t Hg Hklen).
    - right. now apply (blamed_gext n n' t k T Hg Hklen).
  Qed.

  Lemma I_vote_utd_step n l n' : inv3a n -> step n l n' -> I_vote_utd n'.
  Proof.
    intros H3a Hstep T w c vl Hvote.
    destruct (new_vote_sound n l n' T w c vl Hstep Hvote) as [Hvold|(_ & _ & _ & Hrv)].
    - destruct (i_vote_utd n H3a _ _ _ _ Hvold) as (li & lt & Hrv & Hu).
      exists li, lt. split; [|exact Hu]. eapply step_msgs_incl; eauto.
    - exact Hrv.
  Qed.

  Lemma I_rv_step n l n' : inv3a n -> step n l n' -> I_rv n'.
  Proof.
    intros H3a Hstep T c li lt Hin.
    pose proof (i_rv n H3a T c li lt) as Hold.
    pose proof (step_term_mono V n l n' c Hstep) as Hmono.
    inv_step Hstep; msg_cases Hin; simp_upd;
      try (split; [lia|]; intros; split; reflexivity);
      try specialize (Hold Hin); try destruct Hold as (Ho1 & Ho2);
      (split; [simpl in *; lia|]); intros Ht Hr; auto; try discriminate; try lia.
  Qed.

  Lemma inv3a_step n l n' :
    inv1 n -> inv2 n -> inv3a n -> agl n -> fresh n l -> step n l n' -> inv3a n'.
  Proof.
    intros H1 H2 H3a Hagl Hf Hstep. constructor.
    - eapply I_commit_bounds_step; eauto.
    - eapply I_ack_le_step; eauto.
    - eapply I_ack_node_step; eauto.
    - eapply I_vote_pair_step; eauto.
    - eapply I_vote_utd_step; eauto.
    - eapply I_rv_step; eauto.
  Qed.

  Lemma inv3a_init : inv3a (init).
  Proof.
    constructor; red; simpl; intros; try contradiction; try discriminate; auto.
    destruct H as (ldr & m & _ & []).
  Qed.

  (* ---- preservation: the quorum part, for the fixed voter set V ---- *)

  Lemma I_hcommit_step n l n' :
    inv1 n -> inv2 n -> inv3a n -> inv3b n -> fresh n l -> step n l n' -> I_hcommit V n'.
  Proof.
    intros H1 H2 H3a H3b Hf Hstep w.
    pose proof (agl_fixed V n H2 H3a H3b) as Hagl.
    pose proof (step_gext V n l n' H1 H2 Hf Hstep) as Hg.
    pose proof (cprefix_gext V n n' _ _ _ Hg (i_hcommit V n H3b w)) as Hold.
    pose proof (i_commit_bounds n H3a w) as Hb.
    pose proof (i_role_term n H1) as Hrt.
    inv_step Hstep; simp_upd; auto.
    - (* Timeout *) eapply cprefix_tmax; eauto.
    - (* HigherTerm *) eapply cprefix_tmax; eauto. lia.
    - (* BecomeLeader *) eapply cprefix_agree; eauto. apply agree_app_l. lia.
    - (* Propose *) eapply cprefix_agree; eauto. apply agree_app_l. lia.
    - (* HandleAE *)
      match goal with Hae : In (AE _ _ _ _ _ _) _, Hta : try_append _ _ _ _ = _ |- _ =>
        destruct (handle_ae_hcommit n _ _ _ _ _ _ H2 Hagl Hae Hta) as (Hk & _ & Hm & _ & Hml);
        pose proof (i_ae_commit V n H3b _ _ _ _ _ _ Hae) as Hlc end.
      match goal with |- cprefix _ _ _ (Nat.max ?hc (Nat.max ?c (Nat.min ?lc ?m))) _ =>
        destruct (Nat.le_gt_cases (Nat.min lc m) hc) as [Hle|Hgt];
        [ replace (Nat.max hc (Nat.max c (Nat.min lc m))) with hc by lia
        | replace (Nat.max hc (Nat.max c (Nat.min lc m))) with (Nat.min lc m) by lia ] end.
      + eapply cprefix_agree; eauto.
      + apply (cprefix_gext V n _ _ _ _ Hg).
        eapply cprefix_agree; [eapply cprefix_le; [exact Hlc | lia]|].
        eapply agree_le; [exact Hm | lia].
    - (* AdvanceCommit *)
      match goal with |- cprefix _ _ _ (Nat.max ?hc ?k) _ =>
        destruct (Nat.le_gt_cases k hc) as [Hle|Hgt];
        [ replace (Nat.max hc k) with hc by lia; exact Hold
        | replace (Nat.max hc k) with k by lia ] end.
      match goal with Hr : role (nodes n ?i) = Leader |- _ =>
        assert (1 <= term (nodes n i)) by (apply Hrt; congruence);
        assert (1 <= k <= length (log (nodes n i))) by (apply term_at_in_range; lia);
        right; exists (term (nodes n i)), k;
        pose proof (i_leader_log n H2 i Hr) as Hll end.
      split; [lia|]. split; [lia|]. split.
      + unfold committed. cbn [llog msgs]. rewrite Hll.
        split; [assumption|]. split; [assumption|]. now apply count_ack_quorum.
      + cbn [llog]. rewrite Hll. apply agree_refl.
    - (* HandleHB *)
      match goal with |- cprefix _ _ _ (Nat.max ?hc (Nat.max ?cm ?c)) _ =>
        destruct (Nat.le_gt_cases c hc) as [Hle|Hgt];
        [ replace (Nat.max hc (Nat.max cm c)) with hc by lia; exact Hold
        | replace (Nat.max hc (Nat.max cm c)) with c by lia ] end.
      match goal with Hhb : In (HB _ _ _ _) _ |- _ =>
        destruct (i_hb V n H3b _ _ _ _ Hhb) as [->|(Hack & Hc)]; [lia|] end.
      apply (cprefix_gext V n _ _ _ _ Hg).
      eapply cprefix_agree; [exact Hc|].
      destruct (i_ack_node n H3a _ _ _ Hack) as [Hag|(U & HU & _)]; [exact Hag | lia].
    - (* Restart *) eapply cprefix_agree; eauto. apply agree_firstn. lia.
  Qed.

  Lemma I_ae_commit_step n l n' :
    inv1 n -> inv2 n -> inv3a n -> inv3b n -> fresh n l -> step n l n' -> I_ae_commit V n'.
  Proof.
    intros H1 H2 H3a H3b Hf Hstep t ldr prev pt ents lc Hin.
    pose proof (step_gext V n l n' H1 H2 Hf Hstep) as Hg.
    apply (cprefix_gext_llog V n n' _ _ Hg).
    pose proof (i_ae_commit V n H3b t ldr prev pt ents lc) as Hold.
    inv_step Hstep; msg_cases Hin; auto.
    rewrite (i_leader_log n H2 ldr) by assumption.
    eapply cprefix_le; [apply (i_hcommit V n H3b ldr)|].
    pose proof (i_commit_bounds n H3a ldr). lia.
  Qed.

  Lemma I_hb_step n l n' :
    inv1 n -> inv2 n -> inv3a n -> inv3b n -> fresh n l -> step n l n' -> I_hb V n'.
  Proof.
    intros H1 H2 H3a H3b Hf Hstep t ldr to c Hin.
    pose proof (step_gext V n l n' H1 H2 Hf Hstep) as Hg.
    assert (Hn : c = 0 \/ (acked n t to c /\ cprefix V n t c (llog n t))).
    { pose proof (i_hb V n H3b t ldr to c) as Hold.
      inv_step Hstep; msg_cases Hin; auto.
      match goal with H : _ = 0 \/ _ |- _ => destruct H as [->|Hex]; [now left | right] end.
      split; [now apply existsb_acked|].
      rewrite (i_leader_log n H2 ldr) by assumption.
      eapply cprefix_le; [apply (i_hcommit V n H3b ldr)|].
      pose proof (i_commit_bounds n H3a ldr). lia. }
    destruct Hn as [->|(Ha & Hc)]; [now left | right]. split.
    - eapply acked_mono; [apply Hg | exact Ha].
    - now apply (cprefix_gext_llog V n n' _ _ Hg).
  Qed.

  (* an already elected leader keeps its witness quorum *)
  Lemma elected_old n l n' T c :
    inv1 n -> inv2 n -> inv3a n -> inv3b n -> fresh n l -> step n l n' -> lead n T = Some c ->
    exists Q, is_quorum V Q /\ forall w, In w Q ->
      voted_msg n' T w c /\
      forall t k, t < T -> 1 <= k -> acked n' t w k -> term_at (llog n' t) k = t ->
                  agree k (llog0 n' T) (llog n' t) \/ blamed n' t k (T - 1).
  Proof.
    intros H1 H2 H3a H3b Hf Hstep Hl.
    pose proof (agl_fixed V n H2 H3a H3b) as Hagl.
    pose proof (step_gext V n l n' H1 H2 Hf Hstep) as Hg.
    destruct (i_elected V n H3b T c Hl) as (Q & HQ & HQw).
    exists Q. split; [exact HQ|]. intros w Hw. destruct (HQw w Hw) as (Hv & Hp).
    split; [eapply voted_msg_mono; [apply Hg | exact Hv]|].
    intros t k Hlt Hk (ldr & m & Hkm & Hin) Hterm.
    destruct (new_ack_sound n l n' t w ldr m H2 H3a Hagl Hstep Hin) as [Hold|(Ht & _)].
    2:{ destruct Hv as (vl & Hv). pose proof (i_vote_le n H1 _ _ _ _ Hv). lia. }
    assert (Hack : acked n t w k) by (exists ldr, m; auto).
    pose proof (acked_len n t w k (i_ack_le n H3a) Hack) as Hklen.
    rewrite (term_at_gext n n' t k Hg Hklen) in Hterm.
    assert (Hl0 : llog0 n' T = llog0 n T).
    { destruct Hg as (_ & _ & _ & Hg4). apply Hg4. congruence. }
    rewrite Hl0.
    destruct (Hp t k Hlt Hk Hack Hterm) as [Hag|Hb].
    - left. now apply (agree_gext_r n n' k _ t Hg Hklen).
    - right. now apply (blamed_gext n n' t k _ Hg Hklen).
  Qed.

  Lemma I_elected_step n l n' :
    inv1 n -> inv2 n -> inv3a n -> inv3b n -> fresh n l -> step n l n' -> I_elected V n'.
  Proof.
    intros H1 H2 H3a H3b Hf Hstep T c Hl'.
    destruct (lead n T) as [c0|] eqn:Hl.
    { pose proof (step_lead_mono V n l n' T c0 Hf Hstep Hl) as Hl2.
      assert (c0 = c) by congruence. subst c0.
      eapply elected_old; eauto. }
    pose proof (agl_fixed V n H2 H3a H3b) as Hagl.
    pose proof (step_gext V n l n' H1 H2 Hf Hstep) as Hg.
    pose proof (fun t w ldr m => new_ack_sound n l n' t w ldr m H2 H3a Hagl Hstep) as Hnew.
    inv_step Hstep; try congruence.
    (* BecomeLeader i at T0 = term i *)
    simp_updg; [|congruence]. injection Hl' as <-.
    destruct (count_vote_quorum V V_nodup n _ _ H0) as (Q & HQ & HQw).
    exists Q. split; [exact HQ|]. intros w Hw. destruct (HQw w Hw) as (vl & Hv).
    split; [now exists vl|].
    intros t k Hlt Hk (ldr & m & Hkm & Hin) Hterm.
    assert (Hne : t <> term (nodes n i)) by lia.
    rewrite (updg_neq _ _ _ _ Hne) in *.
    destruct (Hnew t w ldr m Hin) as [Hold|(Ht & _)].
    2:{ pose proof (i_vote_le n H1 _ _ _ _ Hv). lia. }
    assert (Hack : acked n t w k) by (exists ldr, m; auto).
    pose proof (acked_len n t w k (i_ack_le n H3a) Hack) as Hklen.
    assert (HUT : last_term (log (nodes n i)) < term (nodes n i)).
    { apply no_leader_last_term; auto. apply (i_role_term n H1). congruence. }
    destruct (elect_core n i w vl t k H2 H3a H HUT Hv Hlt Hk Hack Hterm) as [(Hag & HkL)|Hb].
    - left. now apply agree_ext_l.
    - right. destruct Hb as (U & HU & HlU & Hna).
      assert (HneU : U <> term (nodes n i)) by (intros ->; contradiction).
      exists U. split; [lia|]. cbn [lead llog0 llog].
      rewrite !(updg_neq _ _ _ _ HneU), (updg_neq _ _ _ _ Hne). split; assumption.
  Qed.

  Lemma inv3b_step n l n' :
    inv1 n -> inv2 n -> inv3a n -> inv3b n -> fresh n l -> step n l n' -> inv3b n'.
  Proof.
    intros H1 H2 H3a H3b Hf Hstep. constructor.
    - eapply I_hcommit_step; eauto.
    - eapply I_ae_commit_step; eauto.
    - eapply I_hb_step; eauto.
    - eapply I_elected_step; eauto.
  Qed.

  Lemma inv3b_init : inv3b (init).
  Proof.
    constructor; red; simpl; intros; try contradiction; try discriminate; auto.
    now left.
  Qed.

  (* ---- the whole invariant of stages 1 and 2 ---- *)

  Record inv (n : net) : Prop := {
    inv_1 : inv1 n;
    inv_q : I_lead_quorum V n;
    inv_2 : inv2 n;
    inv_3a : inv3a n;
    inv_3b : inv3b n
  }.

  Lemma inv_init : inv init.
  Proof.
    constructor; [apply inv1_init | intros t c H; discriminate | apply inv2_init
                 | apply inv3a_init | apply inv3b_init].
  Qed.

  Lemma inv_fresh n l n' : inv n -> step n l n' -> fresh n l.
  Proof. intros [H1 Hq H2 H3a H3b] Hstep. eapply fresh_fixed; eauto. Qed.

  Lemma inv_agl n : inv n -> agl n.
  Proof. intros [H1 Hq H2 H3a H3b]. now apply (agl_fixed V). Qed.

  Lemma inv_step n l n' : inv n -> step n l n' -> inv n'.
  Proof.
    intros Hi Hstep. pose proof (inv_fresh n l n' Hi Hstep) as Hf.
    pose proof (inv_agl n Hi) as Hagl. destruct Hi as [H1 Hq H2 H3a H3b]. constructor.
    - eapply inv1_step; eauto.
    - eapply I_lead_quorum_step; eauto.
    - eapply inv2_step; eauto.
    - eapply inv3a_step; eauto.
    - eapply inv3b_step; eauto.
  Qed.

  Lemma inv_steps n ls n' : inv n -> steps V n ls n' -> inv n'.
  Proof. intros Hi Hs. induction Hs; [assumption|]. apply IHHs. eapply inv_step; eauto. Qed.

  Lemma inv_reachable n : reachable V n -> inv n.
  Proof. intros (ls & Hs). eapply inv_steps; [apply inv_init | exact Hs]. Qed.

End Commit.
