(* R21: lemmas about Model/LeaderReport.v *)
From Coq Require Import List NArith Bool Lia.
From DB Require Import Model.LeaderReport.
Import ListNotations.
Open Scope N_scope.

(* ---- one replica ---- *)
(* where a report comes from *)
Definition justified (id : N) (evs : list revent) (r : report) : Prop :=
  rp_replica r = id /\
  (rp_leader r = 0 \/ (rp_leader r = id /\ In (RBecomeLeader (rp_term r)) evs) \/ In (RFollow (rp_term r) (rp_leader r)) evs).

Lemma justified_mono id evs e r : justified id evs r -> justified id (evs ++ [e]) r.
Proof.
  intros (H1 & H2). split; [exact H1|]. destruct H2 as [H|[(H & H')|H]]; auto.
  - right. left. split; [exact H|]. apply in_or_app. left. exact H'.
  - right. right. apply in_or_app. left. exact H.
Qed.

Definition last_report (s : rstate) : option report :=
  match rev (rs_reports s) with [] => None | r :: _ => Some r end.

Record inv (id : N) (evs : list revent) (s : rstate) : Prop := {
  inv_just : Forall (justified id evs) (rs_reports s);
  inv_prev : rs_reports s = [] /\ rs_prev s = (0, 0) \/
             last_report s = Some (mkReport id (snd (rs_prev s)) (fst (rs_prev s)));
  inv_upd : forall l t, rs_update s = Some (l, t) -> rs_prev s = (l, t) /\ rs_reports s <> [];
  inv_info_in : forall l t, rs_info s = Some (l, t) -> In (mkReport id t l) (rs_reports s);
  inv_quiet : rs_update s = None -> snd (rs_prev s) <> 0 -> rs_info s = Some (rs_prev s)
}.

Lemma last_report_snoc s r rs : rs_reports s = rs ++ [r] -> last_report s = Some r.
Proof. unfold last_report. intros ->. rewrite rev_app_distr. reflexivity. Qed.

Lemma last_report_in s r : last_report s = Some r -> In r (rs_reports s).
Proof.
  unfold last_report. destruct (rev (rs_reports s)) eqn:E; [discriminate|]. intros H. inversion H; subst.
  apply in_rev. rewrite E. left. reflexivity.
Qed.

Lemma set_leader_inv id evs s l t e :
  inv id evs s ->
  justified id (evs ++ [e]) (mkReport id t l) ->
  inv id (evs ++ [e]) (set_leader_id id s l t).
Proof.
  intros I J. unfold set_leader_id.
  destruct (((t =? 0) && (l =? 0)) || negb (l =? fst (rs_prev s)) || negb (t =? snd (rs_prev s))) eqn:C.
  - constructor; cbn [rs_reports rs_prev rs_update rs_info].
    + apply Forall_app. split.
      * eapply Forall_impl; [|exact (inv_just _ _ _ I)]. intros r. apply justified_mono.
      * constructor; [exact J|constructor].
    + right. cbn [fst snd]. eapply last_report_snoc. reflexivity.
    + intros l0 t0 H. inversion H; subst. split; [reflexivity|]. destruct (rs_reports s); discriminate.
    + intros l0 t0 H. apply in_or_app. left. exact (inv_info_in _ _ _ I l0 t0 H).
    + discriminate.
  - (* unchanged: (l,t) is the previous pair and it is not the initial special case *)
    apply orb_false_iff in C. destruct C as [C C3]. apply orb_false_iff in C. destruct C as [C1 C2].
    apply negb_false_iff in C2, C3. apply N.eqb_eq in C2, C3.
    assert (Hp : rs_prev s = (l, t)) by (destruct (rs_prev s); cbn in *; subst; reflexivity).
    constructor; cbn [rs_reports rs_prev rs_update rs_info].
    + eapply Forall_impl; [|exact (inv_just _ _ _ I)]. intros r. apply justified_mono.
    + exact (inv_prev _ _ _ I).
    + intros l0 t0 H. assert (El : l0 = l /\ t0 = t) by (inversion H; auto). destruct El; subst l0 t0. split; [exact Hp|].
      destruct (inv_prev _ _ _ I) as [(_ & H0)|H0].
      * rewrite Hp in H0. assert (El : l = 0 /\ t = 0) by (inversion H0; auto). destruct El as [E1 E2]. rewrite E1, E2 in C1. discriminate C1.
      * intros E. unfold last_report in H0. rewrite E in H0. discriminate.
    + exact (inv_info_in _ _ _ I).
    + discriminate.
Qed.

Lemma engine_inv id evs s : inv id evs s -> inv id (evs ++ [REngine]) (engine_cycle s).
Proof.
  intros I. unfold engine_cycle. destruct (rs_update s) as [[l t]|] eqn:U.
  - destruct (inv_upd _ _ _ I l t U) as (Hp & Hne).
    constructor; cbn [rs_reports rs_prev rs_update rs_info].
    + eapply Forall_impl; [|exact (inv_just _ _ _ I)]. intros r. apply justified_mono.
    + exact (inv_prev _ _ _ I).
    + discriminate.
    + intros l0 t0 H. destruct (t =? 0) eqn:T.
      * exact (inv_info_in _ _ _ I l0 t0 H).
      * inversion H; subst. destruct (inv_prev _ _ _ I) as [(H0 & _)|H0]; [contradiction|].
        rewrite Hp in H0. cbn [fst snd] in H0. apply last_report_in. exact H0.
    + intros _ Hs. rewrite Hp in Hs |- *. cbn [snd] in Hs. apply N.eqb_neq in Hs. rewrite Hs. reflexivity.
  - constructor.
    + eapply Forall_impl; [|exact (inv_just _ _ _ I)]. intros r. apply justified_mono.
    + exact (inv_prev _ _ _ I).
    + exact (inv_upd _ _ _ I).
    + exact (inv_info_in _ _ _ I).
    + exact (inv_quiet _ _ _ I).
Qed.

Lemma rrun_snoc id evs e : rrun id (evs ++ [e]) = rstep id (rrun id evs) e.
Proof. unfold rrun. rewrite fold_left_app. reflexivity. Qed.

Lemma rrun_inv id evs : inv id evs (rrun id evs).
Proof.
  induction evs as [|e evs IH] using rev_ind.
  - constructor; cbn; auto; try discriminate. intros _ H. contradiction.
  - rewrite rrun_snoc. destruct e as [t|t l|t|]; cbn [rstep].
    + apply set_leader_inv; [exact IH|]. split; [reflexivity|]. right. left. split; [reflexivity|].
      apply in_or_app. right. left. reflexivity.
    + apply set_leader_inv; [exact IH|]. split; [reflexivity|]. right. right.
      apply in_or_app. right. left. reflexivity.
    + apply set_leader_inv; [exact IH|]. split; [reflexivity|]. left. reflexivity.
    + apply engine_inv. exact IH.
Qed.

(* what GetLeaderID returns was reported by the replica's listener before *)
Lemma get_leader_id_was_reported id evs l t v :
  get_leader_id (rrun id evs) = (l, t, v) -> v = true -> In (mkReport id t l) (rs_reports (rrun id evs)).
Proof.
  unfold get_leader_id. intros H Hv. destruct (rs_info (rrun id evs)) as [[l0 t0]|] eqn:E.
  - inversion H; subst. exact (inv_info_in _ _ _ (rrun_inv id evs) _ _ E).
  - inversion H; subst. discriminate.
Qed.

(* once the engine has taken the replica's last update, GetLeaderID is the last report *)
Lemma get_leader_id_agrees_with_last_report_proved id evs r :
  last_report (rrun id (evs ++ [REngine])) = Some r -> rp_term r <> 0 ->
  get_leader_id (rrun id (evs ++ [REngine])) = (rp_leader r, rp_term r, negb (rp_leader r =? 0)).
Proof.
  intros HL Ht. pose proof (rrun_inv id (evs ++ [REngine])) as I.
  assert (U : rs_update (rrun id (evs ++ [REngine])) = None).
  { rewrite rrun_snoc. cbn [rstep]. unfold engine_cycle. destruct (rs_update (rrun id evs)) as [[? ?]|] eqn:E; [reflexivity|exact E]. }
  destruct (inv_prev _ _ _ I) as [(H0 & _)|H0].
  - unfold last_report in HL. rewrite H0 in HL. discriminate.
  - rewrite HL in H0. inversion H0; subst r. cbn [rp_term rp_leader] in *.
    unfold get_leader_id. rewrite (inv_quiet _ _ _ I U Ht). destruct (rs_prev _); reflexivity.
Qed.

(* ---- the cluster ---- *)
Lemma events_of_in id tr e : In e (events_of id tr) -> In (id, e) tr.
Proof.
  unfold events_of. intros H. apply in_map_iff in H. destruct H as ([i e'] & E & H). cbn in E. subst e'.
  apply filter_In in H. destruct H as (H & Hi). cbn in Hi. apply N.eqb_eq in Hi. subst i. exact H.
Qed.

Section Cluster.
  Variable tr : list (N * revent).
  (* the raft-level hypotheses; the first is C03's theorem (Props/L2.v election_safety) read on
     the events: two replicas that become leader in the same term are the same replica *)
  Hypothesis election_safety : forall i j t, In (i, RBecomeLeader t) tr -> In (j, RBecomeLeader t) tr -> i = j.
  (* a replica follows l in term t only on a message that l sent as leader of term t
     (Replicate, Heartbeat, InstallSnapshot, ReadIndexResp are sent by leaders only and carry
     the sender's term, which the receiver compares with its own) *)
  Hypothesis leader_messages_from_leaders : forall i t l, In (i, RFollow t l) tr -> In (l, RBecomeLeader t) tr.

  Lemma report_names_a_leader ids r : In r (all_reports ids tr) -> rp_leader r <> 0 ->
    In (rp_leader r, RBecomeLeader (rp_term r)) tr.
  Proof.
    unfold all_reports. intros H Hl. apply in_flat_map in H. destruct H as (id & _ & H).
    unfold replica_state in H. pose proof (inv_just _ _ _ (rrun_inv id (events_of id tr))) as J.
    rewrite Forall_forall in J. destruct (J r H) as (Hr & [H0|[(H1 & H2)|H3]]).
    - contradiction.
    - rewrite H1. apply events_of_in. exact H2.
    - apply events_of_in in H3. eapply leader_messages_from_leaders. exact H3.
  Qed.

  Lemma at_most_one_reported_leader_per_term_proved ids r1 r2 :
    In r1 (all_reports ids tr) -> In r2 (all_reports ids tr) -> rp_term r1 = rp_term r2 ->
    rp_leader r1 <> 0 -> rp_leader r2 <> 0 -> rp_leader r1 = rp_leader r2.
  Proof.
    intros H1 H2 Ht L1 L2. pose proof (report_names_a_leader ids r1 H1 L1) as A.
    pose proof (report_names_a_leader ids r2 H2 L2) as B. rewrite Ht in A. exact (election_safety _ _ _ A B).
  Qed.

  Lemma all_equal_of (l : list N) : (forall x y, In x l -> In y l -> x = y) -> all_equal l = true.
  Proof.
    induction l as [|x [|y rest] IH]; intros H; [reflexivity|reflexivity|].
    cbn [all_equal]. apply andb_true_iff. split.
    - apply N.eqb_eq. apply H; [left; reflexivity|right; left; reflexivity].
    - apply IH. intros a b Ha Hb. apply H; right; assumption.
  Qed.

  Lemma one_leader_named_proved ids t : one_leader_named t (all_reports ids tr) = true.
  Proof.
    unfold one_leader_named, leaders_named. apply all_equal_of. intros x y Hx Hy.
    apply in_map_iff in Hx, Hy. destruct Hx as (r1 & E1 & H1). destruct Hy as (r2 & E2 & H2).
    apply filter_In in H1, H2. destruct H1 as (H1 & C1). destruct H2 as (H2 & C2).
    apply andb_true_iff in C1, C2. destruct C1 as (T1 & L1). destruct C2 as (T2 & L2).
    apply N.eqb_eq in T1, T2. apply negb_true_iff in L1, L2. apply N.eqb_neq in L1, L2.
    subst x y. apply (at_most_one_reported_leader_per_term_proved ids r1 r2); auto. congruence.
  Qed.

  (* GetLeaderID on any host never names another leader for a term than any listener was told *)
  Lemma get_leader_id_never_contradicts_reports_proved ids i l t r :
    In i ids -> get_leader_id (replica_state tr i) = (l, t, true) ->
    In r (all_reports ids tr) -> rp_term r = t -> rp_leader r <> 0 -> rp_leader r = l.
  Proof.
    intros Hi HG Hr Ht Hl.
    assert (Hin : In (mkReport i t l) (all_reports ids tr)).
    { unfold all_reports. apply in_flat_map. exists i. split; [exact Hi|].
      eapply get_leader_id_was_reported; [exact HG|reflexivity]. }
    assert (Hl0 : l <> 0).
    { unfold get_leader_id in HG. destruct (rs_info (replica_state tr i)) as [[l0 t0]|]; inversion HG; subst.
      intros E. subst. discriminate. }
    symmetry. apply (at_most_one_reported_leader_per_term_proved ids (mkReport i t l) r); auto.
  Qed.

  (* C18's theorem read on the events: only voters become leader *)
  Variable is_voter : N -> bool.
  Hypothesis only_voters_campaign_or_lead : forall i t, In (i, RBecomeLeader t) tr -> is_voter i = true.

  Lemma reported_leader_is_a_voter_proved ids r : In r (all_reports ids tr) -> rp_leader r <> 0 ->
    is_voter (rp_leader r) = true.
  Proof. intros H Hl. eapply only_voters_campaign_or_lead. exact (report_names_a_leader ids r H Hl). Qed.
End Cluster.

(* the hypotheses are needed: two replicas that both become leader in term 5 are both reported *)
Lemma without_election_safety_two_leaders_reported :
  exists tr, one_leader_named 5 (all_reports [1; 2] tr) = false.
Proof. exists [(1, RBecomeLeader 5); (2, RBecomeLeader 5)]. reflexivity. Qed.
