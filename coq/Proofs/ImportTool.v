(* Lemmas about Model/ImportTool.v (tools.ImportSnapshot). *)
From DB Require Import Base.Bytes Base.CRC32 Gen.GenC20 Model.ImportTool Proofs.Bytes Proofs.CRC32.
From Coq Require Import ZifyN ZifyNat ZifyBool.
Ltac Zify.zify_post_hook ::= Z.div_mod_to_equations.
Open Scope N_scope.

(* ------------------------------------------------------------------ *)
(* byte strings, maps, sets                                             *)

Lemma bytes_eqb_eq a : forall b, bytes_eqb a b = true <-> a = b.
Proof.
  induction a as [|x a IH]; intros [|y b]; cbn [bytes_eqb]; split; intros H;
    try reflexivity; try discriminate.
  - apply andb_true_iff in H as [H1 H2]. apply N.eqb_eq in H1. apply IH in H2. congruence.
  - injection H as -> ->. rewrite N.eqb_refl. cbn. apply IH. reflexivity.
Qed.

Lemma bytes_eqb_refl a : bytes_eqb a a = true.
Proof. apply bytes_eqb_eq. reflexivity. Qed.

Lemma bytes_eqb_neq a b : bytes_eqb a b = false <-> a <> b.
Proof.
  split.
  - intros H E. apply bytes_eqb_eq in E. congruence.
  - intros H. destruct (bytes_eqb a b) eqn:E; [|reflexivity]. apply bytes_eqb_eq in E. contradiction.
Qed.

Lemma alookup_minsert k k' v m :
  alookup k (minsert k' v m) = if k' =? k then Some v else alookup k m.
Proof.
  induction m as [|[k0 v0] r IH]; cbn [minsert alookup].
  - reflexivity.
  - destruct (k' <? k0) eqn:Hlt; cbn [alookup].
    + reflexivity.
    + destruct (k' =? k0) eqn:Heq; cbn [alookup].
      * apply N.eqb_eq in Heq. subst k0. destruct (k' =? k); reflexivity.
      * rewrite IH. destruct (k0 =? k) eqn:H0; [|reflexivity].
        apply N.eqb_eq in H0. subst k0. rewrite Heq. reflexivity.
Qed.

Lemma alookup_mnorm k m : alookup k (mnorm m) = alookup k m.
Proof.
  induction m as [|[k0 v0] r IH]; [reflexivity|].
  unfold mnorm in *. cbn [fold_right fst snd]. rewrite alookup_minsert, IH. reflexivity.
Qed.

Lemma amem_mnorm k m : amem k (mnorm m) = amem k m.
Proof. unfold amem. rewrite alookup_mnorm. reflexivity. Qed.

Lemma alookup_In k m v : alookup k m = Some v -> In (k, v) m.
Proof.
  induction m as [|[k0 v0] r IH]; cbn [alookup]; [discriminate|].
  destruct (k0 =? k) eqn:E.
  - apply N.eqb_eq in E. intros [= ->]. left. congruence.
  - intros H. right. apply IH, H.
Qed.

Lemma In_amem k v m : In (k, v) m -> amem k m = true.
Proof.
  unfold amem. induction m as [|[k0 v0] r IH]; cbn [alookup In]; [tauto|].
  intros [[= -> ->]|H].
  - rewrite N.eqb_refl. reflexivity.
  - destruct (k0 =? k); [reflexivity|apply IH, H].
Qed.

Lemma amem_keys k m : amem k m = true <-> In k (akeys m).
Proof.
  unfold amem, akeys. induction m as [|[k0 v0] r IH]; cbn [alookup map In fst].
  - split; [discriminate|tauto].
  - destruct (k0 =? k) eqn:E.
    + apply N.eqb_eq in E. split; [intros _; left; exact E|reflexivity].
    + apply N.eqb_neq in E. rewrite IH. split; [intros H; right; exact H|intros [H|H]; [contradiction|exact H]].
Qed.

Lemma smem_In k s : smem k s = true <-> In k s.
Proof.
  unfold smem. rewrite existsb_exists. split.
  - intros (x & Hx & E). apply N.eqb_eq in E. subst. exact Hx.
  - intros H. exists k. split; [exact H|apply N.eqb_refl].
Qed.

Lemma In_sinsert x k s : In x (sinsert k s) <-> x = k \/ In x s.
Proof.
  induction s as [|y r IH]; cbn [sinsert In].
  - intuition.
  - destruct (k <? y); cbn [In]; [intuition|].
    destruct (k =? y) eqn:E; cbn [In].
    + apply N.eqb_eq in E. subst. intuition.
    + rewrite IH. intuition.
Qed.

Lemma In_sadd_all x ks : forall s, In x (sadd_all ks s) <-> In x ks \/ In x s.
Proof.
  unfold sadd_all. induction ks as [|k r IH]; intros s; cbn [fold_left In].
  - intuition.
  - rewrite IH, In_sinsert. intuition.
Qed.

Lemma In_not_listed x members ids :
  In x (not_listed members ids) <-> In x ids /\ amem x members = false.
Proof.
  unfold not_listed. rewrite filter_In. rewrite negb_true_iff. reflexivity.
Qed.

(* ------------------------------------------------------------------ *)
(* getProcessedSnapshotRecord                                           *)

Definition old_member (old : membership) (id : N) : Prop :=
  amem id (m_addresses old) = true \/ amem id (m_nonvotings old) = true \/ amem id (m_witnesses old) = true.

Lemma In_processed_removed old members id :
  In id (processed_removed old members) <->
  In id (m_removed old) \/ (old_member old id /\ amem id members = false).
Proof.
  unfold processed_removed, old_member.
  rewrite !In_sadd_all, !In_not_listed, <- !amem_keys. cbn [In]. intuition.
Qed.

Lemma processed_ccid_fact : processed_ccid_is_index = true. Proof. reflexivity. Qed.
Lemma processed_imported_fact : processed_imported_flag = true. Proof. reflexivity. Qed.

Lemma import_membership_exact_proved dst old members :
  let ss := get_processed dst old members in
  let m := s_membership ss in
  (forall id, alookup id (m_addresses m) = alookup id members) /\
  m_nonvotings m = [] /\ m_witnesses m = [] /\
  (forall id, In id (m_removed m) <->
     In id (m_removed (s_membership old)) \/
     (old_member (s_membership old) id /\ amem id members = false)) /\
  m_ccid m = s_index old /\
  s_imported ss = true /\
  s_index ss = s_index old /\ s_term ss = s_term old /\ s_checksum ss = s_checksum old /\
  s_type ss = s_type old /\ s_shard ss = s_shard old /\ s_filesize ss = s_filesize old /\
  s_dummy ss = s_dummy old.
Proof.
  cbn zeta. unfold get_processed, processed_membership. cbn [s_membership m_addresses m_nonvotings
    m_witnesses m_removed m_ccid s_imported s_index s_term s_checksum s_type s_shard s_filesize s_dummy].
  rewrite processed_ccid_fact, processed_imported_fact.
  repeat split; try reflexivity.
  - intros id. apply alookup_mnorm.
  - apply In_processed_removed.
  - apply In_processed_removed.
Qed.

(* ------------------------------------------------------------------ *)
(* checkMembers                                                         *)

Lemma check_members_none old members :
  check_members old members = None <->
  forall id a, In (id, a) members -> check_member old id a = None.
Proof.
  induction members as [|[k v] r IH]; cbn [check_members In].
  - split; [intros _ ? ? []|reflexivity].
  - destruct (check_member old k v) eqn:E.
    + split; [discriminate|]. intros H. rewrite <- E. apply H. left. reflexivity.
    + rewrite IH. split.
      * intros H id a [[= -> ->]|Hin]; [exact E|apply H, Hin].
      * intros H id a Hin. apply H. right. exact Hin.
Qed.

(* the accept / refuse verdict does not depend on the iteration order *)
Lemma check_members_perm old m1 m2 :
  (forall kv, In kv m1 <-> In kv m2) ->
  (check_members old m1 = None <-> check_members old m2 = None).
Proof.
  intros H. rewrite !check_members_none. split; intros G id a Hin; apply G, H, Hin.
Qed.

(* exact characterisation of one member's verdict *)
Definition bad_member (old : membership) (id : N) (a : addr) : Prop :=
  (exists v, alookup id (m_addresses old) = Some v /\ v <> a) \/
  amem id (m_nonvotings old) = true \/
  amem id (m_witnesses old) = true \/
  In id (m_removed old).

Lemma check_member_rest_none old id a :
  check_member_rest old id a = None <->
  amem id (m_nonvotings old) = false /\ amem id (m_witnesses old) = false /\ ~ In id (m_removed old).
Proof.
  unfold check_member_rest, amem. rewrite <- smem_In.
  destruct (alookup id (m_nonvotings old)) as [v|].
  - split.
    + destruct (negb (bytes_eqb v a)); intros H; discriminate H.
    + intros (H & _). discriminate H.
  - destruct (alookup id (m_witnesses old)) as [v|].
    + split.
      * destruct (negb (bytes_eqb v a)); intros H; discriminate H.
      * intros (_ & H & _). discriminate H.
    + destruct (smem id (m_removed old)); split.
      * intros H; discriminate H.
      * intros (_ & _ & H). exfalso. apply H. reflexivity.
      * intros _. repeat split. intros H; discriminate H.
      * reflexivity.
Qed.

Lemma check_member_none old id a :
  check_member old id a = None <-> ~ bad_member old id a.
Proof.
  unfold check_member, bad_member.
  destruct (alookup id (m_addresses old)) as [v|] eqn:E.
  - destruct (bytes_eqb v a) eqn:B; cbn [negb].
    + apply bytes_eqb_eq in B. subst v. rewrite check_member_rest_none. split.
      * intros (H1 & H2 & H3) [(v & [= <-] & Hne)|[H|[H|H]]]; congruence || contradiction.
      * intros H. repeat split.
        -- destruct (amem id (m_nonvotings old)) eqn:X; [|reflexivity]. exfalso. apply H. auto.
        -- destruct (amem id (m_witnesses old)) eqn:X; [|reflexivity]. exfalso. apply H. auto.
        -- intros X. apply H. auto.
    + apply bytes_eqb_neq in B. split; [discriminate|]. intros H. exfalso. apply H. left. exists v. auto.
  - rewrite check_member_rest_none. split.
    + intros (H1 & H2 & H3) [(v & [=] & _)|[H|[H|H]]]; congruence || contradiction.
    + intros H. repeat split.
      -- destruct (amem id (m_nonvotings old)) eqn:X; [|reflexivity]. exfalso. apply H. auto.
      -- destruct (amem id (m_witnesses old)) eqn:X; [|reflexivity]. exfalso. apply H. auto.
      -- intros X. apply H. auto.
Qed.

Lemma check_members_iff_proved old members :
  check_members old members = None <->
  forall id a, In (id, a) members -> ~ bad_member old id a.
Proof.
  rewrite check_members_none. split; intros H id a Hin.
  - apply check_member_none, H, Hin.
  - apply check_member_none, H, Hin.
Qed.

Lemma check_members_refuses old members id a :
  In (id, a) members -> bad_member old id a -> check_members old members <> None.
Proof.
  intros Hin Hbad H. rewrite check_members_none in H. specialize (H id a Hin).
  apply check_member_none in H. contradiction.
Qed.

Lemma check_members_accepts old members :
  (forall id a, In (id, a) members -> ~ bad_member old id a) -> check_members old members = None.
Proof.
  intros H. apply check_members_none. intros id a Hin. apply check_member_none, H, Hin.
Qed.

(* which error one member gets *)
Lemma check_member_kinds old id a e :
  check_member old id a = Some e ->
  match e with
  | EAddrChanged => exists v, v <> a /\
      (alookup id (m_addresses old) = Some v \/ alookup id (m_nonvotings old) = Some v \/
       alookup id (m_witnesses old) = Some v)
  | ENonVotingAsRegular => alookup id (m_nonvotings old) = Some a
  | EWitnessAsRegular => alookup id (m_witnesses old) = Some a
  | EAddingRemoved => In id (m_removed old)
  end.
Proof.
  assert (R : check_member_rest old id a = Some e ->
    match e with
    | EAddrChanged => exists v, v <> a /\
        (alookup id (m_addresses old) = Some v \/ alookup id (m_nonvotings old) = Some v \/
         alookup id (m_witnesses old) = Some v)
    | ENonVotingAsRegular => alookup id (m_nonvotings old) = Some a
    | EWitnessAsRegular => alookup id (m_witnesses old) = Some a
    | EAddingRemoved => In id (m_removed old)
    end).
  { unfold check_member_rest.
    destruct (alookup id (m_nonvotings old)) as [v|] eqn:E1.
    - destruct (bytes_eqb v a) eqn:B; cbn [negb]; intros [= <-].
      + apply bytes_eqb_eq in B. congruence.
      + apply bytes_eqb_neq in B. exists v. auto.
    - destruct (alookup id (m_witnesses old)) as [v|] eqn:E2.
      + destruct (bytes_eqb v a) eqn:B; cbn [negb]; intros [= <-].
        * apply bytes_eqb_eq in B. congruence.
        * apply bytes_eqb_neq in B. exists v. auto.
      + destruct (smem id (m_removed old)) eqn:S; intros [= <-]. apply smem_In, S. }
  unfold check_member. destruct (alookup id (m_addresses old)) as [v|] eqn:E; [|exact R].
  destruct (bytes_eqb v a) eqn:B; cbn [negb]; [exact R|].
  intros [= <-]. apply bytes_eqb_neq in B. exists v. auto.
Qed.

(* members that pass the check and were members before are voting members at
   the same address; no accepted member is removed afterwards *)
Lemma accepted_member_facts old members id a :
  check_members old members = None -> In (id, a) members ->
  (forall v, alookup id (m_addresses old) = Some v -> v = a) /\
  amem id (m_nonvotings old) = false /\ amem id (m_witnesses old) = false /\
  ~ In id (m_removed old).
Proof.
  intros H Hin. rewrite check_members_none in H. specialize (H id a Hin).
  apply check_member_none in H. unfold bad_member in H. repeat split.
  - intros v Hv. destruct (bytes_eqb v a) eqn:B; [apply bytes_eqb_eq, B|].
    apply bytes_eqb_neq in B. exfalso. apply H. left. exists v. auto.
  - destruct (amem id (m_nonvotings old)) eqn:X; [|reflexivity]. exfalso. apply H. auto.
  - destruct (amem id (m_witnesses old)) eqn:X; [|reflexivity]. exfalso. apply H. auto.
  - intros X. apply H. auto.
Qed.

Lemma import_no_member_removed_proved dst old members :
  check_members (s_membership old) members = None ->
  forall id, amem id members = true ->
  ~ In id (m_removed (s_membership (get_processed dst old members))).
Proof.
  intros Hc id Hm Hin.
  destruct (import_membership_exact_proved dst old members) as (_ & _ & _ & Hr & _).
  apply Hr in Hin. destruct Hin as [Hin|[_ Hn]]; [|congruence].
  unfold amem in Hm. destruct (alookup id members) as [a|] eqn:E; [|discriminate].
  apply alookup_In in E.
  destruct (accepted_member_facts _ _ _ _ Hc E) as (_ & _ & _ & Hx). contradiction.
Qed.

(* ------------------------------------------------------------------ *)
(* checkImportSettings                                                  *)

Lemma check_import_settings_ok raddr members replica :
  check_import_settings raddr members replica = SettingsOk <-> alookup replica members = Some raddr.
Proof.
  unfold check_import_settings. destruct (alookup replica members) as [a|].
  - destruct (bytes_eqb raddr a) eqn:B.
    + apply bytes_eqb_eq in B. subst. tauto.
    + apply bytes_eqb_neq in B. split; [discriminate|]. intros [= ->]. contradiction.
  - split; discriminate.
Qed.

(* ------------------------------------------------------------------ *)
(* isCompleteSnapshotImage                                              *)

Lemma is_complete_image_spec file recorded :
  is_complete_image file recorded = ImageComplete <-> payload_checksum file = CkOk recorded.
Proof.
  unfold is_complete_image. destruct (payload_checksum file) as [sum| |].
  - destruct (bytes_eqb sum recorded) eqn:B.
    + apply bytes_eqb_eq in B. subst. tauto.
    + apply bytes_eqb_neq in B. split; [discriminate|]. intros [= ->]. contradiction.
  - split; discriminate.
  - split; discriminate.
Qed.

(* what the recorded checksum covers: only the bytes at the block-CRC offsets *)
Lemma read_crcs_ext f1 f2 offs :
  (forall o, In o offs -> read_at4 f1 o = read_at4 f2 o) -> read_crcs f1 offs = read_crcs f2 offs.
Proof.
  induction offs as [|o r IH]; intros H; cbn [read_crcs]; [reflexivity|].
  rewrite (H o (or_introl eq_refl)), IH; [reflexivity|]. intros o' Ho. apply H. right. exact Ho.
Qed.

Lemma checksum_covers_block_crcs_only_proved f1 f2 offs :
  length f1 = length f2 -> crc_offsets (nlen f1) = Some offs ->
  (forall o, In o offs -> read_at4 f1 o = read_at4 f2 o) ->
  payload_checksum f1 = payload_checksum f2.
Proof.
  intros Hl Ho H. unfold payload_checksum. unfold nlen in *. rewrite <- Hl, Ho.
  rewrite (read_crcs_ext f1 f2 offs H). reflexivity.
Qed.

Lemma be4_inj x y : x < 2 ^ 32 -> y < 2 ^ 32 -> be 4 x = be 4 y -> x = y.
Proof.
  intros Hx Hy H. rewrite <- (be_dec_be 4 x), <- (be_dec_be 4 y), H; [reflexivity|exact Hy|exact Hx].
Qed.

(* a change confined to one byte of one block CRC is detected *)
Lemma crc_field_byte_change_detected_proved f1 f2 offs pre post b1 b2 recorded :
  crc_offsets (nlen f1) = Some offs -> crc_offsets (nlen f2) = Some offs ->
  read_crcs f1 offs = Some (pre ++ b1 :: post) ->
  read_crcs f2 offs = Some (pre ++ b2 :: post) ->
  wf_bytes pre -> wf_bytes post -> b1 < 256 -> b2 < 256 -> b1 <> b2 ->
  is_complete_image f1 recorded = ImageComplete ->
  is_complete_image f2 recorded = ImageIncomplete.
Proof.
  intros O1 O2 R1 R2 Wp Wq B1 B2 Hne H.
  apply is_complete_image_spec in H. unfold payload_checksum in H. rewrite O1, R1 in H.
  injection H as <-.
  unfold is_complete_image, payload_checksum. rewrite O2, R2.
  destruct (bytes_eqb _ _) eqn:E; [|reflexivity]. exfalso.
  apply bytes_eqb_eq in E. apply be4_inj in E.
  - symmetry in E. revert E. apply crc32_single_byte_detected; assumption.
  - apply crc32_lt. apply Forall_app. split; [exact Wp|constructor; assumption].
  - apply crc32_lt. apply Forall_app. split; [exact Wp|constructor; assumption].
Qed.

(* ------------------------------------------------------------------ *)
(* getSnapshotFilepath                                                  *)

Lemma locate_ok src entries f :
  locate_snapshot_file src entries = LocOk f <-> src = true /\ snapshot_files entries = [f].
Proof.
  unfold locate_snapshot_file. destruct src; cbn [negb].
  - destruct (snapshot_files entries) as [|x [|y r]]; split; try discriminate;
      try (intros [_ [=]]; fail).
    + intros [= ->]. auto.
    + intros [_ [= ->]]. reflexivity.
  - split; [discriminate|]. intros [[=] _].
Qed.

(* ------------------------------------------------------------------ *)
(* the program                                                          *)

Lemma import_prog_eq : import_prog =
  [OCheckSettings; OLocate; OReadMeta; OCheckComplete; OCheckExtFiles; OCheckMembers; ONewEnv;
   OCreateNodeHostDir; OOpenLogDB; OCheckNodeHostDir; OCleanup; OCreateSSDir;
   OCreateTemp; OProcess; OCopy; OFinalize; OLogDBImport].
Proof. vm_compute. reflexivity. Qed.

(* structural form of "every check precedes the first mutating step" *)
Definition is_check (o : op) : bool :=
  match o with
  | OCheckSettings | OLocate | OReadMeta | OCheckComplete | OCheckExtFiles | OCheckMembers => true
  | _ => false
  end.

Fixpoint before_first_mutation (prog : list op) : list op :=
  match prog with
  | [] => []
  | o :: r => if mutating o then [] else o :: before_first_mutation r
  end.

Lemma checks_before_mutations_proved :
  forall o, is_check o = true ->
  In o (before_first_mutation import_prog) /\ op_guard o = true.
Proof.
  rewrite import_prog_eq. intros o H. destruct o; try discriminate; cbn; auto 10.
Qed.

Definition safe_trace (tr : list op) : Prop := forall o, In o tr -> mutating o = false.

Definition all_checks_pass (inp : input) (old : snapshot) : Prop :=
  check_import_settings (in_raft_address inp) (in_members inp) (in_replica inp) = SettingsOk /\
  (exists f, locate_snapshot_file (in_src_exists inp) (in_entries inp) = LocOk f) /\
  in_meta inp = MetaOk old /\
  is_complete_image (in_file inp) (s_checksum old) = ImageComplete /\
  has_all_external_files (s_files old) (in_entries inp) = true /\
  check_members (s_membership old) (in_members inp) = None.

(* refusals that are verdicts of the checks (not I/O errors of later steps) *)
Definition check_refusal (r : refusal) : Prop :=
  match r with
  | RInvalidMembers _ | RPathNotExist | RIncompleteFiles | RMetaErr | RMetaPanic
  | RImageErr | RIncompleteImage | RIncompleteExt | RMembers _ => True
  | REnv o => o = OLocate \/ o = OCheckExtFiles
  | RBadProgram => False
  end.

Lemma run_step_fail inp st o r st' rf :
  exec_op inp st o = (st', Some rf) -> op_guard o = true ->
  run_ops inp st (o :: r) = (st', Refused rf).
Proof. intros H G. cbn [run_ops]. rewrite H, G. reflexivity. Qed.

Lemma run_step_ok inp st o r st' :
  exec_op inp st o = (st', None) -> o <> OLogDBImport ->
  run_ops inp st (o :: r) = run_ops inp st' r.
Proof. intros H G. cbn [run_ops]. rewrite H. destruct o; try reflexivity. contradiction. Qed.

Lemma run_step_last inp st r st' ss :
  exec_op inp st OLogDBImport = (st', None) -> st_processed st' = Some ss ->
  run_ops inp st (OLogDBImport :: r) = (st', Imported ss).
Proof. intros H G. cbn [run_ops]. rewrite H, G. reflexivity. Qed.

Local Opaque check_import_settings locate_snapshot_file is_complete_image check_members
  get_processed has_all_external_files.

Ltac safe_tr := let o := fresh in let H := fresh in
  intros o H; cbn [In rev app st_trace] in H;
  repeat (destruct H as [H|H]; [subst o; reflexivity|]); contradiction.

(* one step that fails: finish *)
Ltac step_fail2 E F :=
  erewrite run_step_fail;
  [|unfold exec_op; cbn [st_old st_trace st_processed push]; rewrite ?E, ?F; reflexivity|reflexivity].
Ltac step_fail E := step_fail2 E E.
(* one step that succeeds: continue *)
Ltac step_ok2 E F :=
  erewrite run_step_ok;
  [|unfold exec_op; cbn [st_old st_trace st_processed push]; rewrite ?E, ?F; reflexivity|discriminate].
Ltac step_ok E := step_ok2 E E.

Lemma import_run_checks inp tr out :
  import_run inp = (tr, out) ->
  (exists old, all_checks_pass inp old) \/
  (safe_trace tr /\ exists r, out = Refused r /\ check_refusal r).
Proof.
  unfold import_run. rewrite import_prog_eq. unfold all_checks_pass, init_state.
  destruct (check_import_settings (in_raft_address inp) (in_members inp) (in_replica inp)) eqn:E1;
    [|step_fail E1; intros [= <- <-]; right; split; [safe_tr|eexists; split; [reflexivity|exact I]]..].
  step_ok E1.
  destruct (locate_snapshot_file (in_src_exists inp) (in_entries inp)) as [f| |] eqn:E2;
    [|step_fail E2; intros [= <- <-]; right; split; [safe_tr|eexists; split; [reflexivity|exact I]]..].
  destruct (env_fails inp OLocate) eqn:F2.
  { step_fail2 E2 F2. intros [= <- <-]. right. split; [safe_tr|eexists; split; [reflexivity|left; reflexivity]]. }
  step_ok2 E2 F2.
  destruct (in_meta inp) as [old| |] eqn:E3;
    [|step_fail E3; intros [= <- <-]; right; split; [safe_tr|eexists; split; [reflexivity|exact I]]..].
  step_ok E3.
  destruct (is_complete_image (in_file inp) (s_checksum old)) eqn:E4;
    [|step_fail E4; intros [= <- <-]; right; split; [safe_tr|eexists; split; [reflexivity|exact I]]..].
  step_ok E4.
  destruct (has_all_external_files (s_files old) (in_entries inp)) eqn:E6;
    [|step_fail E6; intros [= <- <-]; right; split; [safe_tr|eexists; split; [reflexivity|exact I]]].
  destruct (env_fails inp OCheckExtFiles) eqn:F6.
  { step_fail2 E6 F6. intros [= <- <-]. right. split; [safe_tr|eexists; split; [reflexivity|right; reflexivity]]. }
  step_ok2 E6 F6.
  destruct (check_members (s_membership old) (in_members inp)) eqn:E5;
    [step_fail E5; intros [= <- <-]; right; split; [safe_tr|eexists; split; [reflexivity|exact I]]|].
  intros _. left. exists old. repeat split; eauto.
Qed.

Local Transparent has_all_external_files.
Lemma has_all_external_files_spec files entries :
  has_all_external_files files entries = true <->
  forall f, In f files -> ext_file_present entries f = true.
Proof. unfold has_all_external_files. apply forallb_forall. Qed.
Local Opaque has_all_external_files.

(* any executed mutating step implies that all the checks passed *)
Lemma refusal_precedes_any_mutation_proved inp tr out :
  import_run inp = (tr, out) ->
  forall o, In o tr -> mutating o = true -> exists old, all_checks_pass inp old.
Proof.
  intros H o Hin Hm. destruct (import_run_checks _ _ _ H) as [Hp|(Hs & _)]; [exact Hp|].
  rewrite (Hs o Hin) in Hm. discriminate.
Qed.

(* a failed check: refused, and nothing was touched *)
Lemma failed_check_refused inp :
  ~ (exists old, all_checks_pass inp old) ->
  exists tr r, import_run inp = (tr, Refused r) /\ check_refusal r /\ safe_trace tr.
Proof.
  intros Hn. destruct (import_run inp) as [tr out] eqn:E.
  destruct (import_run_checks _ _ _ E) as [Hp|(Hs & r & -> & Hr)]; [contradiction|].
  exists tr, r. auto.
Qed.

(* the refusal conditions of the property, one by one *)
Definition refusal_condition (inp : input) : Prop :=
  (* the importing replica is not listed, or not at its own address *)
  alookup (in_replica inp) (in_members inp) <> Some (in_raft_address inp) \/
  (* the export directory is missing, or does not hold exactly one snapshot file *)
  in_src_exists inp = false \/ length (snapshot_files (in_entries inp)) <> 1%nat \/
  (* the metadata file is unreadable or corrupt *)
  (forall old, in_meta inp <> MetaOk old) \/
  (* the recorded checksum is not the checksum of the file *)
  (exists old, in_meta inp = MetaOk old /\ payload_checksum (in_file inp) <> CkOk (s_checksum old)) \/
  (* an external file named in the metadata is missing, a directory, or of another size *)
  (exists old f, in_meta inp = MetaOk old /\ In f (s_files old) /\
                 ext_file_present (in_entries inp) f = false) \/
  (* the list changes the address or kind of a member or re-admits a removed replica *)
  (exists old id a, in_meta inp = MetaOk old /\ In (id, a) (in_members inp) /\
                    bad_member (s_membership old) id a).

Lemma import_refused_when_proved inp :
  refusal_condition inp ->
  exists tr r, import_run inp = (tr, Refused r) /\ check_refusal r /\ safe_trace tr.
Proof.
  intros Hc. apply failed_check_refused. intros (old & H1 & (f & H2) & H3 & H4 & H6 & H5).
  apply check_import_settings_ok in H1. apply locate_ok in H2 as [H2 H2'].
  apply is_complete_image_spec in H4.
  destruct Hc as [Hc|[Hc|[Hc|[Hc|[Hc|[Hc|Hc]]]]]].
  - contradiction.
  - congruence.
  - rewrite H2' in Hc. apply Hc. reflexivity.
  - exact (Hc old H3).
  - destruct Hc as (old' & Hm & Hne). rewrite H3 in Hm. injection Hm as <-. contradiction.
  - destruct Hc as (old' & xf & Hm & Hin & Hp). rewrite H3 in Hm. injection Hm as <-.
    pose proof (proj1 (has_all_external_files_spec _ _) H6 xf Hin) as H6'. rewrite H6' in Hp. discriminate.
  - destruct Hc as (old' & id & a & Hm & Hin & Hbad). rewrite H3 in Hm. injection Hm as <-.
    exact (check_members_refuses _ _ _ _ Hin Hbad H5).
Qed.

(* and conversely: when none of the conditions holds all checks pass *)
Lemma checks_pass_when inp old :
  alookup (in_replica inp) (in_members inp) = Some (in_raft_address inp) ->
  in_src_exists inp = true -> (exists f, snapshot_files (in_entries inp) = [f]) ->
  in_meta inp = MetaOk old ->
  payload_checksum (in_file inp) = CkOk (s_checksum old) ->
  (forall f, In f (s_files old) -> ext_file_present (in_entries inp) f = true) ->
  (forall id a, In (id, a) (in_members inp) -> ~ bad_member (s_membership old) id a) ->
  all_checks_pass inp old.
Proof.
  intros H1 H2 (f & H3) H4 H5 H7 H6. unfold all_checks_pass. repeat split.
  - apply check_import_settings_ok, H1.
  - exists f. apply locate_ok. auto.
  - exact H4.
  - apply is_complete_image_spec, H5.
  - apply has_all_external_files_spec, H7.
  - apply check_members_accepts, H6.
Qed.

(* the complete run when the checks pass and no I/O error occurs *)
Lemma env_fails_nil inp o : in_env_fail inp = [] -> env_fails inp o = false.
Proof. unfold env_fails. intros ->. reflexivity. Qed.

Ltac step_env inp :=
  match goal with
  | |- context [run_ops inp _ (?o :: _)] =>
    let F := fresh "F" in
    destruct (env_fails inp o) eqn:F;
    [ erewrite run_step_fail;
      [|unfold exec_op; cbn [st_old st_trace st_processed push]; rewrite F; reflexivity|reflexivity]
    | erewrite run_step_ok;
      [|unfold exec_op; cbn [st_old st_trace st_processed push]; rewrite F; reflexivity|discriminate] ]
  end.

Lemma import_run_success inp old :
  all_checks_pass inp old -> in_env_fail inp = [] ->
  import_run inp =
    ([OCheckSettings; OLocate; OReadMeta; OCheckComplete; OCheckExtFiles; OCheckMembers; ONewEnv;
      OCreateNodeHostDir; OOpenLogDB; OCheckNodeHostDir;
      if in_ssdir_exists inp then OCleanup else OCreateSSDir;
      OCreateTemp; OProcess; OCopy; OFinalize; OLogDBImport],
     Imported (get_processed (in_final_dir inp) old (in_members inp))).
Proof.
  intros (H1 & (f & H2) & H3 & H4 & H6 & H5) He.
  pose proof (env_fails_nil inp) as Hf.
  unfold import_run. rewrite import_prog_eq. unfold init_state.
  step_ok H1. step_ok2 H2 (Hf OLocate He). step_ok H3. step_ok H4.
  step_ok2 H6 (Hf OCheckExtFiles He). step_ok H5.
  step_ok (Hf ONewEnv He). step_ok (Hf OCreateNodeHostDir He). step_ok (Hf OOpenLogDB He).
  step_ok (Hf OCheckNodeHostDir He).
  destruct (in_ssdir_exists inp) eqn:Ex.
  - step_ok2 Ex (Hf OCleanup He). step_ok2 Ex (Hf OCreateSSDir He).
    step_ok (Hf OCreateTemp He). step_ok H1. step_ok (Hf OCopy He). step_ok (Hf OFinalize He).
    erewrite run_step_last;
      [|unfold exec_op; cbn [st_old st_trace st_processed push]; rewrite (Hf OLogDBImport He); reflexivity
       |reflexivity].
    reflexivity.
  - step_ok2 Ex (Hf OCleanup He). step_ok2 Ex (Hf OCreateSSDir He).
    step_ok (Hf OCreateTemp He). step_ok H1. step_ok (Hf OCopy He). step_ok (Hf OFinalize He).
    erewrite run_step_last;
      [|unfold exec_op; cbn [st_old st_trace st_processed push]; rewrite (Hf OLogDBImport He); reflexivity
       |reflexivity].
    reflexivity.
Qed.

(* whatever the I/O oracle: a successful import passed all checks and recorded
   exactly the processed record, after copying and finalising *)
Lemma import_run_imported inp tr ss :
  import_run inp = (tr, Imported ss) ->
  exists old, all_checks_pass inp old /\
              ss = get_processed (in_final_dir inp) old (in_members inp) /\
              In OCopy tr /\ In OFinalize tr /\ In OLogDBImport tr.
Proof.
  intros H. destruct (import_run_checks _ _ _ H) as [(old & Hp)|(_ & r & [=] & _)].
  exists old. split; [exact Hp|].
  destruct Hp as (H1 & (f & H2) & H3 & H4 & H6 & H5).
  revert H. unfold import_run. rewrite import_prog_eq. unfold init_state.
  step_ok H1.
  destruct (env_fails inp OLocate) eqn:F2; [step_fail2 H2 F2; intros [=]|step_ok2 H2 F2].
  step_ok H3. step_ok H4.
  destruct (env_fails inp OCheckExtFiles) eqn:F6; [step_fail2 H6 F6; intros [=]|step_ok2 H6 F6].
  step_ok H5.
  step_env inp; [intros [=]|]. step_env inp; [intros [=]|]. step_env inp; [intros [=]|].
  step_env inp; [intros [=]|].
  destruct (in_ssdir_exists inp) eqn:Ex.
  - destruct (env_fails inp OCleanup) eqn:F9; [step_fail2 Ex F9; intros [=]|step_ok2 Ex F9].
    step_ok Ex.
    step_env inp; [intros [=]|]. step_ok H1.
    step_env inp; [intros [=]|]. step_env inp; [intros [=]|].
    destruct (env_fails inp OLogDBImport) eqn:F15; [step_fail F15; intros [=]|].
    erewrite run_step_last;
      [|unfold exec_op; cbn [st_old st_trace st_processed push]; rewrite F15; reflexivity|reflexivity].
    intros [= <- <-]. cbn [st_trace push rev app In]. auto 20.
  - step_ok Ex.
    destruct (env_fails inp OCreateSSDir) eqn:F9; [step_fail2 Ex F9; intros [=]|step_ok2 Ex F9].
    step_env inp; [intros [=]|]. step_ok H1.
    step_env inp; [intros [=]|]. step_env inp; [intros [=]|].
    destruct (env_fails inp OLogDBImport) eqn:F15; [step_fail F15; intros [=]|].
    erewrite run_step_last;
      [|unfold exec_op; cbn [st_old st_trace st_processed push]; rewrite F15; reflexivity|reflexivity].
    intros [= <- <-]. cbn [st_trace push rev app In]. auto 20.
Qed.

(* ------------------------------------------------------------------ *)
(* the log store                                                        *)

Definition del_indices (is : list N) (l : list snapshot) : list snapshot :=
  filter (fun s => negb (existsb (N.eqb (s_index s)) is)) l.

Lemma apply_deletes cs : forall ls,
  apply_wb (map (fun c => WDelete (KSnapshot (s_index c))) cs) ls =
  mkLS (ls_state ls) (ls_bootstrap ls) (ls_maxindex ls)
       (del_indices (map s_index cs) (ls_snapshots ls)) (ls_entries ls).
Proof.
  unfold apply_wb, del_indices. induction cs as [|c r IH]; intros ls; cbn [map fold_left].
  - destruct ls as [a b c d e]; cbn. f_equal. induction d as [|x l IHl]; cbn; [reflexivity|]. f_equal. exact IHl.
  - rewrite IH. cbn [apply_wop ls_state ls_bootstrap ls_maxindex ls_snapshots ls_entries]. f_equal.
    unfold snap_delete. induction (ls_snapshots ls) as [|x l IHl]; cbn [filter]; [reflexivity|].
    cbn [existsb]. destruct (s_index x =? s_index c) eqn:E; cbn [negb orb].
    + exact IHl.
    + cbn [filter]. destruct (negb (existsb (N.eqb (s_index x)) (map s_index r))); [f_equal|]; exact IHl.
Qed.

Lemma apply_wb_app a b ls : apply_wb (a ++ b) ls = apply_wb b (apply_wb a ls).
Proof. unfold apply_wb. apply fold_left_app. Qed.

Lemma filter_filter_nil {A} (f g : A -> bool) l :
  (forall x, In x l -> f x = false \/ g x = false) -> filter g (filter f l) = [].
Proof.
  induction l as [|x r IH]; intros H; cbn [filter]; [reflexivity|].
  assert (Hr : filter g (filter f r) = []) by (apply IH; intros y Hy; apply H; right; exact Hy).
  destruct (f x) eqn:Fx; [|exact Hr]. cbn [filter].
  destruct (H x (or_introl eq_refl)) as [Hx|Hx]; [congruence|]. rewrite Hx. exact Hr.
Qed.

Lemma existsb_index_in (x : snapshot) l :
  In x l -> existsb (N.eqb (s_index x)) (map s_index l) = true.
Proof.
  intros H. apply existsb_exists. exists (s_index x). split; [apply in_map, H|apply N.eqb_refl].
Qed.

Lemma logdb_bootstrap_join_fact : logdb_bootstrap_join = true. Proof. reflexivity. Qed.
Lemma logdb_state_fact : logdb_state_is_term_commit_index = true. Proof. reflexivity. Qed.
Lemma tan_bootstrap_join_fact : tan_bootstrap_join = true. Proof. reflexivity. Qed.

Lemma import_wb_effect ls ss :
  s_index ss <> 0 ->
  apply_wb (import_wb ls ss) ls =
  mkLS (Some (mkHS (s_term ss) 0 (s_index ss)))
       (Some (mkBS true (s_type ss) []))
       (Some (s_index ss))
       [ss]
       (ls_entries ls).
Proof.
  intros Hi. unfold import_wb, save_snapshot_wb.
  apply N.eqb_neq in Hi. rewrite Hi, logdb_bootstrap_join_fact, logdb_state_fact.
  rewrite !apply_wb_app. rewrite apply_deletes.
  change (apply_wb [WDelete KState; WDelete KBootstrap; WDelete KMaxIndex] ls) with
    (mkLS None None None (ls_snapshots ls) (ls_entries ls)).
  cbn [ls_state ls_bootstrap ls_maxindex ls_snapshots ls_entries].
  match goal with |- context [apply_wb [WPutBootstrap ?b; WPutState ?h] ?l] =>
    change (apply_wb [WPutBootstrap b; WPutState h] l) with
      (mkLS (Some h) (Some b) (ls_maxindex l) (ls_snapshots l) (ls_entries l)) end.
  cbn [ls_state ls_bootstrap ls_maxindex ls_snapshots ls_entries].
  rewrite apply_deletes.
  cbn [ls_state ls_bootstrap ls_maxindex ls_snapshots ls_entries].
  unfold del_indices at 1. unfold del_indices at 1.
  rewrite filter_filter_nil.
  - reflexivity.
  - intros x Hx. destruct (s_index ss <=? s_index x) eqn:Hle.
    + left. apply negb_false_iff. apply existsb_index_in. apply filter_In. auto.
    + right. apply negb_false_iff. apply existsb_index_in. apply filter_In. split; [exact Hx|].
      apply N.leb_gt in Hle. apply N.ltb_lt. exact Hle.
Qed.

Lemma logstore_after_import_proved ls ss :
  s_index ss <> 0 -> s_type ss <> sm_unknown ->
  exists ls', logdb_import ls ss = LOk ls' /\
    ls_state ls' = Some (mkHS (s_term ss) 0 (s_index ss)) /\
    ls_snapshots ls' = [ss] /\ ls_get_snapshot ls' = Some ss /\
    ls_maxindex ls' = Some (s_index ss) /\
    ls_bootstrap ls' = Some (mkBS true (s_type ss) []) /\
    (forall lo, s_index ss <= lo -> ls_visible_entries ls' lo = []) /\
    ls_entries ls' = ls_entries ls.
Proof.
  intros Hi Ht. unfold logdb_import. apply N.eqb_neq in Ht. rewrite Ht.
  rewrite import_wb_effect by exact Hi. eexists. split; [reflexivity|].
  cbn [ls_state ls_bootstrap ls_maxindex ls_snapshots ls_entries]. repeat split.
  intros lo Hlo. unfold ls_visible_entries. cbn [ls_maxindex ls_entries].
  induction (ls_entries ls) as [|e r IH]; cbn [filter]; [reflexivity|].
  destruct ((lo <? fst e) && (fst e <=? s_index ss)) eqn:E; [|exact IH].
  apply andb_true_iff in E as [E1 E2]. apply N.ltb_lt in E1. apply N.leb_le in E2. lia.
Qed.

Lemma logdb_import_unknown_type_panics ls ss : s_type ss = sm_unknown -> logdb_import ls ss = LPanic.
Proof. intros H. unfold logdb_import. rewrite H, N.eqb_refl. reflexivity. Qed.

(* both log stores leave the same records for a restarting replica *)
Lemma tan_matches_pebble_proved ls ss ls' :
  s_index ss <> 0 -> logdb_import ls ss = LOk ls' ->
  let t := tan_import ls ss in
  ls_state t = ls_state ls' /\ ls_bootstrap t = ls_bootstrap ls' /\
  ls_snapshots t = ls_snapshots ls' /\ ls_maxindex t = ls_maxindex ls' /\
  (forall lo, s_index ss <= lo -> ls_visible_entries t lo = ls_visible_entries ls' lo).
Proof.
  intros Hi H. unfold logdb_import in H. destruct (s_type ss =? sm_unknown) eqn:Ht; [discriminate|].
  apply N.eqb_neq in Ht.
  destruct (logstore_after_import_proved ls ss Hi Ht) as (l2 & H2 & A & B & _ & D & E & F & _).
  unfold logdb_import in H2. apply N.eqb_neq in Ht. rewrite Ht in H2. rewrite H2 in H. injection H as <-.
  cbn zeta. unfold tan_import. rewrite tan_bootstrap_join_fact.
  apply N.eqb_neq in Hi. rewrite Hi.
  cbn [ls_state ls_bootstrap ls_maxindex ls_snapshots ls_entries]. rewrite A, B, D, E.
  repeat split. intros lo Hlo. rewrite F by exact Hlo. reflexivity.
Qed.

(* the tool's result recorded in the store: membership of the newest record *)
Lemma imported_record_in_store_proved inp tr ss ls :
  import_run inp = (tr, Imported ss) -> s_index ss <> 0 -> s_type ss <> sm_unknown ->
  exists old ls', in_meta inp = MetaOk old /\ logdb_import ls ss = LOk ls' /\
    ls_get_snapshot ls' = Some (get_processed (in_final_dir inp) old (in_members inp)).
Proof.
  intros H Hi Ht. destruct (import_run_imported _ _ _ H) as (old & Hp & -> & _).
  destruct (logstore_after_import_proved ls _ Hi Ht) as (ls' & H1 & _ & _ & H2 & _).
  exists old, ls'. destruct Hp as (_ & _ & H3 & _). auto.
Qed.

(* ------------------------------------------------------------------ *)
(* restart                                                              *)

(* an imported record is loaded on the initial recovery, whatever the state
   machine kind and whatever the on-disk state machine reports as applied *)
Lemma restart_loads_imported_image dst old members on_disk_sm last_applied ondisk_init ondisk :
  s_dummy old = false -> last_applied < s_index old ->
  do_recover on_disk_sm false last_applied ondisk_init ondisk (get_processed dst old members) true = RcLoaded.
Proof.
  intros Hd Hl. unfold do_recover.
  Local Transparent get_processed.
  unfold get_processed. cbn [s_index s_witness s_dummy s_imported s_ondisk].
  rewrite Hd. cbn [orb].
  destruct (s_index old <=? last_applied) eqn:E; [apply N.leb_le in E; lia|].
  destruct on_disk_sm; cbn [negb]; [|reflexivity].
  unfold recover_required, check_recover_on_disk. cbn [s_imported s_ondisk].
  reflexivity.
Qed.

(* the flag is what does it: the same record without it (OnDiskIndex is not
   copied, so it is 0) is skipped by an on-disk state machine *)
Lemma restart_without_flag_skips :
  exists ss ondisk, s_imported ss = false /\ s_index ss = 100 /\
    do_recover true false 0 ondisk ondisk ss true = RcSkipped.
Proof.
  exists (mkSS [] 0 100 1 (mkM 0 [] [] [] []) [] [] false 1 sm_ondisk false 0 false), 7.
  vm_compute. auto.
Qed.

(* first start after the import: the image is intact, it is loaded *)
Lemma first_restart_loads dst old members on_disk_sm ondisk_init :
  s_dummy old = false -> 0 < s_index old ->
  restart_recover on_disk_sm false ondisk_init (get_processed dst old members) = RcLoaded.
Proof.
  intros Hd Hi. unfold restart_recover.
  assert (Hs : is_shrunk_snapshot on_disk_sm false (get_processed dst old members) = false).
  { unfold is_shrunk_snapshot, get_processed. cbn [s_witness s_dummy]. rewrite Hd.
    destruct on_disk_sm; reflexivity. }
  rewrite Hs. apply restart_loads_imported_image; assumption.
Qed.

(* every later start while the imported record is still the newest one: an
   on-disk state machine has shrunk the image after its first recovery - the
   shrunk image is NOT loaded (and nothing panics): the state machine keeps the
   state it opened with. Regular / concurrent state machines never shrink and
   load the intact image again (the log is replayed on top). *)
Lemma later_restart_skips_shrunk_image dst old members ondisk_init :
  s_dummy old = false -> 0 < s_index old ->
  restart_recover true true ondisk_init (get_processed dst old members) = RcSkipped.
Proof.
  intros Hd Hi. unfold restart_recover, is_shrunk_snapshot, do_recover, get_processed.
  cbn [s_index s_witness s_dummy s_imported s_ondisk negb orb]. rewrite Hd. cbn [orb].
  destruct (s_index old <=? 0) eqn:E; [apply N.leb_le in E; lia|].
  change shrunk_check_inspects_imported with true. cbn [orb andb].
  unfold check_partial_on_disk. cbn [s_ondisk].
  destruct (ondisk_init <? 0) eqn:E2; [apply N.ltb_lt in E2; lia|]. reflexivity.
Qed.

(* ------------------------------------------------------------------ *)
(* life after the repair: entries appended above the imported index     *)

Lemma filter_mk_entries_all n : forall first term lo mx,
  lo < first -> first + N.of_nat n <= mx + 1 ->
  filter (fun e => (lo <? fst e) && (fst e <=? mx)) (mk_entries n first term) = mk_entries n first term.
Proof.
  induction n as [|n IH]; intros first term lo mx Hlo Hmx; cbn [mk_entries filter]; [reflexivity|].
  cbn [fst].
  assert (E1 : lo <? first = true) by (apply N.ltb_lt; exact Hlo).
  assert (E2 : first <=? mx = true) by (apply N.leb_le; lia).
  rewrite E1, E2. cbn [andb]. f_equal. apply IH; lia.
Qed.

Lemma filter_none {A} (f : A -> bool) l : (forall x, In x l -> f x = false) -> filter f l = [].
Proof.
  induction l as [|x r IH]; intros H; cbn [filter]; [reflexivity|].
  rewrite (H x (or_introl eq_refl)). apply IH. intros y Hy. apply H. right. exact Hy.
Qed.

Lemma filter_all {A} (f : A -> bool) l : (forall x, In x l -> f x = true) -> filter f l = l.
Proof.
  induction l as [|x r IH]; intros H; cbn [filter]; [reflexivity|].
  rewrite (H x (or_introl eq_refl)). f_equal. apply IH. intros y Hy. apply H. right. exact Hy.
Qed.

Lemma mk_entries_above n : forall first term e, In e (mk_entries n first term) -> first <= fst e.
Proof.
  induction n as [|n IH]; intros first term e; cbn [mk_entries In]; [tauto|].
  intros [<-|H]; [cbn; lia|]. apply IH in H. lia.
Qed.

(* whatever the store held before the import: k entries appended right above
   the imported index are exactly what is visible above it afterwards *)
Lemma entries_after_import_readable_proved ls ss ls' k term :
  s_index ss <> 0 -> logdb_import ls ss = LOk ls' ->
  ls_visible_entries (apply_lsop ls' (LSaveEntries (s_index ss + 1) k term)) (s_index ss) =
  mk_entries (N.to_nat k) (s_index ss + 1) term.
Proof.
  intros Hi H. unfold logdb_import in H. destruct (s_type ss =? sm_unknown) eqn:Ht; [discriminate|].
  rewrite import_wb_effect in H by exact Hi. injection H as <-.
  cbn [apply_lsop]. destruct (k =? 0) eqn:Hk.
  - apply N.eqb_eq in Hk. subst k. cbn [N.to_nat mk_entries].
    unfold ls_visible_entries. cbn [ls_maxindex ls_entries].
    apply filter_none. intros e _. destruct (s_index ss <? fst e) eqn:E1; [|reflexivity].
    destruct (fst e <=? s_index ss) eqn:E2; [|reflexivity].
    apply N.ltb_lt in E1. apply N.leb_le in E2. lia.
  - apply N.eqb_neq in Hk. unfold ls_visible_entries.
    cbn [ls_state ls_bootstrap ls_maxindex ls_snapshots ls_entries].
    rewrite filter_app. rewrite filter_none.
    + cbn [app]. apply filter_mk_entries_all; [lia|]. rewrite N2Nat.id. lia.
    + intros e He. apply filter_In in He as [_ He]. cbn [fst] in He.
      apply N.ltb_lt in He. destruct (s_index ss <? fst e) eqn:E1; [|reflexivity].
      apply N.ltb_lt in E1. lia.
Qed.

Lemma tan_entries_after_import_readable_proved t ss k term :
  s_index ss <> 0 ->
  ts_visible_entries (apply_tsop (tan_import_t t ss) (LSaveEntries (s_index ss + 1) k term)) (s_index ss) =
  mk_entries (N.to_nat k) (s_index ss + 1) term.
Proof.
  intros Hi. unfold tan_import_t. change tan_remove_all_resets_compaction with true. cbn iota.
  unfold apply_tsop, ts_visible_entries. cbn [ts_ls ts_compacted].
  assert (V : ls_visible_entries (apply_lsop (tan_import (ts_ls t) ss) (LSaveEntries (s_index ss + 1) k term)) (s_index ss)
              = mk_entries (N.to_nat k) (s_index ss + 1) term).
  { unfold tan_import. cbn [apply_lsop]. destruct (k =? 0) eqn:Hk.
    - apply N.eqb_eq in Hk. subst k. reflexivity.
    - apply N.eqb_neq in Hk. unfold ls_visible_entries.
      cbn [ls_state ls_bootstrap ls_maxindex ls_snapshots ls_entries filter app].
      apply filter_mk_entries_all; [lia|]. rewrite N2Nat.id. lia. }
  rewrite V. apply filter_all. intros e He. apply mk_entries_above in He.
  apply N.ltb_lt. lia.
Qed.

(* the tool and NewNodeHost open the log store in the same place *)
Lemma tool_opens_store_where_nodehost_does_proved nhdir waldir :
  tool_store_dirs nhdir waldir = nodehost_store_dirs nhdir waldir.
Proof. reflexivity. Qed.

(* ------------------------------------------------------------------ *)
(* crash points                                                         *)

(* the snapshot directory of the replica does not exist: nothing is in it *)
Definition host_consistent_with (ssdir_exists : bool) (st : hstate) : Prop :=
  ssdir_exists = false -> h_old_images st = false /\ h_temp st = false /\ h_final st = false.

(* a host on which the export has not been imported yet: after ANY number of
   steps of a run, a power failure never leaves the log store naming the
   imported image without the finalised image being there *)
Lemma crash_never_half_imported_proved b k st :
  host_consistent_with b st -> h_record_imported st = false ->
  half_imported (host_after (firstn k (success_trace b)) st) = false.
Proof.
  intros Hc Hr. destruct st as [o t tc f r]. cbn in Hr. subst r.
  unfold host_consistent_with in Hc. cbn in Hc.
  destruct b.
  - do 17 (destruct k as [|k]; [destruct o, t, tc, f; reflexivity|]).
    destruct o, t, tc, f; reflexivity.
  - destruct (Hc eq_refl) as (-> & -> & ->).
    do 17 (destruct k as [|k]; [destruct tc; reflexivity|]).
    destruct tc; reflexivity.
Qed.

(* running the tool again after a power failure at any step (or on any other
   leftover state) ends in the completely repaired host *)
Lemma import_rerunnable_proved b st :
  host_consistent_with b st ->
  host_after (success_trace b) st = mkH false false false true true.
Proof.
  intros Hc. destruct st as [o t tc f r]. unfold host_consistent_with in Hc. cbn in Hc.
  destruct b.
  - destruct o, t, tc, f, r; reflexivity.
  - destruct (Hc eq_refl) as (-> & -> & ->). destruct tc, r; reflexivity.
Qed.

Lemma crash_then_rerun_repairs_proved b b' k st :
  host_consistent_with b' (host_after (firstn k (success_trace b)) st) ->
  host_after (success_trace b') (host_after (firstn k (success_trace b)) st) = mkH false false false true true.
Proof. apply import_rerunnable_proved. Qed.

(* observation O7: on a host that already records the imported image (the tool
   is run a second time) the window between cleanupSnapshotDir and
   FinalizeSnapshot leaves the record without its image *)
Lemma reimport_crash_window :
  exists k, half_imported (host_after (firstn k (success_trace true)) (mkH false false false true true)) = true.
Proof. exists 11%nat. reflexivity. Qed.

(* a run whose checks pass and whose I/O never fails executes exactly success_trace *)
Lemma import_run_success_trace inp old :
  all_checks_pass inp old -> in_env_fail inp = [] ->
  fst (import_run inp) = success_trace (in_ssdir_exists inp).
Proof. intros H He. rewrite (import_run_success inp old H He). reflexivity. Qed.
