(* L2, stages 2 and 3 together: soundness of the executable step function
   (Model/RaftNetCfgSnapExec.v) and the contract of the simulator's membership function. *)
From DB Require Import Model.RaftNet Model.RaftNetSnap Model.RaftNetCfg Model.RaftNetCfgSnap
  Model.RaftNetCfgSnapExec
  Proofs.RaftNetLists Proofs.RaftNetElection Proofs.RaftNetLog Proofs.RaftNetCommitDefs
  Proofs.RaftNetCommit Proofs.RaftNetSafety Proofs.RaftNetSnap Proofs.RaftNetCfgLemmas
  Proofs.RaftNetCfgInv Proofs.RaftNetCfgStep Proofs.RaftNetCfgSafety Proofs.RaftNetCfgSnap.
From Coq Require Import Permutation.

Section Exec4Sound.
  Variable cfg_of : list entry -> list id.
  Variable is_cc : entry -> bool.

  Notation step4 := (step4 cfg_of is_cc).
  Notation steps4 := (steps4 cfg_of is_cc).
  Notation reachable4 := (reachable4 cfg_of is_cc).
  Notation step_fn4 := (step_fn4 cfg_of is_cc).
  Notation run4 := (run4 cfg_of is_cc).

  Lemma visible4_b_spec s l : visible4_b s l = true -> visible4 s l.
  Proof.
    destruct l as [l0| |]; simpl; auto.
    - destruct l0; simpl; auto. intros H. now apply Nat.leb_le in H.
    - intros H. now apply Nat.leb_le in H.
  Qed.

  Theorem step_fn4_sound s l s' : step_fn4 s l = Some s' -> step4 s l s'.
  Proof.
    destruct l; cbn [RaftNetCfgSnapExec.step_fn4]; intros H.
    - destruct (visible4_b s l) eqn:Hv; [|discriminate].
      destruct (step_fn3 cfg_of is_cc (base4 s) l) as [b'|] eqn:Hs; [|discriminate].
      injection H as <-. apply S4Base; [now apply visible4_b_spec | now apply step_fn3_sound].
    - match type of H with (if ?c then _ else _) = _ => destruct c eqn:Hc; [|discriminate] end.
      injection H as <-. apply andb_prop in Hc. destruct Hc as [Ha Hb].
      apply Nat.leb_le in Ha, Hb. now apply S4Compact.
    - match type of H with (if ?c then _ else _) = _ => destruct c eqn:Hc; [|discriminate] end.
      injection H as <-. apply andb_prop in Hc. destruct Hc as [Hc Hb].
      apply andb_prop in Hc. destruct Hc as [Hr Ha]. apply Nat.leb_le in Ha, Hb.
      apply S4SendIS; auto. now apply role_eqb_eq.
    - match type of H with (if ?c then _ else _) = _ => destruct c eqn:Hc; [|discriminate] end.
      apply andb_prop in Hc. destruct Hc as [Hin Ht]. apply Nat.eqb_eq in Ht.
      assert (HinP : In (IS t ldr sidx sterm) (snaps4 s)).
      { apply existsb_exists in Hin. destruct Hin as ([t' i' x' y'] & Hx & He). simpl in He.
        repeat (apply andb_prop in He; destruct He as [He ?]).
        repeat match goal with E : (_ =? _) = true |- _ => apply Nat.eqb_eq in E end.
        now subst. }
      destruct (Nat.leb_spec sidx (commit (nodes (base3 (base4 s)) j))).
      + injection H as <-. now apply S4HandleISStale.
      + destruct (Nat.eqb_spec (term_at (log (nodes (base3 (base4 s)) j)) sidx) sterm).
        * injection H as <-. now apply S4HandleISMatch.
        * injection H as <-. now apply S4HandleISRestore.
  Qed.

  Theorem run4_sound ls : forall s s', run4 s ls = Some s' -> steps4 s ls s'.
  Proof.
    induction ls as [|l ls IH]; simpl; intros s s' H.
    - injection H as <-. constructor.
    - destruct (step_fn4 s l) as [s1|] eqn:E; [|discriminate].
      econstructor; [apply step_fn4_sound; exact E | apply IH; exact H].
  Qed.

  Corollary run4_reachable ls s : run4 (init4) ls = Some s -> reachable4 s.
  Proof. intros H. exists ls. now apply run4_sound. Qed.

  (* a run is a run: splitting the label list at any point gives two runs *)
  Lemma run4_app ls1 : forall ls2 s,
    run4 s (ls1 ++ ls2) = match run4 s ls1 with Some s1 => run4 s1 ls2 | None => None end.
  Proof.
    induction ls1 as [|l ls1 IH]; intros ls2 s; simpl; [reflexivity|].
    destruct (step_fn4 s l); [apply IH | reflexivity].
  Qed.

End Exec4Sound.

(* ---------------------------------------------------------------- *)
(* the simulator's membership function meets the contract of the stage-3 theorems *)

Definition mem_ok (m : members) : Prop := NoDup (mem_voting m).

Lemma memb_In x l : memb x l = true <-> In x l.
Proof.
  unfold memb. rewrite existsb_exists. split.
  - intros (y & Hy & E). apply Nat.eqb_eq in E. now subst.
  - intros H. exists x. split; [exact H | apply Nat.eqb_refl].
Qed.

Lemma memb_nIn x l : memb x l = false <-> ~ In x l.
Proof. rewrite <- memb_In. destruct (memb x l); split; intros; congruence. Qed.

Lemma drop_app x a b : drop x (a ++ b) = drop x a ++ drop x b.
Proof. unfold drop. apply filter_app. Qed.

Lemma drop_notin x l : ~ In x l -> drop x l = l.
Proof.
  intros H. unfold drop. induction l as [|b l IH]; [reflexivity|]. simpl.
  destruct (Nat.eqb_spec b x) as [->|]; [exfalso; apply H; now left|].
  simpl. f_equal. apply IH. intros Hx. apply H. now right.
Qed.

Lemma drop_nodup x l : NoDup l -> NoDup (drop x l).
Proof. intros H. now apply NoDup_filter. Qed.

Lemma mem_apply_noncc m e : is_cc_sim e = false -> mem_apply m e = m.
Proof.
  unfold is_cc_sim, mem_apply. intros H.
  assert (Hd : epay e / 100 = 0 \/ 5 <= epay e / 100).
  { apply andb_false_iff in H. destruct H as [H|H].
    - apply Nat.leb_gt in H. left. now apply Nat.div_small.
    - apply Nat.ltb_ge in H. right. apply Nat.div_le_lower_bound; lia. }
  destruct (epay e / 100) as [|[|[|[|[|k]]]]]; try reflexivity; lia.
Qed.

(* one step changes the counted replicas by at most one, and keeps them duplicate-free *)
Lemma mem_apply_ok m e :
  mem_ok m -> mem_ok (mem_apply m e) /\ qnear (mem_voting m) (mem_voting (mem_apply m e)).
Proof.
  unfold mem_ok. intros ND. unfold mem_apply.
  set (v := epay e mod 100).
  destruct (epay e / 100) as [|[|[|[|[|k]]]]]; try (split; [exact ND | apply qnear_refl]).
  - (* AddNode *)
    destruct (memb v (m_removed m) || memb v (m_voters m) || memb v (m_witnesses m)) eqn:Hc;
      [split; [exact ND | apply qnear_refl]|].
    apply orb_false_iff in Hc. destruct Hc as [Hc Hw]. apply orb_false_iff in Hc.
    destruct Hc as [_ Hv]. apply memb_nIn in Hv, Hw.
    assert (Hn : ~ In v (mem_voting m)).
    { unfold mem_voting. rewrite in_app_iff. tauto. }
    unfold mem_voting in *. cbn [m_voters m_witnesses]. split.
    + simpl. now constructor.
    + simpl. now apply quorum_intersect_adjacent.
  - (* RemoveNode *)
    destruct (memb v (m_voters m) && (length (m_voters m) =? 1));
      [split; [exact ND | apply qnear_refl]|].
    unfold mem_voting in *. cbn [m_voters m_witnesses]. rewrite <- drop_app.
    split; [now apply drop_nodup|].
    destruct (in_dec Nat.eq_dec v (m_voters m ++ m_witnesses m)) as [Hin|Hnin].
    + apply qnear_sym. apply qnear_grow; [exact ND | | now apply (cfg_remove_length v)].
      intros y Hy. unfold drop in Hy. apply filter_In in Hy. tauto.
    + rewrite drop_notin by exact Hnin. apply qnear_refl.
  - (* AddNonVoting *)
    destruct (memb v (m_removed m) || mem_member m v); split;
      try exact ND; try apply qnear_refl.
  - (* AddWitness *)
    destruct (memb v (m_removed m) || mem_member m v) eqn:Hc;
      [split; [exact ND | apply qnear_refl]|].
    apply orb_false_iff in Hc. destruct Hc as [_ Hc]. unfold mem_member in Hc.
    apply orb_false_iff in Hc. destruct Hc as [Hc Hw]. apply orb_false_iff in Hc.
    destruct Hc as [Hv _]. apply memb_nIn in Hv, Hw.
    assert (Hn : ~ In v (mem_voting m)).
    { unfold mem_voting. rewrite in_app_iff. tauto. }
    unfold mem_voting in *. cbn [m_voters m_witnesses].
    assert (HA : Add v (m_voters m ++ m_witnesses m) (m_voters m ++ v :: m_witnesses m))
      by apply Add_app.
    assert (ND' : NoDup (m_voters m ++ v :: m_witnesses m)).
    { apply (NoDup_Add HA). split; assumption. }
    split; [exact ND'|].
    apply qnear_grow; [exact ND' | | ].
    + intros y Hy. apply in_app_iff in Hy. apply in_app_iff.
      destruct Hy as [Hy|Hy]; [now left | right; now right].
    + rewrite !app_length. simpl. lia.
Qed.

Lemma mem_fold_ok C0 l : NoDup C0 -> mem_ok (mem_fold C0 l).
Proof.
  intros ND. unfold mem_fold.
  assert (H0 : mem_ok (mem_init C0)).
  { unfold mem_ok, mem_voting, mem_init. cbn [m_voters m_witnesses]. now rewrite app_nil_r. }
  revert H0. generalize (mem_init C0). induction l as [|e l IH]; intros m Hm; [exact Hm|].
  simpl. apply IH. now apply mem_apply_ok.
Qed.

Theorem cfg_sim_contract C0 : NoDup C0 -> cfg_contract (cfg_sim C0) is_cc_sim.
Proof.
  intros ND. repeat split.
  - intros l e H. unfold cfg_sim, mem_fold. rewrite fold_left_app. simpl.
    now rewrite mem_apply_noncc.
  - intros l e. unfold cfg_sim, mem_fold. rewrite fold_left_app. simpl.
    apply mem_apply_ok. now apply (mem_fold_ok C0 l).
  - intros l. now apply (mem_fold_ok C0 l).
Qed.

(* ---------------------------------------------------------------- *)
(* what an accepted run gives: a state produced by the executable step function from the
   initial state, with the simulator's membership function, is a reachable state of the
   model, so every safety theorem of the combined stage holds for it *)

Section AcceptedRun.
  Variable C0 : list id.
  Hypothesis ND : NoDup C0.

  Let HC := cfg_sim_contract C0 ND.

  Lemma accepted_reachable ls s :
    run4_sim C0 init4 ls = Some s -> reachable4 (cfg_sim C0) is_cc_sim s.
  Proof. apply run4_reachable. Qed.

  Lemma accepted_steps ls s s' :
    run4_sim C0 s ls = Some s' -> steps4 (cfg_sim C0) is_cc_sim s ls s'.
  Proof. apply run4_sound. Qed.

  Lemma accepted_election_safety ls s i j :
    run4_sim C0 init4 ls = Some s ->
    role (nodes (base3 (base4 s)) i) = Leader -> role (nodes (base3 (base4 s)) j) = Leader ->
    term (nodes (base3 (base4 s)) i) = term (nodes (base3 (base4 s)) j) -> i = j.
  Proof. intros H. apply (election_safety4 _ _ HC). now apply accepted_reachable with ls. Qed.

  Lemma accepted_log_matching ls s i j k :
    run4_sim C0 init4 ls = Some s -> 1 <= k ->
    k <= length (log (nodes (base3 (base4 s)) i)) -> k <= length (log (nodes (base3 (base4 s)) j)) ->
    term_at (log (nodes (base3 (base4 s)) i)) k = term_at (log (nodes (base3 (base4 s)) j)) k ->
    firstn k (log (nodes (base3 (base4 s)) i)) = firstn k (log (nodes (base3 (base4 s)) j)).
  Proof. intros H. apply (log_matching4 _ _ HC). now apply accepted_reachable with ls. Qed.

  Lemma accepted_state_machine_safety ls s a b k :
    run4_sim C0 init4 ls = Some s ->
    k <= commit (nodes (base3 (base4 s)) a) -> k <= commit (nodes (base3 (base4 s)) b) ->
    firstn k (log (nodes (base3 (base4 s)) a)) = firstn k (log (nodes (base3 (base4 s)) b)).
  Proof. intros H. apply (state_machine_safety4 _ _ HC). now apply accepted_reachable with ls. Qed.

  Lemma accepted_committed_never_replaced ls s ls' s' i k :
    run4_sim C0 init4 ls = Some s -> run4_sim C0 s ls' = Some s' ->
    k <= commit (nodes (base3 (base4 s)) i) ->
    firstn k (log (nodes (base3 (base4 s')) i)) = firstn k (log (nodes (base3 (base4 s)) i)).
  Proof.
    intros H H'. apply (committed_never_replaced4 _ _ HC) with ls'.
    - now apply accepted_reachable with ls.
    - now apply accepted_steps.
  Qed.

  (* a later leader holds everything an earlier leader committed, whatever happens in between *)
  Lemma accepted_leader_completeness ls s i k s1 ls' s2 j :
    run4_sim C0 init4 ls = Some s ->
    step_fn4_sim C0 s (L4Base (L3Base (LAdvanceCommit i k))) = Some s1 ->
    run4_sim C0 s1 ls' = Some s2 ->
    role (nodes (base3 (base4 s2)) j) = Leader ->
    term (nodes (base3 (base4 s)) i) < term (nodes (base3 (base4 s2)) j) ->
    firstn k (log (nodes (base3 (base4 s2)) j)) = firstn k (log (nodes (base3 (base4 s)) i)).
  Proof.
    intros H H1 H2. apply (leader_completeness4_trace _ _ HC) with s1 ls'.
    - now apply accepted_reachable with ls.
    - now apply step_fn4_sound.
    - now apply accepted_steps.
  Qed.

  Lemma accepted_applied_le_committed ls s i :
    run4_sim C0 init4 ls = Some s ->
    applied (base4 s) i <= commit (nodes (base3 (base4 s)) i).
  Proof. intros H. apply (applied_le_committed4 _ _ HC). now apply accepted_reachable with ls. Qed.

  Lemma accepted_snapshot_is_committed ls s i :
    run4_sim C0 init4 ls = Some s -> first4 s i <= commit (nodes (base3 (base4 s)) i).
  Proof. intros H. apply (snapshot_is_committed4 (cfg_sim C0) is_cc_sim). now apply accepted_reachable with ls. Qed.

End AcceptedRun.
