From DB Require Import Base.Bytes Model.CodecEntry Proofs.Bytes.
From Coq Require Import ZifyN ZifyNat ZifyBool.
Ltac Zify.zify_post_hook ::= Z.div_mod_to_equations.
Open Scope N_scope.

Lemma next1_app b r1 r : r <> [] -> next1 ((b :: r1) ++ r) = Some (b, r1 ++ r).
Proof. intros Hr. simpl. destruct (r1 ++ r) eqn:E; [|reflexivity].
  apply app_eq_nil in E; destruct E; contradiction. Qed.

Lemma pow_split shift : 2 ^ (shift + 7) = 128 * 2 ^ shift.
Proof. rewrite N.pow_add_r. change (2 ^ 7) with 128. lia. Qed.

(* generic decoding lemma for the three varint loops *)
Lemma dec64_uvarint : forall f k n x shift acc r,
  (k <= f)%nat -> (k < n)%nat -> x < 128 ^ N.of_nat (S k) ->
  shift + 7 * N.of_nat k < 56 -> r <> [] ->
  dec64 n shift acc (uvarint_fuel f x ++ r) = Some (acc + x * 2 ^ shift, r).
Proof.
  induction f as [|f IH]; intros k n x shift acc r Hk Hn Hx Hs Hr.
  - assert (k = 0%nat) by lia; subst k. simpl in Hx.
    destruct n as [|n]; [lia|]. cbn [uvarint_fuel dec64].
    rewrite next1_app by exact Hr. simpl app.
    rewrite N.mod_small by lia.
    assert (E : x <? 128 = true) by (apply N.ltb_lt; lia). rewrite E. reflexivity.
  - destruct n as [|n]; [lia|]. cbn [uvarint_fuel dec64].
    destruct (N.ltb_spec x 128) as [Hlt|Hge].
    + rewrite next1_app by exact Hr. simpl app.
      assert (E : x <? 128 = true) by (apply N.ltb_lt; lia). rewrite E. reflexivity.
    + destruct k as [|k]; [simpl in Hx; lia|].
      rewrite next1_app by exact Hr.
      assert (E1 : x mod 128 + 128 <? 128 = false) by (apply N.ltb_ge; lia).
      assert (E2 : shift =? 56 = false) by (apply N.eqb_neq; lia).
      rewrite E1, E2. simpl orb. cbv iota.
      rewrite (IH k n (x / 128) (shift + 7)); try lia; try assumption.
      * f_equal. f_equal. rewrite pow_split.
        assert ((x mod 128 + 128) mod 128 = x mod 128).
        { rewrite N.add_mod by lia. rewrite N.mod_same by lia.
          rewrite N.add_0_r. rewrite !N.mod_mod by lia. reflexivity. }
        rewrite H. pose proof (N.div_mod x 128). nia.
      * rewrite Nat2N.inj_succ, N.pow_succ_r' in Hx. apply N.div_lt_upper_bound; lia.
Qed.

Lemma dec32_uvarint : forall f k n x shift acc r,
  (k <= f)%nat -> (k < n)%nat -> x < 128 ^ N.of_nat (S k) ->
  x * 2 ^ shift < 2 ^ 32 -> r <> [] ->
  dec32 n shift acc (uvarint_fuel f x ++ r) = Some (acc + x * 2 ^ shift, r).
Proof.
  induction f as [|f IH]; intros k n x shift acc r Hk Hn Hx Hs Hr.
  - assert (k = 0%nat) by lia; subst k. simpl in Hx.
    destruct n as [|n]; [lia|]. cbn [uvarint_fuel dec32].
    rewrite next1_app by exact Hr. simpl app.
    rewrite N.mod_small by lia.
    assert (E : x <? 128 = true) by (apply N.ltb_lt; lia). rewrite E.
    rewrite (N.mod_small (x * 2 ^ shift)) by lia. reflexivity.
  - destruct n as [|n]; [lia|]. cbn [uvarint_fuel dec32].
    destruct (N.ltb_spec x 128) as [Hlt|Hge].
    + rewrite next1_app by exact Hr. simpl app.
      assert (E : x <? 128 = true) by (apply N.ltb_lt; lia). rewrite E.
      rewrite (N.mod_small (x * 2 ^ shift)) by lia. reflexivity.
    + destruct k as [|k]; [simpl in Hx; lia|].
      rewrite next1_app by exact Hr.
      assert (E1 : x mod 128 + 128 <? 128 = false) by (apply N.ltb_ge; lia).
      rewrite E1.
      assert (Hm : (x mod 128 + 128) mod 128 = x mod 128).
      { rewrite N.add_mod by lia. rewrite N.mod_same by lia.
        rewrite N.add_0_r. rewrite !N.mod_mod by lia. reflexivity. }
      rewrite Hm.
      pose proof (N.div_mod x 128) as Hdm.
      assert (Hp : 0 < 2 ^ shift) by (apply N.neq_0_lt_0; apply N.pow_nonzero; lia).
      assert (Hsmall : x mod 128 * 2 ^ shift < 2 ^ 32) by nia.
      rewrite (N.mod_small _ _ Hsmall).
      rewrite (IH k n (x / 128) (shift + 7)); try lia; try assumption.
      * f_equal. f_equal. rewrite pow_split. nia.
      * rewrite Nat2N.inj_succ, N.pow_succ_r' in Hx. apply N.div_lt_upper_bound; lia.
      * rewrite pow_split. nia.
Qed.

Lemma declen_uvarint : forall f k n x shift acc r,
  (k <= f)%nat -> (k < n)%nat -> x < 128 ^ N.of_nat (S k) ->
  x * 2 ^ shift < 2 ^ 64 ->
  declen n shift acc (uvarint_fuel f x ++ r) = Some (acc + x * 2 ^ shift, r).
Proof.
  induction f as [|f IH]; intros k n x shift acc r Hk Hn Hx Hs.
  - assert (k = 0%nat) by lia; subst k. simpl in Hx.
    destruct n as [|n]; [lia|]. cbn [uvarint_fuel declen]. simpl app. cbv iota beta.
    rewrite N.mod_small by lia.
    assert (E : x <? 128 = true) by (apply N.ltb_lt; lia). rewrite E.
    rewrite (N.mod_small (x * 2 ^ shift)) by lia. reflexivity.
  - destruct n as [|n]; [lia|]. cbn [uvarint_fuel declen].
    destruct (N.ltb_spec x 128) as [Hlt|Hge].
    + simpl app. cbv iota beta.
      assert (E : x <? 128 = true) by (apply N.ltb_lt; lia). rewrite E.
      rewrite (N.mod_small (x * 2 ^ shift)) by lia. reflexivity.
    + destruct k as [|k]; [simpl in Hx; lia|].
      simpl app. cbv iota beta.
      assert (E1 : x mod 128 + 128 <? 128 = false) by (apply N.ltb_ge; lia).
      rewrite E1.
      assert (Hm : (x mod 128 + 128) mod 128 = x mod 128).
      { rewrite N.add_mod by lia. rewrite N.mod_same by lia.
        rewrite N.add_0_r. rewrite !N.mod_mod by lia. reflexivity. }
      rewrite Hm.
      pose proof (N.div_mod x 128) as Hdm.
      assert (Hp : 0 < 2 ^ shift) by (apply N.neq_0_lt_0; apply N.pow_nonzero; lia).
      assert (Hsmall : x mod 128 * 2 ^ shift < 2 ^ 64) by nia.
      rewrite (N.mod_small _ _ Hsmall).
      rewrite (IH k n (x / 128) (shift + 7)); try lia; try assumption.
      * f_equal. f_equal. rewrite pow_split. nia.
      * rewrite Nat2N.inj_succ, N.pow_succ_r' in Hx. apply N.div_lt_upper_bound; lia.
      * rewrite pow_split. nia.
Qed.

(* ------------------------------------------------------------------ *)
(* fields *)

Definition ok_after (t h : N) : Prop := (t < h /\ h < 128) \/ t + 128 < h.
Definition starts_ok (t : N) (s : bytes) : Prop := exists h d, s = h :: d /\ ok_after t h.

Lemma starts_ok_mono t t' s : t' <= t -> starts_ok t s -> starts_ok t' s.
Proof. intros Hle (h & d & E & O). exists h, d. split; [exact E|]. unfold ok_after in *. lia. Qed.

Lemma starts_ok_nonempty t s : starts_ok t s -> s <> [].
Proof. intros (h & d & E & _). subst. discriminate. Qed.

Lemma threshold_marshal_le : colfer_fixed_threshold_marshal <= 2 ^ 56.
Proof. vm_compute. discriminate. Qed.

Lemma size_max_lt : colfer_size_max < 2 ^ 63.
Proof. vm_compute. reflexivity. Qed.

Lemma firstn_app_exact {A} (l r : list A) n : n = length l -> firstn n (l ++ r) = l.
Proof. intros ->. rewrite firstn_app, Nat.sub_diag, firstn_all. simpl. apply app_nil_r. Qed.

Lemma skipn_app_exact {A} (l r : list A) n : n = length l -> skipn n (l ++ r) = r.
Proof. intros ->. rewrite skipn_app, Nat.sub_diag, skipn_all. reflexivity. Qed.

Lemma dec_field64_enc tag x s :
  tag < 127 -> u64 x -> starts_ok tag s ->
  exists o, dec_field64 tag (hd0 (field64 tag x ++ s), tl (field64 tag x ++ s))
            = Some (o, (hd0 s, tl s)) /\ opt_or o 0 = x.
Proof.
  intros Ht Hx Hs. pose proof (starts_ok_nonempty _ _ Hs) as Hne.
  destruct Hs as (h' & d' & E & O).
  unfold field64, dec_field64.
  destruct (N.leb_spec colfer_fixed_threshold_marshal x) as [Hfix|Hvar].
  - cbn [app hd0 hd tl].
    assert (E1 : tag + 128 =? tag = false) by (apply N.eqb_neq; lia).
    rewrite E1, N.eqb_refl.
    rewrite app_length, be_length. subst s.
    assert (E2 : (8 + length (h' :: d') <=? 8)%nat = false) by (apply Nat.leb_gt; simpl; lia).
    rewrite E2.
    rewrite skipn_app_exact by (rewrite be_length; reflexivity).
    rewrite firstn_app_exact by (rewrite be_length; reflexivity).
    exists (Some x). split; [|reflexivity].
    rewrite be_dec_be; [reflexivity|]. unfold u64 in Hx. change (256 ^ N.of_nat 8) with (2 ^ 64). exact Hx.
  - destruct (N.eqb_spec x 0) as [Hz|Hnz].
    + subst s. cbn [app hd0 hd tl].
      assert (E1 : h' =? tag = false) by (apply N.eqb_neq; unfold ok_after in O; lia).
      assert (E2 : h' =? tag + 128 = false) by (apply N.eqb_neq; unfold ok_after in O; lia).
      rewrite E1, E2. exists None. split; [reflexivity|]. simpl. lia.
    + cbn [app hd0 hd tl]. rewrite N.eqb_refl. unfold uvarint.
      pose proof threshold_marshal_le as Hth.
      rewrite (dec64_uvarint 9 7 10 x 0 0 s); try lia; try exact Hne.
      exists (Some x). split; [|reflexivity]. do 3 f_equal. simpl. lia.
Qed.

Lemma to_int32_pos v : (0 <= v < 2 ^ 31)%Z -> to_int32 (Z.to_N v) = v.
Proof.
  intros Hv. unfold to_int32.
  rewrite N.mod_small by (change (2 ^ 32) with 4294967296; lia).
  rewrite Z2N.id by lia.
  destruct (Z.ltb_spec v (2 ^ 31)); lia.
Qed.

Lemma to_int32_neg v : (- 2 ^ 31 <= v < 0)%Z ->
  to_int32 (2 ^ 32 - Z.to_N (- v) mod 2 ^ 32) = v.
Proof.
  intros Hv. unfold to_int32.
  change (2 ^ 32) with 4294967296. change (2 ^ 31)%Z with 2147483648%Z in *.
  change (2 ^ 32)%Z with 4294967296%Z.
  rewrite (N.mod_small (Z.to_N (- v))) by lia.
  rewrite N.mod_small by lia.
  destruct (Z.ltb_spec (Z.of_N (4294967296 - Z.to_N (- v))) 2147483648); lia.
Qed.

Lemma dec_field_type_enc v s :
  int32 v -> starts_ok 2 s ->
  exists o, dec_field_type (hd0 (field_type v ++ s), tl (field_type v ++ s))
            = Some (o, (hd0 s, tl s)) /\ opt_or o 0%Z = v.
Proof.
  intros Hv Hs. pose proof (starts_ok_nonempty _ _ Hs) as Hne.
  destruct Hs as (h' & d' & E & O).
  unfold field_type, dec_field_type. unfold int32 in Hv.
  change (2 ^ 31)%Z with 2147483648%Z in Hv.
  destruct (Z.eqb_spec v 0) as [Hz|Hnz].
  - subst s. cbn [app hd0 hd tl].
    assert (E1 : h' =? 2 = false) by (apply N.eqb_neq; unfold ok_after in O; lia).
    assert (E2 : h' =? 2 + 128 = false) by (apply N.eqb_neq; unfold ok_after in O; lia).
    rewrite E1, E2. exists None. split; [reflexivity|]. simpl. lia.
  - destruct (Z.leb_spec 0 v) as [Hpos|Hneg].
    + cbn [app hd0 hd tl]. rewrite N.eqb_refl. unfold uvarint.
      rewrite (dec32_uvarint 9 4 _ (Z.to_N v) 0 0 s); try lia; try exact Hne.
      eexists. split; [reflexivity|].
        cbn [opt_or].
        replace (0 + Z.to_N v * 2 ^ 0) with (Z.to_N v) by (rewrite N.pow_0_r; lia).
        apply to_int32_pos. change (2 ^ 31)%Z with 2147483648%Z. lia.
    + cbn [app hd0 hd tl].
      assert (E1 : 2 + 128 =? 2 = false) by reflexivity. rewrite E1, N.eqb_refl.
      unfold uvarint.
      rewrite (dec32_uvarint 9 4 _ (Z.to_N (- v)) 0 0 s); try lia; try exact Hne.
      eexists. split; [reflexivity|]. cbn [opt_or].
        replace (0 + Z.to_N (- v) * 2 ^ 0) with (Z.to_N (- v)) by (rewrite N.pow_0_r; lia).
        apply to_int32_neg. change (2 ^ 31)%Z with 2147483648%Z. lia.
Qed.

Lemma field_cmd_nonempty c : c <> [] -> field_cmd c = 7 :: uvarint (nlen c) ++ c.
Proof. destruct c; [contradiction|reflexivity]. Qed.

Lemma dec_field_cmd_enc c :
  nlen c <= colfer_size_max ->
  (c = [] /\ dec_field_cmd (hd0 (field_cmd c ++ [127]), tl (field_cmd c ++ [127])) = CmdNone /\
     field_cmd c = []) \/
  dec_field_cmd (hd0 (field_cmd c ++ [127]), tl (field_cmd c ++ [127])) = CmdOk c (127, []).
Proof.
  intros Hc. destruct c as [|b c'] eqn:Ec.
  - left. split; [reflexivity|]. split; reflexivity.
  - right. rewrite <- Ec in *. rewrite field_cmd_nonempty by (rewrite Ec; discriminate).
    cbn [app hd0 hd tl]. unfold dec_field_cmd. rewrite N.eqb_refl.
    unfold uvarint. rewrite <- app_assoc.
    pose proof size_max_lt as Hmax.
    rewrite (declen_uvarint 9 8 _ (nlen c) 0 0 (c ++ [127])); try lia.
    replace (0 + nlen c * 2 ^ 0) with (nlen c) by (rewrite N.pow_0_r; lia).
      assert (E1 : colfer_size_max <? nlen c = false) by (apply N.ltb_ge; exact Hc).
      rewrite E1.
      assert (E2 : nlen (c ++ [127]) <=? nlen c = false).
      { apply N.leb_gt. unfold nlen. rewrite app_length. simpl. lia. }
      rewrite E2. unfold nlen. rewrite Nat2N.id.
      rewrite firstn_app_exact, skipn_app_exact by reflexivity. reflexivity.
Qed.

(* suffixes start with admissible headers *)
Lemma starts_ok_127 t : t < 127 -> starts_ok t [127].
Proof. intros. exists 127, []. split; [reflexivity|]. left. lia. Qed.

Lemma starts_ok_field64 t k x s : t < k -> k < 127 -> starts_ok k s ->
  starts_ok t (field64 k x ++ s).
Proof.
  intros Htk Hk Hs. unfold field64.
  destruct (colfer_fixed_threshold_marshal <=? x).
  - eexists _, _. split; [reflexivity|]. right. lia.
  - destruct (x =? 0).
    + simpl. apply (starts_ok_mono k); [lia|exact Hs].
    + eexists _, _. split; [reflexivity|]. left. lia.
Qed.

Lemma starts_ok_type t v s : t < 2 -> starts_ok 2 s -> starts_ok t (field_type v ++ s).
Proof.
  intros Ht Hs. unfold field_type.
  destruct (v =? 0)%Z; [simpl; apply (starts_ok_mono 2); [lia|exact Hs]|].
  destruct (0 <=? v)%Z; eexists _, _; (split; [reflexivity|]); [left|right]; lia.
Qed.

Lemma starts_ok_cmd t c : t < 7 -> starts_ok t (field_cmd c ++ [127]).
Proof.
  intros Ht. destruct c; simpl.
  - apply starts_ok_127. lia.
  - eexists _, _. split; [reflexivity|]. left. lia.
Qed.

Lemma decode_nonempty data : data <> [] ->
  decode data = decode_from (nlen data) (hd0 data, tl data).
Proof. destruct data; [contradiction|reflexivity]. Qed.

Lemma entry_roundtrip_general e :
  wf_entry0 e ->
  decode (encode e) =
  if nlen (encode e) <? colfer_size_max then DecOk e (nlen (encode e)) else DecMax.
Proof.
  intros (Ht & Hi & Hty & Hk & Hc & Hs & Hr & Hcb & Hcl).
  destruct e as [term index ty key client series resp cmd]; simpl in *.
  unfold encode; simpl e_term; simpl e_index; simpl e_type; simpl e_key;
    simpl e_client; simpl e_series; simpl e_responded; simpl e_cmd.
  set (S7 := field_cmd cmd ++ [127]).
  set (S6 := field64 6 resp ++ S7).
  set (S5 := field64 5 series ++ S6).
  set (S4 := field64 4 client ++ S5).
  set (S3 := field64 3 key ++ S4).
  set (S2 := field_type ty ++ S3).
  set (S1 := field64 1 index ++ S2).
  set (S0 := field64 0 term ++ S1).
  assert (O7 : starts_ok 6 S7) by (apply starts_ok_cmd; lia).
  assert (O6 : starts_ok 5 S6) by (apply starts_ok_field64; [lia|lia|exact O7]).
  assert (O5 : starts_ok 4 S5) by (apply starts_ok_field64; [lia|lia|exact O6]).
  assert (O4 : starts_ok 3 S4) by (apply starts_ok_field64; [lia|lia|exact O5]).
  assert (O3 : starts_ok 2 S3) by (apply starts_ok_field64; [lia|lia|exact O4]).
  assert (O2 : starts_ok 1 S2) by (apply starts_ok_type; [lia|exact O3]).
  assert (O1 : starts_ok 0 S1) by (apply starts_ok_field64; [lia|lia|exact O2]).
  assert (N0 : S0 <> []).
  { unfold S0. intros E. apply app_eq_nil in E. destruct E as [_ E].
    apply (starts_ok_nonempty _ _ O1 E). }
  rewrite decode_nonempty by exact N0.
  unfold decode_from.
  destruct (dec_field64_enc 0 term S1) as (o0 & E0 & V0); [lia|exact Ht|exact O1|].
  fold S0 in E0. rewrite E0.
  destruct (dec_field64_enc 1 index S2) as (o1 & E1 & V1); [lia|exact Hi|exact O2|].
  fold S1 in E1. rewrite E1.
  destruct (dec_field_type_enc ty S3) as (o2 & E2 & V2); [exact Hty|exact O3|].
  fold S2 in E2. rewrite E2.
  destruct (dec_field64_enc 3 key S4) as (o3 & E3 & V3); [lia|exact Hk|exact O4|].
  fold S3 in E3. rewrite E3.
  destruct (dec_field64_enc 4 client S5) as (o4 & E4 & V4); [lia|exact Hc|exact O5|].
  fold S4 in E4. rewrite E4.
  destruct (dec_field64_enc 5 series S6) as (o5 & E5 & V5); [lia|exact Hs|exact O6|].
  fold S5 in E5. rewrite E5.
  destruct (dec_field64_enc 6 resp S7) as (o6 & E6 & V6); [lia|exact Hr|exact O7|].
  fold S6 in E6. rewrite E6.
  rewrite V0, V1, V2, V3, V4, V5, V6.
  destruct (dec_field_cmd_enc cmd Hcl) as [(Ec & Ed & Ef)|Ed]; fold S7 in Ed; rewrite Ed.
  - subst cmd. unfold S7 at 1 2. rewrite Ef. cbn [app hd0 hd tl].
    rewrite N.eqb_refl. change (tl S7) with (@nil N).
    change (nlen (@nil N)) with 0. rewrite N.sub_0_r. reflexivity.
  - rewrite N.eqb_refl. change (nlen (@nil N)) with 0. rewrite N.sub_0_r. reflexivity.
Qed.

(* ------------------------------------------------------------------ *)
(* Size() and SizeUpperLimit() *)

Lemma threshold_size_eq : colfer_fixed_threshold_size = colfer_fixed_threshold_marshal.
Proof. reflexivity. Qed.

Lemma non_cmd_fields_enough : 71 <= entry_non_cmd_fields_size.
Proof. vm_compute. discriminate. Qed.

Lemma varint_extra_nat f : forall x, varint_extra f x = N.of_nat (varint_extra' f x).
Proof.
  induction f as [|f IH]; intros x; cbn [varint_extra varint_extra']; [reflexivity|].
  destruct (x <? 128); [reflexivity|]. rewrite IH. lia.
Qed.

Lemma nlen_app {A} (a b : list A) : nlen (a ++ b) = nlen a + nlen b.
Proof. unfold nlen. rewrite app_length. lia. Qed.

Lemma nlen_cons {A} (a : A) l : nlen (a :: l) = 1 + nlen l.
Proof. unfold nlen. simpl length. lia. Qed.

Lemma nlen_uvarint x : nlen (uvarint x) = 1 + varint_extra 9 x.
Proof. unfold uvarint, nlen. rewrite uvarint_fuel_length, varint_extra_nat. lia. Qed.

Lemma size64_exact tag x : nlen (field64 tag x) = size64 x.
Proof.
  unfold field64, size64. rewrite threshold_size_eq.
  destruct (colfer_fixed_threshold_marshal <=? x).
  - rewrite nlen_cons. unfold nlen. rewrite be_length. reflexivity.
  - destruct (x =? 0); [reflexivity|]. rewrite nlen_cons, nlen_uvarint. lia.
Qed.

Lemma size_type_exact v : nlen (field_type v) = size_type v.
Proof.
  unfold field_type, size_type. destruct (Z.eqb_spec v 0); [reflexivity|].
  destruct (Z.leb_spec 0 v); rewrite nlen_cons, nlen_uvarint.
  - rewrite Z.abs_eq by lia. lia.
  - rewrite Z.abs_neq by lia. lia.
Qed.

Lemma size_cmd_exact c : nlen (field_cmd c) = size_cmd c.
Proof.
  destruct c as [|b c]; [reflexivity|]. unfold field_cmd, size_cmd.
  rewrite nlen_cons, nlen_app, nlen_uvarint. lia.
Qed.

Theorem entry_size_exact_proved e : nlen (encode e) = size e.
Proof.
  unfold encode, size. rewrite !nlen_app, !size64_exact, size_type_exact, size_cmd_exact.
  unfold nlen at 1. simpl length. lia.
Qed.

Theorem entry_roundtrip_proved e :
  wf_entry e -> decode (encode e) = DecOk e (nlen (encode e)).
Proof.
  intros [H0 Hsz]. rewrite entry_roundtrip_general by exact H0.
  rewrite entry_size_exact_proved. apply N.ltb_lt in Hsz. rewrite Hsz. reflexivity.
Qed.

(* at and above the limit the encoding is NOT accepted back (unmarshal wants
   i < ColferSizeMax): the round-trip law holds exactly for sizes below the limit *)
Lemma entry_at_limit_rejected_proved e :
  wf_entry0 e -> colfer_size_max <= size e -> decode (encode e) = DecMax.
Proof.
  intros H0 Hsz. rewrite entry_roundtrip_general by exact H0.
  rewrite entry_size_exact_proved. apply N.ltb_ge in Hsz. rewrite Hsz. reflexivity.
Qed.

(* the length-abstract functions used for the BIG harness cases *)
Lemma size_cmd_len_eq c : size_cmd c = size_cmd_len (nlen c).
Proof. unfold size_cmd, size_cmd_len. destruct c; [reflexivity|]. rewrite nlen_cons.
  destruct (N.eqb_spec (1 + nlen c) 0); [lia|reflexivity]. Qed.

Lemma size_len_eq e : size e = size_len e (nlen (e_cmd e)).
Proof. unfold size, size_len. rewrite size_cmd_len_eq. reflexivity. Qed.

Lemma size_checked_len_eq e : size_checked e = size_checked_len e (nlen (e_cmd e)).
Proof. unfold size_checked, size_checked_len. rewrite <- size_len_eq. reflexivity. Qed.

Lemma size_upper_limit_len_eq e : size_upper_limit e = size_upper_limit_len (nlen (e_cmd e)).
Proof. reflexivity. Qed.

Lemma encode_head_split e : e_cmd e <> [] ->
  encode e = encode_head e (nlen (e_cmd e)) ++ e_cmd e ++ [127].
Proof.
  intros H. unfold encode, encode_head. rewrite field_cmd_nonempty by exact H.
  rewrite <- !app_assoc. cbn [app]. rewrite <- !app_assoc. reflexivity.
Qed.

Lemma decode_outcome_len_eq e : wf_entry0 e ->
  decode (encode e) =
  match decode_outcome_len e (nlen (e_cmd e)) with
  | Some n => DecOk e n
  | None => DecMax
  end.
Proof.
  intros H0. rewrite entry_roundtrip_general by exact H0.
  unfold decode_outcome_len. rewrite entry_size_exact_proved, <- size_len_eq.
  destruct (size e <? colfer_size_max); reflexivity.
Qed.

Lemma varint_extra_le x k : x < 128 ^ N.of_nat (S k) -> varint_extra 9 x <= N.of_nat k.
Proof. intros H. rewrite varint_extra_nat. pose proof (varint_extra'_bound 9 x k H). lia. Qed.

Lemma size64_le x : size64 x <= 9.
Proof.
  unfold size64. rewrite threshold_size_eq.
  destruct (N.leb_spec colfer_fixed_threshold_marshal x); [lia|].
  destruct (x =? 0); [lia|].
  pose proof threshold_marshal_le.
  pose proof (varint_extra_le x 7) as Hb.
  change (128 ^ N.of_nat 8) with (2 ^ 56) in Hb. lia.
Qed.

Lemma size_type_le v : int32 v -> size_type v <= 6.
Proof.
  intros Hv. unfold size_type. destruct (v =? 0)%Z; [lia|].
  pose proof (varint_extra_le (Z.to_N (Z.abs v)) 4) as Hb.
  unfold int32 in Hv. change (2 ^ 31)%Z with 2147483648%Z in Hv.
  change (128 ^ N.of_nat 5) with 34359738368 in Hb. lia.
Qed.

Lemma size_cmd_le c : nlen c <= colfer_size_max -> size_cmd c <= nlen c + 10.
Proof.
  intros Hc. unfold size_cmd. destruct c; [lia|].
  pose proof size_max_lt.
  pose proof (varint_extra_le (nlen (n :: c)) 8) as Hb.
  change (128 ^ N.of_nat 9) with (2 ^ 63) in Hb. lia.
Qed.

Theorem entry_size_le_upper_limit_proved e :
  wf_entry e -> nlen (encode e) <= size_upper_limit e.
Proof.
  intros [(_ & _ & Hty & _ & _ & _ & _ & _ & Hcl) _].
  rewrite entry_size_exact_proved. unfold size, size_upper_limit.
  pose proof non_cmd_fields_enough.
  pose proof (size64_le (e_term e)). pose proof (size64_le (e_index e)).
  pose proof (size64_le (e_key e)). pose proof (size64_le (e_client e)).
  pose proof (size64_le (e_series e)). pose proof (size64_le (e_responded e)).
  pose proof (size_type_le _ Hty). pose proof (size_cmd_le _ Hcl). lia.
Qed.

Theorem encode_wf_bytes_proved e : wf_entry e -> wf_bytes (encode e).
Proof.
  intros [(Ht & Hi & Hty & Hk & Hc & Hs & Hr & Hcb & Hcl) _].
  assert (F64 : forall tag x, tag < 127 -> wf_bytes (field64 tag x)).
  { intros tag x Htag. unfold field64.
    destruct (colfer_fixed_threshold_marshal <=? x).
    - constructor; [lia|apply be_wf].
    - destruct (x =? 0); [constructor|]. constructor; [lia|apply uvarint_fuel_wf]. }
  unfold encode. repeat (apply Forall_app; split); try (apply F64; lia).
  - unfold field_type. destruct (e_type e =? 0)%Z; [constructor|].
    destruct (0 <=? e_type e)%Z; (constructor; [lia|apply uvarint_fuel_wf]).
  - unfold field_cmd. destruct (e_cmd e) eqn:E; [constructor|].
    rewrite <- E. constructor; [lia|]. apply Forall_app; split; [apply uvarint_fuel_wf|rewrite E; exact Hcb].
  - constructor; [lia|constructor].
Qed.
