(* L2, stages 2 and 3 together: every run of the model with membership change,
   compaction and InstallSnapshot (Model/RaftNetCfgSnap.v) is simulated by a run of the
   stage-3 model whose soup holds the Replicate messages every snapshot stands for. *)
From DB Require Import Model.RaftNet Model.RaftNetSnap Model.RaftNetCfg Model.RaftNetCfgSnap
  Proofs.RaftNetLists Proofs.RaftNetElection Proofs.RaftNetLog Proofs.RaftNetCommitDefs
  Proofs.RaftNetCommit Proofs.RaftNetSafety Proofs.RaftNetSnap Proofs.RaftNetCfgLemmas
  Proofs.RaftNetCfgInv Proofs.RaftNetCfgStep Proofs.RaftNetCfgSafety.

Definition with_msgs3 (s : net3) (ms : list msg) : net3 :=
  set_base s (with_msgs (base3 s) ms).

Section CfgSnapSim.
  Variable cfg_of : list entry -> list id.
  Variable is_cc : entry -> bool.
  Hypothesis HC : cfg_contract cfg_of is_cc.

  Notation cfg_noncc := (proj1 HC).
  Notation cfg_step_near := (proj1 (proj2 HC)).
  Notation cfg_nodup := (proj1 (proj2 (proj2 HC))).
  Notation noop_noncc := (proj2 (proj2 (proj2 HC))).

  Notation ccs := (ccs is_cc).
  Notation cfg := (cfg cfg_of).
  Notation step3 := (step3 cfg_of is_cc).
  Notation steps3 := (steps3 cfg_of is_cc).
  Notation reachable3 := (reachable3 cfg_of is_cc).
  Notation step4 := (step4 cfg_of is_cc).
  Notation steps4 := (steps4 cfg_of is_cc).
  Notation reachable4 := (reachable4 cfg_of is_cc).
  Notation inv4 := (inv4 cfg_of is_cc).
  Notation inv4_reachable := (inv4_reachable cfg_of is_cc cfg_noncc cfg_step_near cfg_nodup noop_noncc).

  Lemma aux_with_msgs s ms l :
    pending' is_cc (with_msgs3 s ms) l = pending' is_cc s l /\
    lcfg' cfg_of (with_msgs3 s ms) l = lcfg' cfg_of s l /\
    lapp' (with_msgs3 s ms) l = lapp' s l /\
    cevents' (with_msgs3 s ms) l = cevents' s l.
  Proof. destruct l; repeat split; reflexivity. Qed.

  Lemma guard3_with_msgs s ms l : guard3 is_cc s l -> guard3 is_cc (with_msgs3 s ms) l.
  Proof. destruct l; simpl; auto. Qed.

  (* a stage-3 step stays possible, with the same effect, in a bigger soup *)
  Lemma step3_soup_mono s l s' ms :
    step3 s l s' -> incl (msgs (base3 s)) ms -> same_acks ms (msgs (base3 s)) ->
    exists new, msgs (base3 s') = new ++ msgs (base3 s) /\
                step3 (with_msgs3 s ms) l (with_msgs3 s' (new ++ ms)).
  Proof.
    intros Hstep Hi Hsa. inversion Hstep; subst; repeat match goal with x := _ |- _ => subst x end.
    - destruct (step_soup_mono _ _ _ _ ms H0 Hi Hsa) as (new & Hnew & Hst).
      exists new. split; [exact Hnew|].
      pose proof (S3Base cfg_of is_cc (with_msgs3 s ms) l0 (with_msgs b' (new ++ ms))
                         (guard3_with_msgs s ms l0 H) Hst) as Hs3.
      destruct (aux_with_msgs s ms l0) as (E1 & E2 & E3 & E4).
      rewrite E1, E2, E3, E4 in Hs3. exact Hs3.
    - exists []. split; [reflexivity|].
      apply (S3Apply cfg_of is_cc (with_msgs3 s ms) i). exact H.
    - destruct (step_soup_mono _ _ _ _ ms H Hi Hsa) as (new & Hnew & Hst).
      exists new. split; [exact Hnew|].
      apply (S3Crash cfg_of is_cc (with_msgs3 s ms) i c m a (with_msgs b' (new ++ ms))); assumption.
  Qed.

  Lemma steps3_app s ls m ls' p : steps3 s ls m -> steps3 m ls' p -> steps3 s (ls ++ ls') p.
  Proof. intros H1 H2. induction H1; simpl; [assumption|]. econstructor; eauto. Qed.

  (* ---- the simulation relation ---- *)

  Definition R4 (s : net4) (ms : list msg) : Prop :=
    incl (msgs (base3 (base4 s))) ms /\
    (forall m, In m (snaps4 s) -> is_covered (llog (base3 (base4 s))) ms m) /\
    same_acks ms (msgs (base3 (base4 s))).

  Definition wf4 (s : net4) : Prop :=
    forall i, first4 s i <= commit (nodes (base3 (base4 s)) i).

  Lemma step3_commit_mono s l s' i :
    step3 s l s' ->
    commit (nodes (base3 s) i) <= commit (nodes (base3 s') i) \/
    exists c m a, l = L3Crash i c m a /\ commit (nodes (base3 s') i) = c.
  Proof.
    intros Hstep. inversion Hstep; subst; repeat match goal with x := _ |- _ => subst x end;
      cbn [base3].
    - destruct (step_commit_mono _ _ _ _ i H0) as [Hle|(c & m & ->)]; [now left|].
      simpl in H. contradiction.
    - left. lia.
    - inv_step H. destruct (Nat.eq_dec i i0) as [->|Hne].
      + right. do 3 eexists. split; [reflexivity|]. now rewrite upd_eq.
      + left. rewrite upd_neq by assumption. lia.
  Qed.

  Lemma wf4_step s l s' : wf4 s -> step4 s l s' -> wf4 s'.
  Proof.
    intros Hwf Hstep i. specialize (Hwf i).
    inversion Hstep; subst; repeat match goal with x := _ |- _ => subst x end;
      cbn [base4 first4 base3 set_base nodes].
    - destruct (step3_commit_mono _ _ _ i H0) as [Hle|(c & m & a & -> & Hc)]; [lia|].
      simpl in H. lia.
    - destruct (Nat.eq_dec i i0) as [->|Hne]; [rewrite updn_eq; lia | now rewrite updn_neq].
    - assumption.
    - simp_upd; lia.
    - simp_upd; lia.
    - destruct (Nat.eq_dec i j) as [->|Hne].
      + rewrite updn_eq, upd_eq. simpl. lia.
      + rewrite updn_neq, upd_neq by assumption. lia.
  Qed.

  (* sending all the Replicate messages a snapshot at sidx stands for *)
  Lemma send_covering3 b ms i sidx :
    role (nodes (base3 b) i) = Leader -> sidx <= commit (nodes (base3 b) i) ->
    sidx <= length (log (nodes (base3 b) i)) ->
    forall k, k <= S sidx ->
    exists ls new,
      steps3 (with_msgs3 b ms) ls (with_msgs3 b (new ++ ms)) /\
      (forall t v l0 k0, ~ In (Ack t v l0 k0) new) /\
      forall p, p < k ->
        In (AE (term (nodes (base3 b) i)) i p (term_at (log (nodes (base3 b) i)) p)
               (firstn (sidx - p) (skipn p (log (nodes (base3 b) i)))) sidx) (new ++ ms).
  Proof.
    intros Hrole Hc Hl. induction k as [|k IH]; intros Hk.
    - exists [], []. split; [constructor|]. split; [intros ? ? ? ? []|]. intros p Hp. lia.
    - destruct (IH ltac:(lia)) as (ls & new & Hs & Hna & Hp).
      exists (ls ++ [L3Base (LSendAE i k (sidx - k) sidx)]),
             (AE (term (nodes (base3 b) i)) i k (term_at (log (nodes (base3 b) i)) k)
                 (firstn (sidx - k) (skipn k (log (nodes (base3 b) i)))) sidx :: new).
      split; [|split].
      + eapply steps3_app; [exact Hs|]. econstructor; [|constructor].
        assert (Hbase : step (cfg (with_msgs3 b (new ++ ms)) i) (base3 (with_msgs3 b (new ++ ms)))
                             (LSendAE i k (sidx - k) sidx)
                             (with_msgs (base3 b)
                                ((AE (term (nodes (base3 b) i)) i k (term_at (log (nodes (base3 b) i)) k)
                                     (firstn (sidx - k) (skipn k (log (nodes (base3 b) i)))) sidx
                                     :: new) ++ ms))).
        { unfold with_msgs3, set_base, with_msgs. cbn [base3 nodes msgs lead llog0 llog].
          apply (SASendAE _ (mkNet (nodes (base3 b)) (new ++ ms) (lead (base3 b)) (llog0 (base3 b))
                                   (llog (base3 b)))); cbn [nodes]; auto; lia. }
        assert (Hguard : guard3 is_cc (with_msgs3 b (new ++ ms)) (LSendAE i k (sidx - k) sidx)).
        { cbn. replace (k + (sidx - k)) with sidx by lia.
          rewrite ccs_out; [lia|]. rewrite firstn_length. lia. }
        exact (S3Base cfg_of is_cc (with_msgs3 b (new ++ ms)) (LSendAE i k (sidx - k) sidx) _
                      Hguard Hbase).
      + intros t v l0 k0 [Heq|Hin]; [discriminate | eapply Hna; eauto].
      + intros p Hplt. destruct (Nat.eq_dec p k) as [->|Hne].
        * now left.
        * right. apply Hp. lia.
  Qed.

  (* ---- the simulation ---- *)

  Theorem sim_step4 s l s' ms :
    reachable3 (with_msgs3 (base4 s) ms) -> R4 s ms -> step4 s l s' ->
    exists ls ms', steps3 (with_msgs3 (base4 s) ms) ls (with_msgs3 (base4 s') ms') /\ R4 s' ms'.
  Proof.
    intros Hreach (Hincl & Hcov & Hsa) Hstep.
    pose proof (inv4_reachable _ Hreach) as Hinv.
    pose proof (s_2 _ _ _ Hinv) as H2. pose proof (s_3a _ _ _ Hinv) as H3a.
    pose proof (agl3 cfg_of is_cc cfg_noncc cfg_step_near _ Hinv) as Hagl.
    cbn [with_msgs3 set_base base3] in H2, H3a, Hagl.
    inversion Hstep; subst; repeat match goal with x := _ |- _ => subst x end;
      cbn [base4 first4 snaps4].
    - (* a stage-3 step *)
      destruct (step3_soup_mono _ _ _ ms H0 Hincl Hsa) as (new & Hnew & Hst).
      exists [l0], (new ++ ms). split; [econstructor; [exact Hst | constructor]|].
      destruct (step3_mono cfg_of is_cc cfg_noncc cfg_step_near cfg_nodup _ _ _ Hinv Hst)
        as ((_ & _ & Hg & _) & _).
      cbn [with_msgs3 set_base base3 with_msgs llog] in Hg.
      unfold R4; cbn [base4 snaps4]. split; [|split].
      + rewrite Hnew. intros m Hm. apply in_app_or in Hm. apply in_or_app.
        destruct Hm; [now left | right; now apply Hincl].
      + intros m Hm. eapply is_covered_mono; [exact Hg | | apply Hcov; exact Hm].
        intros x Hx. apply in_or_app. now right.
      + rewrite Hnew. intros t i l1 k Hm. apply in_app_or in Hm. apply in_or_app.
        destruct Hm; [now left | right; now apply Hsa].
    - (* compaction *)
      exists [], ms. split; [constructor|]. repeat split; assumption.
    - (* sending a snapshot *)
      pose proof (i_commit_bounds _ H3a i) as Hcb. cbn [with_msgs nodes] in Hcb.
      destruct (send_covering3 (base4 s) ms i sidx H ltac:(lia) ltac:(lia) (S sidx) (le_n _))
        as (ls & new & Hs & Hna & Hp).
      exists ls, (new ++ ms). split; [exact Hs|]. unfold R4; cbn [base4 snaps4]. split; [|split].
      + intros m Hm. apply in_or_app. right. now apply Hincl.
      + intros m [<-|Hm].
        * cbn [is_covered].
          pose proof (i_leader_log _ H2 i H) as Hll. cbn [with_msgs nodes llog] in Hll.
          rewrite Hll. split; [lia|]. split; [now rewrite term_at_firstn by lia|].
          intros p Hple. rewrite term_at_firstn by lia. rewrite skipn_firstn_comm.
          apply Hp. lia.
        * eapply is_covered_mono; [ | | apply Hcov; exact Hm].
          -- intros t. exists []. now rewrite app_nil_r.
          -- intros x Hx. apply in_or_app. now right.
      + intros t v l1 k Hm. apply in_app_or in Hm.
        destruct Hm as [Hm|Hm]; [exfalso; eapply Hna; eauto | now apply Hsa].
    - (* snapshot at or below committed *)
      destruct (Hcov _ H) as (Hs & Ht & Hp). cbn [base4] in *.
      pose proof (Hp 0 ltac:(lia)) as Hae.
      set (n := base3 (base4 s)) in *.
      match type of Hae with In (AE _ _ _ ?pt ?ents _) _ =>
        exists [L3Base (LHandleAE j (term (nodes n j)) ldr 0 pt ents sidx)],
               (Ack (term (nodes n j)) j ldr (commit (nodes n j)) :: ms) end.
      split.
      + econstructor; [|constructor].
        apply (S3Base cfg_of is_cc (with_msgs3 (base4 s) ms)); [exact I|].
        apply (SAHandleAEStale _ (with_msgs n ms) j _ ldr 0 _ _ sidx); cbn [with_msgs nodes msgs];
          auto. fold n. lia.
      + unfold R4; cbn [base4 snaps4 set_base base3 msgs llog]. split; [|split].
        * intros m [<-|Hm]; [now left | right; now apply Hincl].
        * intros m Hm. eapply is_covered_mono; [ | | apply Hcov; exact Hm].
          -- intros t. exists []. now rewrite app_nil_r.
          -- intros x Hx. now right.
        * intros t0 v l1 k0 [Heq|Hm]; [now left | right; now apply Hsa].
    - (* snapshot matches the log *)
      destruct (Hcov _ H) as (Hs & Ht & Hp). cbn [base4] in *.
      set (n := base3 (base4 s)) in *.
      set (x := nodes n j) in *. set (t := term x) in *.
      set (L := firstn sidx (llog n t)) in *.
      pose proof (Hp (commit x) ltac:(lia)) as Hae.
      assert (HlenL : length L = sidx) by (unfold L; rewrite firstn_length; lia).
      assert (Hlen : commit x + length (skipn (commit x) L) = sidx)
        by (rewrite skipn_length; lia).
      set (a := with_msgs n ms) in *.
      destruct (i_ae a H2 _ _ _ _ _ _ Hae) as (Hlead & _).
      destruct (Hagl j t eq_refl Hlead) as (Hhc & _).
      cbn [a with_msgs nodes llog] in Hhc. fold x in Hhc.
      destruct (i_commit_bounds a H3a j) as (Hcb & _). cbn [a with_msgs nodes] in Hcb. fold x in Hcb.
      assert (Hpt : term_at (log x) (commit x) = term_at L (commit x)).
      { unfold L. rewrite term_at_firstn by lia. apply (agree_term_at _ _ _ _ Hhc). lia. }
      pose proof (append_never_conflicts_with_committed3 cfg_of is_cc cfg_noncc cfg_step_near
                    cfg_nodup noop_noncc _ j t ldr (commit x) _ _ sidx Hreach Hae eq_refl Hpt) as Hsome.
      cbn [with_msgs3 set_base base3 with_msgs nodes] in Hsome. fold n x in Hsome.
      destruct (try_append (log x) (commit x) (commit x) (skipn (commit x) L)) as [l'|] eqn:Hta;
        [|congruence].
      destruct (handle_ae_result a t ldr (commit x) _ _ sidx (log x) (commit x) l' H2 Hae
                  (i_log_ok a H2 j) Hpt Hta) as (Hsame & _).
      assert (Hagree : agree sidx (log x) (llog n t)).
      { assert (Hst : 1 <= term_at L sidx).
        { destruct (term_at_In L sidx ltac:(lia)) as (e & He & ->).
          apply In_firstn in He. apply (i_llog_terms a H2 t e He). }
        assert (Hr : 1 <= sidx <= length (log x)) by (apply term_at_in_range; lia).
        apply (log_ok_matching a (log x) (llog a t) sidx (i_log_ok a H2 j) (i_llog_ok a H2 t));
          try lia; unfold a; cbn [with_msgs llog]; [lia|].
        rewrite Ht. unfold L. apply term_at_firstn. lia. }
      rewrite Hlen in Hsame. specialize (Hsame Hagree). subst l'.
      exists [L3Base (LHandleAE j t ldr (commit x) (term_at L (commit x)) (skipn (commit x) L) sidx)],
             (Ack t j ldr sidx :: ms).
      split.
      + econstructor; [|constructor].
        pose proof (SAHandleAE (cfg (with_msgs3 (base4 s) ms) j) a j t ldr (commit x) _ _ sidx
                               (log x) Hae eq_refl (le_n _) Hpt Hta) as Hst.
        cbn [a with_msgs nodes msgs lead llog0 llog] in Hst. fold x in Hst.
        rewrite Hlen in Hst.
        replace (Nat.max (commit x) (Nat.min sidx sidx)) with sidx in Hst by lia.
        exact (S3Base cfg_of is_cc (with_msgs3 (base4 s) ms) (LHandleAE j t ldr _ _ _ sidx) _ I Hst).
      + unfold R4; cbn [base4 snaps4 set_base base3 msgs llog]. split; [|split].
        * intros m [<-|Hm]; [now left | right; now apply Hincl].
        * intros m Hm. eapply is_covered_mono; [ | | apply Hcov; exact Hm].
          -- intros t0. exists []. now rewrite app_nil_r.
          -- intros y Hy. now right.
        * intros t0 v l1 k0 [Heq|Hm]; [now left | right; now apply Hsa].
    - (* snapshot does not match: the log is replaced *)
      destruct (Hcov _ H) as (Hs & Ht & Hp). cbn [base4] in *.
      set (n := base3 (base4 s)) in *.
      set (x := nodes n j) in *. set (t := term x) in *.
      set (L := firstn sidx (llog n t)) in *.
      pose proof (Hp (commit x) ltac:(lia)) as Hae.
      assert (HlenL : length L = sidx) by (unfold L; rewrite firstn_length; lia).
      assert (Hlen : commit x + length (skipn (commit x) L) = sidx)
        by (rewrite skipn_length; lia).
      set (a := with_msgs n ms) in *.
      destruct (i_ae a H2 _ _ _ _ _ _ Hae) as (Hlead & _).
      destruct (Hagl j t eq_refl Hlead) as (Hhc & _).
      cbn [a with_msgs nodes llog] in Hhc. fold x in Hhc.
      destruct (i_commit_bounds a H3a j) as (Hcb & _). cbn [a with_msgs nodes] in Hcb. fold x in Hcb.
      assert (Hpt : term_at (log x) (commit x) = term_at L (commit x)).
      { unfold L. rewrite term_at_firstn by lia. apply (agree_term_at _ _ _ _ Hhc). lia. }
      pose proof (append_never_conflicts_with_committed3 cfg_of is_cc cfg_noncc cfg_step_near
                    cfg_nodup noop_noncc _ j t ldr (commit x) _ _ sidx Hreach Hae eq_refl Hpt) as Hsome.
      cbn [with_msgs3 set_base base3 with_msgs nodes] in Hsome. fold n x in Hsome.
      destruct (try_append (log x) (commit x) (commit x) (skipn (commit x) L)) as [l'|] eqn:Hta;
        [|congruence].
      destruct (handle_ae_result a t ldr (commit x) _ _ sidx (log x) (commit x) l' H2 Hae
                  (i_log_ok a H2 j) Hpt Hta) as (_ & Hrepl).
      assert (Hnag : ~ agree sidx (log x) (llog n t)).
      { intros Hag. match goal with Hn : term_at _ _ <> _ |- _ => apply Hn end. rewrite Ht.
        unfold L. rewrite term_at_firstn by lia. apply (agree_term_at _ _ _ _ Hag). lia. }
      rewrite Hlen in Hrepl. specialize (Hrepl Hnag). subst l'.
      exists [L3Base (LHandleAE j t ldr (commit x) (term_at L (commit x)) (skipn (commit x) L) sidx)],
             (Ack t j ldr sidx :: ms).
      split.
      + econstructor; [|constructor].
        pose proof (SAHandleAE (cfg (with_msgs3 (base4 s) ms) j) a j t ldr (commit x) _ _ sidx
                               _ Hae eq_refl (le_n _) Hpt Hta) as Hst.
        cbn [a with_msgs nodes msgs lead llog0 llog] in Hst. fold x in Hst.
        rewrite Hlen in Hst.
        replace (Nat.max (commit x) (Nat.min sidx sidx)) with sidx in Hst by lia.
        exact (S3Base cfg_of is_cc (with_msgs3 (base4 s) ms) (LHandleAE j t ldr _ _ _ sidx) _ I Hst).
      + unfold R4; cbn [base4 snaps4 set_base base3 msgs llog]. split; [|split].
        * intros m [<-|Hm]; [now left | right; now apply Hincl].
        * intros m Hm. eapply is_covered_mono; [ | | apply Hcov; exact Hm].
          -- intros t0. exists []. now rewrite app_nil_r.
          -- intros y Hy. now right.
        * intros t0 v l1 k0 [Heq|Hm]; [now left | right; now apply Hsa].
  Qed.

  (* a stage-3 step of the combined model is the same single step *)
  Lemma sim_base4 s l b' ms :
    reachable3 (with_msgs3 (base4 s) ms) -> R4 s ms -> step3 (base4 s) l b' ->
    exists ms', step3 (with_msgs3 (base4 s) ms) l (with_msgs3 b' ms') /\
                R4 (mkNet4 b' (first4 s) (snaps4 s)) ms'.
  Proof.
    intros Hreach (Hincl & Hcov & Hsa) H0.
    pose proof (inv4_reachable _ Hreach) as Hinv.
    destruct (step3_soup_mono _ _ _ ms H0 Hincl Hsa) as (new & Hnew & Hst).
    exists (new ++ ms). split; [exact Hst|].
    destruct (step3_mono cfg_of is_cc cfg_noncc cfg_step_near cfg_nodup _ _ _ Hinv Hst)
      as ((_ & _ & Hg & _) & _).
    cbn [with_msgs3 set_base base3 with_msgs llog] in Hg.
    unfold R4; cbn [base4 snaps4]. split; [|split].
    - rewrite Hnew. intros m Hm. apply in_app_or in Hm. apply in_or_app.
      destruct Hm; [now left | right; now apply Hincl].
    - intros m Hm. eapply is_covered_mono; [exact Hg | | apply Hcov; exact Hm].
      intros x Hx. apply in_or_app. now right.
    - rewrite Hnew. intros t i l1 k Hm. apply in_app_or in Hm. apply in_or_app.
      destruct Hm; [now left | right; now apply Hsa].
  Qed.

  Lemma sim_steps4 s ls s' : steps4 s ls s' -> forall ms,
    reachable3 (with_msgs3 (base4 s) ms) -> R4 s ms ->
    exists ls1 ms', steps3 (with_msgs3 (base4 s) ms) ls1 (with_msgs3 (base4 s') ms') /\ R4 s' ms'.
  Proof.
    induction 1 as [s|s l s1 ls s2 Hst Hsts IH]; intros ms Hreach HR.
    - exists [], ms. split; [constructor | exact HR].
    - destruct (sim_step4 s l s1 ms Hreach HR Hst) as (la & ms1 & Ha & HR1).
      destruct (IH ms1 (steps3_reachable cfg_of is_cc _ _ _ Hreach Ha) HR1) as (lb & ms2 & Hb & HR2).
      exists (la ++ lb), ms2. split; [eapply steps3_app; eauto | exact HR2].
  Qed.

  (* every reachable state of the combined model is a reachable stage-3 state with a
     bigger soup *)
  Theorem stage23_refines_stage3 s :
    reachable4 s -> exists ms, reachable3 (with_msgs3 (base4 s) ms) /\ R4 s ms.
  Proof.
    intros (ls & Hs).
    assert (H0 : reachable3 (with_msgs3 (base4 (init4)) [])) by (exists []; constructor).
    assert (HR0 : R4 init4 []) by (split; [intros m [] | split; [intros m [] | intros ? ? ? ? []]]).
    destruct (sim_steps4 _ _ _ Hs [] H0 HR0) as (ls1 & ms & Hst & HR).
    exists ms. split; [|exact HR]. eapply steps3_reachable; eauto.
  Qed.

  Lemma wf4_steps s ls s' : wf4 s -> steps4 s ls s' -> wf4 s'.
  Proof. intros Hw Hs. induction Hs; [assumption|]. apply IHHs. eapply wf4_step; eauto. Qed.

  Lemma steps4_reachable s ls s' : reachable4 s -> steps4 s ls s' -> reachable4 s'.
  Proof.
    intros (l0 & H0) Hs. exists (l0 ++ ls).
    induction H0; simpl; [assumption|]. econstructor; eauto.
  Qed.

  (* ---- theorems of the combined model ---- *)

  Notation nd s i := (nodes (base3 (base4 s)) i).

  Theorem snapshot_is_committed4 s i : reachable4 s -> first4 s i <= commit (nd s i).
  Proof. intros (ls & Hs). eapply wf4_steps; [|exact Hs]. intros j. simpl. lia. Qed.

  Theorem election_safety4 s i j :
    reachable4 s -> role (nd s i) = Leader -> role (nd s j) = Leader ->
    term (nd s i) = term (nd s j) -> i = j.
  Proof.
    intros Hr. destruct (stage23_refines_stage3 s Hr) as (ms & Hreach & _).
    apply (election_safety3_c cfg_of is_cc HC _ i j Hreach).
  Qed.

  Theorem log_matching4 s i j k :
    reachable4 s -> 1 <= k -> k <= length (log (nd s i)) -> k <= length (log (nd s j)) ->
    term_at (log (nd s i)) k = term_at (log (nd s j)) k ->
    firstn k (log (nd s i)) = firstn k (log (nd s j)).
  Proof.
    intros Hr. destruct (stage23_refines_stage3 s Hr) as (ms & Hreach & _).
    apply (log_matching3_c cfg_of is_cc HC _ i j k Hreach).
  Qed.

  Theorem state_machine_safety4 s a b k :
    reachable4 s -> k <= commit (nd s a) -> k <= commit (nd s b) ->
    firstn k (log (nd s a)) = firstn k (log (nd s b)).
  Proof.
    intros Hr. destruct (stage23_refines_stage3 s Hr) as (ms & Hreach & _).
    apply (state_machine_safety3_c cfg_of is_cc HC _ a b k Hreach).
  Qed.

  Theorem committed_never_replaced4 s ls s' i k :
    reachable4 s -> steps4 s ls s' -> k <= commit (nd s i) ->
    firstn k (log (nd s' i)) = firstn k (log (nd s i)).
  Proof.
    intros Hr Hs Hk. destruct (stage23_refines_stage3 s Hr) as (ms & Hreach & HR).
    destruct (sim_steps4 s ls s' Hs ms Hreach HR) as (ls1 & ms' & Hst & _).
    apply (committed_never_replaced3_c cfg_of is_cc HC _ _ _ i k Hreach Hst Hk).
  Qed.

  Theorem leader_completeness4_trace s i k s1 ls s2 j :
    reachable4 s -> step4 s (L4Base (L3Base (LAdvanceCommit i k))) s1 -> steps4 s1 ls s2 ->
    role (nd s2 j) = Leader -> term (nd s i) < term (nd s2 j) ->
    firstn k (log (nd s2 j)) = firstn k (log (nd s i)).
  Proof.
    intros Hr Hstep Hs Hrole Hlt.
    destruct (stage23_refines_stage3 s Hr) as (ms & Hreach & HR).
    inversion Hstep; subst.
    match goal with Hb : RaftNetCfg.step3 _ _ (base4 s) _ b' |- _ =>
      destruct (sim_base4 s _ b' ms Hreach HR Hb) as (ms1 & Hst1 & HR1) end.
    assert (Hreach1 : reachable3 (with_msgs3 b' ms1)).
    { eapply steps3_reachable; [exact Hreach|]. econstructor; [exact Hst1 | constructor]. }
    destruct (sim_steps4 _ ls s2 Hs ms1 Hreach1 HR1) as (ls1 & ms2 & Hst2 & _).
    apply (leader_completeness3_trace_c cfg_of is_cc HC _ i k _ ls1 _ j Hreach Hst1 Hst2 Hrole Hlt).
  Qed.

  Theorem applied_le_committed4 s i : reachable4 s -> applied (base4 s) i <= commit (nd s i).
  Proof.
    intros Hr. destruct (stage23_refines_stage3 s Hr) as (ms & Hreach & _).
    apply (applied_le_committed_c cfg_of is_cc HC _ i Hreach).
  Qed.

End CfgSnapSim.
