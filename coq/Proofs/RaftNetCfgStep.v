(* L2 stage 3, part b: the invariant inv4 is preserved by every step of the model with
   membership change; the safety theorems of stage 3. *)
From DB Require Import Model.RaftNet Model.RaftNetCfg Proofs.RaftNetLists Proofs.RaftNetElection
  Proofs.RaftNetLog Proofs.RaftNetCommitDefs Proofs.RaftNetCommit Proofs.RaftNetCfgLemmas
  Proofs.RaftNetCfgInv.

Lemma updn3_eq f i x : updn3 f i x i = x.
Proof. unfold updn3. now rewrite Nat.eqb_refl. Qed.
Lemma updn3_neq f i x j : j <> i -> updn3 f i x j = f j.
Proof. unfold updn3. intros H. apply Nat.eqb_neq in H. now rewrite H. Qed.
Lemma updb3_eq f i x : updb3 f i x i = x.
Proof. unfold updb3. now rewrite Nat.eqb_refl. Qed.
Lemma updb3_neq f i x j : j <> i -> updb3 f i x j = f j.
Proof. unfold updb3. intros H. apply Nat.eqb_neq in H. now rewrite H. Qed.

Ltac inv_step3 H :=
  inversion H; subst; clear H;
  repeat match goal with x := _ |- _ => subst x end;
  cbn [base3 applied pending lcfg lapp cevents] in *.

Ltac simp_upd3 :=
  repeat match goal with
  | |- context [updn3 _ ?k _ ?k] => rewrite updn3_eq
  | H : context [updn3 _ ?k _ ?k] |- _ => rewrite updn3_eq in H
  | |- context [updb3 _ ?k _ ?k] => rewrite updb3_eq
  | H : context [updb3 _ ?k _ ?k] |- _ => rewrite updb3_eq in H
  | Hne : ?j <> ?k |- context [updn3 _ ?k _ ?j] => rewrite (updn3_neq _ k _ j Hne)
  | Hne : ?j <> ?k, H : context [updn3 _ ?k _ ?j] |- _ => rewrite (updn3_neq _ k _ j Hne) in H
  | Hne : ?j <> ?k |- context [updb3 _ ?k _ ?j] => rewrite (updb3_neq _ k _ j Hne)
  | Hne : ?j <> ?k, H : context [updb3 _ ?k _ ?j] |- _ => rewrite (updb3_neq _ k _ j Hne) in H
  end.

Section CfgStep.
  Variable cfg_of : list entry -> list id.
  Variable is_cc : entry -> bool.
  Hypothesis cfg_noncc : forall l e, is_cc e = false -> cfg_of (l ++ [e]) = cfg_of l.
  Hypothesis cfg_step_near : forall l e, qnear (cfg_of l) (cfg_of (l ++ [e])).
  Hypothesis cfg_nodup : forall l, NoDup (cfg_of l).
  Hypothesis noop_noncc : forall t, is_cc (noop t) = false.

  Notation ccs := (ccs is_cc).
  Notation cfg := (cfg cfg_of).
  Notation step3 := (step3 cfg_of is_cc).
  Notation ev_ok := (ev_ok cfg_of is_cc).
  Notation inv4 := (inv4 cfg_of is_cc).
  Notation fresh3 := (fresh3 cfg_of is_cc cfg_noncc cfg_step_near cfg_nodup).
  Notation agl3 := (agl3 cfg_of is_cc cfg_noncc cfg_step_near).
  Notation cprefix3_llog := (cprefix3_llog cfg_of is_cc cfg_noncc cfg_step_near).

  (* ---- transport along ghost extension ---- *)

  Lemma ev_ok_gext n n' e : gext n n' -> ev_ok n e -> ev_ok n' e.
  Proof.
    destruct e as [[t k] a]. intros Hg (Hl & Hak & Hk & Ht & Hc & (Q & HQ & HQw)).
    pose proof (llog_len_gext n n' t Hg) as Hlen.
    assert (E : firstn k (llog n' t) = firstn k (llog n t)).
    { destruct Hg as (_ & _ & He & _). destruct (He t) as (e & ->). now apply agree_app_l. }
    assert (Ea : firstn a (llog n' t) = firstn a (llog n t)).
    { destruct Hg as (_ & _ & He & _). destruct (He t) as (e & ->). apply agree_app_l. lia. }
    split; [now apply (lead_gext n n')|]. split; [exact Hak|]. split; [lia|]. split.
    - rewrite (term_at_gext n n' t k Hg Hk). exact Ht.
    - split; [now rewrite E|]. exists Q. rewrite Ea. split; [exact HQ|].
      intros w Hw. eapply acked_mono; [apply Hg | now apply HQw].
  Qed.

  Lemma cprefix3_gext n n' evs tmax c l :
    gext n n' -> (forall e, In e evs -> ev_ok n e) ->
    cprefix3 n evs tmax c l -> cprefix3 n' evs tmax c l.
  Proof.
    intros Hg Hev [->|(t & k & a & Hin & Ht & Hc & Hag)]; [now left|].
    right. exists t, k, a. repeat split; auto.
    pose proof (Hev _ Hin) as (_ & _ & Hk & _).
    apply (agree_gext_r n n' c l t Hg); [lia | exact Hag].
  Qed.

  Lemma cprefix3_gext_llog n n' evs tmax c t0 :
    gext n n' -> (forall e, In e evs -> ev_ok n e) ->
    cprefix3 n evs tmax c (llog n t0) -> cprefix3 n' evs tmax c (llog n' t0).
  Proof.
    intros Hg Hev Hc. pose proof (cprefix3_gext n n' _ _ _ _ Hg Hev Hc) as Hc'.
    destruct Hc as [->|(t & k & a & Hin & Ht & Hck & Hag)]; [now left|].
    eapply cprefix3_agree; [exact Hc'|].
    apply (agree_gext_l n n' c (llog n t0) t0 Hg); [|apply agree_refl].
    pose proof (Hev _ Hin) as (_ & _ & Hk & _).
    apply agree_sym in Hag. eapply agree_len; [exact Hag | lia].
  Qed.

  (* ---- what every step of the base does ---- *)

  Lemma step_commit_mono V n l n' i :
    step V n l n' ->
    commit (nodes n i) <= commit (nodes n' i) \/ exists c m, l = LRestart i c m.
  Proof.
    intros Hstep. inv_step Hstep; simp_upd; try (left; lia). right. eauto.
  Qed.

  Lemma base_fresh s l b' :
    inv4 s -> step (cfg s (actor l)) (base3 s) l b' -> fresh (base3 s) l.
  Proof.
    intros Hinv Hstep i ->. simpl in Hstep. inversion Hstep; subst.
    now apply (fresh3 s Hinv).
  Qed.

  Lemma base_gext s l b' :
    inv4 s -> step (cfg s (actor l)) (base3 s) l b' -> gext (base3 s) b'.
  Proof.
    intros Hinv Hstep. eapply step_gext; eauto using s_1, s_2, base_fresh.
  Qed.

  Lemma base_inv123 s l b' :
    inv4 s -> step (cfg s (actor l)) (base3 s) l b' -> inv1 b' /\ inv2 b' /\ inv3a b'.
  Proof.
    intros Hinv Hstep. pose proof (base_fresh s l b' Hinv Hstep) as Hf.
    pose proof (agl3 s Hinv) as Hagl.
    pose proof (s_1 _ _ s Hinv) as H1. pose proof (s_2 _ _ s Hinv) as H2.
    pose proof (s_3a _ _ s Hinv) as H3a.
    split; [eapply inv1_step; eauto | split; [eapply inv2_step; eauto | eapply inv3a_step; eauto]].
  Qed.

  (* ---- S_app ---- *)

  Lemma S_app_step s l s' : inv4 s -> step3 s l s' -> S_app s'.
  Proof.
    intros Hinv Hstep i. pose proof (s_app _ _ s Hinv i) as Hold.
    inv_step3 Hstep.
    - destruct (step_commit_mono _ _ _ _ i H0) as [Hle|(c & m & ->)]; [lia|].
      simpl in H. contradiction.
    - destruct (Nat.eq_dec i i0) as [->|Hne]; simp_upd3; lia.
    - inv_step H. destruct (Nat.eq_dec i i0) as [->|Hne]; simp_upd3; simp_upd; lia.
  Qed.

  (* ---- the events ---- *)

  Lemma cevents'_cases s l e :
    In e (cevents' s l) ->
    In e (cevents s) \/
    exists i k, l = LAdvanceCommit i k /\ e = (term (nodes (base3 s) i), k, applied s i).
  Proof. destruct l; simpl; auto. intros [<-|H]; eauto. Qed.

  Lemma cevents'_incl s l : incl (cevents s) (cevents' s l).
  Proof. destruct l; simpl; auto using incl_refl. intros e He. now right. Qed.

  (* the event made by AdvanceCommit is sound *)
  Lemma advance_event_ok s i k b' :
    inv4 s -> step (cfg s i) (base3 s) (LAdvanceCommit i k) b' ->
    ev_ok (base3 s) (term (nodes (base3 s) i), k, applied s i) /\
    llog (base3 s) (term (nodes (base3 s) i)) = log (nodes (base3 s) i) /\
    applied s i < k /\ 1 <= k <= length (log (nodes (base3 s) i)).
  Proof.
    intros Hinv Hstep.
    pose proof (s_1 _ _ s Hinv) as H1. pose proof (s_2 _ _ s Hinv) as H2.
    inversion Hstep; subst; repeat match goal with x := _ |- _ => subst x end.
    match goal with Hr : role _ = Leader |- _ =>
      pose proof (i_leader_log _ H2 i Hr) as Hll; pose proof (i_leader _ H1 i Hr) as Hld;
      pose proof (s_lead _ _ s Hinv i Hr) as (Hcc & _) end.
    assert (1 <= term (nodes (base3 s) i)) by (apply (i_role_term _ H1); congruence).
    assert (Hkr : 1 <= k <= length (log (nodes (base3 s) i))) by (apply term_at_in_range; lia).
    pose proof (s_app _ _ s Hinv i) as Happ.
    split; [|split; [exact Hll | split; [lia | exact Hkr]]].
    unfold RaftNetCfgInv.ev_ok. rewrite Hll.
    split; [rewrite Hld; discriminate|]. split; [lia|]. split; [lia|]. split; [assumption|].
    split.
    - pose proof (ccs_firstn_le is_cc (log (nodes (base3 s) i)) k (applied s i)). lia.
    - match goal with Hq : quorum _ <= ack_count _ _ _ _ |- _ =>
        destruct (count_ack_quorum (cfg s i) (cfg_nodup _) (base3 s) _ _ Hq) as (Q & HQ & HQw) end.
      exists Q. split; [exact HQ | exact HQw].
  Qed.

  Lemma S_ev_step s l s' : inv4 s -> step3 s l s' -> S_ev cfg_of is_cc s'.
  Proof.
    intros Hinv Hstep e Hin. pose proof (s_ev _ _ s Hinv) as Hold.
    inv_step3 Hstep.
    - pose proof (base_gext s l0 b' Hinv H0) as Hg.
      destruct (cevents'_cases s l0 e Hin) as [Ho|(i & k & -> & ->)].
      + apply (ev_ok_gext _ _ _ Hg). now apply Hold.
      + apply (ev_ok_gext _ _ _ Hg). simpl in H0. now apply (advance_event_ok s i k b' Hinv H0).
    - now apply Hold.
    - assert (Hg : gext (base3 s) b').
      { eapply step_gext; eauto using s_1, s_2. intros j Hj. discriminate. }
      apply (ev_ok_gext _ _ _ Hg). now apply Hold.
  Qed.

  Lemma S_chain_step s l s' : inv4 s -> step3 s l s' -> S_chain s'.
  Proof.
    intros Hinv Hstep pre t k a post Hsplit.
    pose proof (s_ev _ _ s Hinv) as Hev. pose proof (s_chain _ _ s Hinv) as Hold.
    assert (Hpost : forall pre0, cevents s = pre0 ++ (t, k, a) :: post ->
                      forall e, In e post -> ev_ok (base3 s) e).
    { intros pre0 E e He. apply Hev. rewrite E. apply in_or_app. right. now right. }
    inv_step3 Hstep.
    - pose proof (base_gext s l0 b' Hinv H0) as Hg.
      assert (Hcase : cevents' s l0 = cevents s \/
                      exists i k0, l0 = LAdvanceCommit i k0 /\
                        cevents' s l0 = (term (nodes (base3 s) i), k0, applied s i) :: cevents s).
      { destruct l0; simpl; auto. right. eauto. }
      destruct Hcase as [E|(i & k0 & -> & E)]; rewrite E in Hsplit.
      + eapply cprefix3_gext_llog; eauto.
      + destruct pre as [|e0 pre]; simpl in Hsplit.
        * injection Hsplit as <- <- <- <-.
          simpl in H0. destruct (advance_event_ok s i k0 b' Hinv H0) as (_ & Hll & _).
          apply (cprefix3_gext_llog _ _ _ _ _ _ Hg Hev). rewrite Hll.
          eapply cprefix3_le; [apply (s_hc _ _ s Hinv i)|].
          pose proof (s_app _ _ s Hinv i). pose proof (i_commit_bounds _ (s_3a _ _ s Hinv) i). lia.
        * injection Hsplit as _ Hsplit. eapply cprefix3_gext_llog; eauto.
    - eauto.
    - assert (Hg : gext (base3 s) b').
      { eapply step_gext; eauto using s_1, s_2. intros j Hj. discriminate. }
      eapply cprefix3_gext_llog; eauto.
  Qed.

  (* ---- committed prefixes ---- *)

  Lemma cprefix3_base s l b' tmax c l0 :
    inv4 s -> step (cfg s (actor l)) (base3 s) l b' ->
    cprefix3 (base3 s) (cevents s) tmax c l0 -> cprefix3 b' (cevents' s l) tmax c l0.
  Proof.
    intros Hinv Hstep Hc. eapply cprefix3_evs; [|apply cevents'_incl].
    apply (cprefix3_gext _ _ _ _ _ _ (base_gext s l b' Hinv Hstep) (s_ev _ _ s Hinv) Hc).
  Qed.

  (* one base step: the committed prefix of every node stays committed *)
  Lemma hc_base s l b' :
    inv4 s -> step (cfg s (actor l)) (base3 s) l b' ->
    forall w, cprefix3 b' (cevents' s l) (term (nodes b' w)) (hcommit (nodes b' w))
                       (log (nodes b' w)).
  Proof.
    intros Hinv Hstep w.
    pose proof (s_1 _ _ s Hinv) as H1. pose proof (s_2 _ _ s Hinv) as H2.
    pose proof (s_3a _ _ s Hinv) as H3a. pose proof (agl3 s Hinv) as Hagl.
    pose proof (cprefix3_base s l b' _ _ _ Hinv Hstep (s_hc _ _ s Hinv w)) as Hold.
    pose proof (fun tmax c l0 => cprefix3_base s l b' tmax c l0 Hinv Hstep) as Htr.
    pose proof (i_commit_bounds _ H3a w) as Hb.
    assert (Hadv : forall i k, l = LAdvanceCommit i k ->
                     llog (base3 s) (term (nodes (base3 s) i)) = log (nodes (base3 s) i)).
    { intros i k ->. simpl in Hstep. now destruct (advance_event_ok s i k b' Hinv Hstep) as (_ & Hll & _). }
    inv_step Hstep; cbn [cevents' actor] in *; simp_upd; auto.
    - (* Timeout *) eapply cprefix3_tmax; eauto.
    - (* HigherTerm *) eapply cprefix3_tmax; eauto. lia.
    - (* BecomeLeader *) eapply cprefix3_agree; eauto. apply agree_app_l. lia.
    - (* Propose *) eapply cprefix3_agree; eauto. apply agree_app_l. lia.
    - (* HandleAE *)
      match goal with Hae : In (AE _ _ _ _ _ _) _, Hta : try_append _ _ _ _ = _ |- _ =>
        destruct (handle_ae_hcommit _ _ _ _ _ _ _ H2 Hagl Hae Hta) as (Hk & _ & Hm & _ & Hml);
        pose proof (Htr _ _ _ (s_aec _ _ s Hinv _ _ _ _ _ _ Hae)) as Hlc end.
      match goal with |- cprefix3 _ _ _ (Nat.max ?hc (Nat.max ?c (Nat.min ?lc ?m))) _ =>
        destruct (Nat.le_gt_cases (Nat.min lc m) hc) as [Hle|Hgt];
        [ replace (Nat.max hc (Nat.max c (Nat.min lc m))) with hc by lia
        | replace (Nat.max hc (Nat.max c (Nat.min lc m))) with (Nat.min lc m) by lia ] end.
      + eapply cprefix3_agree; eauto.
      + eapply cprefix3_agree; [eapply cprefix3_le; [exact Hlc | lia]|].
        eapply agree_le; [exact Hm | lia].
    - (* AdvanceCommit *)
      match goal with |- cprefix3 _ _ _ (Nat.max ?hc ?k) _ =>
        destruct (Nat.le_gt_cases k hc) as [Hle|Hgt];
        [ replace (Nat.max hc k) with hc by lia; exact Hold
        | replace (Nat.max hc k) with k by lia ] end.
      right. do 3 eexists. split; [left; reflexivity|]. split; [lia|]. split; [lia|].
      cbn [llog]. rewrite (Hadv _ _ eq_refl). apply agree_refl.
    - (* HandleHB *)
      match goal with |- cprefix3 _ _ _ (Nat.max ?hc (Nat.max ?cm ?c)) _ =>
        destruct (Nat.le_gt_cases c hc) as [Hle|Hgt];
        [ replace (Nat.max hc (Nat.max cm c)) with hc by lia; exact Hold
        | replace (Nat.max hc (Nat.max cm c)) with c by lia ] end.
      match goal with Hhb : In (HB _ _ _ _) _ |- _ =>
        destruct (s_hb _ _ s Hinv _ _ _ _ Hhb) as [->|(Hack & Hc)]; [lia|] end.
      eapply cprefix3_agree; [apply Htr; exact Hc|].
      destruct (i_ack_node _ H3a _ _ _ Hack) as [Hag|(U & HU & _)]; [exact Hag | lia].
    - (* Restart *) eapply cprefix3_agree; eauto. apply agree_firstn. lia.
  Qed.

  Lemma aec_base s l b' :
    inv4 s -> step (cfg s (actor l)) (base3 s) l b' ->
    forall t ldr prev pt ents lc,
      In (AE t ldr prev pt ents lc) (msgs b') -> cprefix3 b' (cevents' s l) t lc (llog b' t).
  Proof.
    intros Hinv Hstep t ldr prev pt ents lc Hin.
    pose proof (s_2 _ _ s Hinv) as H2. pose proof (s_3a _ _ s Hinv) as H3a.
    pose proof (base_gext s l b' Hinv Hstep) as Hg.
    eapply cprefix3_evs; [|apply cevents'_incl].
    apply (cprefix3_gext_llog _ _ _ _ _ _ Hg (s_ev _ _ s Hinv)).
    pose proof (s_aec _ _ s Hinv t ldr prev pt ents lc) as Hold.
    inv_step Hstep; msg_cases Hin; auto.
    rewrite (i_leader_log _ H2 ldr) by assumption.
    eapply cprefix3_le; [apply (s_hc _ _ s Hinv ldr)|].
    pose proof (i_commit_bounds _ H3a ldr). lia.
  Qed.

  Lemma hb_base s l b' :
    inv4 s -> step (cfg s (actor l)) (base3 s) l b' ->
    forall t ldr to c,
      In (HB t ldr to c) (msgs b') ->
      c = 0 \/ (acked b' t to c /\ cprefix3 b' (cevents' s l) t c (llog b' t)).
  Proof.
    intros Hinv Hstep t ldr to c Hin.
    pose proof (s_2 _ _ s Hinv) as H2. pose proof (s_3a _ _ s Hinv) as H3a.
    pose proof (base_gext s l b' Hinv Hstep) as Hg.
    assert (Hn : c = 0 \/ (acked (base3 s) t to c /\
                           cprefix3 (base3 s) (cevents s) t c (llog (base3 s) t))).
    { pose proof (s_hb _ _ s Hinv t ldr to c) as Hold.
      inv_step Hstep; msg_cases Hin; auto.
      match goal with H : _ = 0 \/ _ |- _ => destruct H as [->|Hex]; [now left | right] end.
      split; [now apply existsb_acked|].
      rewrite (i_leader_log _ H2 ldr) by assumption.
      eapply cprefix3_le; [apply (s_hc _ _ s Hinv ldr)|].
      pose proof (i_commit_bounds _ H3a ldr). lia. }
    destruct Hn as [->|(Ha & Hc)]; [now left | right]. split.
    - eapply acked_mono; [apply Hg | exact Ha].
    - eapply cprefix3_evs; [|apply cevents'_incl].
      now apply (cprefix3_gext_llog _ _ _ _ _ _ Hg (s_ev _ _ s Hinv)).
  Qed.

  (* ---- counting config changes above commit / applied ---- *)

  (* the guard of a base step, with the crash guard for Restart *)
  Definition guard3r (s : net3) (l : label) : Prop :=
    match l with
    | LRestart i c m => ccs (firstn m (log (nodes (base3 s) i))) c <= 1
    | _ => guard3 is_cc s l
    end.

  Lemma guard3_guard3r s l : guard3 is_cc s l -> guard3r s l.
  Proof. destruct l; simpl; auto. contradiction. Qed.

  Lemma ccs_S l a e :
    nth_error l a = Some e -> ccs l a = ccs l (S a) + (if is_cc e then 1 else 0).
  Proof.
    intros He. unfold RaftNetCfg.ccs.
    assert (E : skipn a l = e :: skipn (S a) l).
    { revert a He. induction l as [|x l IH]; intros [|a] He; simpl in *; try discriminate.
      - now injection He as ->.
      - now apply IH. }
    rewrite E. simpl. destruct (is_cc e); simpl; lia.
  Qed.

  Lemma leader_no_pending_cc s k :
    inv4 s -> role (nodes (base3 s) k) = Leader -> pending s k = false ->
    ccs (log (nodes (base3 s) k)) (applied s k) = 0 /\
    ccs (log (nodes (base3 s) k)) (commit (nodes (base3 s) k)) = 0.
  Proof.
    intros Hinv Hr Hp. destruct (s_lead _ _ s Hinv k Hr) as (Hc1 & Hc2).
    assert (E0 : ccs (log (nodes (base3 s) k)) (applied s k) = 0).
    { destruct (Nat.eq_dec (ccs (log (nodes (base3 s) k)) (applied s k)) 1) as [E|]; [|lia].
      rewrite (Hc2 E) in Hp. discriminate. }
    split; [exact E0|].
    pose proof (ccs_anti is_cc (log (nodes (base3 s) k)) (applied s k) (commit (nodes (base3 s) k))
                         (s_app _ _ s Hinv k)). lia.
  Qed.

  Lemma b_base s l b' :
    inv4 s -> guard3r s l -> step (cfg s (actor l)) (base3 s) l b' ->
    forall j, ccs (log (nodes b' j)) (commit (nodes b' j)) <= 1.
  Proof.
    intros Hinv Hguard Hstep j.
    pose proof (s_2 _ _ s Hinv) as H2. pose proof (s_3a _ _ s Hinv) as H3a.
    pose proof (s_b _ _ s Hinv j) as Hold.
    pose proof (i_commit_bounds _ H3a j) as Hb.
    inv_step Hstep; cbn [guard3r guard3 actor] in *; simp_upd; auto.
    - (* BecomeLeader *) rewrite ccs_snoc by lia. rewrite noop_noncc. lia.
    - (* Propose *) rewrite ccs_snoc by lia.
      match goal with |- context [is_cc ?e] => destruct (is_cc e) eqn:Ecc end; [|lia].
      match goal with Hr : role (nodes _ ?k) = Leader |- _ =>
        destruct (leader_no_pending_cc s k Hinv Hr (Hguard eq_refl)) as (_ & E0) end.
      lia.
    - (* HandleAE *)
      match goal with Hae : In (AE _ _ _ _ _ _) _,
                      Hta : try_append (log (nodes _ ?k)) _ _ _ = _ |- _ =>
        destruct (handle_ae_log _ _ _ _ _ _ _ _ _ _ H2 Hae (i_log_ok _ H2 k) eq_refl Hta)
          as ([->| ->] & _);
        pose proof (s_ae _ _ s Hinv _ _ _ _ _ _ Hae) as Hae1 end.
      + eapply Nat.le_trans; [apply ccs_anti|exact Hold]. lia.
      + match goal with |- ccs _ (Nat.max ?c (Nat.min ?lc ?m)) <= 1 =>
          destruct (Nat.le_gt_cases lc m) as [Hle|Hgt] end.
        * eapply Nat.le_trans; [apply ccs_anti|exact Hae1]. lia.
        * rewrite ccs_out; [lia|]. rewrite firstn_length. lia.
    - (* AdvanceCommit *) eapply Nat.le_trans; [apply ccs_anti|exact Hold]. lia.
    - (* HandleHB *) eapply Nat.le_trans; [apply ccs_anti|exact Hold]. lia.
  Qed.

  Lemma lead_base s l b' :
    inv4 s -> guard3r s l -> step (cfg s (actor l)) (base3 s) l b' ->
    forall j, role (nodes b' j) = Leader ->
      ccs (log (nodes b' j)) (applied s j) <= 1 /\
      (ccs (log (nodes b' j)) (applied s j) = 1 -> pending' is_cc s l j = true).
  Proof.
    intros Hinv Hguard Hstep j.
    pose proof (s_3a _ _ s Hinv) as H3a.
    pose proof (s_lead _ _ s Hinv j) as Hold.
    pose proof (i_commit_bounds _ H3a j) as Hb. pose proof (s_app _ _ s Hinv j) as Happ.
    pose proof (s_cand _ _ s Hinv j) as Hcand. pose proof (s_b _ _ s Hinv j) as Hbj.
    inv_step Hstep; cbn [guard3r guard3 actor pending'] in *; simp_upd; intros Hr; auto; try discriminate.
    - (* BecomeLeader, the new leader *)
      destruct Hcand as (Ha & _); [assumption|].
      rewrite updb3_eq. rewrite ccs_snoc by lia. rewrite noop_noncc, Ha.
      split; [lia|]. intros E. apply Nat.eqb_eq. lia.
    - (* BecomeLeader, another leader *) rewrite updb3_neq by assumption. auto.
    - (* Propose, the leader *)
      match goal with Hr' : role (nodes _ _) = Leader |- _ =>
        destruct (Hold Hr') as (Hc1 & Hc2) end. rewrite ccs_snoc by lia.
      match goal with |- context [is_cc ?e] => destruct (is_cc e) eqn:Ecc end.
      + rewrite updb3_eq.
        match goal with Hr' : role (nodes _ ?k) = Leader |- _ =>
          destruct (leader_no_pending_cc s k Hinv Hr' (Hguard eq_refl)) as (E0 & _) end.
        split; [lia | reflexivity].
      + rewrite Nat.add_0_r. auto.
    - (* Propose, another leader *)
      match goal with |- context [is_cc ?e] => destruct (is_cc e) end;
        [rewrite updb3_neq by assumption|]; auto.
  Qed.

  Lemma ae_base s l b' :
    inv4 s -> guard3r s l -> step (cfg s (actor l)) (base3 s) l b' ->
    forall t ldr prev pt ents lc,
      In (AE t ldr prev pt ents lc) (msgs b') ->
      ccs (firstn (prev + length ents) (llog b' t)) lc <= 1.
  Proof.
    intros Hinv Hguard Hstep t ldr prev pt ents lc Hin.
    pose proof (s_2 _ _ s Hinv) as H2.
    pose proof (base_gext s l b' Hinv Hstep) as (_ & _ & Hg & _).
    assert (Hn : In (AE t ldr prev pt ents lc) (msgs (base3 s)) \/
                 (prev + length ents <= length (llog (base3 s) t) /\
                  ccs (firstn (prev + length ents) (llog (base3 s) t)) lc <= 1)).
    { inv_step Hstep; cbn [guard3r guard3 actor] in *; msg_cases Hin; auto. right.
      rewrite (i_leader_log _ H2 ldr) by assumption. split.
      - rewrite firstn_length, skipn_length. lia.
      - eapply Nat.le_trans; [|exact Hguard]. apply ccs_firstn_mono.
        rewrite firstn_length. lia. }
    assert (Hn' : prev + length ents <= length (llog (base3 s) t) /\
                  ccs (firstn (prev + length ents) (llog (base3 s) t)) lc <= 1).
    { destruct Hn as [Ho|Hn]; [|exact Hn]. split.
      - now destruct (i_ae _ H2 _ _ _ _ _ _ Ho) as (_ & Hlen & _).
      - eapply (s_ae _ _ s Hinv); eauto. }
    destruct Hn' as (Hlen & Hc). destruct (Hg t) as (e & ->).
    replace (firstn (prev + length ents) (llog (base3 s) t ++ e))
      with (firstn (prev + length ents) (llog (base3 s) t)); [exact Hc|].
    symmetry. now apply agree_app_l.
  Qed.

  Lemma cand_base s l b' :
    inv4 s -> guard3r s l -> step (cfg s (actor l)) (base3 s) l b' ->
    forall j, role (nodes b' j) = Candidate ->
      applied s j = commit (nodes b' j) /\
      last_term (log (nodes b' j)) < term (nodes b' j) /\
      cprefix3 b' (cevents' s l) (term (nodes b' j) - 1) (commit (nodes b' j)) (log (nodes b' j)).
  Proof.
    intros Hinv Hguard Hstep j.
    pose proof (s_2 _ _ s Hinv) as H2. pose proof (s_3a _ _ s Hinv) as H3a.
    pose proof (fun tmax c l0 => cprefix3_base s l b' tmax c l0 Hinv Hstep) as Htr.
    pose proof (s_cand _ _ s Hinv j) as Hold.
    assert (Hold' : role (nodes (base3 s) j) = Candidate ->
              applied s j = commit (nodes (base3 s) j) /\
              last_term (log (nodes (base3 s) j)) < term (nodes (base3 s) j) /\
              cprefix3 b' (cevents' s l) (term (nodes (base3 s) j) - 1)
                       (commit (nodes (base3 s) j)) (log (nodes (base3 s) j))).
    { intros Hr. destruct (Hold Hr) as (A & B & C). auto. }
    pose proof (Htr _ _ _ (s_hc _ _ s Hinv j)) as Hhc.
    pose proof (i_commit_bounds _ H3a j) as Hb.
    inv_step Hstep; cbn [guard3r guard3 actor] in *; simp_upd; intros Hr; auto; try discriminate.
    (* Timeout *)
    split; [exact Hguard|]. split.
    - match goal with |- last_term ?L < _ => set (LL := L) in * end.
      destruct (Nat.eq_dec (last_term LL) 0) as [E|E]; [lia|].
      assert (HLr : 1 <= length LL <= length LL) by (apply term_at_in_range; exact E).
      destruct (term_at_In _ _ HLr) as (e & He & Hte).
      pose proof (i_log_terms _ H2 _ e He). unfold last_term. rewrite Hte. lia.
    - match goal with |- cprefix3 _ _ (S ?t - 1) _ _ => replace (S t - 1) with t by lia end.
      eapply cprefix3_le; [exact Hhc | lia].
  Qed.

  (* ---- elected leaders ---- *)

  Lemma lcfg'_other s l T :
    (forall i, l = LBecomeLeader i -> T <> term (nodes (base3 s) i)) ->
    lcfg' cfg_of s l T = lcfg s T /\ lapp' s l T = lapp s T.
  Proof.
    intros H. destruct l; simpl; auto. specialize (H _ eq_refl).
    now rewrite !updg_neq by assumption.
  Qed.

  Lemma lcfg_base s l b' :
    inv4 s -> step (cfg s (actor l)) (base3 s) l b' ->
    forall T c, lead b' T = Some c ->
      lapp' s l T <= length (llog0 b' T) /\
      lcfg' cfg_of s l T = cfg_of (firstn (lapp' s l T) (llog0 b' T)) /\
      ccs (llog0 b' T) (lapp' s l T) <= 1 /\
      cprefix3 b' (cevents' s l) (T - 1) (lapp' s l T) (llog0 b' T).
  Proof.
    intros Hinv Hstep T c Hl'.
    pose proof (s_3a _ _ s Hinv) as H3a.
    pose proof (base_fresh s l b' Hinv Hstep) as Hf.
    pose proof (base_gext s l b' Hinv Hstep) as Hg.
    pose proof (fun tmax c l0 => cprefix3_base s l b' tmax c l0 Hinv Hstep) as Htr.
    destruct (lead (base3 s) T) as [c0|] eqn:Hl.
    - (* an old leader *)
      assert (Hother : forall i, l = LBecomeLeader i -> T <> term (nodes (base3 s) i)).
      { intros i -> E. rewrite E in Hl. rewrite (Hf i eq_refl) in Hl. discriminate. }
      destruct (lcfg'_other s l T Hother) as (-> & ->).
      assert (E0 : llog0 b' T = llog0 (base3 s) T).
      { destruct Hg as (_ & _ & _ & Hg4). apply Hg4. congruence. }
      rewrite E0. destruct (s_lcfg _ _ s Hinv T c0 Hl) as (A & B & C & D).
      repeat split; auto.
    - (* the new leader *)
      inv_step Hstep; try congruence. cbn [guard3 actor lcfg' lapp' cevents'] in *.
      revert Hl'. simp_updg; [|congruence]. intros _.
      destruct (s_cand _ _ s Hinv i) as (Ha & _ & Hcp); [assumption|].
      pose proof (i_commit_bounds _ H3a i) as Hb. pose proof (s_b _ _ s Hinv i) as Hbi.
      split; [rewrite app_length; lia|]. split.
      + unfold RaftNetCfg.cfg. f_equal. symmetry. apply agree_app_l. lia.
      + split.
        * rewrite ccs_snoc by lia. rewrite noop_noncc, Ha. lia.
        * rewrite Ha. eapply cprefix3_agree; [apply (Htr _ _ _ Hcp)|]. apply agree_app_l. lia.
  Qed.

  Lemma elected_base s l b' :
    inv4 s -> step (cfg s (actor l)) (base3 s) l b' ->
    forall T c, lead b' T = Some c ->
      exists Q, is_quorum (lcfg' cfg_of s l T) Q /\ forall w, In w Q ->
        voted_msg b' T w c /\
        forall t k, t < T -> 1 <= k -> acked b' t w k -> term_at (llog b' t) k = t ->
                    agree k (llog0 b' T) (llog b' t) \/ blamed b' t k (T - 1).
  Proof.
    intros Hinv Hstep T c Hl'.
    pose proof (s_1 _ _ s Hinv) as H1. pose proof (s_2 _ _ s Hinv) as H2.
    pose proof (s_3a _ _ s Hinv) as H3a. pose proof (agl3 s Hinv) as Hagl.
    pose proof (base_fresh s l b' Hinv Hstep) as Hf.
    pose proof (base_gext s l b' Hinv Hstep) as Hg.
    pose proof (fun t w ldr m => new_ack_sound _ (base3 s) l b' t w ldr m H2 H3a Hagl Hstep) as Hnew.
    destruct (lead (base3 s) T) as [c0|] eqn:Hl.
    - (* an old leader keeps its witness quorum *)
      pose proof (step_lead_mono _ _ _ _ T c0 Hf Hstep Hl) as Hl2.
      assert (c0 = c) by congruence. subst c0.
      assert (Hother : forall i, l = LBecomeLeader i -> T <> term (nodes (base3 s) i)).
      { intros i -> E. rewrite E in Hl. rewrite (Hf i eq_refl) in Hl. discriminate. }
      destruct (lcfg'_other s l T Hother) as (-> & _).
      destruct (s_elected _ _ s Hinv T c Hl) as (Q & HQ & HQw).
      exists Q. split; [exact HQ|]. intros w Hw. destruct (HQw w Hw) as (Hv & Hp).
      split; [eapply voted_msg_mono; [apply Hg | exact Hv]|].
      intros t k Hlt Hk (ldr & m & Hkm & Hin) Hterm.
      destruct (Hnew t w ldr m Hin) as [Hold|(Ht & _)].
      2:{ destruct Hv as (vl & Hv). pose proof (i_vote_le _ H1 _ _ _ _ Hv). lia. }
      assert (Hack : acked (base3 s) t w k) by (exists ldr, m; auto).
      pose proof (acked_len _ t w k (i_ack_le _ H3a) Hack) as Hklen.
      rewrite (term_at_gext _ _ t k Hg Hklen) in Hterm.
      assert (Hl0 : llog0 b' T = llog0 (base3 s) T).
      { destruct Hg as (_ & _ & _ & Hg4). apply Hg4. congruence. }
      rewrite Hl0.
      destruct (Hp t k Hlt Hk Hack Hterm) as [Hag|Hb].
      + left. now apply (agree_gext_r _ _ k _ t Hg Hklen).
      + right. now apply (blamed_gext _ _ t k _ Hg Hklen).
    - (* the new leader *)
      inv_step Hstep; try congruence. cbn [guard3 actor lcfg' lapp' cevents'] in *.
      revert Hl'. simp_updg; [|congruence]. intros Hl'. injection Hl' as <-.
      match goal with Hq : quorum _ <= vote_count _ _ _ _ |- _ =>
        destruct (count_vote_quorum (cfg s i) (cfg_nodup _) (base3 s) _ _ Hq) as (Q & HQ & HQw) end.
      exists Q. split; [exact HQ|]. intros w Hw. destruct (HQw w Hw) as (vl & Hv).
      split; [now exists vl|].
      intros t k Hlt Hk (ldr & m & Hkm & Hin) Hterm.
      assert (Hne : t <> term (nodes (base3 s) i)) by lia.
      rewrite (updg_neq _ _ _ _ Hne) in *.
      destruct (Hnew t w ldr m Hin) as [Hold|(Ht & _)].
      2:{ pose proof (i_vote_le _ H1 _ _ _ _ Hv). lia. }
      assert (Hack : acked (base3 s) t w k) by (exists ldr, m; auto).
      destruct (s_cand _ _ s Hinv i) as (_ & HUT & _); [assumption|].
      destruct (elect_core (base3 s) i w vl t k H2 H3a ltac:(assumption) HUT Hv Hlt Hk Hack Hterm)
        as [(Hag & HkL)|Hb].
      + left. now apply agree_ext_l.
      + right. destruct Hb as (U & HU & HlU & Hna).
        assert (HneU : U <> term (nodes (base3 s) i)) by (intros ->; contradiction).
        exists U. split; [lia|]. cbn [lead llog0 llog].
        rewrite !(updg_neq _ _ _ _ HneU), (updg_neq _ _ _ _ Hne). split; assumption.
  Qed.

  (* ---- the invariant is inductive ---- *)

  Lemma inv4_base s l b' app' pend' :
    inv4 s -> guard3r s l -> step (cfg s (actor l)) (base3 s) l b' ->
    (* the auxiliary fields agree with the base update wherever it matters *)
    (forall j, app' j <= commit (nodes b' j)) ->
    (forall j, role (nodes b' j) = Candidate -> app' j = applied s j) ->
    (forall j, role (nodes b' j) = Leader -> app' j = applied s j /\ pend' j = pending' is_cc s l j) ->
    inv4 (mkNet3 b' app' pend' (lcfg' cfg_of s l) (lapp' s l) (cevents' s l)).
  Proof.
    intros Hinv Hguard Hstep Happ Hcand Hlead.
    destruct (base_inv123 s l b' Hinv Hstep) as (H1' & H2' & H3a').
    constructor; cbn [base3 applied pending lcfg lapp cevents]; auto.
    - (* S_cand *) intros j Hr. cbn [base3 applied cevents].
      rewrite (Hcand j Hr). now apply (cand_base s l b' Hinv Hguard Hstep).
    - (* S_b *) intros j. now apply (b_base s l b' Hinv Hguard Hstep).
    - (* S_lead *) intros j Hr. cbn [base3 applied pending].
      destruct (Hlead j Hr) as (-> & ->). now apply (lead_base s l b' Hinv Hguard Hstep).
    - (* S_ae *) intros t ldr prev pt ents lc Hin. now apply (ae_base s l b' Hinv Hguard Hstep t ldr prev pt).
    - (* S_ev *) intros e Hin. cbn [base3 cevents] in *.
      pose proof (base_gext s l b' Hinv Hstep) as Hg.
      destruct (cevents'_cases s l e Hin) as [Ho|(i & k & -> & ->)].
      + apply (ev_ok_gext _ _ _ Hg). now apply (s_ev _ _ s Hinv).
      + apply (ev_ok_gext _ _ _ Hg). simpl in Hstep. now apply (advance_event_ok s i k b' Hinv Hstep).
    - (* S_chain *) intros pre t k a post Hsplit. cbn [base3 cevents] in *.
      pose proof (s_ev _ _ s Hinv) as Hev. pose proof (s_chain _ _ s Hinv) as Hold.
      pose proof (base_gext s l b' Hinv Hstep) as Hg.
      assert (Hcase : cevents' s l = cevents s \/
                      exists i k0, l = LAdvanceCommit i k0 /\
                        cevents' s l = (term (nodes (base3 s) i), k0, applied s i) :: cevents s).
      { destruct l; simpl; auto. right. eauto. }
      destruct Hcase as [E|(i & k0 & -> & E)]; rewrite E in Hsplit.
      + eapply cprefix3_gext_llog; eauto.
        intros e He. apply Hev. rewrite Hsplit. apply in_or_app. right. now right.
      + destruct pre as [|e0 pre]; simpl in Hsplit.
        * injection Hsplit as <- <- <- <-.
          simpl in Hstep. destruct (advance_event_ok s i k0 b' Hinv Hstep) as (_ & Hll & _).
          apply (cprefix3_gext_llog _ _ _ _ _ _ Hg Hev). rewrite Hll.
          eapply cprefix3_le; [apply (s_hc _ _ s Hinv i)|].
          pose proof (s_app _ _ s Hinv i). pose proof (i_commit_bounds _ (s_3a _ _ s Hinv) i). lia.
        * injection Hsplit as _ Hsplit. eapply cprefix3_gext_llog; eauto.
          intros e He. apply Hev. rewrite Hsplit. apply in_or_app. right. now right.
    - (* S_lcfg *) intros T c Hl. now apply (lcfg_base s l b' Hinv Hstep T c).
    - (* S_elected *) intros T c Hl. now apply (elected_base s l b' Hinv Hstep T c).
    - (* S_hc *) intros w. now apply (hc_base s l b' Hinv Hstep).
    - (* S_aec *) intros t ldr prev pt ents lc Hin. now apply (aec_base s l b' Hinv Hstep t ldr prev pt ents).
    - (* S_hb *) intros t ldr to c Hin. now apply (hb_base s l b' Hinv Hstep t ldr to).
  Qed.

  Lemma inv4_step s l s' : inv4 s -> step3 s l s' -> inv4 s'.
  Proof.
    intros Hinv Hstep. inv_step3 Hstep.
    - (* a base step *)
      apply (inv4_base s l0 b' (applied s) (pending' is_cc s l0) Hinv (guard3_guard3r s l0 H) H0); auto.
      intros j. pose proof (s_app _ _ s Hinv j).
      destruct (step_commit_mono _ _ _ _ j H0) as [Hle|(c & m & ->)]; [lia | simpl in H; contradiction].
    - (* Apply *)
      pose proof (s_app _ _ s Hinv) as Happ.
      constructor; cbn [base3 applied pending lcfg lapp cevents];
        try (now apply Hinv).
      + red; cbn [base3 applied]. intros j.
        destruct (Nat.eq_dec j i) as [->|Hne]; simp_upd3; [lia | apply Happ].
      + red; cbn [base3 applied cevents]. intros j Hr.
        destruct (Nat.eq_dec j i) as [->|Hne]; simp_upd3.
        * destruct (s_cand _ _ s Hinv i Hr) as (E & _). lia.
        * now apply (s_cand _ _ s Hinv).
      + red; cbn [base3 applied pending]. intros j Hr.
        destruct (s_lead _ _ s Hinv j Hr) as (Hc1 & Hc2).
        destruct (Nat.eq_dec j i) as [->|Hne]; simp_upd3.
        * pose proof (i_commit_bounds _ (s_3a _ _ s Hinv) i) as Hb.
          destruct (nth_error (log (nodes (base3 s) i)) (applied s i)) as [e|] eqn:He.
          2:{ apply nth_error_None in He. lia. }
          rewrite (ccs_S _ _ _ He) in Hc1, Hc2.
          destruct (is_cc e); simp_upd3; split; try lia; intros E; apply Hc2; lia.
        * split; [exact Hc1|]. intros E.
          destruct (nth_error (log (nodes (base3 s) i)) (applied s i)) as [e|]; [|auto].
          destruct (is_cc e); simp_upd3; auto.
    - (* Crash *)
      assert (Hg3 : guard3r s (LRestart i c m)) by (simpl; assumption).
      assert (Hb' : forall j, j <> i -> nodes b' j = nodes (base3 s) j).
      { intros j Hne. inv_step H. now rewrite upd_neq. }
      assert (Hbi : role (nodes b' i) = Follower /\ commit (nodes b' i) = c).
      { inv_step H. rewrite upd_eq. now split. }
      apply (inv4_base s (LRestart i c m) b' (updn3 (applied s) i a) (updb3 (pending s) i false)
                       Hinv Hg3 H).
      + intros j. destruct (Nat.eq_dec j i) as [->|Hne]; simp_upd3.
        * destruct Hbi as (_ & ->). lia.
        * rewrite (Hb' j Hne). apply (s_app _ _ s Hinv).
      + intros j Hr. destruct (Nat.eq_dec j i) as [->|Hne]; simp_upd3; [|reflexivity].
        destruct Hbi as (Hf & _). congruence.
      + intros j Hr. destruct (Nat.eq_dec j i) as [->|Hne]; simp_upd3; [|now split].
        destruct Hbi as (Hf & _). congruence.
  Qed.

  Lemma inv4_init : inv4 (init3).
  Proof.
    constructor; try red; cbn; intros; try contradiction; try discriminate; auto;
      try (apply inv1_init || apply inv2_init || apply inv3a_init).
    - destruct pre; discriminate.
    - now left.
  Qed.

  Lemma inv4_steps s ls s' : inv4 s -> steps3 cfg_of is_cc s ls s' -> inv4 s'.
  Proof. intros Hi Hs. induction Hs; [assumption|]. apply IHHs. eapply inv4_step; eauto. Qed.

  Lemma inv4_reachable s : reachable3 cfg_of is_cc s -> inv4 s.
  Proof. intros (ls & Hs). eapply inv4_steps; [apply inv4_init | exact Hs]. Qed.

End CfgStep.
